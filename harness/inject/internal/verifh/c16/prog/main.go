//go:build verif

// Command prog is the application of the C16 decision-table harness.  It
// appends a line about its own start (pid, parent pid, lineage, the
// GO_TELEMETRY_CHILD / GO_TELEMETRY_CHILD_UPLOAD values it inherited, its
// role and arguments) to the process-start log named by $VERIF_C16_LOG
// before anything else, then calls telemetry.Start with the configuration the
// environment names.  Installed a second time under the name "go" it stands
// in for the go command the uploader sidecar runs to download the upload
// configuration, so descendants of a sidecar show up in the log as well
// (the real go command is a telemetry application too).
package main

import (
	"fmt"
	"os"
	"path/filepath"
	"strconv"
	"strings"
	"time"

	"golang.org/x/telemetry"
)

func logLine(s string) {
	p := os.Getenv("VERIF_C16_LOG")
	if p == "" {
		return
	}
	f, err := os.OpenFile(p, os.O_WRONLY|os.O_APPEND|os.O_CREATE, 0666)
	if err != nil {
		return
	}
	f.WriteString(s + "\n") // a single write: atomic with O_APPEND
	f.Close()
}

func main() {
	pid := os.Getpid()
	lineage := os.Getenv("VERIF_C16_LINEAGE")
	marker, set := os.LookupEnv("GO_TELEMETRY_CHILD")
	if !set {
		marker = "<unset>"
	}
	asGo := filepath.Base(os.Args[0]) == "go" && !(len(os.Args) > 1 && os.Args[1] == "** telemetry **")
	role := "app"
	if asGo {
		role = "go"
	}
	logLine(fmt.Sprintf("start %d %d %s %s %s %s %s", pid, os.Getppid(), strconv.Quote(lineage), strconv.Quote(marker),
		strconv.Quote(os.Getenv("GO_TELEMETRY_CHILD_UPLOAD")), role, strconv.Quote(strings.Join(os.Args[1:], " "))))
	os.Setenv("VERIF_C16_LINEAGE", lineage+"/"+strconv.Itoa(pid))
	if strings.Count(lineage, "/") >= 6 {
		// runaway-recursion guard of the harness (never reached by correct code)
		logLine(fmt.Sprintf("guard %d", pid))
		os.Exit(3)
	}
	cfg := telemetry.Config{
		ReportCrashes: os.Getenv("VERIF_C16_CRASH") == "1",
		Upload:        os.Getenv("VERIF_C16_UPLOAD") == "1",
		UploadURL:     os.Getenv("VERIF_C16_URL"),
		TelemetryDir:  os.Getenv("VERIF_C16_TDIR"),
	}
	if d, err := time.ParseDuration(os.Getenv("VERIF_C16_ASOF")); err == nil && d != 0 {
		// an upload simulated for another moment; the token's 24 hours stay real time
		cfg.UploadStartTime = time.Now().Add(d)
	}
	if os.Getenv("VERIF_C16_RMEXE") == "1" && lineage == "" {
		// the executable disappears (an upgrade in progress): the sidecar cannot be exec'ed
		if exe, err := os.Executable(); err == nil {
			os.Remove(exe)
		}
	}
	if os.Getenv("VERIF_C16_ENTRY") == "maybe" {
		// the documented alternative for programs that cannot call Start first
		telemetry.MaybeChild(cfg)
		logLine(fmt.Sprintf("maybe-ret %d", pid))
	}
	calls, _ := strconv.Atoi(os.Getenv("VERIF_C16_CALLS"))
	if calls < 1 {
		calls = 1
	}
	var res *telemetry.StartResult
	for i := 0; i < calls; i++ {
		res = telemetry.Start(cfg)
	}
	logLine(fmt.Sprintf("ret %d", pid))
	if asGo {
		os.Exit(1) // "go mod download" fails: there is no network
	}
	if want, _ := strconv.Atoi(os.Getenv("VERIF_C16_HOLD")); want > 0 && lineage == "" {
		// A crash-reporting sidecar exits as soon as its application does.
		// Stay alive until the uploader half of the sidecar has run the go
		// command (or for a short while), so that its descendants are seen
		// ($VERIF_C16_HOLD of them are expected).
		me := "\"/" + strconv.Itoa(pid) + "/"
		for i := 0; i < 1500; i++ {
			data, _ := os.ReadFile(os.Getenv("VERIF_C16_LOG"))
			if strings.Count(string(data), me) >= want {
				break
			}
			time.Sleep(2 * time.Millisecond)
		}
	}
	if os.Getenv("VERIF_C16_PANIC") == "1" && lineage == "" {
		panic("the application crashes")
	}
	if os.Getenv("VERIF_C16_WAIT") == "1" {
		res.Wait()
	}
}
