//go:build verif

// Package c16 replays the rows of the C16 decision table (SidecarTable.tla)
// into real processes: a small program (./prog) that calls telemetry.Start
// is run with the row's environment marker, configuration, mode file, token
// file (with the row's age) and local directory; every process of the
// resulting tree appends a line to a process-start log before it does
// anything else, and the telemetry directory is snapshotted before and after.
//
// Rows run in "lanes": re-executions of this test binary that make
// themselves a child subreaper, so that every descendant (the sidecar is
// daemonized with setsid and outlives its parent) is reparented to the lane
// and a row is over exactly when wait4(-1) reports that no child is left.
package c16

import (
	"crypto/sha256"
	"encoding/hex"
	"encoding/json"
	"fmt"
	"io/fs"
	"os"
	"os/exec"
	"path/filepath"
	"sort"
	"strconv"
	"strings"
	"sync"
	"syscall"
	"testing"
	"time"

	rt "golang.org/x/telemetry/internal/verifrt"
)

type row struct {
	ID      int    `json:"id"`
	Kind    string `json:"kind"` // "row" | "race" (N starters at once) | "seq" (N starters one after the other)
	Marker  string `json:"marker"`
	Crash   bool   `json:"crash"`
	Upload  bool   `json:"upload"`
	Mode    string `json:"mode"`
	Token   string `json:"token"`
	LocalOK bool   `json:"localOK"`
	// concretization choices (shapes enumerated by SidecarConcrete.tla)
	MarkerText string `json:"markerText"` // value of GO_TELEMETRY_CHILD (with MarkerSet=false: not in the environment)
	MarkerSet  bool   `json:"markerSet"`
	ModeKind   string `json:"modeKind"`  // "text" | "missing" | "directory" | "noconfigdir"
	ModeText   string `json:"modeText"`  // contents of the mode file
	TokenKind  string `json:"tokenKind"` // "none" | "empty" | "content" | "dir" | "dangling" | "loop"
	TokenAge   int    `json:"tokenAge"`  // seconds (negative: modification time in the future)
	LocalKind  string `json:"localKind"` // "exists" | "absent" | "notelemetrydir" | "dangling" | "file"
	CfgVia     string `json:"cfgVia"`    // "xdg" | "home" | "tdir" (Config.TelemetryDir)
	Fancy      bool   `json:"fancy"`     // spaces and non-ASCII characters in the directory names
	Debug      string `json:"dbg"`       // <telemetry dir>/debug: "absent" | "dir" | "file"
	UpvarText  string `json:"upvarText"` // value of GO_TELEMETRY_CHILD_UPLOAD ("unset": not in the environment)
	CfgUpload  bool   `json:"cfgUpload"` // Config.Upload handed to Start (a sidecar ignores it)
	Leak       bool   `json:"leak"`
	Entry      string `json:"entry"` // "start" | "maybe" (MaybeChild, then Start)
	Calls      int    `json:"calls"` // Start is called this many times in the one process
	Asof       string `json:"asof"`  // Config.UploadStartTime = now + this duration ("": zero value)
	AppCrash   bool   `json:"appCrash"`
	StartFail  string `json:"startFail"` // "none" | "logdir" | "dbgloop" | "noexe": how the start of the sidecar is made to fail
	Hold       bool   `json:"hold"`      // keep the application / the stdin pipe alive until the go command was run
	HoldN      int    `json:"holdN"`     // ... this many times
	N          int    `json:"n"`         // race / seq: number of starters
}

type logEntry struct {
	Pid     int    `json:"pid"`
	Ppid    int    `json:"ppid"`
	Lineage []int  `json:"lineage"`
	Marker  string `json:"marker"`
	Upvar   string `json:"upvar"`
	Role    string `json:"role"`
	Args    string `json:"args"`
}

func TestVerifC16Table(t *testing.T) {
	if lane := os.Getenv("VERIF_C16_LANE"); lane != "" {
		runLane(t)
		return
	}
	defer rt.Flush()
	var in struct {
		Rows  []row `json:"rows"`
		Lanes int   `json:"lanes"`
	}
	if err := rt.In(&in); err != nil {
		t.Skip(err)
	}
	if in.Lanes <= 0 {
		in.Lanes = 8
	}
	work, err := os.MkdirTemp("", "c16-")
	if err != nil {
		t.Fatal(err)
	}
	defer os.RemoveAll(work)
	// build the application from the scratch tree
	root, err := filepath.Abs("../../..")
	if err != nil {
		t.Fatal(err)
	}
	prog := filepath.Join(work, "prog")
	cmd := exec.Command("go", "build", "-tags", "verif", "-o", prog, "./internal/verifh/c16/prog")
	cmd.Dir = root
	if out, err := cmd.CombinedOutput(); err != nil {
		t.Fatalf("building prog: %v\n%s", err, out)
	}
	exe, err := os.Executable()
	if err != nil {
		t.Fatal(err)
	}
	var wg sync.WaitGroup
	outs := make([]string, in.Lanes)
	errs := make([]error, in.Lanes)
	for k := 0; k < in.Lanes; k++ {
		var mine []row
		for i, r := range in.Rows {
			if i%in.Lanes == k {
				mine = append(mine, r)
			}
		}
		inp := filepath.Join(work, fmt.Sprintf("lane-%d.in", k))
		outs[k] = filepath.Join(work, fmt.Sprintf("lane-%d.out", k))
		data, _ := json.Marshal(mine)
		os.WriteFile(inp, data, 0666)
		lc := exec.Command(exe, "-test.run", "^TestVerifC16Table$", "-test.timeout", "600s")
		lc.Env = append(os.Environ(), "VERIF_C16_LANE="+strconv.Itoa(k), "VERIF_C16_LANE_IN="+inp, "VERIF_OUT="+outs[k],
			"VERIF_C16_PROG="+prog, "VERIF_C16_WORK="+filepath.Join(work, fmt.Sprintf("w%d", k)))
		wg.Add(1)
		go func(k int) {
			defer wg.Done()
			if out, err := lc.CombinedOutput(); err != nil {
				errs[k] = fmt.Errorf("lane %d: %v\n%s", k, err, out)
			}
		}(k)
	}
	wg.Wait()
	for k := range outs {
		if errs[k] != nil {
			t.Fatal(errs[k])
		}
		data, _ := os.ReadFile(outs[k])
		for _, ln := range strings.Split(string(data), "\n") {
			if strings.TrimSpace(ln) == "" {
				continue
			}
			var m rt.M
			if err := json.Unmarshal([]byte(ln), &m); err != nil {
				t.Fatalf("lane %d output: %v", k, err)
			}
			rt.Out(m)
		}
	}
}

func runLane(t *testing.T) {
	defer rt.Flush()
	// orphaned descendants are reparented to this process
	if _, _, e := syscall.RawSyscall(syscall.SYS_PRCTL, 36 /* PR_SET_CHILD_SUBREAPER */, 1, 0); e != 0 {
		t.Fatalf("prctl(PR_SET_CHILD_SUBREAPER): %v", e)
	}
	data, err := os.ReadFile(os.Getenv("VERIF_C16_LANE_IN"))
	if err != nil {
		t.Fatal(err)
	}
	var rows []row
	if err := json.Unmarshal(data, &rows); err != nil {
		t.Fatal(err)
	}
	for i := range rows {
		runRow(t, &rows[i])
	}
}

type snapEntry struct {
	Kind string // "d", "f", "l"
	Size int64
	Mod  int64
	Sum  string
}

func snapshot(skip map[string]bool, roots ...string) map[string]snapEntry {
	out := map[string]snapEntry{}
	for _, root := range roots {
		filepath.WalkDir(root, func(p string, d fs.DirEntry, err error) error {
			if err != nil {
				return nil
			}
			if skip[p] {
				if d != nil && d.IsDir() {
					return filepath.SkipDir
				}
				return nil
			}
			if p == root {
				return nil
			}
			fi, err := os.Lstat(p)
			if err != nil {
				return nil
			}
			switch {
			case fi.Mode()&os.ModeSymlink != 0:
				tgt, _ := os.Readlink(p)
				out[p] = snapEntry{Kind: "l", Sum: tgt}
			case fi.IsDir():
				out[p] = snapEntry{Kind: "d"}
			default:
				b, _ := os.ReadFile(p)
				h := sha256.Sum256(b)
				out[p] = snapEntry{Kind: "f", Size: fi.Size(), Mod: fi.ModTime().UnixNano(), Sum: hex.EncodeToString(h[:8])}
			}
			return nil
		})
	}
	return out
}

func tokenState(p string, now time.Time) string {
	fi, err := os.Lstat(p)
	if err != nil {
		return "absent"
	}
	if fi.Mode()&os.ModeSymlink != 0 {
		return "ghost"
	}
	if now.Sub(fi.ModTime()) < 24*time.Hour {
		return "fresh"
	}
	return "stale"
}

func parseLog(path string) (entries []logEntry, rets []int, guards int) {
	entries = []logEntry{}
	data, _ := os.ReadFile(path)
	for _, ln := range strings.Split(string(data), "\n") {
		f := splitQuoted(ln)
		if len(f) == 0 {
			continue
		}
		switch f[0] {
		case "start":
			if len(f) < 8 {
				continue
			}
			e := logEntry{Marker: f[4], Upvar: f[5], Role: f[6], Args: f[7]}
			e.Pid, _ = strconv.Atoi(f[1])
			e.Ppid, _ = strconv.Atoi(f[2])
			e.Lineage = []int{}
			for _, x := range strings.Split(f[3], "/") {
				if x != "" {
					n, _ := strconv.Atoi(x)
					e.Lineage = append(e.Lineage, n)
				}
			}
			entries = append(entries, e)
		case "ret":
			n, _ := strconv.Atoi(f[1])
			rets = append(rets, n)
		case "guard":
			guards++
		}
	}
	return
}

// splitQuoted splits a log line into fields; quoted fields are unquoted.
func splitQuoted(s string) []string {
	var out []string
	for len(s) > 0 {
		s = strings.TrimLeft(s, " ")
		if s == "" {
			break
		}
		if s[0] == '"' {
			q, err := strconv.QuotedPrefix(s)
			if err != nil {
				return out
			}
			u, _ := strconv.Unquote(q)
			out = append(out, u)
			s = s[len(q):]
		} else {
			i := strings.IndexByte(s, ' ')
			if i < 0 {
				i = len(s)
			}
			out = append(out, s[:i])
			s = s[i:]
		}
	}
	return out
}

// descendants of this (subreaper) process still alive
func liveChildren() []int {
	me := os.Getpid()
	ppid := map[int]int{}
	ents, _ := os.ReadDir("/proc")
	for _, e := range ents {
		pid, err := strconv.Atoi(e.Name())
		if err != nil {
			continue
		}
		b, err := os.ReadFile("/proc/" + e.Name() + "/stat")
		if err != nil {
			continue
		}
		s := string(b)
		i := strings.LastIndexByte(s, ')')
		if i < 0 {
			continue
		}
		f := strings.Fields(s[i+1:])
		if len(f) < 2 {
			continue
		}
		pp, _ := strconv.Atoi(f[1])
		ppid[pid] = pp
	}
	var out []int
	for pid := range ppid {
		for a, n := ppid[pid], 0; a > 1 && n < 64; a, n = ppid[a], n+1 {
			if a == me {
				out = append(out, pid)
				break
			}
		}
	}
	return out
}

func runRow(t *testing.T, r *row) {
	work := os.Getenv("VERIF_C16_WORK")
	dir := filepath.Join(work, fmt.Sprintf("r%d", r.ID))
	os.RemoveAll(dir)
	defer os.RemoveAll(dir)
	nm := func(s string) string {
		if r.Fancy {
			return s + " \u00fc\u4e16 x"
		}
		return s
	}
	home, xdg, tmp, bin := filepath.Join(dir, nm("home")), filepath.Join(dir, nm("xdg")), filepath.Join(dir, "tmp"), filepath.Join(dir, "bin")
	for _, d := range []string{home, tmp, bin} {
		os.MkdirAll(d, 0777)
	}
	prog := os.Getenv("VERIF_C16_PROG")
	fakego := filepath.Join(bin, "go")
	if err := os.Link(prog, fakego); err != nil {
		b, _ := os.ReadFile(prog)
		os.WriteFile(fakego, b, 0777)
	}
	// the application runs from its own link, so that it can make itself unstartable ("noexe")
	app := filepath.Join(bin, "app")
	if err := os.Link(prog, app); err != nil {
		b, _ := os.ReadFile(prog)
		os.WriteFile(app, b, 0777)
	}
	logPath := filepath.Join(dir, "start.log")
	var tdir string
	switch r.CfgVia {
	case "home":
		tdir = filepath.Join(home, ".config", "go", "telemetry")
	case "tdir":
		tdir = filepath.Join(dir, nm("alt"), "telemetry")
	default:
		tdir = filepath.Join(xdg, "go", "telemetry")
	}
	noCfg := r.ModeKind == "noconfigdir"
	local := filepath.Join(tdir, "local")
	tokenPath := filepath.Join(local, "upload.token")
	now := time.Now()
	if !noCfg && r.LocalKind != "notelemetrydir" {
		os.MkdirAll(tdir, 0777)
		switch r.ModeKind {
		case "text":
			os.WriteFile(filepath.Join(tdir, "mode"), []byte(r.ModeText), 0666)
		case "directory":
			os.MkdirAll(filepath.Join(tdir, "mode"), 0777)
		}
		switch r.StartFail {
		case "logdir":
			// the sidecar's log file cannot be opened: a directory sits in its place
			os.MkdirAll(filepath.Join(tdir, "debug", "sidecar.log"), 0777)
		case "dbgloop":
			// the debug directory cannot be examined: os.Stat fails with ELOOP, not with "does not exist"
			os.Symlink("debug", filepath.Join(tdir, "debug"))
		}
		switch r.Debug {
		case "dir":
			os.MkdirAll(filepath.Join(tdir, "debug"), 0777)
		case "file":
			os.WriteFile(filepath.Join(tdir, "debug"), []byte("x\n"), 0666)
		}
		switch r.LocalKind {
		case "file":
			os.WriteFile(local, []byte("not a directory\n"), 0666)
		case "dangling":
			os.Symlink(filepath.Join(dir, "nowhere", "local"), local)
		case "exists":
			os.MkdirAll(local, 0777)
		}
		if r.LocalKind == "exists" {
			mt := now.Add(-time.Duration(r.TokenAge) * time.Second)
			switch r.TokenKind {
			case "empty":
				os.WriteFile(tokenPath, nil, 0666)
				os.Chtimes(tokenPath, mt, mt)
			case "content":
				os.WriteFile(tokenPath, []byte("held by somebody\n"), 0666)
				os.Chtimes(tokenPath, mt, mt)
			case "dir":
				os.Mkdir(tokenPath, 0777)
				os.Chtimes(tokenPath, mt, mt)
			case "dangling":
				os.Symlink(filepath.Join(dir, "nowhere", "token"), tokenPath)
			case "loop":
				os.Symlink("upload.token", tokenPath)
			}
		}
	}
	skip := map[string]bool{logPath: true, bin: true}
	before := snapshot(skip, dir)
	tokenBefore := tokenState(tokenPath, now)

	b01 := func(b bool) string {
		if b {
			return "1"
		}
		return "0"
	}
	env := []string{"TMPDIR=" + tmp, "PATH=" + bin,
		"VERIF_C16_LOG=" + logPath, "VERIF_C16_CRASH=" + b01(r.Crash), "VERIF_C16_UPLOAD=" + b01(r.CfgUpload),
		"VERIF_C16_URL=http://127.0.0.1:1/upload", "VERIF_C16_ENTRY=" + r.Entry}
	if r.Kind == "row" {
		env = append(env, "VERIF_C16_CALLS="+strconv.Itoa(r.Calls))
	}
	if r.Asof != "" {
		env = append(env, "VERIF_C16_ASOF="+r.Asof)
	}
	if !noCfg {
		env = append(env, "HOME="+home)
		if r.CfgVia != "home" {
			env = append(env, "XDG_CONFIG_HOME="+xdg)
		}
	}
	if r.CfgVia == "tdir" && !noCfg {
		env = append(env, "VERIF_C16_TDIR="+tdir)
	}
	if r.MarkerSet {
		env = append(env, "GO_TELEMETRY_CHILD="+r.MarkerText)
	}
	if r.UpvarText != "unset" {
		env = append(env, "GO_TELEMETRY_CHILD_UPLOAD="+r.UpvarText)
	}
	if r.Hold && r.Marker != "1" {
		env = append(env, "VERIF_C16_HOLD="+strconv.Itoa(max(r.HoldN, 1)))
	}
	if r.AppCrash {
		env = append(env, "VERIF_C16_PANIC=1")
	}
	if r.StartFail == "noexe" {
		env = append(env, "VERIF_C16_RMEXE=1")
	}
	devnull, _ := os.OpenFile(os.DevNull, os.O_RDWR, 0)
	defer devnull.Close()
	stdin := devnull
	var pipeW *os.File
	if r.Marker == "1" && r.Crash {
		// a sidecar reads its application's crash output from stdin
		pr, pw, err := os.Pipe()
		if err == nil {
			stdin, pipeW = pr, pw
			defer pr.Close()
		}
	}
	n := 1
	if r.Kind == "race" || r.Kind == "seq" {
		n = r.N
	}
	timedOut := false
	done := make(chan struct{})
	go func() {
		select {
		case <-done:
		case <-time.After(20 * time.Second):
			timedOut = true
			for k := 0; k < 50; k++ {
				live := liveChildren()
				if len(live) == 0 {
					break
				}
				for _, p := range live {
					syscall.Kill(p, syscall.SIGKILL)
				}
				time.Sleep(10 * time.Millisecond)
			}
		}
	}()
	exits := map[int]int{}
	waitAll := func() {
		// the row is over when no descendant is left
		for {
			var ws syscall.WaitStatus
			pid, err := syscall.Wait4(-1, &ws, 0, nil)
			if err == syscall.EINTR {
				continue
			}
			if err != nil {
				break // ECHILD: nobody left
			}
			if ws.Exited() {
				exits[pid] = ws.ExitStatus()
			} else {
				exits[pid] = -1
			}
		}
	}
	var started []int
	for i := 0; i < n; i++ {
		pid, err := syscall.ForkExec(app, []string{app, "row", strconv.Itoa(r.ID)}, &syscall.ProcAttr{
			Dir: dir, Env: env, Files: []uintptr{stdin.Fd(), devnull.Fd(), devnull.Fd()}})
		if err != nil {
			t.Fatalf("row %d: starting prog: %v", r.ID, err)
		}
		started = append(started, pid)
		if r.Kind == "seq" {
			waitAll()
		}
	}
	if pipeW != nil {
		stdin.Close()
		go func() {
			// "the application is alive" until the uploader half ran the go command
			if r.Hold {
				for i := 0; i < 1500; i++ {
					data, _ := os.ReadFile(logPath)
					if strings.Contains(string(data), " go ") {
						break
					}
					time.Sleep(2 * time.Millisecond)
				}
			}
			pipeW.Close()
		}()
	}
	waitAll()
	close(done)
	after := snapshot(skip, dir)
	tokenAfter := tokenState(tokenPath, time.Now())

	// ---- abstraction -----------------------------------------------------
	entries, rets, guards := parseLog(logPath)
	isRoot := map[int]bool{}
	for _, p := range started {
		isRoot[p] = true
	}
	// A process launched by startChild is recognised by HOW it was launched (its
	// argument), not by what it believes to be: it must find GO_TELEMETRY_CHILD=1
	// in its environment whatever the application inherited (os/exec keeps the
	// last of several entries of one name).
	sidecars, uploaders, nested, unmarked, launched, rootsLogged := 0, 0, 0, 0, 0, 0
	for _, e := range entries {
		if len(e.Lineage) == 0 {
			rootsLogged++
			continue
		}
		launched++
		asSidecar := e.Args == "** telemetry **"
		switch {
		case asSidecar:
			if e.Marker != "1" {
				unmarked++
			}
			if len(e.Lineage) == 1 && isRoot[e.Lineage[0]] {
				sidecars++
				if e.Upvar == "1" {
					uploaders++
				}
			} else {
				nested++
			}
		case e.Marker == "1":
			// not launched as a sidecar but believes to be one (inherited marker)
			nested++
		}
	}
	changed := []string{}
	classes := map[string]bool{}
	classify := func(p string) string {
		if p != dir && strings.HasPrefix(tdir+"/", p+"/") {
			return "counters" // the telemetry directory or one of its parents (made on the way to local/)
		}
		rel, err := filepath.Rel(tdir, p)
		if err != nil || strings.HasPrefix(rel, "..") {
			return "other:outside"
		}
		switch {
		case rel == "local/upload.token":
			return "token"
		case rel == "local" || rel == "local/weekends" || (strings.HasPrefix(rel, "local/") && strings.HasSuffix(rel, ".count")):
			return "counters"
		case rel == "mode":
			return "other:mode"
		case rel == "upload":
			return "uploaddir"
		case strings.HasPrefix(rel, "upload/"):
			return "other:upload"
		case strings.HasPrefix(rel, "debug/"):
			return "debuglog"
		}
		return "other:" + strings.SplitN(rel, "/", 2)[0]
	}
	for p, a := range after {
		if b, ok := before[p]; !ok || b != a {
			changed = append(changed, strings.TrimPrefix(p, dir+"/"))
			classes[classify(p)] = true
		}
	}
	for p := range before {
		if _, ok := after[p]; !ok {
			changed = append(changed, "-"+strings.TrimPrefix(p, dir+"/"))
			classes[classify(p)] = true
		}
	}
	sort.Strings(changed)
	wrote := []string{}
	for c := range classes {
		wrote = append(wrote, c)
	}
	sort.Strings(wrote)
	tb, ta := before[tokenPath], after[tokenPath]
	acquired := tokenAfter == "fresh" && tb != ta
	freshRemoved := tokenBefore == "fresh" && (tokenAfter != "fresh" || tb != ta)
	rootExit := -2
	if len(started) == 1 {
		if c, ok := exits[started[0]]; ok {
			rootExit = c
		}
	}
	returned := false
	for _, p := range rets {
		if isRoot[p] {
			returned = true
		}
	}
	rec := rt.M{"kind": r.Kind, "id": r.ID, "marker": r.Marker, "crash": r.Crash, "upload": r.Upload, "mode": r.Mode, "token": r.Token,
		"localOK": r.LocalOK, "sidecars": sidecars, "uploaders": uploaders, "nested": nested, "unmarked": unmarked, "freshRemoved": freshRemoved, "launched": launched,
		"acquired": acquired, "wrote": wrote, "tokenBefore": tokenBefore, "tokenAfter": tokenAfter, "changed": changed,
		"entries": entries, "rootExit": rootExit, "returned": returned, "guards": guards, "timedOut": timedOut,
		"rootsLogged": rootsLogged, "n": n, "processes": len(exits), "fatal": rootExit != 0 && rootExit != -2}
	rt.Out(rec)
}
