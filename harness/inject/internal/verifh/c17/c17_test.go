//go:build verif

// Package c17 drives the real chart-configuration parser for property C17.
package c17

import (
	"encoding/base64"
	"fmt"
	"strconv"
	"testing"
	"time"

	"golang.org/x/telemetry/internal/chartconfig"
	rt "golang.org/x/telemetry/internal/verifrt"
)

type parseOut struct {
	recs  []chartconfig.ChartConfig
	err   error
	panic string
}

func callParse(data []byte) (out parseOut, hang bool) {
	done := make(chan parseOut, 1)
	go func() {
		var o parseOut
		defer func() {
			if p := recover(); p != nil {
				o.panic = fmt.Sprint(p)
			}
			done <- o
		}()
		o.recs, o.err = chartconfig.Parse(data)
	}()
	select {
	case o := <-done:
		return o, false
	case <-time.After(20 * time.Second):
		return parseOut{}, true
	}
}

// TestVerifC17Parse feeds every text (base64) to the real Parse and reports
// the outcome: records (all fields, numbers as strings), an error, a panic or
// a hang.
func TestVerifC17Parse(t *testing.T) {
	defer rt.Flush()
	var in struct {
		Texts []string `json:"texts"`
	}
	if err := rt.In(&in); err != nil {
		t.Skip(err)
	}
	n := 0
	for i, b64 := range in.Texts {
		data, err := base64.StdEncoding.DecodeString(b64)
		if err != nil {
			t.Fatal(err)
		}
		o, hang := callParse(data)
		n++
		rec := rt.M{"kind": "parse", "i": i}
		switch {
		case hang:
			rec["hang"] = true
			rt.Out(rec)
			rt.Out(rt.M{"kind": "summary", "parsed": n, "aborted": true})
			return // the goroutine leaks; stop here
		case o.panic != "":
			rec["panic"] = o.panic
		case o.err != nil:
			rec["err"] = o.err.Error()
		default:
			recs := []rt.M{}
			for _, r := range o.recs {
				iss := r.Issue
				if iss == nil {
					iss = []string{}
				}
				recs = append(recs, rt.M{
					"title": r.Title, "description": r.Description, "issue": iss, "type": r.Type,
					"program": r.Program, "module": r.Module, "counter": r.Counter, "version": r.Version,
					"depth": strconv.FormatInt(int64(r.Depth), 10),
					"error": strconv.FormatFloat(r.Error, 'g', -1, 64),
				})
			}
			rec["ok"] = true
			rec["recs"] = recs
		}
		rt.Out(rec)
	}
	rt.Out(rt.M{"kind": "summary", "parsed": n})
}
