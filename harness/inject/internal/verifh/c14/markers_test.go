//go:build verif

package c14

// Marker functions: each returns a genuine return address inside itself, so
// that every PC line of a synthetic traceback symbolises to its own function.

import "runtime"

//go:noinline
func here() uintptr {
	var pcs [1]uintptr
	runtime.Callers(2, pcs[:])
	return pcs[0]
}

//go:noinline
func f00() uintptr { return here() + 0 }

//go:noinline
func f01() uintptr { return here() + 0 }

//go:noinline
func f02() uintptr { return here() + 0 }

//go:noinline
func f03() uintptr { return here() + 0 }

//go:noinline
func f04() uintptr { return here() + 0 }

//go:noinline
func f05() uintptr { return here() + 0 }

//go:noinline
func f06() uintptr { return here() + 0 }

//go:noinline
func f07() uintptr { return here() + 0 }

//go:noinline
func f08() uintptr { return here() + 0 }

//go:noinline
func f09() uintptr { return here() + 0 }

//go:noinline
func f10() uintptr { return here() + 0 }

//go:noinline
func f11() uintptr { return here() + 0 }

//go:noinline
func f12() uintptr { return here() + 0 }

//go:noinline
func f13() uintptr { return here() + 0 }

//go:noinline
func f14() uintptr { return here() + 0 }

//go:noinline
func f15() uintptr { return here() + 0 }

//go:noinline
func f16() uintptr { return here() + 0 }

//go:noinline
func f17() uintptr { return here() + 0 }

//go:noinline
func f18() uintptr { return here() + 0 }

//go:noinline
func f19() uintptr { return here() + 0 }

//go:noinline
func f20() uintptr { return here() + 0 }

//go:noinline
func f21() uintptr { return here() + 0 }

//go:noinline
func f22() uintptr { return here() + 0 }

//go:noinline
func f23() uintptr { return here() + 0 }

//go:noinline
func f24() uintptr { return here() + 0 }

//go:noinline
func f25() uintptr { return here() + 0 }

//go:noinline
func f26() uintptr { return here() + 0 }

//go:noinline
func f27() uintptr { return here() + 0 }

//go:noinline
func f28() uintptr { return here() + 0 }

//go:noinline
func f29() uintptr { return here() + 0 }

//go:noinline
func f30() uintptr { return here() + 0 }

//go:noinline
func f31() uintptr { return here() + 0 }

//go:noinline
func f32() uintptr { return here() + 0 }

//go:noinline
func f33() uintptr { return here() + 0 }

//go:noinline
func f34() uintptr { return here() + 0 }

//go:noinline
func f35() uintptr { return here() + 0 }

//go:noinline
func f36() uintptr { return here() + 0 }

//go:noinline
func f37() uintptr { return here() + 0 }

//go:noinline
func f38() uintptr { return here() + 0 }

//go:noinline
func f39() uintptr { return here() + 0 }

//go:noinline
func f40() uintptr { return here() + 0 }

//go:noinline
func f41() uintptr { return here() + 0 }

//go:noinline
func f42() uintptr { return here() + 0 }

//go:noinline
func f43() uintptr { return here() + 0 }

//go:noinline
func f44() uintptr { return here() + 0 }

//go:noinline
func f45() uintptr { return here() + 0 }

//go:noinline
func f46() uintptr { return here() + 0 }

//go:noinline
func f47() uintptr { return here() + 0 }

//go:noinline
func f48() uintptr { return here() + 0 }

//go:noinline
func f49() uintptr { return here() + 0 }

//go:noinline
func f50() uintptr { return here() + 0 }

//go:noinline
func f51() uintptr { return here() + 0 }

//go:noinline
func f52() uintptr { return here() + 0 }

//go:noinline
func f53() uintptr { return here() + 0 }

//go:noinline
func f54() uintptr { return here() + 0 }

//go:noinline
func f55() uintptr { return here() + 0 }

//go:noinline
func f56() uintptr { return here() + 0 }

//go:noinline
func f57() uintptr { return here() + 0 }

//go:noinline
func f58() uintptr { return here() + 0 }

//go:noinline
func f59() uintptr { return here() + 0 }

//go:noinline
func f60() uintptr { return here() + 0 }

//go:noinline
func f61() uintptr { return here() + 0 }

//go:noinline
func f62() uintptr { return here() + 0 }

//go:noinline
func f63() uintptr { return here() + 0 }

var markers = []func() uintptr{f00, f01, f02, f03, f04, f05, f06, f07, f08, f09, f10, f11, f12, f13, f14, f15, f16, f17, f18, f19, f20, f21, f22, f23, f24, f25, f26, f27, f28, f29, f30, f31, f32, f33, f34, f35, f36, f37, f38, f39, f40, f41, f42, f43, f44, f45, f46, f47, f48, f49, f50, f51, f52, f53, f54, f55, f56, f57, f58, f59, f60, f61, f62, f63}
