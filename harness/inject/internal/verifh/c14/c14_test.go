//go:build verif

// Package c14 binds spec/CrashParse*.tla to the real crash monitor
// (internal/crashmonitor.telemetryCounterName).
//
//   - TestVerifC14Vec: abstract reports enumerated by TLC (and random ones made
//     here) are concretized several times with different filler text; the real
//     function runs on each; input and outcome are written back in the
//     vocabulary of the specification for TLC to decide.
//   - TestVerifC14Real: the test binary re-executes itself and really crashes
//     (panic, nil dereference, inlined frames, recursion, ...); the captured
//     tracebacks, mutations of them and random byte strings are abstracted by
//     an independent line classifier and treated the same way; the frames of
//     the genuine ones are also compared with the stack the crashing process
//     recorded itself (runtime.Callers in a deferred function, same PCs).
package c14

import (
	"bytes"
	"crypto/sha256"
	"encoding/hex"
	"fmt"
	"math/rand"
	"os"
	"os/exec"
	"path/filepath"
	"regexp"
	"runtime"
	"runtime/debug"
	"strconv"
	"strings"
	"sync"
	"syscall"
	"testing"
	"time"

	"golang.org/x/telemetry/internal/crashmonitor"
	rt "golang.org/x/telemetry/internal/verifrt"
)

const (
	crashPrefix = "crash/crash"
	fixedName   = "crash/no-running-goroutine"
	maxNameLen  = 4096
)

// ---------------------------------------------------------------- abstraction

// attr is one abstract line of CrashParse.tla.
type attr struct {
	S     string
	Paren bool
	Sig   bool
	PC    string
}

func (a attr) json() []any { return []any{a.S, a.Paren, a.Sig, a.PC} }

// kindTable mirrors K in CrashParseMC.tla.
var kindTable = map[string]attr{
	"SentOk1":     {"sent1", false, false, "none"},
	"SentOk2":     {"sent2", false, false, "none"},
	"SentZero":    {"sent0", false, false, "none"},
	"SentBad":     {"sentbad", false, false, "none"},
	"HdrRun":      {"run", false, false, "none"},
	"HdrOther":    {"other", false, false, "none"},
	"HdrOtherP":   {"other", true, false, "none"},
	"Blank":       {"blank", false, false, "none"},
	"Created":     {"created", false, false, "none"},
	"Elided":      {"elided", false, false, "none"},
	"SymSig":      {"text", true, true, "none"},
	"SymPlain":    {"text", true, false, "none"},
	"SymParen1":   {"text", true, false, "none"},
	"NoParen":     {"text", false, false, "none"},
	"LocNoPc":     {"text", false, false, "none"},
	"LocNoPcPath": {"text", false, false, "nonepath"},
	"LocPc":       {"text", false, false, "ok"},
	"LocParenPc":  {"text", true, false, "ok"},
	"LocPathPc":   {"text", false, false, "okpath"},
	"LocHuge":     {"text", false, false, "huge"},
	"LocOddPc":    {"text", false, false, "huge"},
	"LocBad":      {"text", false, false, "bad"},
}

// renderAll is the harness' own uncompressed rendering of a PC list (the
// documented "symbol:relative-line,+0xoffset" form; '=' for inlined calls).
func renderAll(pcs []uintptr) []string {
	frs := runtime.CallersFrames(pcs)
	var out []string
	for {
		fr, more := frs.Next()
		if fr.PC == 0 && fr.Function == "" {
			break
		}
		// IMPORTPATH.FUNC: a symbol without a dot (assembly, C) has an empty
		// import path and renders as ".SYMBOL"
		fn := fr.Function
		if !strings.Contains(fn, ".") {
			fn = "." + fn
		}
		if fr.Func != nil {
			_, el := fr.Func.FileLine(fr.Entry)
			out = append(out, fmt.Sprintf("%s:%+d,+0x%x", fn, fr.Line-el, fr.PC-fr.Entry))
		} else {
			out = append(out, fmt.Sprintf("%s:=%d,+0x%x", fn, fr.Line, fr.PC-fr.Entry))
		}
		if !more {
			break
		}
	}
	return out
}

//go:noinline
func dummyFrame() uintptr { return here() + 0 }

var (
	dummyPC   uintptr
	dummyLine string
)

// render gives the frames of one PC in the middle of a stack (runtime.
// CallersFrames expands the inlined calls of a PC fully only when another PC
// follows it) and, when different, its frames as the last PC of a list.
func render(pc uintptr) (mid, last []string) {
	if dummyPC == 0 {
		dummyPC = dummyFrame()
		dummyLine = renderAll([]uintptr{dummyPC})[0]
	}
	mid = renderAll([]uintptr{pc, dummyPC})
	if n := len(mid); n > 0 && mid[n-1] == dummyLine {
		mid = mid[:n-1]
	}
	last = renderAll([]uintptr{pc})
	if len(mid) == 0 {
		last = nil
	}
	return mid, last
}

// expand undoes the ditto compression of a stack counter name (own decoder).
func expand(name string) []string {
	parts := strings.Split(name, "\n")
	last := ""
	for i := 1; i < len(parts); i++ {
		ln := parts[i]
		k := strings.LastIndex(ln, ".")
		if k < 0 {
			continue
		}
		switch p := ln[:k]; {
		case p == `"`:
			parts[i] = last + ln[k:]
		case p != "":
			last = p
		}
	}
	return parts
}

type frame struct {
	V    int  `json:"v"`
	Trap bool `json:"trap"`
	Any  bool `json:"unk"` // the name cannot tell whether the trap adjustment was applied
}

type outcome struct {
	Kind   string  `json:"kind"`
	Frames []frame `json:"frames"`
	LenOK  bool    `json:"lenok"`
	Text   string  `json:"text"`
	PathPC bool    `json:"pathpc"` // this concretization has " pc=" inside a file path
	Cut    bool    `json:"cut"`    // the name ends in the truncation marker: frames is a prefix
	Entry  string  `json:"entry"`  // "function" (telemetryCounterName) or "monitor" (a monitor process fed through stdin)
	amb    bool
	raw    string
	err    string
}

func digest(s string) string {
	h := sha256.Sum256([]byte(s))
	return hex.EncodeToString(h[:6])
}

// valueTable maps the relocated PC values of a report to small ids and knows
// how each renders with and without the trap adjustment.
type valueTable struct {
	ids   map[uint64]int
	res   map[uint64]bool
	cands map[string][]frame // joined rendering -> possible (value, trap)
	lasts map[string][]frame // same, for the rendering as the last PC of a list
}

func newValueTable() *valueTable {
	return &valueTable{ids: map[uint64]int{}, res: map[uint64]bool{}, cands: map[string][]frame{}, lasts: map[string][]frame{}}
}

func (vt *valueTable) add(v uint64) (id int, resolvable bool) {
	if id, ok := vt.ids[v]; ok {
		return id, vt.res[v]
	}
	id = len(vt.ids) + 1
	vt.ids[v] = id
	defer func() { vt.res[v] = resolvable }()
	ok := [2]bool{}
	for t := 0; t < 2; t++ {
		mid, last := render(uintptr(v + uint64(t)))
		if len(mid) == 0 {
			continue
		}
		ok[t] = true
		k := strings.Join(mid, "\n")
		vt.cands[k] = append(vt.cands[k], frame{V: id, Trap: t == 1})
		if kl := strings.Join(last, "\n"); kl != k {
			vt.lasts[kl] = append(vt.lasts[kl], frame{V: id, Trap: t == 1})
		}
	}
	return id, ok[0] && ok[1]
}

// pickFrame resolves the candidates of one rendering: several values are a
// genuine ambiguity; the same value with and without trap is recorded as such.
func pickFrame(c []frame) (f frame, amb bool) {
	f = c[0]
	for _, x := range c[1:] {
		if x.V != f.V {
			return f, true
		}
		if x.Trap != f.Trap {
			f.Any = true
		}
	}
	return f, false
}

// runName runs the function under test, guarding against panics and hangs.
func runName(text []byte) (name string, err error, panicked string, hung bool) {
	type res struct {
		name string
		err  error
		pan  string
	}
	ch := make(chan res, 1)
	go func() {
		var r res
		defer func() {
			if p := recover(); p != nil {
				r.pan = fmt.Sprint(p)
			}
			ch <- r
		}()
		r.name, r.err = crashmonitor.VTelemetryCounterName(text)
	}()
	select {
	case r := <-ch:
		return r.name, r.err, r.pan, false
	case <-time.After(20 * time.Second):
		return "", nil, "", true
	}
}

var hungOnce bool

// observe runs the real code on text and abstracts the result.
func observe(text []byte, vt *valueTable) outcome {
	if hungOnce {
		return outcome{Kind: "hang", Frames: []frame{}, LenOK: true, Entry: "function"}
	}
	name, err, pan, hung := runName(text)
	o := outcome{Frames: []frame{}, LenOK: true, Entry: "function"}
	switch {
	case hung:
		hungOnce = true
		o.Kind = "hang"
		return o
	case pan != "":
		o.Kind, o.err = "panic", pan
		return o
	case err != nil:
		o.Kind, o.err = "err", err.Error()
		if name != "" {
			o.Kind, o.raw = "other", name
		}
		return o
	}
	return readBack(name, vt, o)
}

// readBack abstracts a counter name into the vocabulary of CrashParse.tla.
func readBack(name string, vt *valueTable, o outcome) outcome {
	o.raw = name
	o.Text = digest(name)
	o.LenOK = len(name) <= maxNameLen
	if name == fixedName {
		o.Kind = "nogo"
		return o
	}
	if !strings.HasPrefix(name, crashPrefix+"\n") {
		o.Kind = "other"
		return o
	}
	const marker = "\ntruncated\n"
	body := name
	if strings.HasSuffix(name, marker) {
		// a name that did not fit the size limit: the complete frame lines
		// before the cut are read back (the last line may be partial)
		o.Cut = true
		body = name[:len(name)-len(marker)]
		if k := strings.LastIndex(body, "\n"); k >= len(crashPrefix) {
			body = body[:k]
		}
	}
	lines := expand(body)[1:]
	o.Kind = "name"
	if o.Cut && len(lines) == 0 {
		return o
	}
	if len(lines) == 1 && (lines[0] == `".:=0,+0x0` || lines[0] == `.:=0,+0x0`) {
		return o // no PC resolved to a function
	}
	for pos := 0; pos < len(lines); {
		matched := false
		for k := 1; pos+k <= len(lines) && k <= 12; k++ {
			key := strings.Join(lines[pos:pos+k], "\n")
			c, ok := vt.cands[key]
			if !ok && pos+k == len(lines) {
				c, ok = vt.lasts[key]
			}
			if !ok {
				continue
			}
			f, amb := pickFrame(c)
			o.amb = o.amb || amb
			o.Frames = append(o.Frames, f)
			pos += k
			matched = true
			break
		}
		if !matched {
			// a line that is not the rendering of any PC of the report
			o.Kind = "other"
			o.Frames = []frame{}
			return o
		}
	}
	return o
}

// ------------------------------------------------------------ concretization

var (
	pathsPlain = []string{
		"/home/user/go/src/app/main.go", "/Users/alice smith/My Secret Project/x.go",
		"C:/Users/Bob/secret-token=abc123/svc.go", "/tmp/pc=/file.go", "/srv/created by me/sentinel 1234/x.go",
		"/tmp/goroutine 7 [running]:/a.go", "/usr/lib/go/src/runtime/panic.go", "_cgo_gotypes.go", "/a/b.c/d-e_f/g.go",
		"/home/josé/проект/世界.go", "/tmp/\xff\xfe bad utf8/\xc3.go", "/t/\x00nul/\x7f.go", "C:\\Users\\Ünï\\x.go", "",
	}
	pathsParen = []string{"/Users/a (b)/x.go", "/home/u/proj(1)/main.go", "/tmp/x(y)/.(z)/y.go"}
	pathsPC    = []string{"/home/u/my pc=12/main.go", "/data/x pc=0x4a5b6c/y.go", "/a pc=/b.go", "/w/ pc=0x1 pc=0x2/z.go"}
	argsPool   = []string{"0x1, 0x2", "{0xc000012345, 0x10}, 0x0?", "...", "0xc00001c0a8?, {0x4b2f60?, 0xc000010000?}",
		"(nested (parens)), 0x1", "", "0x0?", "{{}, {0x1, 0x2}}, 0xffffffffffffffff", "\"世界\", 0x2", "\xff\xfe", "…"}
	symsPlain = []string{"main.main", "main.f", "github.com/user/secret-project/internal/pkg.Handler", "panic",
		"runtime.gopanic", "runtime.panicmem", "main.(*T).m", "pkg.(*Server[...]).Serve.func1", "a.b/c.T.m-fm",
		"runtime.sigpanic2", "xruntime.sigpanic", "runtime.sigpanic.func1", "runtime.(*sigpanic).x",
		"net/http.(*conn).serve", "main.sentinel", "main.created by", "runtime.goexit", "main.G[...]",
		"main.世界の関数", "пакет.(*Тип).Метод", "main.\xff\xfe", "é", "x"}
	textAny = []string{"panic: runtime error: invalid memory address or nil pointer dereference",
		"[signal SIGSEGV: segmentation violation code=0x1 addr=0x0 pc=0x48f2a5]", "... 55 frames elided ...",
		"exit status 2", "runtime stack:", "fatal error: all goroutines are asleep - deadlock!", "rax    0x0",
		"panic: user said: sentinel 1234, goroutine 5 [running]: created by x pc=0x10 !", " goroutine 1 [running]:",
		"\tgoroutine running", "rip    0x48f2a5", "-----", " ", "\t", "panic: oops [recovered]", "panic: 世界 \xff\xfe é", "\r", "\x00", ".(", "x.(", "runtime.(", "x", ".", ")", "\""}
	textBlock = []string{"panic: runtime error: index out of range", "...additional frames elided...", "exit status 2",
		"runtime stack:", "rax    0x0", " goroutine 1 [running]:", " sentinel 12", " created by x", " ", "\t",
		"\t/home/user/inlined.go:85", "\t/tmp/secret token=abc/y.go:85 +0x1d", "\t/x/pc=1/y.go:3", "\t/home/josé/世界.go:1", "\xff\xfe", "\r", ".(", "x.(", "runtime.(", "x", ".", ")"}
	hdrRun    = []string{"goroutine 1 [running]:", "goroutine 18 gp=0xc000102700 m=3 mp=0xc000080008 [running]:", "goroutine 4242 [running]:"}
	hdrOtherP = []string{"goroutine 3 gp=0xc000007880 m=nil [GC worker (idle), 2 minutes]:", "goroutine 18 [select (no cases)]:",
		"goroutine 7 gp=0xc000102380 m=nil [GC assist wait (idle)]:", "goroutine 2 gp=0xc000006c40 m=nil [force gc (idle)]:"}
	hdrOther = []string{"goroutine 2 [chan receive]:", "goroutine 3 gp=0xc000007880 m=nil [GC worker, 2 minutes]:",
		"goroutine 17 [select, locked to thread]:", "goroutine 0 gp=0x56ec60 m=0 mp=0x56f7a0 [idle]:", "goroutine 5 [runnable]:", "goroutine 9 [syscall]:"}
	created = []string{"created by main.main in goroutine 1", "created by net/http.(*Server).Serve in goroutine 33", "created by x"}
	// symbol lines that BEGIN with "(": the symbol is empty
	symParen1  = []string{"(0x1, 0x2)", "()", "(", "(*T).m(0xc000010000)", "((", "(.(", "(goroutine 1 [running]:", "(...)"}
	elidedPool = []string{"...55 frames elided...", "...313 frames elided...", "...1 frames elided..."}
	sentBad    = []string{"sentinel zz", "sentinel ", "sentinel -1", "sentinel g00d"}
	sentZero   = []string{"sentinel 0", "sentinel 000"}
	locBad     = []string{"pc=zz", "pc=", "pc=0x", "pc=0x1ffffffffffffffffff", "pc=-0x10", "pc=0x4a5b6c]"}
	junkPCs    = []uint64{0x10, 0xfffffffffffffff0, 0x1, 0x7fffffffffffffff}
)

const (
	delta1 = uint64(0x100000)
	delta2 = uint64(0x00007f3a12345000)
)

var markerPCs []uint64

// markerOverride, when set, replaces the marker functions of concretize (the
// long-identifier reports).
var markerOverride []uint64

func markerPCsOnce() []uint64 {
	initMarkers()
	return markerPCs
}

func initMarkers() {
	if markerPCs != nil {
		return
	}
	// message texts that talk about sentinels (inert: they do not start a line)
	textAny = append(textAny, fmt.Sprintf("panic: sentinel %x exceeded", crashmonitor.VSentinel()),
		fmt.Sprintf("fatal: sentinel %x mismatch", crashmonitor.VSentinel()+1))
	for _, f := range markers {
		markerPCs = append(markerPCs, uint64(f()))
	}
}

type concrete struct {
	text   string
	attrs  []attr
	vid    []int
	pathPC bool
}

// concretize turns a sequence of kind names into crash text.  variant 0 is the
// canonical rendering; other variants draw filler text (messages, arguments,
// paths, symbol names, header decorations) from the pools with rng.  The
// sentinel, the PCs and the sigpanic symbol are the same in every variant.
func concretize(kinds []string, variant int, rng *rand.Rand, vt *valueTable, plainPC bool) concrete {
	initMarkers()
	child := crashmonitor.VSentinel()
	delta := uint64(0)
	firstSent := ""
	for _, k := range kinds {
		if k == "SentOk1" {
			delta, firstSent = delta1, k
			break
		}
		if k == "SentOk2" {
			delta, firstSent = delta2, k
			break
		}
	}
	if variant != 0 && firstSent != "" {
		// the same executable mapped elsewhere: at the same address (the usual
		// case), or so that the relocation wraps around 2^64
		switch rng.Intn(4) {
		case 0:
			delta = 0
		case 1:
			delta = 1 << 63
		case 2:
			delta = ^uint64(0) - child // the parent's sentinel is 0xffffffffffffffff
		}
	}
	pick := func(pool []string) string {
		if variant == 0 {
			return pool[0]
		}
		return pool[rng.Intn(len(pool))]
	}
	var c concrete
	var sb strings.Builder
	npc, nhuge, nword := 0, 0, 0
	phase := 0 // 0 before the first running header, 1 inside its block, 2 after
	loc := func(path string, pc uint64) string {
		line, off := 12, 0x1d
		if variant != 0 {
			line, off = 1+rng.Intn(5000), 1+rng.Intn(0xfff)
		}
		return fmt.Sprintf("\t%s:%d +0x%x fp=0x%x sp=0x%x pc=0x%x", path, line, off, 0xc00009af50+uint64(line), 0xc00009af10+uint64(off), pc)
	}
	for i, k := range kinds {
		a, ok := kindTable[k]
		if !ok {
			panic("unknown kind " + k)
		}
		id := 0
		var ln string
		switch k {
		case "SentOk1", "SentOk2":
			// the first sentinel kind of the report carries the parent's
			// sentinel; the other kind is a DIFFERENT well-formed value: close
			// to it (a rebased PC would still fall into the same function) or
			// far away
			d := delta
			if k != firstSent {
				near := []uint64{1, 2, ^uint64(0), 0x10, delta1 + delta2}
				if variant == 0 {
					d += near[0]
				} else {
					d += near[rng.Intn(len(near))]
				}
			}
			switch {
			case variant == 0 || rng.Intn(3) == 0:
				ln = fmt.Sprintf("sentinel %x", child+d)
			case rng.Intn(2) == 0:
				ln = fmt.Sprintf("sentinel %X", child+d)
			default:
				ln = fmt.Sprintf("sentinel 00%x", child+d)
			}
		case "SentZero":
			ln = pick(sentZero)
		case "SentBad":
			ln = pick(sentBad)
		case "HdrRun":
			ln = pick(hdrRun)
		case "HdrOther":
			ln = pick(hdrOther)
		case "HdrOtherP":
			ln = pick(hdrOtherP)
		case "Blank":
			ln = ""
		case "Created":
			ln = pick(created)
		case "Elided":
			ln = pick(elidedPool)
		case "SymSig":
			ln = "runtime.sigpanic()"
			if variant != 0 && rng.Intn(2) == 0 {
				ln = "runtime.sigpanic(" + pick(argsPool) + ")"
			}
		case "SymPlain":
			ln = pick(symsPlain) + "(" + pick(argsPool) + ")"
		case "SymParen1":
			ln = pick(symParen1)
		case "NoParen", "LocNoPc":
			if phase == 1 {
				ln = pick(textBlock)
			} else {
				ln = pick(textAny)
			}
		case "LocPc", "LocParenPc", "LocPathPc":
			src := markerPCs
			if markerOverride != nil {
				src = markerOverride
			}
			real := src[npc%len(src)]
			npc++
			id, _ = vt.add(real)
			var path string
			switch {
			case k == "LocParenPc":
				path = pick(pathsParen)
			case k == "LocPathPc":
				// the canonical rendering (and the control rendering plainPC)
				// differ from the adversarial one in the " pc=" of the path only
				path = pick(pathsPC)
				if variant == 0 || plainPC {
					path = strings.ReplaceAll(path, " pc=", "_pc_")
				} else {
					c.pathPC = true
				}
			default:
				path = pick(pathsPlain)
			}
			ln = loc(path, real+delta)
		case "LocHuge":
			j := junkPCs[nhuge%len(junkPCs)]
			nhuge++
			id, _ = vt.add(j)
			ln = loc(pick(pathsPlain), j+delta)
		case "LocNoPcPath":
			// the location line of an inlined call (no fp/sp/pc fields) whose FILE PATH
			// contains, between blanks, a word pc=0x<address of real code of this
			// binary>; the canonical / control rendering has "_pc_" instead
			addr := markerPCs[len(markerPCs)-1-nword%8] + delta
			nword++
			vt.add(addr - delta) // so that a frame made from it can be read back
			dirs := []string{"/home/u/my pc=0x%x dir/main.go", "/data/x pc=0x%x /y.go", "/w/a pc=0x%x b/pc=0x1/z.go", "/srv pc=0x%x"}
			path := fmt.Sprintf(pick(dirs), addr)
			if variant == 0 || plainPC {
				path = strings.ReplaceAll(path, " pc=", "_pc_")
			} else {
				c.pathPC = true
			}
			if variant != 0 && rng.Intn(2) == 0 {
				ln = fmt.Sprintf("\t%s:%d +0x%x", path, 85, 0x1d)
			} else {
				ln = fmt.Sprintf("\t%s:%d", path, 85)
			}
		case "LocOddPc":
			// a real PC written in a notation strconv accepts with base 0 but the
			// runtime never prints
			real := markerPCs[npc%len(markerPCs)]
			npc++
			id, _ = vt.add(real)
			v := real + delta
			forms := []string{fmt.Sprintf("%d", v), fmt.Sprintf("0X%X", v), fmt.Sprintf("0o%o", v), fmt.Sprintf("0b%b", v),
				fmt.Sprintf("0x_%x", v), fmt.Sprintf("0%o", v)}
			ln = fmt.Sprintf("\t%s:%d +0x1d fp=0xc000 sp=0xc000 pc=%s", pick(pathsPlain), 9, pick(forms))
		case "LocBad":
			ln = fmt.Sprintf("\t%s:%d +0x1d fp=0xc000 sp=0xc000 %s", pick(pathsPlain), 7, pick(locBad))
		}
		switch {
		case phase == 0 && k == "HdrRun":
			phase = 1
		case phase == 1 && (k == "Blank" || k == "Created" || k == "Elided"):
			phase = 2
		}
		if i > 0 {
			sb.WriteByte('\n')
		}
		sb.WriteString(ln)
		c.attrs = append(c.attrs, a)
		c.vid = append(c.vid, id)
	}
	c.text = sb.String()
	return c
}

func recordOf(src string, id int, attrs []attr, vid []int, obs []outcome) rt.M {
	lines := make([]any, len(attrs))
	for i, a := range attrs {
		lines[i] = a.json()
	}
	if vid == nil {
		vid = []int{}
	}
	amb := false
	for _, o := range obs {
		amb = amb || o.amb
	}
	return rt.M{"kind": "rec", "src": src, "id": id, "lines": lines, "vid": vid, "obs": obs, "amb": amb}
}

func detail(o outcome) rt.M {
	raw := o.raw
	if len(raw) > 3000 {
		raw = raw[:3000] + "..."
	}
	return rt.M{"kind": o.Kind, "name": raw, "err": o.err, "len": len(o.raw)}
}

// randomKinds makes one abstract report: mostly genuine-looking, sometimes
// with a disturbance.
func randomKinds(rng *rand.Rand) []string {
	var ks []string
	add := func(k ...string) { ks = append(ks, k...) }
	all := []string{"SentOk1", "SentOk2", "SentZero", "SentBad", "HdrRun", "HdrOther", "HdrOtherP", "Blank", "Created", "Elided", "SymSig", "SymPlain", "SymParen1", "LocNoPcPath",
		"NoParen", "LocNoPc", "LocPc", "LocParenPc", "LocPathPc", "LocHuge", "LocBad"}
	pre := []string{"NoParen", "NoParen", "Blank", "HdrOther", "SymPlain", "LocPc", "LocNoPc", "SymSig", "LocPathPc", "Created", "LocBad", "LocHuge"}
	entries := func(n int) {
		for j := 0; j < n; j++ {
			switch r := rng.Intn(100); {
			case r < 15:
				add("SymSig")
			case r < 22:
				add("SymParen1")
			case r < 26:
				add("NoParen") // a symbol line that lost its "(": the location line follows
			default:
				add("SymPlain")
			}
			switch r := rng.Intn(100); {
			case r < 60:
				add("LocPc")
			case r < 76:
				add("LocNoPc")
			case r < 80:
				add("LocNoPcPath")
			case r < 88:
				add("LocParenPc")
			case r < 94:
				add("LocPathPc")
			case r < 96 && rng.Intn(4) == 0:
				add("LocHuge")
			case r < 98 && rng.Intn(4) == 0:
				add("LocBad")
			default:
				add("LocPc")
			}
		}
	}
	if rng.Intn(20) != 0 {
		add([]string{"SentOk1", "SentOk2"}[rng.Intn(2)])
	}
	for n := rng.Intn(6); n > 0; n-- {
		add(pre[rng.Intn(len(pre))])
	}
	if rng.Intn(12) != 0 {
		add("HdrRun")
		entries([]int{0, 1, 2, 3, 5, 8, 14, 15, 16, 17, 18, 25}[rng.Intn(12)])
		if rng.Intn(8) == 0 { // a deep stack: the runtime elides the middle
			entries(20)
			add("Elided")
			entries(rng.Intn(4))
		}
		odd := rng.Intn(5) == 0
		if odd { // odd line pairing: an unpaired line at the end of the first goroutine
			add([]string{"SymPlain", "SymParen1", "LocParenPc", "SymSig"}[rng.Intn(4)])
		}
		switch rng.Intn(4) {
		case 0:
			add("Created", "LocPc", "Blank")
		case 1:
			if odd {
				add("Blank")
			}
		default:
			add("Blank")
		}
		if odd { // other goroutines, their own lines shifted by one as well
			for g := 1 + rng.Intn(2); g > 0; g-- {
				add([]string{"HdrOtherP", "HdrOtherP", "HdrOther", "HdrRun"}[rng.Intn(4)])
				add("LocPc")
				entries(rng.Intn(3))
				add("Blank")
			}
		}
	}
	for g := rng.Intn(3); g > 0; g-- {
		add([]string{"HdrOther", "HdrOtherP", "HdrRun"}[rng.Intn(3)])
		entries(rng.Intn(4))
		add("Blank")
	}
	if rng.Intn(3) == 0 && len(ks) > 1 { // later sentinel lines: in the message, between goroutines, inside or after the block
		for n := 1 + rng.Intn(2); n > 0; n-- {
			p := 1 + rng.Intn(len(ks))
			rep := []string{"SentOk1", "SentOk2", "SentOk2", "SentOk2", "SentZero", "SentBad"}[rng.Intn(6)]
			ks = append(ks[:p], append([]string{rep}, ks[p:]...)...)
		}
	}
	if rng.Intn(3) == 0 { // disturb: insert, delete or replace one line
		switch p := rng.Intn(len(ks) + 1); rng.Intn(3) {
		case 0:
			ks = append(ks[:p], append([]string{all[rng.Intn(len(all))]}, ks[p:]...)...)
		case 1:
			if p < len(ks) {
				ks = append(ks[:p], ks[p+1:]...)
			}
		default:
			if p < len(ks) {
				ks[p] = all[rng.Intn(len(all))]
			}
		}
	}
	return ks
}

type vecIn struct {
	ID    int      `json:"id"`
	Kinds []string `json:"kinds"`
}

// TestVerifC14Vec: model -> code replay of TLC's abstract reports plus random
// abstract reports, each concretized `variants` times.
func TestVerifC14Vec(t *testing.T) {
	defer rt.Flush()
	var in struct {
		Vectors  []vecIn `json:"vectors"`
		Variants int     `json:"variants"`
		Random   int     `json:"random"`
		Show     []int   `json:"show"`
	}
	if err := rt.In(&in); err != nil {
		t.Skip(err)
	}
	show := map[int]bool{}
	for _, id := range in.Show {
		show[id] = true
	}
	if in.Variants < 2 {
		in.Variants = 2
	}
	rng := rand.New(rand.NewSource(rt.Seed()*7919 + 1))
	base := 1000000
	for i := 0; i < in.Random; i++ {
		in.Vectors = append(in.Vectors, vecIn{ID: base + i, Kinds: randomKinds(rng)})
	}
	calls := 0
	for _, v := range in.Vectors {
		if len(in.Show) > 0 && !show[v.ID] {
			continue
		}
		vt := newValueTable()
		var obs []outcome
		var c0 concrete
		var texts []string
		for variant := 0; variant < in.Variants; variant++ {
			for _, plain := range []bool{false, true} {
				vr := rand.New(rand.NewSource(rt.Seed()*1000003 + int64(v.ID)*31 + int64(variant)))
				c := concretize(v.Kinds, variant, vr, vt, plain)
				if plain && !obs[len(obs)-1].PathPC {
					break // the control rendering is only needed next to a " pc=" path
				}
				if variant == 0 {
					c0 = c
				}
				variantText := c.text
				if variant == in.Variants-1 && variant > 0 {
					variantText += "\n" // genuine reports end with a newline
				}
				o := observe([]byte(variantText), vt)
				o.PathPC = c.pathPC
				obs = append(obs, o)
				texts = append(texts, variantText)
				calls++
			}
		}
		src := "tlc"
		if v.ID >= base {
			src = "random"
		}
		rec := recordOf(src, v.ID, c0.attrs, c0.vid, obs)
		rec["kinds"] = v.Kinds
		if show[v.ID] {
			var ds []rt.M
			for _, o := range obs {
				ds = append(ds, detail(o))
			}
			rec["texts"], rec["details"] = texts, ds
		}
		rt.Out(rec)
	}
	// ---- reports whose 16 frames have very long identifiers: the name cannot
	// fit 4096 bytes.  The first frame's identifier grows by 10 bytes from one
	// report to the next, which moves the later frame boundaries across every
	// 10-byte window near the limit.
	if len(in.Show) == 0 || show[1500000] {
		kinds := []string{"SentOk1", "NoParen", "HdrRun"}
		for i := 0; i < 17; i++ {
			kinds = append(kinds, "SymPlain", "LocPc")
		}
		kinds = append(kinds, "Blank", "HdrOther", "SymPlain", "LocPc")
		for j := range longP {
			id := 1500000 + j
			if len(in.Show) > 0 && !show[id] {
				continue
			}
			markerOverride = []uint64{uint64(longP[j]())}
			for _, f := range longL {
				markerOverride = append(markerOverride, uint64(f()))
			}
			for len(markerOverride) < 20 {
				markerOverride = append(markerOverride, markerOverride[1+len(markerOverride)%len(longL)])
			}
			vt := newValueTable()
			var obs []outcome
			var c0 concrete
			var texts []string
			for variant := 0; variant < 2; variant++ {
				vr := rand.New(rand.NewSource(rt.Seed()*1000003 + int64(id)*31 + int64(variant)))
				c := concretize(kinds, variant, vr, vt, false)
				if variant == 0 {
					c0 = c
				}
				obs = append(obs, observe([]byte(c.text), vt))
				texts = append(texts, c.text)
				calls++
			}
			markerOverride = nil
			rec := recordOf("long", id, c0.attrs, c0.vid, obs)
			rec["kinds"] = kinds
			if show[id] || !obs[0].LenOK || obs[0].Kind != "name" {
				var ds []rt.M
				for _, o := range obs {
					ds = append(ds, detail(o))
				}
				rec["texts"], rec["details"] = texts, ds
			}
			rec["namelen"] = len(obs[0].raw)
			rec["cut"] = obs[0].Cut
			rt.Out(rec)
		}
	}
	rt.Out(rt.M{"kind": "summary", "vectors": len(in.Vectors), "calls": calls, "hung": hungOnce})
}

// ------------------------------------------------------------ the monitor

// runMonitor re-executes the test binary as the crash monitor, writes text to
// its stdin and returns the counters it recorded.
func runMonitor(exe, dir string, text []byte) (names []string, problem string) {
	out := filepath.Join(dir, "recorded")
	os.Remove(out)
	cmd := exec.Command(exe)
	cmd.Env = append(os.Environ(), "VERIF_C14_MONITOR="+out, "TMPDIR="+dir, "VERIF_C14_CRASH=")
	cmd.Stdin = bytes.NewReader(text)
	done := make(chan error, 1)
	if err := cmd.Start(); err != nil {
		return nil, "cannot start the monitor: " + err.Error()
	}
	go func() { done <- cmd.Wait() }()
	select {
	case <-done:
	case <-time.After(60 * time.Second):
		cmd.Process.Kill()
		return nil, "hang"
	}
	data, _ := os.ReadFile(out)
	for _, ln := range strings.Split(string(data), "\n") {
		if ln == "" {
			continue
		}
		n, err := strconv.Unquote(ln)
		if err != nil {
			return nil, "unreadable record " + ln
		}
		names = append(names, n)
	}
	// crash texts the monitor could not parse are saved as *.crash: clean up
	if fs, _ := filepath.Glob(filepath.Join(dir, "*.crash")); len(fs) > 0 {
		for _, f := range fs {
			os.Remove(f)
		}
	}
	return names, ""
}

const monitorLimit = 1 << 20 // sizes around which the padded reports are built

// TestVerifC14Monitor: the entry point is the whole monitor process, fed
// through a pipe.  Every abstract report is rendered once (canonical filler)
// and given to telemetryCounterName and to a monitor process; then the same
// report is given to monitor processes again with ONE filler text (a message
// line before the goroutines, else the arguments of a symbol line, else a file
// path) blown up so that the 1 MiB mark of the text falls inside the first
// pc= field after it, between two frames, inside the goroutine header, inside
// the blown-up text itself, and just before the end.  Messages, arguments and
// paths are "other text": all outcomes must be the one the specification
// gives for the report, or an error.
func TestVerifC14Monitor(t *testing.T) {
	defer rt.Flush()
	var in struct {
		Vectors []vecIn `json:"vectors"`
		Show    []int   `json:"show"`
	}
	if err := rt.In(&in); err != nil {
		t.Skip(err)
	}
	show := map[int]bool{}
	for _, id := range in.Show {
		show[id] = true
	}
	exe, err := os.Executable()
	if err != nil {
		t.Fatal(err)
	}
	dir := t.TempDir()
	spawns := 0
	for _, v := range in.Vectors {
		if len(in.Show) > 0 && !show[v.ID] {
			continue
		}
		vt := newValueTable()
		vr := rand.New(rand.NewSource(rt.Seed()*1000003 + int64(v.ID)*31))
		c := concretize(v.Kinds, 0, vr, vt, false)
		lines := strings.Split(c.text, "\n")
		// which filler text is blown up, and where the pad goes in that line
		target, at := -1, 0
		phase := 0
		for i, k := range v.Kinds {
			if i > 0 && phase == 0 && k == "NoParen" {
				target, at = i, len(lines[i])
				break
			}
			if k == "HdrRun" {
				phase = 1
			}
		}
		if target < 0 {
			for i, k := range v.Kinds {
				if k == "SymPlain" {
					target, at = i, strings.Index(lines[i], "(")+1
					break
				}
			}
		}
		if target < 0 {
			for i, k := range v.Kinds {
				if k == "LocPc" {
					target, at = i, 1 // after the tab
					break
				}
			}
		}
		padded := func(n int) string {
			ls := append([]string{}, lines...)
			ls[target] = ls[target][:at] + strings.Repeat("x", n) + ls[target][at:]
			return strings.Join(ls, "\n")
		}
		texts := []string{c.text}
		what := []string{"function", "monitor"}
		if target >= 0 {
			// offsets (in the unpadded text) that the 1 MiB mark shall hit
			offsetOf := func(line int) int { return len(strings.Join(lines[:line], "\n")) + 1 }
			after := offsetOf(target) + len(lines[target])
			var marks []int
			names := []string{}
			for i := target + 1; i < len(lines); i++ { // inside the first pc= field after the target
				if k := strings.LastIndex(lines[i], " pc=0x"); k >= 0 {
					marks, names = append(marks, offsetOf(i)+k+len(" pc=0x")+3), append(names, "monitor:mark-in-pc")
					break
				}
			}
			for i := target + 1; i < len(lines); i++ { // at the start of the second entry of the block / a later line
				if strings.HasPrefix(v.Kinds[i], "Sym") && i > 0 && strings.HasPrefix(v.Kinds[i-1], "Loc") {
					marks, names = append(marks, offsetOf(i)), append(names, "monitor:mark-between-frames")
					break
				}
			}
			for i := target + 1; i < len(lines); i++ {
				if v.Kinds[i] == "HdrRun" {
					marks, names = append(marks, offsetOf(i)+12), append(names, "monitor:mark-in-header")
					break
				}
			}
			marks, names = append(marks, len(c.text)-1), append(names, "monitor:mark-before-end")
			for j, m := range marks {
				if m > after {
					texts, what = append(texts, padded(monitorLimit-m)), append(what, names[j])
				}
			}
			texts, what = append(texts, padded(monitorLimit+100)), append(what, "monitor:mark-in-padding")
		}
		var obs []outcome
		var ds []rt.M
		for i, w := range what {
			text := texts[0]
			if i >= 2 {
				text = texts[i-1]
			}
			var o outcome
			if w == "function" {
				o = observe([]byte(text), vt)
			} else {
				spawns++
				names, problem := runMonitor(exe, dir, []byte(text))
				o = outcome{Frames: []frame{}, LenOK: true, Entry: "monitor"}
				switch {
				case problem == "hang":
					o.Kind = "hang"
				case problem != "":
					t.Fatal(problem)
				case len(names) == 0:
					o.Kind = "none" // the monitor recorded nothing
				case len(names) > 1:
					o.Kind, o.raw = "other", strings.Join(names, " | ")
				case names[0] == "crash/malformed":
					o.Kind = "err"
				default:
					o = readBack(names[0], vt, o)
				}
			}
			obs = append(obs, o)
			d := detail(o)
			d["what"], d["bytes"] = w, len(text)
			ds = append(ds, d)
		}
		rec := recordOf("monitor", v.ID, c.attrs, c.vid, obs)
		rec["kinds"] = v.Kinds
		rec["details"] = ds
		if show[v.ID] {
			rec["texts"] = []string{c.text}
		}
		rt.Out(rec)
	}
	rt.Out(rt.M{"kind": "summary", "vectors": len(in.Vectors), "spawns": spawns})
}

// ------------------------------------------------------------- real crashes

var (
	sinkPtr *int
	sinkInt int
	sinkMap map[string]int
)

//go:noinline
func leafPanic() { panic("oops: secret=hunter2 pc=0x1234 (goroutine 9 [running]:)") }

//go:noinline
func leafTrap(p *int) { *p = 42 }

func inlinedTrap(p *int) { *p = 7 }

//go:noinline
func callsInlinedTrap(p *int) {
	sinkInt++
	inlinedTrap(p)
}

func inlinedPanic() { panic(fmt.Errorf("wrapped: %d", sinkInt)) }

//go:noinline
func callsInlinedPanic() {
	sinkInt++
	inlinedPanic()
}

type holder struct{ p *int }

//go:noinline
func (h *holder) method(f func()) { generic[int64](1, f); sinkInt++ }

//go:noinline
func generic[X any](x X, f func()) X { f(); sinkInt++; return x }

//go:noinline
func recurse(n int, f func()) {
	if n == 0 {
		f()
		return
	}
	recurse(n-1, f)
	sinkInt++
}

//go:noinline
func divide(a, b int) int { return a / b }

//go:noinline
func index(s []int, i int) int { return s[i] }

//go:noinline
func nilMap() { sinkMap["x"] = 1 }

var scenarios = []string{"panic", "trap", "inline-trap", "inline-panic", "method-generic-closure", "rec8", "rec40",
	"rec150", "rec400", "longnames", "goroutine-panic", "goroutine-trap", "divzero", "index", "nilmap", "multiline-message",
	"sigquit", "fatal-unlock", "stack-overflow", "lockthread"}

// Scenarios that cannot be run once with recover first (fatal errors): no
// differential oracle, the abstract validation by TLC decides alone.
var noOracle = map[string]bool{"sigquit": true, "fatal-unlock": true, "stack-overflow": true}

//go:noinline
func overflow(n int) int {
	var pad [128]byte
	pad[n%128] = byte(n)
	return overflow(n+1) + int(pad[(n+1)%128])
}

func dispatch(s string) {
	switch {
	case s == "panic":
		leafPanic()
	case s == "trap":
		leafTrap(sinkPtr)
	case s == "inline-trap":
		callsInlinedTrap(sinkPtr)
	case s == "inline-panic":
		callsInlinedPanic()
	case s == "method-generic-closure":
		h := &holder{}
		h.method(func() { leafTrap(h.p) })
	case strings.HasPrefix(s, "rec"):
		n, _ := strconv.Atoi(s[3:])
		recurse(n, func() { leafTrap(sinkPtr) })
	case s == "longnames":
		longChain()
	case s == "divzero":
		sinkInt = divide(1, sinkInt*0)
	case s == "index":
		sinkInt = index(make([]int, 2), 5+sinkInt*0)
	case s == "nilmap":
		nilMap()
	case s == "multiline-message": // message text with blank lines and lines that look like structure
		panic(fmt.Errorf("first line\n\nsentinel 1234\ncreated by nobody\n\t/x/y.go:1 +0x1 fp=0x1 sp=0x2 pc=0x1234\n(paren line\nruntime.sigpanic()\n世界 \xff"))
	case s == "sigquit": // killed by a signal while asleep: usually no running goroutine at all
		go func() {
			time.Sleep(100 * time.Millisecond)
			syscall.Kill(syscall.Getpid(), syscall.SIGQUIT)
		}()
		time.Sleep(20 * time.Second)
	case s == "fatal-unlock": // a fatal error, not a panic
		var mu sync.Mutex
		mu.Unlock()
	case s == "stack-overflow":
		debug.SetMaxStack(1 << 20)
		sinkInt = overflow(0)
	case s == "lockthread":
		runtime.LockOSThread()
		leafPanic()
	default:
		panic("unknown scenario " + s)
	}
}

// capture is deferred in the first (recovering) pass: it records the stack of
// the panicking goroutine below runtime.gopanic, rendered by the harness.
func capture() {
	if recover() == nil {
		return
	}
	pcs := make([]uintptr, 1024)
	n := runtime.Callers(1, pcs)
	lines := renderAll(pcs[:n])
	os.WriteFile(os.Getenv("VERIF_C14_EXPECT"), []byte(strings.Join(lines, "\n")), 0666)
}

//go:noinline
func runScenario(s string, rec bool) {
	if rec {
		defer capture()
	}
	dispatch(s)
}

func crashMain(s string) {
	debug.SetTraceback("system")
	crashmonitor.VWriteSentinel(os.Stderr)
	first := 0
	if noOracle[s] {
		first = 1 // straight to the crash
	}
	for i := first; i < 2; i++ {
		if strings.HasPrefix(s, "goroutine-") {
			done := make(chan bool)
			go func() {
				runScenario(strings.TrimPrefix(s, "goroutine-"), i == 0)
				close(done) // only reached in the recovering pass
			}()
			<-done
		} else {
			runScenario(s, i == 0)
		}
	}
	os.Exit(3) // not reached
}

func TestMain(m *testing.M) {
	if s := os.Getenv("VERIF_C14_CRASH"); s != "" {
		crashMain(s)
	}
	if out := os.Getenv("VERIF_C14_MONITOR"); out != "" {
		// this process is the crash monitor: stdin is the pipe from the "parent"
		crashmonitor.VRunChild(func(name string) {
			f, err := os.OpenFile(out, os.O_WRONLY|os.O_CREATE|os.O_APPEND, 0666)
			if err == nil {
				fmt.Fprintf(f, "%q\n", name)
				f.Close()
			}
		})
		os.Exit(4) // not reached
	}
	os.Exit(m.Run())
}

// --------------------------------------------------- independent classifier

var (
	reSentVal = regexp.MustCompile(`^[0-9a-fA-F]{1,16}$`)
	reHexPC   = regexp.MustCompile(`^0x[0-9a-f]{1,16}$`)
	reElided  = regexp.MustCompile(`^\.\.\.[0-9]+ frames elided\.\.\.$`)
)

// classify abstracts arbitrary text into CrashParse lines.  It is written from
// the traceback grammar; whatever it cannot tell apart becomes "amb".
func classify(text string, vt *valueTable) (attrs []attr, vid []int, cleanSentinel bool) {
	lines := strings.Split(text, "\n")
	child := crashmonitor.VSentinel()
	// the sentinel used for relocation: the first well-formed non-zero one
	var first uint64
	for i, ln := range lines {
		if rest, ok := strings.CutPrefix(ln, "sentinel "); ok && reSentVal.MatchString(rest) {
			if first, _ = strconv.ParseUint(rest, 16, 64); first != 0 {
				// the parent's sentinel is the first line of the report: only then is
				// it certain how the PCs must be relocated
				cleanSentinel = i == 0
				break
			}
		}
	}
	for _, ln := range lines {
		a := attr{S: "text", PC: "none"}
		id := 0
		switch {
		case ln == "":
			a.S = "blank"
		case strings.HasPrefix(ln, "sentinel "):
			rest := ln[len("sentinel "):]
			switch {
			case reSentVal.MatchString(rest):
				v, _ := strconv.ParseUint(rest, 16, 64)
				switch {
				case v == 0:
					a.S = "sent0"
				case v == first:
					a.S = "sent1"
				default:
					a.S = "sent2"
				}
			case rest == "" || !strings.ContainsAny(rest[:1], "0123456789abcdefABCDEF+-"):
				a.S = "sentbad"
			default:
				a.S = "amb"
			}
		case strings.HasPrefix(ln, "goroutine "):
			switch {
			case strings.Contains(ln, " [running]:"):
				a.S = "run"
			case !strings.Contains(ln, "running"):
				a.S = "other"
			default:
				a.S = "amb"
			}
		case strings.HasPrefix(ln, "created by "):
			a.S = "created"
		case reElided.MatchString(ln):
			a.S = "elided"
		case strings.Contains(ln, "elided"):
			a.S = "amb"
		}
		// symbol attributes: the first "(" not directly after a "."
		sym := -1
		for i := 0; i < len(ln); i++ {
			if ln[i] == '(' && (i == 0 || ln[i-1] != '.') {
				sym = i
				break
			}
		}
		switch {
		case sym >= 0:
			a.Paren = true
			a.Sig = ln[:sym] == "runtime.sigpanic"
			if !a.Sig && strings.Contains(ln, "sigpanic") && a.S == "text" {
				a.S = "amb"
			}
		case strings.Contains(ln, "(") && a.S == "text":
			a.S = "amb"
		}
		// pc attribute: the last " pc=" field
		if k := strings.LastIndex(ln, " pc="); k >= 0 {
			field := ln[k+4:]
			v, err := strconv.ParseUint(field, 0, 64)
			switch {
			case err != nil:
				a.PC = "bad"
			default:
				var res bool
				id, res = vt.add(v - first + child)
				switch {
				case !reHexPC.MatchString(field) || !res || first == 0:
					a.PC = "huge" // a number, but not a clean code address of this binary
				case strings.Count(ln, " pc=") > 1:
					a.PC = "okpath"
				default:
					a.PC = "ok"
				}
			}
		}
		attrs = append(attrs, a)
		vid = append(vid, id)
	}
	return attrs, vid, cleanSentinel
}

// ------------------------------------------------------------ mutations

func mutateLines(text string, rng *rand.Rand) string {
	lines := strings.Split(text, "\n")
	n := 1 + rng.Intn(3)
	for ; n > 0 && len(lines) > 1; n-- {
		p := rng.Intn(len(lines))
		switch rng.Intn(14) {
		case 12, 13: // a symbol line of the first running goroutine loses its "(" (the
			// name alone, or followed by other text); its location line is kept
			h := -1
			for i, l := range lines {
				if strings.HasPrefix(l, "goroutine ") && strings.Contains(l, " [running]:") {
					h = i
					break
				}
			}
			if h < 0 {
				break
			}
			e := h + 1
			for e < len(lines) && lines[e] != "" && !strings.HasPrefix(lines[e], "created by ") {
				e++
			}
			if n := (e - h - 1) / 2; n > 0 {
				k := []int{0, n / 2, n - 1, rng.Intn(n)}[rng.Intn(4)] // first, middle, last, any frame
				i := h + 1 + 2*k
				name := lines[i]
				if j := strings.Index(name, "("); j >= 0 {
					name = name[:j]
				}
				name = strings.NewReplacer("(", "", ")", "").Replace(name)
				lines[i] = []string{name, name + " [secret-user-text]", "text instead of a symbol", "x"}[rng.Intn(4)]
			}
		case 10: // unpair the first running goroutine (drop one of its lines) and shift
			// the lines of the next goroutine whose header has a "(" by one as well
			h := -1
			for i, l := range lines {
				if strings.HasPrefix(l, "goroutine ") && strings.Contains(l, " [running]:") {
					h = i
					break
				}
			}
			if h < 0 {
				break
			}
			e := h + 1
			for e < len(lines) && lines[e] != "" && !strings.HasPrefix(lines[e], "created by ") {
				e++
			}
			if e-h > 2 {
				d := h + 1 + rng.Intn(e-h-1)
				lines = append(lines[:d], lines[d+1:]...)
				for i := e; i+1 < len(lines); i++ {
					if strings.HasPrefix(lines[i], "goroutine ") && strings.Contains(lines[i], "(") {
						lines = append(lines[:i+1], lines[i+2:]...)
						break
					}
				}
			}
		case 9: // a symbol line loses its symbol: it now begins with "("
			if k := strings.Index(lines[p], "("); k > 0 && !strings.HasPrefix(lines[p], "\t") && !strings.HasPrefix(lines[p], "goroutine") {
				lines[p] = lines[p][k:]
			}
		case 0: // delete
			lines = append(lines[:p], lines[p+1:]...)
		case 1: // duplicate
			lines = append(lines[:p+1], lines[p:]...)
		case 2: // swap with next
			if p+1 < len(lines) {
				lines[p], lines[p+1] = lines[p+1], lines[p]
			}
		case 3: // truncate the report
			lines = lines[:p+1]
			if rng.Intn(2) == 0 && len(lines[p]) > 0 {
				lines[p] = lines[p][:rng.Intn(len(lines[p]))]
			}
		case 4: // insert a filler line
			f := append(append([]string{}, textAny...), "", "goroutine 77 [running]:", "goroutine 78 [sleep]:", "created by x",
				"sentinel 1234", "runtime.sigpanic()", "main.f(0x1)", "\t/x/y.go:1 +0x1 fp=0x1 sp=0x1 pc=0x401000",
				"(", "()", "(0x1, 0x2)", "(*T).m(0x1)", ".(", "x.(", "x", "((",
				fmt.Sprintf("sentinel %x", crashmonitor.VSentinel()+1), fmt.Sprintf("sentinel %x", crashmonitor.VSentinel()+2),
				fmt.Sprintf("sentinel %x", crashmonitor.VSentinel()-1), fmt.Sprintf("sentinel %x", crashmonitor.VSentinel()),
				fmt.Sprintf("sentinel %x", crashmonitor.VSentinel()+0x10), "sentinel 0", "sentinel zz")
			lines = append(lines[:p], append([]string{f[rng.Intn(len(f))]}, lines[p:]...)...)
		case 5: // put " pc=" or other meaningful words into the line's path / text
			w := []string{" pc=", " pc=0x12 ", "(", "goroutine ", " [running]:", "sentinel ", "created by ", "."}[rng.Intn(8)]
			if len(lines[p]) > 2 {
				k := 1 + rng.Intn(len(lines[p])-1)
				lines[p] = lines[p][:k] + w + lines[p][k:]
			}
		case 6: // replace a symbol by sigpanic or the reverse
			if strings.HasPrefix(lines[p], "runtime.sigpanic(") {
				lines[p] = "main.notsigpanic()"
			} else if !strings.HasPrefix(lines[p], "\t") && strings.Contains(lines[p], "(") && !strings.HasPrefix(lines[p], "goroutine") {
				lines[p] = "runtime.sigpanic()"
			}
		case 7: // drop the pc of a location line (as for an inlined call)
			if k := strings.Index(lines[p], " fp="); k > 0 && strings.HasPrefix(lines[p], "\t") {
				lines[p] = lines[p][:k]
			}
		case 11: // every line ends in CR LF
			for i := range lines {
				lines[i] += "\r"
			}
		case 8: // remove a blank line (merges goroutines)
			for q := p; q < len(lines); q++ {
				if lines[q] == "" {
					lines = append(lines[:q], lines[q+1:]...)
					break
				}
			}
		}
	}
	return strings.Join(lines, "\n")
}

func mutateBytes(text string, rng *rand.Rand) string {
	b := []byte(text)
	for n := 1 + rng.Intn(4); n > 0 && len(b) > 0; n-- {
		p := rng.Intn(len(b))
		switch rng.Intn(4) {
		case 0:
			b[p] ^= 1 << uint(rng.Intn(8))
		case 1:
			b[p] = "\n (.)=x0 \t\"[]:"[rng.Intn(14)]
		case 2:
			b = append(b[:p], b[p+1:]...)
		case 3:
			b = append(b[:p], append([]byte{byte(rng.Intn(256))}, b[p:]...)...)
		}
	}
	return string(b)
}

func randomBytes(rng *rand.Rand) string {
	words := []string{"sentinel ", "goroutine ", " [running]:", "\n", "\n", "\n\n", "created by ", " pc=", "0x", "(", ")", ".", "runtime.sigpanic",
		"\t", " ", "4a5b6c", "ffffffffffffffff", "0", "1", "x", "\x00", "\xff", "\"", "main.f", "/a/b.go:12", " +0x1d", " fp=0x1 sp=0x2", "é", "\r"}
	var sb strings.Builder
	for n := rng.Intn(60); n > 0; n-- {
		if rng.Intn(6) == 0 {
			sb.WriteByte(byte(rng.Intn(256)))
		} else {
			sb.WriteString(words[rng.Intn(len(words))])
		}
	}
	return sb.String()
}

// TestVerifC14Real: genuine crashes of this executable, their mutations, and
// random byte strings.
func TestVerifC14Real(t *testing.T) {
	defer rt.Flush()
	var in struct {
		Mutations int   `json:"mutations"`
		Bytes     int   `json:"bytes"`
		Show      []int `json:"show"`
	}
	if err := rt.In(&in); err != nil {
		t.Skip(err)
	}
	show := map[int]bool{}
	for _, id := range in.Show {
		show[id] = true
	}
	exe, err := os.Executable()
	if err != nil {
		t.Fatal(err)
	}
	dir := t.TempDir()
	id := 0
	emit := func(src, text string, extra rt.M) {
		id++
		if len(in.Show) > 0 && !show[id] {
			return
		}
		vt := newValueTable()
		attrs, vid, clean := classify(text, vt)
		o := observe([]byte(text), vt)
		if !clean && o.Kind == "other" && strings.HasPrefix(o.raw, crashPrefix+"\n") {
			// without exactly one clean sentinel line the harness does not know
			// how the PCs were relocated and cannot read the name back
			o.amb = true
		}
		rec := recordOf(src, id, attrs, vid, []outcome{o})
		for k, v := range extra {
			rec[k] = v
		}
		// the genuine texts differ from run to run (addresses, goroutines), so
		// records that may need explaining carry their text themselves
		if show[id] || (o.Kind != "err" && o.Kind != "nogo" && o.Kind != "name") || strings.Count(text, "sentinel ") > 1 {
			tx := text
			if len(tx) > 20000 {
				tx = tx[:20000] + "..."
			}
			rec["texts"], rec["details"] = []string{tx}, []rt.M{detail(o)}
		}
		rt.Out(rec)
	}
	var genuine []string
	for _, s := range scenarios {
		expFile := filepath.Join(dir, s+".expect")
		cmd := exec.Command(exe)
		cmd.Env = append(os.Environ(), "VERIF_C14_CRASH="+s, "VERIF_C14_EXPECT="+expFile, "GOTRACEBACK=system")
		var stderr bytes.Buffer
		cmd.Stderr = &stderr
		cmd.Run() // fails by design
		text := stderr.String()
		expData, _ := os.ReadFile(expFile)
		if !strings.Contains(text, "goroutine ") || (len(expData) == 0 && !noOracle[s]) {
			rt.Out(rt.M{"kind": "real", "scenario": s, "infra": "the helper did not crash as planned", "stderr": text})
			continue
		}
		// differential oracle: frames below runtime.gopanic
		exp := strings.Split(string(expData), "\n")
		expTail := exp
		for i, ln := range exp {
			if strings.HasPrefix(ln, "runtime.gopanic:") {
				expTail = exp[i+1:]
				break
			}
		}
		name, nerr, pan, hung := runName([]byte(text))
		rec := rt.M{"kind": "real", "scenario": s, "oracle": !noOracle[s], "running": strings.Contains(text, " [running]:\n"), "elided": strings.Contains(text, "frames elided..."),
			"locked": strings.Contains(text, "locked to thread]:"), "lines": strings.Count(text, "\n")}
		switch {
		case hung:
			rec["result"] = "hang"
		case pan != "":
			rec["result"], rec["panic"] = "panic", pan
		case nerr != nil:
			rec["result"], rec["err"] = "err", nerr.Error()
		case !strings.HasPrefix(name, crashPrefix+"\n"):
			rec["result"], rec["name"] = "fixed", name
		default:
			const marker = "\ntruncated\n"
			body, cut := name, false
			if strings.HasSuffix(name, marker) { // did not fit the size limit: complete lines before the cut
				cut = true
				body = name[:len(name)-len(marker)]
				if k := strings.LastIndex(body, "\n"); k >= len(crashPrefix) {
					body = body[:k]
				}
			}
			got := expand(body)[1:]
			gotTail := got
			for i, ln := range got {
				if strings.HasPrefix(ln, "runtime.gopanic:") {
					gotTail = got[i+1:]
					break
				}
			}
			ok := len(gotTail) > 0 && len(gotTail) <= len(expTail)
			for i := 0; ok && i < len(gotTail); i++ {
				ok = gotTail[i] == expTail[i]
			}
			// a shorter name is legitimate only through the 16-PC cap
			if ok && len(gotTail) < len(expTail) && len(got) < 16 && !cut {
				ok = false
			}
			if noOracle[s] {
				ok = len(got) > 0 // which frames: decided by TLC on the abstracted text
			}
			rec["cut"] = cut
			rec["result"], rec["frames_ok"] = "name", ok
			rec["got"], rec["want"] = got, exp
			rec["len"] = len(name)
		}
		if rec["result"] != "name" || rec["frames_ok"] != true {
			tx := text
			if len(tx) > 6000 {
				tx = tx[:6000] + "..."
			}
			rec["text"] = tx
		}
		rt.Out(rec)
		if !strings.Contains(text, "locked to thread]:") {
			genuine = append(genuine, text)
			emit("genuine", text, rt.M{"scenario": s})
		}
	}
	if len(genuine) == 0 {
		rt.Out(rt.M{"kind": "summary", "genuine": 0})
		return
	}
	rng := rand.New(rand.NewSource(rt.Seed()*104729 + 5))
	for i := 0; i < in.Mutations; i++ {
		g := genuine[rng.Intn(len(genuine))]
		if rng.Intn(3) == 0 {
			emit("mutated-bytes", mutateBytes(g, rng), nil)
		} else {
			emit("mutated-lines", mutateLines(g, rng), nil)
		}
	}
	// sizes and shapes at the edge: nothing, one line, only structure words
	for _, tx := range []string{"", "\n", "\n\n", "sentinel", "sentinel ", "sentinel 1", "goroutine ", "goroutine 1 [running]:",
		fmt.Sprintf("sentinel %x", crashmonitor.VSentinel()), fmt.Sprintf("sentinel %x\ngoroutine 1 [running]:", crashmonitor.VSentinel()),
		fmt.Sprintf("sentinel %x\ngoroutine 1 [running]:\n", crashmonitor.VSentinel()), fmt.Sprintf("sentinel %x\ngoroutine 1 [running]:\n(", crashmonitor.VSentinel()),
		"created by ", "(", " pc=", "\xff", "\x00"} {
		emit("bytes", tx, nil)
	}
	for i := 0; i < in.Bytes; i++ {
		emit("bytes", randomBytes(rng), nil)
	}
	// very large inputs (not given to TLC: totality and the length bound only)
	if len(in.Show) == 0 {
		hdr := fmt.Sprintf("sentinel %x\npanic: x\n\ngoroutine 1 [running]:\n", crashmonitor.VSentinel())
		frame := fmt.Sprintf("main.f(0x1)\n\t/x/y.go:1 +0x1 fp=0x1 sp=0x2 pc=0x%x\n", markerPCsOnce()[0])
		for i, tx := range []string{strings.Repeat("x", 4<<20), strings.Repeat("\n", 1<<20), hdr + strings.Repeat("main.f(0x1)\n\t/x/y.go:1\n", 200000),
			hdr + strings.Repeat("(", 1<<20), hdr + "main.f(" + strings.Repeat("a", 4<<20) + ")\n\t" + strings.Repeat("/p", 1<<20) + ".go:1 pc=0x1\n",
			strings.Repeat(hdr, 50000), hdr + strings.Repeat(frame, 100000), hdr + "main.f()\n\t/x.go:1 pc=0x" + strings.Repeat("f", 1<<20)} {
			name, nerr, pan, hung := runName([]byte(tx))
			res := "ok"
			switch {
			case hung:
				res = "hang"
			case pan != "":
				res = "panic"
			case nerr == nil && len(name) > maxNameLen:
				res = "toolong"
			}
			rt.Out(rt.M{"kind": "big", "i": i, "bytes": len(tx), "result": res, "panic": pan, "namelen": len(name)})
		}
	}
	rt.Out(rt.M{"kind": "summary", "genuine": len(genuine), "records": id, "hung": hungOnce})
}
