//go:build verif

// Package c10 binds FileFormatPlace.tla / FileFormatOps.tla (property C10:
// written counter files conform to the documented v1 format) to the real
// internal/counter package.
package c10

import (
	"bytes"
	"encoding/binary"
	"encoding/hex"
	"fmt"
	"math/rand"
	"os"
	"path/filepath"
	"runtime"
	"runtime/debug"
	"sort"
	"strings"
	"testing"
	"time"

	"golang.org/x/telemetry/internal/counter"
	"golang.org/x/telemetry/internal/telemetry"
	rt "golang.org/x/telemetry/internal/verifrt"
)

// ---------------------------------------------------------------- vectors

type vec struct {
	Kind string `json:"kind"`
	X    []int  `json:"x"`
	Y    []int  `json:"y"`
}

func bytesOf(x []int) string {
	b := make([]byte, len(x))
	for i, v := range x {
		b[i] = byte(v)
	}
	return string(b)
}

// wantHeader is the header the documentation describes, built independently.
func wantHeader(meta string) []byte {
	n := rt.V1HeaderLen(meta)
	h := make([]byte, n)
	copy(h, rt.V1Prefix)
	binary.LittleEndian.PutUint32(h[28:], n)
	copy(h[32:], meta)
	return h
}

func randMeta(rng *rand.Rand, n int) string {
	b := make([]byte, n)
	for i := range b {
		switch rng.Intn(6) {
		case 0:
			b[i] = byte(rng.Intn(256))
		case 1:
			b[i] = "\n: \x00"[rng.Intn(4)]
		default:
			b[i] = byte('a' + rng.Intn(26))
		}
	}
	return string(b)
}

// TestVerifC10Vec replays the place / hash / header vectors TLC enumerated
// into the real functions, then records the real outputs on a sweep of its
// own (a whole page period of limits x name lengths, random names, every
// metadata length) for validation by TLC.
func TestVerifC10Vec(t *testing.T) {
	defer rt.Flush()
	var in struct {
		Vectors    []vec `json:"vectors"`
		SweepLens  []int `json:"sweep_lens"`   // name lengths of the recorded sweep
		SweepFrom  int   `json:"sweep_from"`   // first limit unit
		SweepTo    int   `json:"sweep_to"`     // last limit unit
		HdrLens    []int `json:"hdr_lens"`     // header lengths for limit 0 rows
		SweepLensU []int `json:"sweep_lens_u"` // name lengths for the unaligned limits
		ByteFrom   int   `json:"byte_from"`    // unaligned limits: every byte value in [ByteFrom, ByteTo)
		ByteTo     int   `json:"byte_to"`
		RandNames  int   `json:"rand_names"`
	}
	if err := rt.In(&in); err != nil {
		t.Skip(err)
	}
	rng := rand.New(rand.NewSource(rt.Seed()))
	n, bad := 0, 0
	mism := func(m rt.M) {
		bad++
		if bad <= 30 {
			m["kind"] = "mismatch"
			rt.Out(m)
		}
	}
	big := make([]byte, 5000)
	for i := range big {
		big[i] = byte(rng.Intn(256))
	}
	for _, v := range in.Vectors {
		n++
		switch v.Kind {
		case "place":
			s, e := counter.VPlace(uint32(v.X[0]), uint32(v.X[1]), string(big[:v.X[2]]))
			if int(s) != v.Y[0] || int(e) != v.Y[1] {
				// not what the documented allocator gives: TLC decides whether the layout still allows it
				mism(rt.M{"what": "place", "x": v.X, "want": v.Y, "got": []uint32{s, e}})
				if bad <= 400 {
					rt.Out(rt.M{"kind": "place", "from": "vector", "h": v.X[0], "limit": v.X[1], "ns": []int{v.X[2]}, "starts": []uint32{s}, "ends": []uint32{e}})
				}
			}
		case "hash":
			name := bytesOf(v.X)
			if h := counter.VHash(name); int(h) != v.Y[0] {
				x := v.X
				if len(x) > 16 {
					x = x[:16]
				}
				mism(rt.M{"what": "hash", "x": x, "len": len(v.X), "want": v.Y[0], "got": h})
			}
			if h := rt.V1Hash(name); int(h) != v.Y[0] {
				rt.Out(rt.M{"kind": "infra", "what": "independent hash disagrees with the specification", "len": len(v.X), "want": v.Y[0], "got": h})
			}
		case "hdr":
			meta := randMeta(rng, v.X[0])
			hdr, err := counter.VMappedHeader(meta)
			switch {
			case v.Y[0] < 0:
				if err == nil {
					mism(rt.M{"what": "hdr", "x": v.X, "want": "refused", "got": len(hdr)})
				}
			case err != nil:
				mism(rt.M{"what": "hdr", "x": v.X, "want": v.Y[0], "got": "error " + err.Error()})
			case len(hdr) != v.Y[0]:
				mism(rt.M{"what": "hdr", "x": v.X, "want": v.Y[0], "got": len(hdr)})
			case !bytes.Equal(hdr, wantHeader(meta)):
				mism(rt.M{"what": "hdr-bytes", "x": v.X, "want": hex.EncodeToString(wantHeader(meta)[:40]), "got": hex.EncodeToString(hdr[:40])})
			}
		}
	}
	rt.Out(rt.M{"kind": "summary", "evaluated": n, "mismatches": bad})

	// code -> model
	nobs := 0
	row := func(h, limit int) {
		starts := make([]uint32, len(in.SweepLens))
		ends := make([]uint32, len(in.SweepLens))
		for i, nl := range in.SweepLens {
			starts[i], ends[i] = counter.VPlace(uint32(h), uint32(limit), string(big[:nl]))
		}
		nobs += len(in.SweepLens)
		rt.Out(rt.M{"kind": "place", "h": h, "limit": limit, "ns": in.SweepLens, "starts": starts, "ends": ends})
	}
	for _, h := range in.HdrLens {
		row(h, 0)
	}
	for u := in.SweepFrom; u <= in.SweepTo; u++ {
		row(32, 32*u)
	}
	// limits that are not multiples of 32 (a foreign writer's exact record end): every byte value of the range
	save := in.SweepLens
	in.SweepLens = in.SweepLensU
	for l := in.ByteFrom; l < in.ByteTo; l++ {
		if l%32 != 0 {
			row(32, l)
		}
	}
	in.SweepLens = save
	for i := 0; i < in.RandNames; i++ {
		var l int
		switch rng.Intn(100) {
		case 0:
			l = 4096 - rng.Intn(3)
		case 1, 2, 3:
			l = 1 + rng.Intn(600)
		default:
			if l = 1 + rng.Intn(4); rng.Intn(2) == 0 {
				l = 1 + rng.Intn(40)
			}
		}
		s := make([]int, l)
		b := make([]byte, l)
		for j := range s {
			c := rng.Intn(256)
			if rng.Intn(3) == 0 {
				c = []int{0, 255, 10, 34, 46, 128}[rng.Intn(6)]
			}
			s[j], b[j] = c, byte(c)
		}
		nobs++
		rt.Out(rt.M{"kind": "hash", "s": s, "b": counter.VHash(string(b))})
	}
	for m := 0; m <= 520; m++ {
		hdr, err := counter.VMappedHeader(randMeta(rng, m))
		h := len(hdr)
		if err != nil {
			h = -1
		}
		nobs++
		rt.Out(rt.M{"kind": "hdr", "m": m, "h": h})
	}
	rt.Out(rt.M{"kind": "summary2", "observations": nobs})
}

// ------------------------------------------------------------------ names

type nameReq struct {
	ID    int `json:"id"`
	NLen  int `json:"nlen"`
	Group int `json:"group"` // names of one group share a hash bucket
	Want  int `json:"want"`  // bucket wanted for the group's first name (-1: any)
}

func randName(rng *rand.Rand, n int) []byte {
	b := make([]byte, n)
	style := rng.Intn(3)
	for i := range b {
		switch {
		case style == 0:
			b[i] = byte('a' + rng.Intn(26))
		case style == 1 && rng.Intn(4) > 0:
			b[i] = "abc/.:+\n\"-_0123456789"[rng.Intn(21)]
		default:
			b[i] = byte(rng.Intn(256))
		}
	}
	return b
}

// nameInBucket returns a random name of length n whose independent hash is
// bucket (any bucket if bucket < 0).
func nameInBucket(rng *rand.Rand, n, bucket int, taken map[string]bool) ([]byte, bool) {
	for try := 0; try < 400000; try++ {
		b := randName(rng, n)
		if taken[string(b)] {
			continue
		}
		if bucket < 0 || int(rt.V1Hash(string(b))) == bucket {
			return b, true
		}
	}
	return nil, false
}

// TestVerifC10Names makes the catalogue of concrete names (random bytes of
// the requested lengths; the names of a group collide in the hash table).
func TestVerifC10Names(t *testing.T) {
	defer rt.Flush()
	var in struct {
		Names []nameReq `json:"names"`
	}
	if err := rt.In(&in); err != nil {
		t.Skip(err)
	}
	rng := rand.New(rand.NewSource(rt.Seed()*7919 + 1))
	groupBucket := map[int]int{}
	taken := map[string]bool{}
	// leaders first: the shortest name of each group fixes the bucket
	reqs := append([]nameReq(nil), in.Names...)
	sort.SliceStable(reqs, func(i, j int) bool { return reqs[i].NLen < reqs[j].NLen })
	for _, r := range reqs {
		want, ok := groupBucket[r.Group]
		if !ok {
			want = -1
			if r.NLen >= 2 {
				want = r.Want
			}
		}
		var b []byte
		found := false
		if r.NLen >= 2 || want < 0 {
			b, found = nameInBucket(rng, r.NLen, want, taken)
		}
		if !found { // a one-byte name cannot be steered: it gets its own bucket
			b, _ = nameInBucket(rng, r.NLen, -1, taken)
		}
		taken[string(b)] = true
		h := int(rt.V1Hash(string(b)))
		if !ok {
			groupBucket[r.Group] = h
		}
		rt.Out(rt.M{"kind": "name", "id": r.ID, "nlen": r.NLen, "b": h, "hex": hex.EncodeToString(b)})
	}
}

// ------------------------------------------------------------- operations

type mrec struct {
	Off  int   `json:"off"`
	NLen int   `json:"nlen"`
	Next int   `json:"next"`
	ID   int   `json:"id"`
	Val  int64 `json:"val"`
	B    int   `json:"b"`
}

type mstate struct {
	MetaLen int         `json:"metaLen"`
	HdrLen  int         `json:"hdrLen"`
	Size    int         `json:"size"`
	Limit   int         `json:"limit"`
	Heads   map[int]int `json:"-"`
	HeadsL  [][2]int    `json:"heads"` // [b, off]
	Recs    []mrec      `json:"recs"`
}

type step struct {
	Op    string `json:"op"`
	A     string `json:"a"`
	ID    int    `json:"id"`
	K     int64  `json:"k"`
	M     int    `json:"m"`
	X     int    `json:"x"`
	State mstate `json:"state"`
}

type behaviour struct {
	ID    int    `json:"id"`
	Steps []step `json:"steps"`
}

const (
	timeBegin = "2024-01-03T00:00:00Z"
	timeEnd   = "2024-01-07T00:00:00Z" // weekends file says 0 (Sunday)
	goVers    = "go1.23.5"
)

var fixedNow = time.Date(2024, 1, 3, 10, 0, 0, 0, time.UTC)

// world is one telemetry directory with one counter file, the library
// writers attached to it and the expected metadata.
type world struct {
	t        *testing.T
	dir      string
	rng      *rand.Rand
	digit    byte
	naliens  int
	bi       *debug.BuildInfo
	meta     string
	path     string
	lib      map[string]*counter.VFile
	ctrs     map[string]map[string]*counter.Counter
	problems []string
}

// buildInfoFor returns build info whose metadata block is exactly m bytes.
// host is the first path element, digit the last character of the program's
// base name (the only part of the path that goes into the file name).
func buildInfoFor(rng *rand.Rand, m int, host string, digit byte) (*debug.BuildInfo, string, bool) {
	vers := "v1.2.3"
	goos, goarch := osArch()
	base := len(rt.V1Meta(timeBegin, timeEnd, "", vers, goVers, goos, goarch))
	pad := m - base
	if pad < 8 {
		return nil, "", false
	}
	// program path: "<host>/<pad>/p<k>"
	prog := []byte(host + "/")
	for len(prog) < pad-3 {
		c := byte('a' + rng.Intn(26))
		if rng.Intn(9) == 0 && len(prog) > 6 && prog[len(prog)-1] != '/' {
			c = "/: -_"[rng.Intn(5)]
		}
		prog = append(prog, c)
	}
	if prog[len(prog)-1] == '/' {
		prog[len(prog)-1] = 'z'
	}
	prog = append(prog, '/', 'p', digit)
	bi := &debug.BuildInfo{GoVersion: goVers, Path: string(prog)}
	bi.Main.Version = vers
	meta := rt.V1Meta(timeBegin, timeEnd, string(prog), vers, goVers, goos, goarch)
	return bi, meta, len(meta) == m
}

func newWorld(t *testing.T, rng *rand.Rand, m int) (*world, error) {
	digit := byte('0' + rng.Intn(10))
	bi, meta, ok := buildInfoFor(rng, m, "x.io", digit)
	if !ok {
		return nil, fmt.Errorf("cannot build metadata of length %d", m)
	}
	dir := t.TempDir()
	telemetry.Default = telemetry.NewDir(dir)
	if err := os.MkdirAll(telemetry.Default.LocalDir(), 0777); err != nil {
		return nil, err
	}
	if err := os.WriteFile(filepath.Join(telemetry.Default.LocalDir(), "weekends"), []byte("0\n"), 0666); err != nil {
		return nil, err
	}
	counter.CounterTime = func() time.Time { return fixedNow }
	return &world{t: t, dir: dir, rng: rng, digit: digit, bi: bi, meta: meta, lib: map[string]*counter.VFile{}, ctrs: map[string]map[string]*counter.Counter{}}, nil
}

func (w *world) findFile() string {
	if w.path != "" {
		return w.path
	}
	ents, _ := os.ReadDir(telemetry.Default.LocalDir())
	for _, e := range ents {
		if strings.HasSuffix(e.Name(), ".v1.count") {
			w.path = filepath.Join(telemetry.Default.LocalDir(), e.Name())
		}
	}
	return w.path
}

// open attaches library writer a (a fresh mapping of the file).
func (w *world) open(a string) error {
	v := &counter.VFile{}
	v.SetBuildInfo(w.bi)
	v.Rotate1()
	if err := v.Err(); err != nil {
		return err
	}
	if !v.HasCurrent() {
		return fmt.Errorf("no current file after rotate")
	}
	w.lib[a] = v
	w.ctrs[a] = map[string]*counter.Counter{}
	if w.path == "" {
		w.path = v.CurrentName()
	}
	return nil
}

func (w *world) closeAll() {
	for _, v := range w.lib {
		v.Close()
	}
}

// createInd makes the file with the independent writer, at the path the
// library uses for this build info and date.
func (w *world) createInd() error {
	// the documented file name: <prog>@<version>-<go version>-<os>-<arch>-<date>.v1.count
	goos, goarch := osArch()
	base := fmt.Sprintf("%s@%s-%s-%s-%s-%s.v1.count", filepath.Base(w.bi.Path), w.bi.Main.Version, goVers, goos, goarch, "2024-01-03")
	data, err := rt.WriteV1(w.meta, nil)
	if err != nil {
		return err
	}
	w.path = filepath.Join(telemetry.Default.LocalDir(), base)
	return os.WriteFile(w.path, data, 0666)
}

// add performs one increment by actor a ("ind" = independent writer).
func (w *world) add(a string, name []byte, k int64) error {
	if a == "ind" || a == "indx" {
		return indAddx(w.path, string(name), uint64(k), a == "indx")
	}
	if w.lib[a] == nil {
		if err := w.open(a); err != nil {
			return err
		}
	}
	c := w.ctrs[a][string(name)]
	if k == 3 {
		c = nil // a second Counter value for the same name in the same process: it must find the record, not make one
	}
	if c == nil {
		c = w.lib[a].New(string(name))
		w.ctrs[a][string(name)] = c
	}
	c.Add(k)
	return nil
}

// alien is another program whose counter file has the same name (same base
// name, version, toolchain, platform and date) but whose metadata differs
// (another import path; m = length of its metadata block): it opens the file
// and uses a counter twice.  Whether the open succeeds is not judged here;
// what it does to the file is.
func (w *world) alien(m int, name []byte) error {
	bi, meta, ok := buildInfoFor(w.rng, m, "y.io", w.digit)
	if !ok || meta == w.meta {
		return fmt.Errorf("cannot build different metadata of length %d", m)
	}
	v := &counter.VFile{}
	v.SetBuildInfo(bi)
	v.Rotate1()
	w.naliens++
	w.lib[fmt.Sprintf("alien%d", w.naliens)] = v // closed with the others
	c := v.New(string(name))
	c.Add(1)
	c.Add(1)
	return nil
}

// race: library writer a (mapping just refreshed) creates the new name nm
// while the independent writer creates x at the moment a re-maps the file it
// has just extended, i.e. between a's lookup/reservation attempt and the
// linking of a's record.  fired reports whether that moment occurred.
func (w *world) race(a string, nm, x []byte, k int64) (fired bool, err error) {
	if err := w.reopen(a); err != nil {
		return false, err
	}
	var herr error
	restore := counter.C10HookMemmap(func() { herr = indAdd(w.path, string(x), 1) })
	err = w.add(a, nm, k)
	fired = restore()
	if err == nil {
		err = herr
	}
	if err == nil && !fired { // the file did not have to grow: the two additions simply follow each other
		err = indAdd(w.path, string(x), 1)
	}
	return fired, err
}

// leftover puts what an interrupted creation leaves behind at the place of
// the counter file: an empty file (created, nothing written yet) or only the
// header (the write that extends the file to a page did not happen).
func (w *world) leftover(kind int) error {
	if err := w.createInd(); err != nil {
		return err
	}
	n := int64(0)
	if kind == 1 {
		n = int64(rt.V1HeaderLen(w.meta))
	}
	return os.Truncate(w.path, n)
}

// stackInc increments a stack counter through the library's own API (the
// record name is whatever EncodeStack makes of this call site: newlines, dots,
// ditto marks) and returns that name.
func (w *world) stackInc(a string) ([]byte, error) {
	if w.lib[a] == nil {
		if err := w.open(a); err != nil {
			return nil, err
		}
	}
	sc := w.lib[a].NewStack("c10/stack", 4)
	sc.Inc()
	names := sc.Names()
	if len(names) != 1 {
		return nil, fmt.Errorf("stack counter has %d names", len(names))
	}
	return []byte(names[0]), nil
}

func (w *world) reopen(a string) error {
	if a == "ind" || a == "indx" {
		return nil
	}
	if v := w.lib[a]; v != nil {
		v.Close()
	}
	return w.open(a)
}

// layoutProblems returns the problems the independent decoder finds, without
// the two that only say "the allocation limit is not a multiple of 32": the
// layout documents the limit as the byte offset of the end of the counter
// records, and a writer may store the exact, unrounded end of its last record
// (rt.DecodeV1 compares with the rounded end).
func layoutProblems(f *rt.V1File) []string {
	first := f.HdrLen + 4 + 4*512
	var out []string
	for _, p := range f.Problems {
		if strings.HasPrefix(p, "limit ") && strings.HasSuffix(p, " malformed") && f.Limit >= first {
			continue
		}
		if strings.HasPrefix(p, "record ") && strings.Contains(p, " above limit ") && f.Limit != 0 {
			var off uint32
			if _, err := fmt.Sscanf(p, "record 0x%x", &off); err == nil {
				spurious := false
				for _, r := range f.Records {
					if r.Off == off && r.Off+16+uint32(len(r.Name)) <= f.Limit {
						spurious = true
					}
				}
				if spurious {
					continue
				}
			}
		}
		out = append(out, p)
	}
	return out
}

// indAdd is the independent implementation acting as one more writer of the
// file: it touches only the bytes the layout says change.
func indAdd(path, name string, k uint64) error { return indAddx(path, name, k, false) }

// indAddx: with exact set, the writer stores the exact end of a new record
// (the offset of the byte after its name) as the allocation limit, not the
// end rounded to 32.
func indAddx(path, name string, k uint64, exact bool) error {
	data, err := os.ReadFile(path)
	if err != nil {
		return err
	}
	f := rt.DecodeV1(data)
	if pr := layoutProblems(f); len(pr) > 0 {
		return fmt.Errorf("independent writer: file not well-formed: %v", pr)
	}
	fh, err := os.OpenFile(path, os.O_RDWR, 0)
	if err != nil {
		return err
	}
	defer fh.Close()
	le := binary.LittleEndian
	for _, r := range f.Records {
		if r.Name == name {
			var b [8]byte
			le.PutUint64(b[:], r.Value+k)
			_, err := fh.WriteAt(b[:], int64(r.Off))
			return err
		}
	}
	start, end := rt.V1Place(f.HdrLen, f.Limit, len(name))
	if int(end) > len(data) {
		newSize := (int64(end) + rt.V1Page - 1) / rt.V1Page * rt.V1Page
		if _, err := fh.WriteAt([]byte{0, 0, 0, 0}, newSize-4); err != nil {
			return err
		}
	}
	h := rt.V1Hash(name)
	headOff := int64(f.HdrLen) + 4 + 4*int64(h)
	rec := make([]byte, 16+len(name))
	le.PutUint64(rec, k)
	le.PutUint32(rec[8:], uint32(len(name))|0xff000000)
	copy(rec[12:16], data[headOff:headOff+4])
	copy(rec[16:], name)
	if _, err := fh.WriteAt(rec, int64(start)); err != nil {
		return err
	}
	var b [4]byte
	le.PutUint32(b[:], start)
	if _, err := fh.WriteAt(b[:], headOff); err != nil {
		return err
	}
	if exact {
		end = start + 16 + uint32(len(name))
	}
	le.PutUint32(b[:], end)
	_, err = fh.WriteAt(b[:], int64(f.HdrLen))
	return err
}

// observe walks the raw bytes independently and abstracts them.
func (w *world) observe(ids map[string]int) (mstate, *rt.V1File, []byte, error) {
	var st mstate
	data, err := os.ReadFile(w.findFile())
	if err != nil {
		return st, nil, nil, err
	}
	f := rt.DecodeV1(data)
	st.Size, st.HdrLen, st.Limit = f.Size, int(f.HdrLen), int(f.Limit)
	st.MetaLen = len(f.MetaRaw)
	st.Heads = map[int]int{}
	st.HeadsL = [][2]int{}
	st.Recs = []mrec{}
	if f.HdrLen >= 32 && int(f.HdrLen)+4+4*512 <= len(data) {
		for b := 0; b < 512; b++ {
			if off := binary.LittleEndian.Uint32(data[int(f.HdrLen)+4+4*b:]); off != 0 {
				st.Heads[b] = int(off)
				st.HeadsL = append(st.HeadsL, [2]int{b, int(off)})
			}
		}
	}
	for _, r := range f.Records {
		id, ok := ids[r.Name]
		if !ok {
			id = -1
		}
		v := int64(r.Value)
		if r.Value > 1<<30 {
			v = 1 << 30
		}
		st.Recs = append(st.Recs, mrec{Off: int(r.Off), NLen: len(r.Name), Next: int(r.Next), ID: id, Val: v, B: r.Bucket})
	}
	return st, f, data, nil
}

func sortRecs(r []mrec) []mrec {
	r = append([]mrec(nil), r...)
	sort.Slice(r, func(i, j int) bool { return r[i].Off < r[j].Off })
	return r
}

func diffState(want, got mstate) string {
	switch {
	case want.HdrLen != got.HdrLen:
		return "hdrLen"
	case want.MetaLen != got.MetaLen:
		return "metaLen"
	case want.Size != got.Size:
		return "size"
	case want.Limit != got.Limit:
		return "limit"
	}
	if len(want.Heads) != len(got.Heads) {
		return "heads"
	}
	for b, off := range want.Heads {
		if got.Heads[b] != off {
			return "heads"
		}
	}
	a, b := sortRecs(want.Recs), sortRecs(got.Recs)
	if len(a) != len(b) {
		return "recs"
	}
	for i := range a {
		if a[i] != b[i] {
			return "recs"
		}
	}
	return ""
}

// libraryReads checks that the library's own reader gives exactly the
// content the independent walk sees.
func libraryReads(path string, data []byte, f *rt.V1File) string {
	// The library reports stack-shaped names (names containing a newline) in
	// expanded form; that expansion is property C06's subject.  Here names
	// are compared through it, and a file in which the expansion is not
	// injective on the stored names is not compared (random bytes can form
	// such names).
	raw := f.Counts()
	want := map[string]uint64{}
	for k, v := range raw {
		want[counter.DecodeStack(k)] = v
	}
	if len(want) != len(raw) {
		return ""
	}
	for k := range raw {
		if d := counter.DecodeStack(k); d != k {
			if _, clash := raw[d]; clash {
				return ""
			}
		}
	}
	pf, err := counter.Parse(path, data)
	if err != nil {
		return "Parse: " + err.Error()
	}
	if len(pf.Meta) != len(f.Meta) {
		return fmt.Sprintf("Parse: %d metadata keys, independent reader %d", len(pf.Meta), len(f.Meta))
	}
	for k, v := range f.Meta {
		if pf.Meta[k] != v {
			return fmt.Sprintf("Parse: meta %q = %q, independent reader %q", k, pf.Meta[k], v)
		}
	}
	if len(pf.Count) != len(want) {
		return fmt.Sprintf("Parse: %d counters, independent reader %d", len(pf.Count), len(want))
	}
	for k, v := range want {
		if got, ok := pf.Count[k]; !ok || got != v {
			return fmt.Sprintf("Parse: counter %.40q = %d (present %v), independent reader %d", k, got, ok, v)
		}
	}
	return ""
}

func brief(st mstate) rt.M {
	r := sortRecs(st.Recs)
	if len(r) > 12 {
		r = r[len(r)-12:]
	}
	return rt.M{"hdrLen": st.HdrLen, "metaLen": st.MetaLen, "size": st.Size, "limit": st.Limit, "heads": st.HeadsL, "recs_tail": r}
}

// TestVerifC10Ops (1) replays behaviours of FileFormatOps.tla step by step
// into real counter files, comparing the independent walk of the bytes with
// the model state after every step, and (2) runs random operation sequences
// of its own and logs them for validation by TLC.
func TestVerifC10Ops(t *testing.T) {
	defer rt.Flush()
	var in struct {
		Names map[string]struct {
			NLen int    `json:"nlen"`
			B    int    `json:"b"`
			Hex  string `json:"hex"`
		} `json:"names"`
		Behaviours []behaviour `json:"behaviours"`
		Random     int         `json:"random"`     // number of random runs
		RandomLen  int         `json:"random_len"` // operations per run
		MetaLens   []int       `json:"meta_lens"`
		Chains     []int       `json:"chains"` // long-chain runs: this many names in ONE bucket
	}
	if err := rt.In(&in); err != nil {
		t.Skip(err)
	}
	rng := rand.New(rand.NewSource(rt.Seed()*104729 + 3))
	defer func() {
		for i, n := range in.Chains {
			longChain(t, rng, 2000000+i, n, in.MetaLens)
		}
	}()
	names := map[int][]byte{}
	ids := map[string]int{}
	for k, v := range in.Names {
		var id int
		fmt.Sscan(k, &id)
		b, err := hex.DecodeString(v.Hex)
		if err != nil || len(b) != v.NLen {
			t.Fatalf("bad name %s", k)
		}
		names[id] = b
		ids[string(b)] = id
	}
	okB, steps, nbad, ndiv, nraces := 0, 0, 0, 0, 0
	for _, bh := range in.Behaviours {
		var w *world
		good := true
		diverged := false
		fail := func(i int, st step, what string, extra rt.M) {
			good = false
			nbad++
			if nbad > 25 {
				return
			}
			m := rt.M{"kind": "mismatch", "what": what, "id": bh.ID, "step": i, "op": st.Op, "a": st.A, "name": st.ID, "k": st.K, "m": st.M}
			if n, ok := names[st.ID]; ok {
				m["nlen"] = len(n)
			}
			for k, v := range extra {
				m[k] = v
			}
			rt.Out(m)
		}
		for i, st := range bh.Steps {
			st.State.Heads = map[int]int{}
			for _, h := range st.State.HeadsL {
				st.State.Heads[h[0]] = h[1]
			}
			var err error
			switch st.Op {
			case "init":
				continue
			case "create":
				w, err = newWorld(t, rng, st.M)
				if err == nil {
					switch bh.ID % 5 {
					case 1:
						err = w.createInd()
					case 3, 4: // over the remains of an interrupted creation
						if err = w.leftover(bh.ID%5 - 3); err == nil {
							err = w.open("lib1")
						}
					default:
						err = w.open("lib1")
					}
				}
			case "add":
				err = w.add(st.A, names[st.ID], st.K)
			case "reopen":
				err = w.reopen(st.A)
			case "alien":
				err = w.alien(st.M, names[st.ID])
			case "race":
				var fired bool
				fired, err = w.race(st.A, names[st.ID], names[st.X], st.K)
				if fired {
					nraces++
				}
			}
			steps++
			if err != nil {
				fail(i, st, "op-error", rt.M{"err": err.Error()})
				break
			}
			got, f, data, err := w.observe(ids)
			if err != nil {
				fail(i, st, "read", rt.M{"err": err.Error()})
				break
			}
			// every replayed step is also an observed event for TLC (layout, content, monotonicity)
			ev := rt.M{"kind": "ev", "op": st.Op, "a": st.A, "k": st.K, "m": st.M, "run": 1000000 + bh.ID, "problems": len(layoutProblems(f)),
				"name": rt.M{"id": 0, "nlen": 0, "b": 0},
				"obs":  rt.M{"metaLen": got.MetaLen, "hdrLen": got.HdrLen, "size": got.Size, "limit": got.Limit, "heads": headsJSON(got), "recs": got.Recs}}
			if st.Op == "add" || st.Op == "alien" || st.Op == "race" {
				ev["name"] = rt.M{"id": st.ID, "nlen": len(names[st.ID]), "b": int(rt.V1Hash(string(names[st.ID])))}
			}
			if st.Op == "race" {
				ev["xname"] = rt.M{"id": st.X, "nlen": len(names[st.X]), "b": int(rt.V1Hash(string(names[st.X])))}
			}
			rt.Out(ev)
			if len(layoutProblems(f)) > 0 {
				fail(i, st, "layout", rt.M{"problems": layoutProblems(f), "got": brief(got)})
				break
			}
			if d := diffState(st.State, got); d != "" && !diverged {
				// the file is not the one the documented allocator would have produced; whether that
				// breaks the layout is decided on the event above
				diverged = true
				ndiv++
				if ndiv <= 10 {
					rt.Out(rt.M{"kind": "divergence", "what": d, "id": bh.ID, "step": i, "op": st.Op, "a": st.A, "name": st.ID, "want": brief(st.State), "got": brief(got)})
				}
			}
			if f.MetaRaw != w.meta {
				fail(i, st, "meta", rt.M{"want": w.meta, "got": f.MetaRaw})
				break
			}
			if !bytes.Equal(data[:f.HdrLen], wantHeader(w.meta)) {
				fail(i, st, "header-bytes", rt.M{"want": hex.EncodeToString(wantHeader(w.meta)[:48]), "got": hex.EncodeToString(data[:48])})
				break
			}
			if msg := libraryReads(w.path, data, f); msg != "" {
				fail(i, st, "library-read", rt.M{"msg": msg})
				break
			}
		}
		if diverged {
			good = false
		}
		if w != nil {
			w.closeAll()
		}
		if good {
			okB++
		}
	}
	rt.Out(rt.M{"kind": "summary", "behaviours": len(in.Behaviours), "matched": okB, "steps": steps, "diverged": ndiv, "races": nraces})

	// ---- code -> model: random runs ------------------------------------
	nextID := 100000
	events := 0
	nraces = 0
	for run := 0; run < in.Random; run++ {
		m := in.MetaLens[rng.Intn(len(in.MetaLens))]
		if rng.Intn(3) == 0 {
			m = 143 + rng.Intn(512-143+1)
		}
		w, err := newWorld(t, rng, m)
		if err != nil {
			t.Fatal(err)
		}
		switch rng.Intn(6) {
		case 0, 1:
			err = w.createInd()
		case 2:
			if err = w.leftover(rng.Intn(2)); err == nil {
				err = w.open("lib1")
			}
		default:
			err = w.open("lib1")
		}
		if err != nil {
			rt.Out(rt.M{"kind": "mismatch", "what": "op-error", "op": "create", "m": m, "err": err.Error(), "random_run": run})
			continue
		}
		rids := map[string]int{}
		var pool [][]byte
		var xn []byte // the independent writer's name of the race being logged
		var emitM func(op, a string, name []byte, k int64, em int) bool
		emit := func(op, a string, name []byte, k int64) bool { return emitM(op, a, name, k, m) }
		emitM = func(op, a string, name []byte, k int64, em int) bool {
			obs, f, data, err := w.observe(rids)
			if err != nil {
				rt.Out(rt.M{"kind": "mismatch", "what": "read", "err": err.Error(), "random_run": run})
				return false
			}
			ev := rt.M{"kind": "ev", "op": op, "a": a, "k": k, "m": em, "run": run,
				"name": rt.M{"id": 0, "nlen": 0, "b": 0},
				"obs":  rt.M{"metaLen": obs.MetaLen, "hdrLen": obs.HdrLen, "size": obs.Size, "limit": obs.Limit, "heads": headsJSON(obs), "recs": obs.Recs}}
			if name != nil {
				ev["name"] = rt.M{"id": rids[string(name)], "nlen": len(name), "b": int(rt.V1Hash(string(name)))}
			}
			if op == "race" {
				ev["xname"] = rt.M{"id": rids[string(xn)], "nlen": len(xn), "b": int(rt.V1Hash(string(xn)))}
			}
			ev["problems"] = len(f.Problems)
			rt.Out(ev)
			events++
			if len(layoutProblems(f)) > 0 {
				rt.Out(rt.M{"kind": "mismatch", "what": "layout", "problems": layoutProblems(f), "random_run": run, "op": op, "a": a, "got": brief(obs)})
				return false
			}
			if f.MetaRaw != w.meta {
				rt.Out(rt.M{"kind": "mismatch", "what": "meta", "random_run": run, "want": w.meta, "got": f.MetaRaw})
				return false
			}
			if msg := libraryReads(w.path, data, f); msg != "" {
				rt.Out(rt.M{"kind": "mismatch", "what": "library-read", "random_run": run, "msg": msg})
				return false
			}
			return true
		}
		if !emit("create", "-", nil, 0) {
			w.closeAll()
			continue
		}
		actors := []string{"lib1", "lib1", "lib2", "ind", "indx"}
		for i := 0; i < in.RandomLen; i++ {
			if rng.Intn(9) == 0 { // a writer with other metadata (same or different length class) opens the file and counts
				m2 := in.MetaLens[rng.Intn(len(in.MetaLens))]
				if rng.Intn(3) == 0 {
					m2 = m
				}
				nm := randName(rng, 1+rng.Intn(40))
				if len(pool) > 0 && rng.Intn(2) == 0 {
					nm = pool[rng.Intn(len(pool))]
				}
				if err := w.alien(m2, nm); err != nil {
					rt.Out(rt.M{"kind": "mismatch", "what": "op-error", "op": "alien", "err": err.Error(), "random_run": run})
					break
				}
				if !emitM("alien", "alien", nil, 1, m2) {
					break
				}
				continue
			}
			if rng.Intn(12) == 0 {
				a := actors[rng.Intn(3)]
				if err := w.reopen(a); err != nil {
					rt.Out(rt.M{"kind": "mismatch", "what": "op-error", "op": "reopen", "a": a, "err": err.Error(), "random_run": run})
					break
				}
				if !emit("reopen", a, nil, 0) {
					break
				}
				continue
			}
			if rng.Intn(15) == 0 { // a stack counter, through the API
				a := actors[rng.Intn(3)]
				name, err := w.stackInc(a)
				if err != nil {
					rt.Out(rt.M{"kind": "mismatch", "what": "op-error", "op": "stack", "a": a, "err": err.Error(), "random_run": run})
					break
				}
				if _, ok := rids[string(name)]; !ok {
					nextID++
					rids[string(name)] = nextID
					pool = append(pool, name)
				}
				if !emit("add", a, name, 1) {
					break
				}
				continue
			}
			var name []byte
			isNew := false
			if len(pool) > 0 && rng.Intn(3) == 0 {
				name = pool[rng.Intn(len(pool))]
			} else {
				isNew = true
				var l int
				switch rng.Intn(6) {
				case 0:
					l = 1 + rng.Intn(3)
				case 1:
					l = []int{15, 16, 17, 47, 48, 49, 4079, 4080, 4081}[rng.Intn(9)]
				case 2, 3:
					l = 4096 - rng.Intn(40)*rng.Intn(2)
				default:
					l = 1 + rng.Intn(4096)
				}
				bucket := -1
				if len(pool) > 0 && l >= 2 && rng.Intn(2) == 0 {
					bucket = int(rt.V1Hash(string(pool[rng.Intn(len(pool))]))) // force a collision
				}
				taken := map[string]bool{}
				for _, p := range pool {
					taken[string(p)] = true
				}
				name, _ = nameInBucket(rng, l, bucket, taken)
				if name == nil {
					name, _ = nameInBucket(rng, l, -1, taken)
				}
				pool = append(pool, name)
				nextID++
				rids[string(name)] = nextID
			}
			a := actors[rng.Intn(len(actors))]
			k := int64(1 + rng.Intn(1000))
			if isNew && a != "ind" && a != "indx" && rng.Intn(2) == 0 {
				// does the file have to grow for this name?  then let the independent writer create a name at the same time
				if cur, _, data, err := w.observe(rids); err == nil {
					if _, end := rt.V1Place(uint32(cur.HdrLen), uint32(cur.Limit), len(name)); int(end) > len(data) {
						x := name
						if rng.Intn(2) == 0 {
							taken := map[string]bool{}
							for _, p := range pool {
								taken[string(p)] = true
							}
							if y, ok := nameInBucket(rng, 2+rng.Intn(60), int(rt.V1Hash(string(name))), taken); ok {
								x = y
								pool = append(pool, x)
								nextID++
								rids[string(x)] = nextID
							}
						}
						fired, err := w.race(a, name, x, k)
						if err != nil {
							rt.Out(rt.M{"kind": "mismatch", "what": "op-error", "op": "race", "a": a, "nlen": len(name), "err": err.Error(), "random_run": run})
							break
						}
						if fired {
							nraces++
						}
						xn = x
						if !emit("race", a, name, k) {
							break
						}
						continue
					}
				}
			}
			if err := w.add(a, name, k); err != nil {
				rt.Out(rt.M{"kind": "mismatch", "what": "op-error", "op": "add", "a": a, "nlen": len(name), "err": err.Error(), "random_run": run})
				break
			}
			if !emit("add", a, name, k) {
				break
			}
		}
		w.closeAll()
	}
	rt.Out(rt.M{"kind": "summary2", "runs": in.Random, "events": events, "races": nraces})
}

func osArch() (string, string) { return runtime.GOOS, runtime.GOARCH }

func headsJSON(st mstate) []rt.M {
	out := []rt.M{}
	for _, h := range st.HeadsL {
		out = append(out, rt.M{"b": h[0], "off": h[1]})
	}
	return out
}

// longChain is the growth of one hash chain over many pages: n names that all
// fall into one bucket are created through one library writer (values 1..),
// then every one is incremented again through a second writer that opened the
// file afterwards (so it has to walk the whole chain to find the last ones).
// The independent decoder must find the file well-formed, with every name
// exactly once, all in that one chain, holding the sum; and the library must
// read the same.  A chain is as long as the names that collide: the layout
// puts no bound on it.
func longChain(t *testing.T, rng *rand.Rand, run, n int, metaLens []int) {
	w, err := newWorld(t, rng, metaLens[rng.Intn(len(metaLens))])
	if err != nil {
		rt.Out(rt.M{"kind": "infra", "what": err.Error()})
		return
	}
	defer w.closeAll()
	bucket := rng.Intn(512)
	taken := map[string]bool{}
	var names [][]byte
	for len(names) < n {
		b, ok := nameInBucket(rng, 6+rng.Intn(20), bucket, taken)
		if !ok {
			rt.Out(rt.M{"kind": "infra", "what": "no colliding name found"})
			return
		}
		taken[string(b)] = true
		names = append(names, b)
	}
	bad := func(what string, m rt.M) {
		m["kind"], m["what"], m["random_run"], m["op"], m["chain"] = "mismatch", what, run, "long-chain", n
		rt.Out(m)
	}
	for i, nm := range names {
		if err := w.add("p", nm, int64(i%5)+4); err != nil {
			bad("op-error", rt.M{"a": "p", "nlen": len(nm), "err": err.Error(), "index": i})
			return
		}
	}
	for i, nm := range names {
		if err := w.add("q", nm, 4); err != nil {
			bad("op-error", rt.M{"a": "q", "nlen": len(nm), "err": err.Error(), "index": i})
			return
		}
	}
	w.closeAll()
	_, f, data, err := w.observe(map[string]int{})
	if err != nil {
		bad("read", rt.M{"err": err.Error()})
		return
	}
	if lp := layoutProblems(f); len(lp) > 0 {
		bad("layout", rt.M{"problems": lp})
		return
	}
	got := map[string][]uint64{}
	for _, r := range f.Records {
		got[r.Name] = append(got[r.Name], r.Value)
		if r.Bucket != bucket {
			bad("chain", rt.M{"msg": fmt.Sprintf("a record of the run is in bucket %d, not %d", r.Bucket, bucket)})
			return
		}
	}
	for i, nm := range names {
		vs := got[string(nm)]
		if want := uint64(i%5) + 8; len(vs) != 1 || vs[0] != want {
			bad("chain", rt.M{"msg": fmt.Sprintf("name %d of %d in one bucket: the file holds values %v, written %d", i, n, vs, want), "nlen": len(nm)})
			return
		}
	}
	if len(got) != n {
		bad("chain", rt.M{"msg": fmt.Sprintf("%d distinct names in the file, %d written", len(got), n)})
		return
	}
	if msg := libraryReads(w.findFile(), data, f); msg != "" {
		bad("library-read", rt.M{"msg": msg})
		return
	}
	rt.Out(rt.M{"kind": "chain-ok", "n": n, "bucket": bucket, "size": f.Size})
}
