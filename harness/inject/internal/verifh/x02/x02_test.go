//go:build verif

// Package x02 is the harness of the extension engine X02 for the
// distribution side: the real configstore.Download against a file proxy the
// harness publishes into (G5), and the real unionfs.FS over layered trees
// (G6).  It only observes; the driver and TLC judge.
package x02

import (
	"encoding/json"
	"fmt"
	"io"
	"io/fs"
	"os"
	"path/filepath"
	"reflect"
	"strings"
	"testing"
	"testing/fstest"
	"time"

	"golang.org/x/telemetry/internal/configstore"
	"golang.org/x/telemetry/internal/proxy"
	"golang.org/x/telemetry/internal/telemetry"
	"golang.org/x/telemetry/internal/unionfs"
	rt "golang.org/x/telemetry/internal/verifrt"
)

func guard(fn func()) (panicMsg string, hang bool) {
	done := make(chan string, 1)
	go func() {
		msg := ""
		defer func() {
			if p := recover(); p != nil {
				msg = fmt.Sprint(p)
			}
			done <- msg
		}()
		fn()
	}()
	select {
	case m := <-done:
		return m, false
	case <-time.After(60 * time.Second):
		return "", true
	}
}

// ---------------------------------------------------------------- G5: Download

type storeStep struct {
	Op  string `json:"op"` // publish | download
	V   int    `json:"v"`
	C   string `json:"c"`
	Req struct {
		K string `json:"k"`
		V int    `json:"v"`
	} `json:"req"`
}

type storeHist struct {
	ID    int         `json:"id"`
	Steps []storeStep `json:"steps"`
}

// the configuration published as version index v
func cfgOf(v int, ver string) *telemetry.UploadConfig {
	return &telemetry.UploadConfig{
		GOOS:       []string{fmt.Sprintf("cfg-%d", v)},
		GOARCH:     []string{"amd64", "arm64"},
		GoVersion:  []string{"go1.21.0", "go1.22rc1"},
		SampleRate: 0.25 * float64(v),
		Programs: []*telemetry.ProgramConfig{{
			Name:     "golang.org/x/tools/gopls",
			Versions: []string{ver, "v0.0.1-pre.1"},
			Counters: []telemetry.CounterConfig{{Name: "gopls/editor:{vim,emacs}", Rate: 1}, {Name: "plain", Rate: 0.5}},
			Stacks:   []telemetry.CounterConfig{{Name: "gopls/bug", Rate: 1, Depth: v}},
		}},
	}
}

func TestVerifX02Store(t *testing.T) {
	defer rt.Flush()
	var top struct {
		Store struct {
			Vers  []string    `json:"vers"` // index-1 -> version string
			Hists []storeHist `json:"hists"`
		} `json:"store"`
	}
	if err := rt.In(&top); err != nil {
		t.Skip(err)
	}
	in := top.Store
	idx := map[string]int{}
	for i, v := range in.Vers {
		idx[v] = i + 1
	}
	base := t.TempDir()
	ndl := 0
	for _, h := range in.Hists {
		dir := filepath.Join(base, fmt.Sprintf("h%d", h.ID))
		pdir := filepath.Join(dir, "proxy")
		uri := ""
		env := func() []string {
			u := uri
			if u == "" { // nothing published yet: an empty proxy
				os.MkdirAll(pdir, 0777)
				u = "file://" + filepath.ToSlash(pdir)
			}
			return []string{"GOPROXY=" + u, "GONOSUMDB=*", "GONOSUMCHECK=1", "GOSUMDB=off", "GOFLAGS=-modcacherw", "GOMODCACHE=" + filepath.Join(dir, "modcache")}
		}
		rt.Out(rt.M{"kind": "store", "id": h.ID, "op": "reset"})
		for si, s := range h.Steps {
			rec := rt.M{"kind": "store", "id": h.ID, "step": si, "op": s.Op}
			switch s.Op {
			case "publish":
				ver := in.Vers[s.V-1]
				d := fmt.Sprintf("%v@%v/", configstore.ModulePath, ver)
				files := map[string][]byte{d + "go.mod": []byte("module " + configstore.ModulePath + "\n\ngo 1.20\n")}
				switch s.C {
				case "ok":
					b, _ := json.MarshalIndent(cfgOf(s.V, ver), "", "\t")
					files[d+"config.json"] = b
				case "badjson":
					files[d+"config.json"] = []byte(`{"GOOS": ["linux"`)
				case "badtype":
					files[d+"config.json"] = []byte(`{"GOOS": 5, "Programs": "none"}`)
				case "nofile":
					files[d+"README"] = []byte("no configuration here\n")
				}
				u, err := proxy.WriteProxy(pdir, files)
				if err != nil {
					t.Fatalf("writing proxy: %v", err)
				}
				uri = u
				rec["v"], rec["c"] = s.V, s.C
			case "download":
				arg := ""
				switch s.Req.K {
				case "exact":
					arg = in.Vers[s.Req.V-1]
				case "latest":
					arg = "latest"
				case "empty":
					arg = ""
				case "unknown":
					arg = "v9.9.9"
				case "garbage":
					arg = "nonexisting"
				}
				var cfg *telemetry.UploadConfig
				var ver string
				var err error
				before := configstore.Downloads()
				pmsg, hang := guard(func() { cfg, ver, err = configstore.Download(arg, env()) })
				ndl++
				rec["req"] = rt.M{"k": s.Req.K, "v": s.Req.V}
				rec["arg"] = arg
				rec["delta"] = configstore.Downloads() - before
				if hang {
					rec["hang"] = true
					rt.Out(rec)
					return
				}
				if pmsg != "" {
					rec["panic"] = pmsg
					rt.Out(rec)
					continue
				}
				rec["ok"] = err == nil
				rec["ver"], rec["cfg"] = 0, 0
				if err != nil {
					rec["err"] = err.Error()
				}
				if ver != "" {
					rec["verstr"] = ver
					rec["ver"] = -1
					if i, ok := idx[ver]; ok {
						rec["ver"] = i
					}
				}
				if cfg != nil {
					rec["cfg"] = -1
					for i, v := range in.Vers {
						if reflect.DeepEqual(cfg, cfgOf(i+1, v)) {
							rec["cfg"] = i + 1
						}
					}
				}
			}
			rt.Out(rec)
		}
		os.RemoveAll(dir)
	}
	rt.Out(rt.M{"kind": "summary", "of": "store", "hists": len(in.Hists), "downloads": ndl})
}

// ---------------------------------------------------------------- G6: unionfs

type uEntry struct {
	K    string   `json:"k"`
	Kids []string `json:"kids"`
}

type unionCase struct {
	ID     int                 `json:"id"`
	Layers []map[string]uEntry `json:"layers"`
	Real   bool                `json:"real"`    // layers on disk (os.DirFS) instead of fstest.MapFS
	Extra  string              `json:"missing"` // a directory name that does not exist, to be passed to Sub as well ("" = none)
	At     int                 `json:"at"`      // its position in the argument list
}

func layerStamp(i int) time.Time { return time.Unix(int64(1000000+i), 0) }

func layerOf(tm time.Time) int {
	n := int(tm.Unix()) - 1000000
	if n < 0 || n > 100 {
		return -1
	}
	return n
}

func buildMap(c unionCase) fstest.MapFS {
	m := fstest.MapFS{}
	for i, l := range c.Layers {
		root := fmt.Sprintf("L%d", i+1)
		st := layerStamp(i + 1)
		m[root] = &fstest.MapFile{Mode: fs.ModeDir | 0755, ModTime: st}
		for name, e := range l {
			switch e.K {
			case "file":
				m[root+"/"+name] = &fstest.MapFile{Data: []byte(fmt.Sprintf("L%d:%s", i+1, name)), Mode: 0644, ModTime: st}
			case "dir":
				m[root+"/"+name] = &fstest.MapFile{Mode: fs.ModeDir | 0755, ModTime: st}
				for _, k := range e.Kids {
					m[root+"/"+name+"/"+k] = &fstest.MapFile{Data: []byte(fmt.Sprintf("L%d:%s/%s", i+1, name, k)), Mode: 0644, ModTime: st}
				}
			}
		}
	}
	return m
}

func buildDisk(t *testing.T, dir string, c unionCase) fs.FS {
	for i, l := range c.Layers {
		root := filepath.Join(dir, fmt.Sprintf("L%d", i+1))
		st := layerStamp(i + 1)
		if err := os.MkdirAll(root, 0777); err != nil {
			t.Fatal(err)
		}
		var stamp []string
		for name, e := range l {
			p := filepath.Join(root, name)
			switch e.K {
			case "file":
				os.WriteFile(p, []byte(fmt.Sprintf("L%d:%s", i+1, name)), 0666)
				stamp = append(stamp, p)
			case "dir":
				os.MkdirAll(p, 0777)
				for _, k := range e.Kids {
					q := filepath.Join(p, k)
					os.WriteFile(q, []byte(fmt.Sprintf("L%d:%s/%s", i+1, name, k)), 0666)
					stamp = append(stamp, q)
				}
				stamp = append(stamp, p)
			}
		}
		stamp = append(stamp, root)
		for _, p := range stamp {
			if err := os.Chtimes(p, st, st); err != nil {
				t.Fatal(err)
			}
		}
	}
	return os.DirFS(dir)
}

func TestVerifX02Union(t *testing.T) {
	defer rt.Flush()
	var top struct {
		Union struct {
			Paths [][]string  `json:"paths"`
			Cases []unionCase `json:"cases"`
		} `json:"union"`
	}
	if err := rt.In(&top); err != nil {
		t.Skip(err)
	}
	in := top.Union
	base := t.TempDir()
	for _, c := range in.Cases {
		rec := rt.M{"kind": "union", "id": c.ID}
		var parent fs.FS
		if c.Real {
			parent = buildDisk(t, filepath.Join(base, fmt.Sprintf("u%d", c.ID)), c)
		} else {
			parent = buildMap(c)
		}
		dirs := []string{}
		for i := range c.Layers {
			dirs = append(dirs, fmt.Sprintf("L%d", i+1))
		}
		if c.Extra != "" {
			at := c.At
			if at > len(dirs) {
				at = len(dirs)
			}
			withExtra := append(append(append([]string{}, dirs[:at]...), c.Extra), dirs[at:]...)
			var err error
			pmsg, hang := guard(func() { _, err = unionfs.Sub(parent, withExtra...) })
			rec["sub_missing_err"] = err != nil
			if pmsg != "" || hang {
				rec["panic"] = "Sub: " + pmsg
			}
		}
		var u unionfs.FS
		var err error
		pmsg, hang := guard(func() { u, err = unionfs.Sub(parent, dirs...) })
		if hang {
			rec["hang"] = true
			rt.Out(rec)
			return
		}
		if pmsg != "" {
			rec["panic"] = "Sub: " + pmsg
			rt.Out(rec)
			continue
		}
		rec["subok"] = err == nil
		if err != nil {
			rec["suberr"] = err.Error()
			rt.Out(rec)
			continue
		}
		ops := []rt.M{}
		for _, p := range in.Paths {
			name := "."
			if len(p) > 0 {
				name = strings.Join(p, "/")
			}
			path := p
			if path == nil {
				path = []string{}
			}
			// Open
			o := rt.M{"op": "open", "path": path, "ok": false, "layer": 0, "kind": "none"}
			pmsg, hang := guard(func() {
				f, err := u.Open(name)
				if err != nil {
					o["err"] = err.Error()
					return
				}
				defer f.Close()
				st, err := f.Stat()
				if err != nil {
					o["err"] = "stat: " + err.Error()
					return
				}
				o["ok"] = true
				o["layer"] = layerOf(st.ModTime())
				if st.IsDir() {
					o["kind"] = "dir"
				} else {
					o["kind"] = "file"
					data, _ := io.ReadAll(f)
					o["data"] = string(data)
					// the content names its layer as well
					var li int
					if _, err := fmt.Sscanf(string(data), "L%d:", &li); err == nil && li != o["layer"] {
						o["layer"] = -2
					}
				}
			})
			if hang {
				rec["hang"] = true
				rt.Out(rec)
				return
			}
			if pmsg != "" {
				o["panic"] = pmsg
			}
			ops = append(ops, o)
			// ReadDir
			r := rt.M{"op": "readdir", "path": path, "ok": false, "list": []rt.M{}}
			pmsg, hang = guard(func() {
				es, err := u.ReadDir(name)
				if err != nil {
					r["err"] = err.Error()
					return
				}
				list := []rt.M{}
				for _, e := range es {
					kind := "file"
					if e.IsDir() {
						kind = "dir"
					}
					li := -1
					if info, err := e.Info(); err == nil {
						li = layerOf(info.ModTime())
					}
					list = append(list, rt.M{"name": e.Name(), "layer": li, "kind": kind})
				}
				r["ok"] = true
				r["list"] = list
			})
			if hang {
				rec["hang"] = true
				rt.Out(rec)
				return
			}
			if pmsg != "" {
				r["panic"] = pmsg
			}
			ops = append(ops, r)
		}
		rec["ops"] = ops
		rt.Out(rec)
	}
	rt.Out(rt.M{"kind": "summary", "of": "union", "cases": len(in.Cases)})
}
