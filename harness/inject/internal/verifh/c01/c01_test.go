//go:build verif

// Package c01 drives the real uploader (upload.Run) for properties C01 and
// C11: counter files are written by the independent v1 writer with metadata
// chosen by the check, the upload configuration is served from a file-based
// module proxy, X is chosen by replacing crypto/rand.Reader, and the upload
// server is an httptest server that records every request.
//
// The harness only executes and records; all deciding is done by TLC / the
// Python driver on the recorded observations.
package c01

import (
	"crypto/rand"
	"crypto/sha256"
	"encoding/binary"
	"encoding/hex"
	"encoding/json"
	"fmt"
	"io"
	"math"
	"net/http"
	"net/http/httptest"
	"os"
	"os/exec"
	"path/filepath"
	"runtime"
	"sort"
	"strconv"
	"strings"
	"sync"
	"testing"
	"time"

	"golang.org/x/telemetry/internal/configstore"
	"golang.org/x/telemetry/internal/proxy"
	"golang.org/x/telemetry/internal/upload"
	rt "golang.org/x/telemetry/internal/verifrt"
)

// ---- input ------------------------------------------------------------------

type fileIn struct {
	Program   string          `json:"program"`
	Version   string          `json:"version"`
	GoVersion string          `json:"gover"`
	GOOS      string          `json:"goos"`
	GOARCH    string          `json:"goarch"`
	Begin     string          `json:"begin"` // RFC3339
	End       string          `json:"end"`   // RFC3339
	Counts    [][]any         `json:"counts"` // [name, value] or [hex of the name bytes, value, 1]
	Raw       json.RawMessage `json:"-"`
}

type stepIn struct {
	Cfg    json.RawMessage `json:"cfg"`    // telemetry.UploadConfig as JSON
	CfgVer string          `json:"cfgver"` // module version of the config
	X      float64         `json:"x"`
	Xs     []float64       `json:"xs"`    // the values successive draws of this run return (default: X for every draw)
	Reply  int             `json:"reply"` // status the upload server answers with
	Files  []fileIn        `json:"files"` // count files that appear before this run
	Start  string          `json:"start"` // RFC3339 start time of this run
	Fresh  bool            `json:"fresh"` // run upload.Run in a fresh process instead of this one
	// Raced: another uploader wins the creation of local.<week>.json for the
	// weeks whose files arrive in this step: it appears after this run's
	// existence checks and before its own exclusive create.  Emulated without
	// hooks by a dangling symbolic link of that name: os.Stat reports "does
	// not exist", an exclusive create (O_EXCL, link) reports "exists".
	Raced bool `json:"raced"`
}

type caseIn struct {
	ID    int      `json:"id"`
	Mode  string   `json:"mode"` // contents of the mode file
	// OneProxy: the machine of this case talks to ONE config proxy with one
	// environment for all its runs; a step whose (cfg, cfgver) is new
	// publishes that version there before the run ("latest" then resolves to
	// it).  Otherwise every distinct configuration has a proxy of its own.
	OneProxy bool `json:"oneproxy"`
	Steps []stepIn `json:"steps"`
}

// ---- X ------------------------------------------------------------------------

// xReader makes upload.computeRandom return chosen values: it reads 8 bytes,
// little-endian float64, and returns frac*2-1 of them, so the bytes of
// 0.5+X/2 give exactly X.  crypto/rand.Reader is process-wide while many
// uploader runs execute in parallel, so the reader is keyed by the calling
// goroutine: a run registers the SEQUENCE of values its draws return (the k-th
// draw of the run gets the k-th value, cyclically).  The unchanged uploader
// draws once per weekly report it builds; a second, independent draw for the
// uploaded copy of a report would get a different value and become visible.
type xSeq struct {
	xs []float64
	k  int
}

type xReader struct {
	mu   sync.Mutex
	seqs map[uint64]*xSeq
}

func goid() uint64 {
	var b [64]byte
	n := runtime.Stack(b[:], false)
	f := strings.Fields(string(b[:n])) // "goroutine 123 [running]:"
	if len(f) < 2 {
		return 0
	}
	id, _ := strconv.ParseUint(f[1], 10, 64)
	return id
}

func (r *xReader) Read(p []byte) (int, error) {
	x := 0.5
	id := goid()
	r.mu.Lock()
	if s := r.seqs[id]; s != nil && len(s.xs) > 0 {
		x = s.xs[s.k%len(s.xs)]
		s.k++
	}
	r.mu.Unlock()
	var b [8]byte
	binary.LittleEndian.PutUint64(b[:], math.Float64bits(0.5+x/2))
	for i := range p {
		p[i] = b[i%8]
	}
	return len(p), nil
}

// register binds the calling goroutine to a sequence; the returned function
// unbinds it and reports how many draws were made.
func (r *xReader) register(xs []float64) func() int {
	id := goid()
	s := &xSeq{xs: xs}
	r.mu.Lock()
	r.seqs[id] = s
	r.mu.Unlock()
	return func() int {
		r.mu.Lock()
		defer r.mu.Unlock()
		delete(r.seqs, id)
		return s.k
	}
}

// ---- config proxies -------------------------------------------------------------

type proxies struct {
	mu   sync.Mutex
	base string
	env  map[string][]string
	pub  map[string]bool
}

// publish makes (cfg, ver) the newest version on the proxy of one machine and
// returns that machine's (constant) environment.
func (p *proxies) publish(machine string, cfg []byte, ver string) ([]string, error) {
	p.mu.Lock()
	defer p.mu.Unlock()
	dir := filepath.Join(p.base, machine)
	pk := machine + "@" + ver
	if !p.pub[pk] {
		dp := configstore.ModulePath + "@" + ver + "/"
		if _, err := proxy.WriteProxy(filepath.Join(dir, "proxy"), map[string][]byte{
			dp + "go.mod":      []byte("module " + configstore.ModulePath + "\n\ngo 1.20\n"),
			dp + "config.json": cfg,
		}); err != nil {
			return nil, err
		}
		p.pub[pk] = true
	}
	if e, ok := p.env[machine]; ok {
		return e, nil
	}
	e := []string{"GOPROXY=file://" + filepath.ToSlash(filepath.Join(dir, "proxy")), "GONOSUMDB=*", "GONOSUMCHECK=1", "GOSUMDB=off", "GOFLAGS=-modcacherw",
		"GOMODCACHE=" + filepath.Join(dir, "modcache")}
	p.env[machine] = e
	return e, nil
}

func (p *proxies) envFor(cfg []byte, ver string) ([]string, error) {
	key := fmt.Sprintf("%x", sha256.Sum256(append([]byte(ver+"\n"), cfg...)))[:24]
	p.mu.Lock()
	defer p.mu.Unlock()
	if e, ok := p.env[key]; ok {
		return e, nil
	}
	dir := filepath.Join(p.base, key)
	dp := configstore.ModulePath + "@" + ver + "/"
	uri, err := proxy.WriteProxy(filepath.Join(dir, "proxy"), map[string][]byte{
		dp + "go.mod":      []byte("module " + configstore.ModulePath + "\n\ngo 1.20\n"),
		dp + "config.json": cfg,
	})
	if err != nil {
		return nil, err
	}
	e := []string{"GOPROXY=" + uri, "GONOSUMDB=*", "GONOSUMCHECK=1", "GOSUMDB=off", "GOFLAGS=-modcacherw",
		"GOMODCACHE=" + filepath.Join(dir, "modcache")}
	p.env[key] = e
	return e, nil
}

// ---- the recording upload server --------------------------------------------------

type request struct {
	Dir    string              `json:"-"`
	Method string              `json:"method"`
	Path   string              `json:"path"`
	Query  string              `json:"query"`
	Header map[string][]string `json:"header"`
	Body   string              `json:"body"`
}

type server struct {
	mu    sync.Mutex
	reqs  map[string][]request // case key -> requests
	reply map[string]int
	srv   *httptest.Server
}

func newServer() *server {
	s := &server{reqs: map[string][]request{}, reply: map[string]int{}}
	s.srv = httptest.NewServer(http.HandlerFunc(func(w http.ResponseWriter, r *http.Request) {
		body, _ := io.ReadAll(r.Body)
		// URL is /<case key>/<rest>: the case key is part of the UploadURL we
		// hand to the uploader so that parallel cases stay apart.
		parts := strings.SplitN(strings.TrimPrefix(r.URL.Path, "/"), "/", 2)
		key, rest := parts[0], ""
		if len(parts) > 1 {
			rest = "/" + parts[1]
		}
		s.mu.Lock()
		s.reqs[key] = append(s.reqs[key], request{Method: r.Method, Path: rest, Query: r.URL.RawQuery, Header: r.Header, Body: string(body)})
		code := s.reply[key]
		s.mu.Unlock()
		if code == 0 {
			code = 200
		}
		w.WriteHeader(code)
	}))
	return s
}

func (s *server) take(key string) []request {
	s.mu.Lock()
	defer s.mu.Unlock()
	r := s.reqs[key]
	delete(s.reqs, key)
	return r
}

// ---- one step ---------------------------------------------------------------------

func readJSONDir(dir string) map[string]string {
	out := map[string]string{}
	es, _ := os.ReadDir(dir)
	for _, e := range es {
		if strings.HasSuffix(e.Name(), ".json") {
			b, _ := os.ReadFile(filepath.Join(dir, e.Name()))
			out[e.Name()] = string(b)
		}
	}
	return out
}

func listSuffix(dir, suf string) []string {
	var out []string
	es, _ := os.ReadDir(dir)
	for _, e := range es {
		if strings.HasSuffix(e.Name(), suf) {
			out = append(out, e.Name())
		}
	}
	sort.Strings(out)
	return out
}

func writeFiles(dir string, step int, files []fileIn) error {
	for i, f := range files {
		var ents []rt.V1Entry
		for _, c := range f.Counts {
			if len(c) < 2 {
				return fmt.Errorf("bad count entry %v", c)
			}
			name, _ := c[0].(string)
			v, _ := c[1].(float64)
			if len(c) > 2 { // the name is given as hex: bytes that JSON cannot carry
				raw, err := hex.DecodeString(name)
				if err != nil {
					return err
				}
				name = string(raw)
			}
			ents = append(ents, rt.V1Entry{Name: name, Value: uint64(v)})
		}
		data, err := rt.WriteV1(rt.V1Meta(f.Begin, f.End, f.Program, f.Version, f.GoVersion, f.GOOS, f.GOARCH), ents)
		if err != nil {
			return err
		}
		// the uploader takes every *.v1.count file in local/; the name only has to be unique
		name := fmt.Sprintf("f%d_%d-%s.v1.count", step, i, f.Begin[:10])
		if err := os.WriteFile(filepath.Join(dir, "local", name), data, 0666); err != nil {
			return err
		}
	}
	return nil
}

func runStep(c *caseIn, k int, dir string, px *proxies, srv *server, xr *xReader) rt.M {
	st := c.Steps[k]
	rec := rt.M{"kind": "step", "id": c.ID, "step": k}
	key := fmt.Sprintf("c%d", c.ID)
	if err := writeFiles(dir, k, st.Files); err != nil {
		rec["infra"] = "writing count files: " + err.Error()
		return rec
	}
	if st.Raced {
		for _, f := range st.Files {
			if len(f.End) >= 10 {
				os.Symlink(filepath.Join(dir, "no-such-dir", "lost"), filepath.Join(dir, "local", "local."+f.End[:10]+".json"))
			}
		}
	}
	var env []string
	var err error
	if c.OneProxy {
		env, err = px.publish("m"+key, st.Cfg, st.CfgVer)
	} else {
		env, err = px.envFor(st.Cfg, st.CfgVer)
	}
	if err != nil {
		rec["infra"] = "proxy: " + err.Error()
		return rec
	}
	start, err := time.Parse(time.RFC3339, st.Start)
	if err != nil {
		rec["infra"] = "start: " + err.Error()
		return rec
	}
	srv.mu.Lock()
	srv.reply[key] = st.Reply
	srv.mu.Unlock()
	xs := st.Xs
	if len(xs) == 0 {
		xs = []float64{st.X}
	}
	done := make(chan string, 1)
	draws := make(chan int, 1)
	if st.Fresh {
		go func() {
			msg, n := runChild(childIn{Dir: dir, URL: srv.srv.URL + "/" + key, Env: env, Start: st.Start, Xs: xs})
			draws <- n
			done <- msg
		}()
	} else {
		go runHere(dir, srv.srv.URL+"/"+key, env, start, xs, xr, done, draws)
	}
	select {
	case msg := <-done:
		rec["err"] = msg
		rec["draws"] = <-draws
	case <-time.After(120 * time.Second):
		rec["err"] = "hang"
	}
	rec["requests"] = srv.take(key)
	rec["local"] = readJSONDir(filepath.Join(dir, "local"))
	rec["upload"] = readJSONDir(filepath.Join(dir, "upload"))
	rec["countfiles"] = listSuffix(filepath.Join(dir, "local"), ".v1.count")
	rec["localnames"] = listSuffix(filepath.Join(dir, "local"), "")
	return rec
}

// ---- one upload.Run, in this process or in a fresh one --------------------------------

func runHere(dir, url string, env []string, start time.Time, xs []float64, xr *xReader, done chan string, draws chan int) {
	{
		// computeRandom is called on the goroutine that calls upload.Run
		unreg := xr.register(xs)
		defer func() { draws <- unreg() }()
		defer func() {
			if r := recover(); r != nil {
				done <- fmt.Sprintf("panic: %v", r)
			}
		}()
		err := upload.Run(upload.RunConfig{TelemetryDir: dir, UploadURL: url, Env: env, StartTime: start})
		if err != nil {
			done <- "error: " + err.Error()
			return
		}
		done <- ""
	}
}

type childIn struct {
	Dir   string    `json:"dir"`
	URL   string    `json:"url"`
	Env   []string  `json:"env"`
	Start string    `json:"start"`
	Xs    []float64 `json:"xs"`
	Out   string    `json:"out"`
}

// runChild re-executes the test binary for one upload.Run: a process that has
// run nothing before (no package-level state left by earlier runs).
func runChild(in childIn) (string, int) {
	f, err := os.CreateTemp("", "c01child-*.json")
	if err != nil {
		return "error: child: " + err.Error(), 0
	}
	defer os.Remove(f.Name())
	in.Out = f.Name() + ".out"
	defer os.Remove(in.Out)
	json.NewEncoder(f).Encode(in)
	f.Close()
	cmd := exec.Command(os.Args[0], "-test.run=^TestVerifC01Run$", "-test.count=1")
	cmd.Env = append(os.Environ(), "VERIF_C01_CHILD="+f.Name())
	if out, err := cmd.CombinedOutput(); err != nil {
		return fmt.Sprintf("error: child process: %v: %s", err, out), 0
	}
	var res struct {
		Err   string `json:"err"`
		Draws int    `json:"draws"`
	}
	data, err := os.ReadFile(in.Out)
	if err != nil || json.Unmarshal(data, &res) != nil {
		return "error: child wrote no result", 0
	}
	return res.Err, res.Draws
}

func childMain(path string) {
	var in childIn
	data, _ := os.ReadFile(path)
	if json.Unmarshal(data, &in) != nil {
		os.Exit(3)
	}
	xr := &xReader{seqs: map[uint64]*xSeq{}}
	rand.Reader = xr
	start, _ := time.Parse(time.RFC3339, in.Start)
	done := make(chan string, 1)
	draws := make(chan int, 1)
	go runHere(in.Dir, in.URL, in.Env, start, in.Xs, xr, done, draws)
	msg := <-done
	n := <-draws
	out, _ := json.Marshal(map[string]any{"err": msg, "draws": n})
	os.WriteFile(in.Out, out, 0666)
}

// TestVerifC01Run executes the cases of $VERIF_IN: the steps of a case in
// order, the cases in parallel.
func TestVerifC01Run(t *testing.T) {
	if p := os.Getenv("VERIF_C01_CHILD"); p != "" {
		childMain(p)
		return
	}
	defer rt.Flush()
	var in struct {
		Cases []caseIn `json:"cases"`
		Par   int      `json:"par"`
	}
	if err := rt.In(&in); err != nil {
		t.Skip(err)
	}
	xr := &xReader{seqs: map[uint64]*xSeq{}}
	rand.Reader = xr
	base := t.TempDir()
	px := &proxies{base: filepath.Join(base, "px"), env: map[string][]string{}, pub: map[string]bool{}}
	srv := newServer()
	defer srv.srv.Close()
	par := in.Par
	if par <= 0 {
		par = 16
	}
	t0 := time.Now()
	var wg sync.WaitGroup
	sem := make(chan bool, par)
	recs := make([][]rt.M, len(in.Cases))
	for i := range in.Cases {
		wg.Add(1)
		sem <- true
		go func(i int) {
			defer wg.Done()
			defer func() { <-sem }()
			c := &in.Cases[i]
			dir := filepath.Join(base, fmt.Sprintf("t%d", c.ID))
			os.MkdirAll(filepath.Join(dir, "local"), 0777)
			os.MkdirAll(filepath.Join(dir, "upload"), 0777)
			mode := c.Mode
			if mode == "" {
				mode = "on 2000-01-01"
			}
			os.WriteFile(filepath.Join(dir, "mode"), []byte(mode), 0666)
			for k := range c.Steps {
				r := runStep(c, k, dir, px, srv, xr)
				r["x"] = c.Steps[k].X
				recs[i] = append(recs[i], r)
				if r["err"] == "hang" {
					break // the goroutine leaks; do not touch its directory again
				}
			}
			os.RemoveAll(dir)
		}(i)
	}
	wg.Wait()
	nrun := 0
	for _, rs := range recs {
		for _, r := range rs {
			rt.Out(r)
			nrun++
		}
	}
	rt.Out(rt.M{"kind": "summary", "cases": len(in.Cases), "runs": nrun, "wall_ms": time.Since(t0).Milliseconds()})
	// the module caches are read-only trees unless -modcacherw took effect
	filepath.Walk(px.base, func(p string, info os.FileInfo, err error) error {
		if err == nil && info.IsDir() {
			os.Chmod(p, 0777)
		}
		return nil
	})
}
