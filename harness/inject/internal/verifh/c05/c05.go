//go:build verif

// Package c05 holds what the two in-package harnesses of property C05
// (internal/counter and internal/upload) share: the fault-plan hook, the path
// classes of the telemetry directory and the budgeted call runner.
package c05

import (
	"fmt"
	"io/fs"
	"os"
	"path/filepath"
	"strings"
	"syscall"
	"time"

	rt "golang.org/x/telemetry/internal/verifrt"
)

type Fault struct {
	Idx   int    `json:"idx"` // 1-based index of the call (in order of execution) that fails
	Errno string `json:"errno"`
}

// Matcher is a persistent failure: every call of kind V / on path class V /
// that writes / at all fails with Errno, every time (Faults.tla Matchers).
type Matcher struct {
	M     string `json:"m"` // kind | pc | writes | all
	V     string `json:"v"`
	Errno string `json:"errno"`
}

type Plan struct {
	ID     int      `json:"id"`
	Scn    string   `json:"scn"`
	Faults []Fault  `json:"faults"`
	Match  *Matcher `json:"match"`
}

var Errnos = map[string]syscall.Errno{"ENOENT": syscall.ENOENT, "EACCES": syscall.EACCES, "ENOSPC": syscall.ENOSPC, "EIO": syscall.EIO,
	"EROFS": syscall.EROFS, "EMFILE": syscall.EMFILE}

var writeKinds = map[string]bool{"os.WriteFile": true, "os.WriteFile.write": true, "file.Write": true, "file.WriteAt": true, "os.MkdirAll": true,
	"os.Remove": true, "os.Rename": true, "os.Create": true, "os.OpenFile": true}

func (m *Matcher) matches(kind, pc string) bool {
	switch m.M {
	case "kind":
		return kind == m.V
	case "pc":
		return pc == m.V
	case "writes":
		return writeKinds[kind]
	case "all":
		return true
	}
	return false
}

// PathClass names a path by its role in the telemetry directory dir.
func PathClass(dir, p string) string {
	if strings.HasPrefix(p, "http://") || strings.HasPrefix(p, "https://") {
		return "url"
	}
	rel, err := filepath.Rel(dir, p)
	if err != nil || strings.HasPrefix(rel, "..") {
		return "other"
	}
	sep := string(filepath.Separator)
	base := filepath.Base(rel)
	date := func(suffix string) string {
		s := strings.TrimSuffix(base, suffix)
		if len(s) >= 10 {
			return s[len(s)-10:]
		}
		return s
	}
	switch {
	case rel == ".":
		return "teledir"
	case rel == "mode":
		return "mode"
	case rel == "local":
		return "localdir"
	case rel == "upload":
		return "uploaddir"
	case rel == "debug":
		return "debugdir"
	case rel == filepath.Join("local", "weekends"):
		return "weekends"
	case strings.HasPrefix(rel, "debug"+sep):
		return "debuglog"
	case strings.HasSuffix(base, ".v1.count"):
		return "count:" + date(".v1.count")
	case strings.HasPrefix(rel, "local"+sep) && strings.HasPrefix(base, "local.") && strings.HasSuffix(base, ".json"):
		return "localreport:" + date(".json")
	case strings.HasPrefix(rel, "local"+sep) && strings.HasSuffix(base, ".json"):
		return "ready:" + date(".json")
	case strings.HasPrefix(rel, "upload"+sep) && strings.HasSuffix(base, ".json.lock"):
		return "lock:" + date(".json.lock")
	case strings.HasPrefix(rel, "upload"+sep) && strings.HasSuffix(base, ".json"):
		return "uploaded:" + date(".json")
	}
	return "other"
}

// Hooks is the fault plan of one case: every consultation of the fault hook
// (one per shimmed call, before the call) gets the next call index.
type Hooks struct {
	Dir   string // telemetry directory (for path classes)
	Plan  map[int]string
	Match *Matcher
	NCall int
	Step  int
	Op    string
	Calls []rt.M // every consulted call
	Fired []rt.M
}

func NewHooks(dir string, plan *Plan) *Hooks {
	h := &Hooks{Dir: dir, Plan: map[int]string{}, Fired: []rt.M{}}
	if plan != nil {
		for _, f := range plan.Faults {
			h.Plan[f.Idx] = f.Errno
		}
		h.Match = plan.Match
	}
	return h
}

// Fault is the rt.FaultHook.
func (h *Hooks) Fault(kind, path string) error {
	h.NCall++
	pc := PathClass(h.Dir, path)
	h.Calls = append(h.Calls, rt.M{"i": h.NCall, "step": h.Step, "op": h.Op, "kind": kind, "pc": pc})
	en, ok := h.Plan[h.NCall]
	if h.Match != nil {
		ok, en = h.Match.matches(kind, pc), h.Match.Errno
	}
	if ok {
		h.Fired = append(h.Fired, rt.M{"idx": h.NCall, "step": h.Step, "kind": kind, "pc": pc, "errno": en})
		return &fs.PathError{Op: kind, Path: path, Err: Errnos[en]}
	}
	return nil
}

// Call is the rt.CallHook: the natural error of a performed call (e.g. a
// missing weekends file) is noted in the recording.
func (h *Hooks) Call(c rt.Call) {
	if len(h.Calls) == 0 {
		return
	}
	last := h.Calls[len(h.Calls)-1]
	if last["kind"] == c.Kind && c.Err != "" {
		last["err"] = true
	}
}

func (h *Hooks) Install() {
	rt.FaultHook = h.Fault
	rt.CallHook = h.Call
}

func Uninstall() { rt.FaultHook, rt.CallHook = nil, nil }

func classify(p any) string {
	s := fmt.Sprint(p)
	if strings.Contains(s, "fault address") || strings.Contains(s, "invalid memory address") || strings.Contains(s, "SIGSEGV") || strings.Contains(s, "SIGBUS") {
		return "memfault"
	}
	return "panic"
}

// where names the innermost function of the code under test on a stack.
func where(stack string) string {
	for _, ln := range strings.Split(stack, "\n") {
		for _, pkg := range []string{"internal/counter.", "internal/upload.", "internal/telemetry."} {
			i := strings.Index(ln, pkg)
			if i < 0 || strings.Contains(ln, ".c05") || strings.Contains(ln, "verifrt") || strings.Contains(ln, "TestVerif") {
				continue
			}
			fn := ln[i+len(pkg):]
			if j := strings.LastIndex(fn, "("); j > 0 {
				fn = fn[:j]
			}
			if k := strings.Index(fn, ".func"); k > 0 {
				fn = fn[:k]
			}
			return fn
		}
	}
	return ""
}

// Run runs fn as one scheduler task whose yields (every atomic operation,
// lock and shimmed call of the instrumented packages) are transparent and
// counted.  A call that needs more than budget yields is suspended for good
// (nothing keeps spinning) and reported as a hang.  It returns
// "ok" | "panic" | "memfault" | "hang" | "blocked", the number of yields, the
// function that failed and the panic text.
func Run(name string, budget int, fn func()) (ret string, steps int, fnName, text string) {
	s := rt.NewSched()
	defer s.Close()
	s.StepTimeout = 30 * time.Second
	n := 0
	s.Transparent = func(f, kind string) bool { n++; return n <= budget }
	t := s.Go(name, fn)
	ok := s.Step(t)
	lab := t.Label
	switch {
	case !ok:
		return "hang", n, lab, "no return within the wall-clock guard"
	case t.State == rt.Done:
		return "ok", n, "", ""
	case t.State == rt.Faulted:
		return classify(t.Panic), n, where(t.Stack), fmt.Sprint(t.Panic)
	}
	// suspended at a real yield: over budget, or waiting for a mutex that a
	// hung call still holds
	s.Kill(t)
	if t.Kind == "Mutex.Lock" && n <= budget {
		return "blocked", n, lab, "waits for a mutex held by a call that never returned"
	}
	return "hang", n, lab, fmt.Sprintf("step budget of %d exceeded", budget)
}

// ModeClass is one content of the mode file in the vocabulary of
// ModeBytes.tla: a prefix of "<base> 2023-09-26" cut after Cut bytes, or a
// garbage class G.
type ModeClass struct {
	File string `json:"file"` // mode (default) | weekends: which file of the telemetry directory holds the bytes
	Kind string `json:"kind"` // prefix | garbage
	Base string `json:"base"`
	Cut  int    `json:"cut"`
	G    string `json:"g"`
}

const ModeDate = "2023-09-26"

// Bytes concretizes the class.
func (m *ModeClass) Bytes() []byte {
	if m.Kind == "prefix" {
		full := m.Base + " " + ModeDate
		if m.Cut > len(full) {
			return []byte(full)
		}
		return []byte(full[:m.Cut])
	}
	switch m.G {
	case "spaces":
		return []byte("  \t \n")
	case "padded":
		return []byte("  on " + ModeDate + "\n")
	case "crlf":
		return []byte("off " + ModeDate + "\r\n")
	case "junkdate":
		return []byte("on " + ModeDate + " extra")
	case "twoblank":
		return []byte("on  " + ModeDate)
	case "offjunk":
		return []byte("off x")
	case "longdate":
		return []byte("on " + ModeDate + strings.Repeat("9", 1<<16))
	case "longword":
		return []byte(strings.Repeat("a", 1<<16))
	case "utf8":
		return []byte("\xff\xfeon " + ModeDate)
	case "newline":
		return []byte("on\n" + ModeDate)
	case "nul":
		return []byte("off\x00 " + ModeDate)
	case "nuldate":
		return []byte("on 2023-09\x00\x00\x00")
	case "blankonly":
		return []byte("on ")
	case "dateonly":
		return []byte(" " + ModeDate)
	// the week-end file (one digit, the day of the week on which files expire)
	case "w:valid":
		return []byte("4\n")
	case "w:empty":
		return []byte{}
	case "w:spaces":
		return []byte(" \n\t")
	case "w:nl":
		return []byte("\n2")
	case "w:seven":
		return []byte("7\n")
	case "w:nine":
		return []byte("9")
	case "w:letter":
		return []byte("x")
	case "w:minus":
		return []byte("-1")
	case "w:utf8":
		return []byte("\xff\xfe")
	case "w:long":
		return []byte(strings.Repeat("3", 1<<16))
	}
	return []byte(m.G)
}

// Install puts the bytes (or, for the class isdir, a directory) at the file's
// place in the telemetry directory dir.
func (m *ModeClass) Install(dir string) error {
	p := filepath.Join(dir, "mode")
	if m.File == "weekends" {
		p = filepath.Join(dir, "local", "weekends")
	}
	os.MkdirAll(filepath.Dir(p), 0777)
	os.RemoveAll(p)
	if m.G == "isdir" || m.G == "w:isdir" {
		return os.MkdirAll(p, 0777)
	}
	return os.WriteFile(p, m.Bytes(), 0666)
}
