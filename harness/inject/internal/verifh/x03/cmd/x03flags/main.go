//go:build verif

// Command x03flags is a REAL program (not a test binary: it has a build-info
// path, and counter/countertest cannot be linked into it) that replays a short
// history of public counter API calls and reports, after every call, what an
// independent reader finds in its counter file.  X03 uses it for guarantee G5
// (CountCommandLineFlags names its counters after the base name of the
// build-info path) and for G4 outside `go test`.
//
// usage: x03flags [-x03x] [-x03y=false] ...   (flags given here are "set")
// env:   X03_DIR telemetry dir, X03_OPS JSON list of ops, X03_OUT result file
package main

import (
	"encoding/json"
	"flag"
	"fmt"
	"os"
	"path"
	"path/filepath"
	"runtime/debug"
	"sort"
	"time"

	"golang.org/x/telemetry/counter"
	ic "golang.org/x/telemetry/internal/counter"
	"golang.org/x/telemetry/internal/telemetry"
	rt "golang.org/x/telemetry/internal/verifrt"
)

type op struct {
	Op   string `json:"op"`
	N    string `json:"n"`
	D    int64  `json:"d"`
	Kind string `json:"kind"`
}

func main() {
	flag.Bool("x03x", false, "")
	flag.Bool("x03y", false, "")
	flag.String("x03z", "never-set", "")
	flag.Parse()
	dir := os.Getenv("X03_DIR")
	telemetry.Default = telemetry.NewDir(dir)
	ic.CounterTime = func() time.Time { return time.Date(2024, 3, 4, 12, 0, 0, 0, time.UTC) }
	var ops []op
	if err := json.Unmarshal([]byte(os.Getenv("X03_OPS")), &ops); err != nil {
		fmt.Fprintln(os.Stderr, "x03flags:", err)
		os.Exit(3)
	}
	bi, ok := debug.ReadBuildInfo()
	bpath := ""
	if ok {
		bpath = bi.Path
	}
	// the documented naming rule, computed independently of the library
	cp := "flag:"
	if bpath != "" {
		cp = path.Base(bpath) + "/flag:"
	}
	r2m := map[string]string{"x03/a": "a", "x03/b": "b", cp + "x03x": "cx", cp + "x03y": "cy"}
	var steps []rt.M
	for _, o := range ops {
		pan, msg := false, ""
		func() {
			defer func() {
				if r := recover(); r != nil {
					pan, msg = true, fmt.Sprint(r)
				}
			}()
			switch o.Op {
			case "setcmd":
				if o.N == "y" {
					flag.CommandLine.Set("x03y", "false")
				} else {
					flag.CommandLine.Set("x03"+o.N, "true")
				}
			case "cmdflags":
				counter.CountCommandLineFlags()
			case "inca":
				counter.Inc("x03/" + o.N)
			case "adda":
				counter.Add("x03/"+o.N, o.D)
			case "open":
				if o.Kind == "openrot" {
					counter.OpenAndRotate()
				} else {
					counter.Open()
				}
			default:
				panic("x03flags: unknown op " + o.Op)
			}
		}()
		st := rt.M{"pan": pan, "panmsg": msg, "dead": false, "reads": false}
		files, _ := filepath.Glob(filepath.Join(dir, "local", "*.count"))
		st["nfiles"] = len(files)
		d := rt.M{"a": 0, "b": 0, "s1": 0, "s2": 0, "fx": 0, "fy": 0, "cx": 0, "cy": 0}
		present := []string{}
		alien, malformed := 0, false
		var aliens []string
		if len(files) == 1 {
			data, err := os.ReadFile(files[0])
			if err != nil {
				malformed = true
			} else {
				dec := rt.DecodeV1(data)
				malformed = !dec.WellFormed()
				for name, v := range dec.Counts() {
					if mn, ok := r2m[name]; ok {
						d[mn] = v
						present = append(present, mn)
					} else {
						alien++
						aliens = append(aliens, name)
					}
				}
			}
		}
		sort.Strings(present)
		var dirfiles []string
		filepath.Walk(dir, func(p string, fi os.FileInfo, err error) error {
			if err == nil && p != dir {
				rel, _ := filepath.Rel(dir, p)
				dirfiles = append(dirfiles, rel)
			}
			return nil
		})
		if dirfiles == nil {
			dirfiles = []string{}
		}
		st["d"], st["recs"], st["alien"], st["aliens"], st["malformed"], st["dirfiles"] = d, present, alien, aliens, malformed, dirfiles
		steps = append(steps, st)
	}
	out, _ := json.Marshal(rt.M{"steps": steps, "buildpath": bpath})
	if err := os.WriteFile(os.Getenv("X03_OUT"), out, 0666); err != nil {
		fmt.Fprintln(os.Stderr, "x03flags:", err)
		os.Exit(3)
	}
}
