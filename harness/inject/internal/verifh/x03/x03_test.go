//go:build verif

// Package x03 binds spec/CtrApiLife.tla, CtrApiFile.tla and the free-running
// part of CtrApiObs.tla to the real public counter API (extension engine X03):
//
//   - TestVerifX03Life: every history of API calls handed over by the driver is
//     replayed in a FRESH child process (the API keeps its state in package
//     globals: defaultFile, openOnce, flag.CommandLine) and after every call the
//     child reports what it observes through countertest.ReadCounter /
//     ReadStackCounter / ReadFile and through an independent decoder of the
//     counter file.
//   - TestVerifX03Free: really parallel goroutines hammer one StackCounter of a
//     private counter file while it is opened, and Names()/Counters() are
//     called concurrently; the final state and every snapshot are reported.
//   - TestVerifX03File: counter files written by an independent writer ("another
//     process") are read with countertest.ReadFile.
package x03

import (
	"encoding/json"
	"flag"
	"fmt"
	"math/rand"
	"os"
	"os/exec"
	"path"
	"path/filepath"
	"runtime"
	"runtime/debug"
	"sort"
	"strings"
	"sync"
	"sync/atomic"
	"testing"
	"time"

	"golang.org/x/telemetry/counter"
	"golang.org/x/telemetry/counter/countertest"
	ic "golang.org/x/telemetry/internal/counter"
	"golang.org/x/telemetry/internal/telemetry"
	rt "golang.org/x/telemetry/internal/verifrt"
)

func TestMain(m *testing.M) {
	if os.Getenv("X03_CHILD") != "" {
		// no flag parsing here: flag.CommandLine must hold only what the history sets
		childMain()
		os.Exit(0)
	}
	os.Exit(m.Run())
}

var fixedNow = time.Date(2024, 3, 4, 12, 0, 0, 0, time.UTC)

// ---------------------------------------------------------------- call sites

var sink atomic.Int64 // keeps the call of Inc from being the last instruction of a site

//go:noinline
func x03SiteA(sc *counter.StackCounter) { sc.Inc(); sink.Add(1) }

//go:noinline
func x03SiteB(sc *counter.StackCounter) { sc.Inc(); sink.Add(2) }

//go:noinline
func x03SiteC(sc *counter.StackCounter) { sc.Inc(); sink.Add(3) }

//go:noinline
func x03ViaP(leaf func(*counter.StackCounter), sc *counter.StackCounter) { leaf(sc); sink.Add(1) }

//go:noinline
func x03ViaQ(leaf func(*counter.StackCounter), sc *counter.StackCounter) { leaf(sc); sink.Add(2) }

var leaves = []func(*counter.StackCounter){x03SiteA, x03SiteB, x03SiteC}
var vias = []func(func(*counter.StackCounter), *counter.StackCounter){x03ViaP, x03ViaQ}

func siteOfName(name string) string {
	switch {
	case strings.Contains(name, ".x03SiteA:"):
		return "s1"
	case strings.Contains(name, ".x03SiteB:"):
		return "s2"
	}
	return ""
}

// ------------------------------------------------------------------- child

type lifeOp struct {
	Op   string   `json:"op"`
	N    string   `json:"n"`
	D    int64    `json:"d"`
	Fl   []string `json:"fl"`
	Kind string   `json:"kind"`
}

type lifeIn struct {
	Dir  string   `json:"dir"`
	Mode string   `json:"mode"`
	Ops  []lifeOp `json:"ops"`
}

const flagPrefix = "x03pfx/flag:"

func cmdPrefix() string {
	// counter.CountCommandLineFlags: "binaryName+"/flag:"+flagName where binaryName is the base name of
	// the Path embedded in the binary's build info.  If the binary does not have embedded build info,
	// the "flag:"+flagName counter will be incremented."
	if bi, ok := debug.ReadBuildInfo(); ok && bi.Path != "" {
		return path.Base(bi.Path) + "/flag:"
	}
	return "flag:"
}

func realToModel() map[string]string {
	cp := cmdPrefix()
	return map[string]string{"x03/a": "a", "x03/b": "b", flagPrefix + "x": "fx", flagPrefix + "y": "fy",
		cp + "x03x": "cx", cp + "x03y": "cy"}
}

func protect(f func()) (pan bool, msg string) {
	defer func() {
		if r := recover(); r != nil {
			pan, msg = true, fmt.Sprint(r)
		}
	}()
	f()
	return
}

func errStr(err error) string {
	if err == nil {
		return ""
	}
	return err.Error()
}

func childMain() {
	var in lifeIn
	data, err := os.ReadFile(os.Getenv("X03_IN"))
	if err == nil {
		err = json.Unmarshal(data, &in)
	}
	if err != nil {
		fmt.Fprintln(os.Stderr, "x03 child:", err)
		os.Exit(3)
	}
	telemetry.Default = telemetry.NewDir(in.Dir)
	switch in.Mode {
	case "on":
		os.WriteFile(filepath.Join(in.Dir, "mode"), []byte("on 2024-01-01"), 0666)
	case "local":
		os.WriteFile(filepath.Join(in.Dir, "mode"), []byte("local"), 0666)
	case "off":
		os.WriteFile(filepath.Join(in.Dir, "mode"), []byte("off"), 0666)
	}
	ic.CounterTime = func() time.Time { return fixedNow }
	flag.Bool("x03x", false, "")
	flag.Bool("x03y", false, "")
	flag.String("x03z", "never-set", "")
	gobj := map[string]*counter.Counter{"a": counter.New("x03/a"), "b": counter.New("x03/b")}
	sc := counter.NewStack("x03/stack", 1)
	var closeFn func()
	haveClose := false
	opened := false
	dead := false
	r2m := realToModel()
	var steps []rt.M

	observe := func(pan bool, msg string) rt.M {
		o := rt.M{"pan": pan, "panmsg": msg, "dead": dead, "reads": true, "ga": -1, "gb": -1, "gaerr": "", "gberr": "", "s1": -1, "s2": -1,
			"rserr": "", "rsalien": 0, "rfok": true, "rferr": ""}
		if !dead {
			p, m := protect(func() {
				for _, n := range []string{"a", "b"} {
					v, err := countertest.ReadCounter(gobj[n])
					o["g"+n] = v
					o["g"+n+"err"] = errStr(err)
				}
				m, err := countertest.ReadStackCounter(sc)
				o["rserr"] = errStr(err)
				alien := 0
				for name, v := range m {
					if s := siteOfName(name); s != "" && strings.HasPrefix(name, "x03/stack\n") {
						o[s] = v
					} else {
						alien++
					}
				}
				o["rsalien"] = alien
			})
			if p {
				o["readpanic"] = m
			}
		}
		// the counter file as an independent reader sees it
		files, _ := filepath.Glob(filepath.Join(in.Dir, "local", "*.count"))
		o["nfiles"] = len(files)
		d := rt.M{"a": 0, "b": 0, "s1": 0, "s2": 0, "fx": 0, "fy": 0, "cx": 0, "cy": 0}
		present := []string{}
		alien, malformed := 0, false
		if len(files) == 1 {
			data, err := os.ReadFile(files[0])
			if err != nil {
				malformed = true
			} else {
				dec := rt.DecodeV1(data)
				malformed = !dec.WellFormed()
				counts := dec.Counts()
				for name, v := range counts {
					if mn, ok := r2m[name]; ok {
						d[mn] = v
						present = append(present, mn)
					} else if s := siteOfName(name); s != "" && strings.HasPrefix(name, "x03/stack\n") {
						d[s] = v
						present = append(present, s)
					} else {
						alien++
					}
				}
				// countertest.ReadFile must agree with the independent reader (G3)
				p, m := protect(func() {
					cs, ss, err := countertest.ReadFile(files[0])
					o["rferr"] = errStr(err)
					ok := err == nil
					n := 0
					for name, v := range counts {
						if strings.Contains(name, "\n") {
							ok = ok && ss[name] == v // depth-1 names hold no ditto marks
							_, in1 := cs[name]
							ok = ok && !in1
						} else {
							ok = ok && cs[name] == v
							_, in2 := ss[name]
							ok = ok && !in2
						}
						n++
					}
					ok = ok && len(cs)+len(ss) == n
					o["rfok"] = ok
				})
				if p {
					o["rfok"] = false
					o["rferr"] = "panic: " + m
				}
			}
		}
		sort.Strings(present)
		o["d"], o["alien"], o["malformed"], o["recs"] = d, alien, malformed, present
		var dirfiles []string
		filepath.Walk(in.Dir, func(p string, fi os.FileInfo, err error) error {
			if err == nil && p != in.Dir {
				rel, _ := filepath.Rel(in.Dir, p)
				dirfiles = append(dirfiles, rel)
			}
			return nil
		})
		sort.Strings(dirfiles)
		if dirfiles == nil {
			dirfiles = []string{}
		}
		o["dirfiles"] = dirfiles
		return o
	}

	for _, op := range in.Ops {
		op := op
		pan, msg := protect(func() {
			switch op.Op {
			case "incg":
				gobj[op.N].Inc()
			case "addg":
				gobj[op.N].Add(op.D)
			case "inca":
				counter.Inc("x03/" + op.N)
			case "adda":
				counter.Add("x03/"+op.N, op.D)
			case "incs":
				if op.N == "s1" {
					x03SiteA(sc)
				} else {
					x03SiteB(sc)
				}
			case "flags":
				fs := flag.NewFlagSet("x03", flag.ContinueOnError)
				fs.Bool("x", false, "")
				fs.Bool("y", false, "")
				fs.String("z", "never-set", "")
				fl := append([]string(nil), op.Fl...)
				sort.Strings(fl)
				for i, f := range fl {
					val := "true"
					if f == "y" {
						val = "false" // set to its default value: still a flag that is set
					}
					fs.Set(f, val)
					if i == 0 {
						fs.Set(f, val) // a flag given twice is still one flag that is set
					}
				}
				counter.CountFlags(flagPrefix, *fs)
			case "setcmd":
				if op.N == "y" {
					flag.CommandLine.Set("x03y", "false") // set to its default value: still a flag that is set
				} else {
					flag.CommandLine.Set("x03"+op.N, "true")
				}
			case "cmdflags":
				counter.CountCommandLineFlags()
			case "open":
				switch op.Kind {
				case "open":
					counter.Open()
				case "openrot":
					counter.OpenAndRotate()
				case "opentest":
					countertest.Open(in.Dir)
				case "openint":
					c := ic.Open(false)
					if !opened {
						closeFn, haveClose = c, true
					}
				}
				opened = true
			case "close":
				if haveClose {
					closeFn()
					closeFn() // "safe to call multiple times"
					if files, _ := filepath.Glob(filepath.Join(in.Dir, "local", "*.count")); len(files) > 0 {
						dead = true
					}
				}
			default:
				panic("x03 child: unknown op " + op.Op)
			}
		})
		steps = append(steps, observe(pan, msg))
	}
	out, _ := json.Marshal(rt.M{"steps": steps})
	if err := os.WriteFile(os.Getenv("X03_OUT"), out, 0666); err != nil {
		fmt.Fprintln(os.Stderr, "x03 child:", err)
		os.Exit(3)
	}
}

// ------------------------------------------------------------------ parent

type lifeHist struct {
	ID   int      `json:"id"`
	Mode string   `json:"mode"`
	Ops  []lifeOp `json:"ops"`
}

func TestVerifX03Life(t *testing.T) {
	defer rt.Flush()
	var in struct {
		Histories []lifeHist `json:"histories"`
		Par       int        `json:"par"`
	}
	if err := rt.In(&in); err != nil {
		t.Skip(err)
	}
	exe, err := os.Executable()
	if err != nil {
		t.Fatal(err)
	}
	base := t.TempDir()
	par := in.Par
	if par <= 0 {
		par = 8
	}
	var wg sync.WaitGroup
	ch := make(chan lifeHist)
	for w := 0; w < par; w++ {
		wg.Add(1)
		go func() {
			defer wg.Done()
			for h := range ch {
				dir := filepath.Join(base, fmt.Sprintf("h%d", h.ID))
				tdir := filepath.Join(dir, "telemetry")
				os.MkdirAll(tdir, 0777)
				inp, _ := json.Marshal(lifeIn{Dir: tdir, Mode: h.Mode, Ops: h.Ops})
				inPath, outPath := filepath.Join(dir, "in.json"), filepath.Join(dir, "out.json")
				os.WriteFile(inPath, inp, 0666)
				cmd := exec.Command(exe)
				cmd.Env = append(os.Environ(), "X03_CHILD=1", "X03_IN="+inPath, "X03_OUT="+outPath, "GODEBUG=")
				var stderr strings.Builder
				cmd.Stderr = &stderr
				done := make(chan error, 1)
				if err := cmd.Start(); err != nil {
					rt.Out(rt.M{"kind": "life", "id": h.ID, "crashed": true, "stderr": err.Error()})
					continue
				}
				go func() { done <- cmd.Wait() }()
				var werr error
				hung := false
				select {
				case werr = <-done:
				case <-time.After(60 * time.Second):
					cmd.Process.Kill()
					<-done
					hung = true
				}
				rec := rt.M{"kind": "life", "id": h.ID, "crashed": false, "hung": hung}
				data, rerr := os.ReadFile(outPath)
				var out struct {
					Steps []rt.M `json:"steps"`
				}
				if werr != nil || rerr != nil || json.Unmarshal(data, &out) != nil {
					rec["crashed"] = true
					s := stderr.String()
					if len(s) > 3000 {
						s = s[:3000]
					}
					rec["stderr"] = s
				} else {
					rec["steps"] = out.Steps
				}
				rt.Out(rec)
				os.RemoveAll(dir)
			}
		}()
	}
	for _, h := range in.Histories {
		ch <- h
	}
	close(ch)
	wg.Wait()
}

// TestVerifX03Bin builds the real program cmd/x03flags from the scratch copy and
// replays histories in it: flags given on its command line, then API calls.
func TestVerifX03Bin(t *testing.T) {
	defer rt.Flush()
	var in struct {
		Histories []struct {
			ID   int      `json:"id"`
			Mode string   `json:"mode"`
			Args []string `json:"args"`
			Ops  []lifeOp `json:"ops"`
		} `json:"histories"`
	}
	if err := rt.In(&in); err != nil {
		t.Skip(err)
	}
	base := t.TempDir()
	exe := filepath.Join(base, "x03flags")
	build := exec.Command("go", "build", "-tags", "verif", "-o", exe, "golang.org/x/telemetry/internal/verifh/x03/cmd/x03flags")
	if out, err := build.CombinedOutput(); err != nil {
		t.Fatalf("building cmd/x03flags: %v\n%s", err, out)
	}
	for _, h := range in.Histories {
		dir := filepath.Join(base, fmt.Sprintf("b%d", h.ID))
		os.MkdirAll(dir, 0777)
		switch h.Mode {
		case "on":
			os.WriteFile(filepath.Join(dir, "mode"), []byte("on 2024-01-01"), 0666)
		case "local":
			os.WriteFile(filepath.Join(dir, "mode"), []byte("local"), 0666)
		case "off":
			os.WriteFile(filepath.Join(dir, "mode"), []byte("off"), 0666)
		}
		ops, _ := json.Marshal(h.Ops)
		outPath := filepath.Join(base, fmt.Sprintf("b%d.json", h.ID))
		cmd := exec.Command(exe, h.Args...)
		cmd.Env = append(os.Environ(), "X03_DIR="+dir, "X03_OPS="+string(ops), "X03_OUT="+outPath, "GODEBUG=")
		var stderr strings.Builder
		cmd.Stderr = &stderr
		err := cmd.Run()
		rec := rt.M{"kind": "bin", "id": h.ID, "crashed": false}
		data, rerr := os.ReadFile(outPath)
		var out struct {
			Steps     []rt.M `json:"steps"`
			BuildPath string `json:"buildpath"`
		}
		if err != nil || rerr != nil || json.Unmarshal(data, &out) != nil {
			rec["crashed"] = true
			s := stderr.String()
			if len(s) > 3000 {
				s = s[:3000]
			}
			rec["stderr"] = s
		} else {
			rec["steps"], rec["buildpath"] = out.Steps, out.BuildPath
		}
		rt.Out(rec)
	}
}

// ---------------------------------------------------------------- free runs

type freeIn struct {
	Runs []struct {
		ID     int   `json:"id"`
		Seed   int64 `json:"seed"`
		Depth  int   `json:"depth"`
		NLeaf  int   `json:"nleaf"`
		NVia   int   `json:"nvia"`
		G      int   `json:"g"`     // incrementing goroutines
		K      int   `json:"k"`     // calls per goroutine and phase
		Obs    int   `json:"obs"`   // observer goroutines
		Plain  int   `json:"plain"` // goroutines with a private plain counter
		Rotate bool  `json:"rotate"`
	} `json:"runs"`
}

func keyOf(depth, nvia, leaf, via int) int {
	switch depth {
	case 0:
		return 1
	case 1:
		return leaf
	}
	return (leaf-1)*nvia + via
}

// calibration of the program counters of the sites (a stack counter of a file that is never opened)
var (
	calOnce sync.Once
	pcLeaf  = map[uintptr]int{}
	pcVia   = map[uintptr]int{}
)

func calibrate() {
	calOnce.Do(func() {
		for l := range leaves {
			for v := range vias {
				vf := &ic.VFile{}
				sc := vf.NewStack("cal", 2)
				vias[v](leaves[l], sc)
				pcs, _ := sc.VStacks()
				if len(pcs) == 1 && len(pcs[0]) == 2 {
					pcLeaf[pcs[0][0]] = l + 1
					pcVia[pcs[0][1]] = v + 1
				}
			}
		}
	})
}

func keyOfPcs(depth, nleaf, nvia int, pcs []uintptr) int {
	if len(pcs) != depth {
		return -2
	}
	switch depth {
	case 0:
		return 1
	case 1:
		l, ok := pcLeaf[pcs[0]]
		if !ok || l > nleaf {
			return -2
		}
		return l
	}
	l, ok := pcLeaf[pcs[0]]
	v, ok2 := pcVia[pcs[1]]
	if !ok || !ok2 || l > nleaf || v > nvia {
		return -2
	}
	return (l-1)*nvia + v
}

// decode is an independent expansion of the ditto marks of a stack counter name.
func decode(name string) string {
	if !strings.Contains(name, "\n") {
		return name
	}
	lines := strings.Split(name, "\n")
	last := ""
	for i, ln := range lines {
		j := strings.LastIndex(ln, ".")
		if j <= 0 {
			continue
		}
		if ln[:j] == `"` {
			lines[i] = last + ln[j:]
		} else {
			last = ln[:j]
		}
	}
	return strings.Join(lines, "\n")
}

func TestVerifX03Free(t *testing.T) {
	defer rt.Flush()
	var in freeIn
	if err := rt.In(&in); err != nil {
		t.Skip(err)
	}
	calibrate()
	if len(pcLeaf) != len(leaves) || len(pcVia) != len(vias) {
		// one Inc from each call site of a fresh depth-2 stack counter did not leave exactly one
		// remembered stack of two program counters per site: reported, not a harness failure
		rt.Out(rt.M{"kind": "calfail", "leafpcs": len(pcLeaf), "viapcs": len(pcVia)})
		return
	}
	t1 := time.Date(2024, 3, 4, 12, 0, 0, 0, time.UTC)
	t2 := t1.AddDate(0, 0, 7)
	var now atomic.Pointer[time.Time]
	ic.CounterTime = func() time.Time { return *now.Load() }
	for _, run := range in.Runs {
		run := run
		dir := t.TempDir()
		telemetry.Default = telemetry.NewDir(dir)
		os.MkdirAll(telemetry.Default.LocalDir(), 0777)
		os.WriteFile(filepath.Join(telemetry.Default.LocalDir(), "weekends"), []byte("2\n"), 0666)
		now.Store(&t1)
		vf := &ic.VFile{}
		vf.SetBuildInfo(&debug.BuildInfo{GoVersion: "go1.23.0", Path: "example.com/verif/x03free", Main: debug.Module{Path: "example.com/verif", Version: "v1.0.0"}})
		sc := vf.NewStack("x03/free", run.Depth)
		ns := 1
		if run.Depth == 1 {
			ns = run.NLeaf
		} else if run.Depth >= 2 {
			ns = run.NLeaf * run.NVia
		}
		nc := ns + run.Plain
		begun := make([]atomic.Int64, nc+1)
		done := make([]atomic.Int64, nc+1)
		plain := make([]*ic.Counter, run.Plain)
		for i := range plain {
			plain[i] = vf.New(fmt.Sprintf("x03/freeplain-%d", i+1))
		}
		var mu sync.Mutex
		var snaps []rt.M
		var faults []string
		guard := func(what string, f func()) {
			debug.SetPanicOnFault(true)
			defer func() {
				if r := recover(); r != nil {
					mu.Lock()
					faults = append(faults, what+": "+fmt.Sprint(r))
					mu.Unlock()
				}
			}()
			f()
		}
		phase := func(ph int, withOpen bool) {
			var wg sync.WaitGroup
			start := make(chan struct{})
			var stop atomic.Bool
			for g := 0; g < run.G; g++ {
				g := g
				wg.Add(1)
				go func() {
					defer wg.Done()
					rng := rand.New(rand.NewSource(run.Seed*1000 + int64(ph*100+g)))
					<-start
					guard("inc", func() {
						for i := 0; i < run.K; i++ {
							l, v := 1+rng.Intn(run.NLeaf), 1+rng.Intn(run.NVia)
							id := keyOf(run.Depth, run.NVia, l, v)
							begun[id].Add(1)
							vias[v-1](leaves[l-1], sc)
							done[id].Add(1)
						}
					})
				}()
			}
			for p := 0; p < run.Plain; p++ {
				p := p
				wg.Add(1)
				go func() {
					defer wg.Done()
					<-start
					guard("plain", func() {
						for i := 0; i < run.K; i++ {
							begun[ns+p+1].Add(1)
							plain[p].Inc()
							done[ns+p+1].Add(1)
						}
					})
				}()
			}
			var owg sync.WaitGroup
			for o := 0; o < run.Obs; o++ {
				o := o
				owg.Add(1)
				go func() {
					defer owg.Done()
					<-start
					guard("observe", func() {
						for n := 0; !stop.Load() && n < 200; n++ {
							var lo, hi, ids []int
							for id := 1; id <= ns; id++ {
								if done[id].Load() > 0 {
									lo = append(lo, id)
								}
							}
							if (n+o)%2 == 0 {
								names := sc.Names()
								// map names to ids through the counters known afterwards (entries are only appended)
								pcs, ctrs := sc.VStacks()
								for j, nm := range names {
									id := -2
									if j < len(ctrs) && ctrs[j] != nil && ctrs[j].Name() == nm {
										id = keyOfPcs(run.Depth, run.NLeaf, run.NVia, pcs[j])
									}
									ids = append(ids, id)
								}
							} else {
								cs := sc.Counters()
								pcs, ctrs := sc.VStacks()
								for j, c := range cs {
									id := -2
									if j < len(ctrs) && ctrs[j] == c && c != nil {
										id = keyOfPcs(run.Depth, run.NLeaf, run.NVia, pcs[j])
									}
									ids = append(ids, id)
								}
							}
							for id := 1; id <= ns; id++ {
								if begun[id].Load() > 0 {
									hi = append(hi, id)
								}
							}
							mu.Lock()
							if len(snaps) < 400 {
								snaps = append(snaps, rt.M{"kind": "fsnap", "ids": nz(ids), "lo": nz(lo), "hi": nz(hi)})
							}
							mu.Unlock()
							// a concurrent read (G3): never more than has been begun
							if cs := sc.Counters(); len(cs) > 0 && cs[n%len(cs)] != nil {
								c := cs[n%len(cs)]
								pcs, ctrs := sc.VStacks()
								id := -2
								for j := range ctrs {
									if ctrs[j] == c {
										id = keyOfPcs(run.Depth, run.NLeaf, run.NVia, pcs[j])
									}
								}
								v, err := ic.Read(c)
								if id > 0 {
									h := begun[id].Load()
									mu.Lock()
									if len(snaps) < 400 {
										snaps = append(snaps, rt.M{"kind": "fread", "id": id, "v": v, "hi": h, "err": errStr(err)})
									}
									mu.Unlock()
								}
							}
							if n%4 == 3 {
								time.Sleep(time.Duration(5+o*7) * time.Microsecond)
							} else {
								runtime.Gosched()
							}
						}
					})
				}()
			}
			if withOpen {
				wg.Add(1)
				go func() {
					defer wg.Done()
					rng := rand.New(rand.NewSource(run.Seed*77 + int64(ph)))
					<-start
					time.Sleep(time.Duration(rng.Intn(300)) * time.Microsecond)
					guard("open", func() { vf.Rotate1() })
				}()
			}
			close(start)
			wg.Wait()
			stop.Store(true)
			owg.Wait()
		}
		phase(1, true) // increments race the first open (nothing is closed: the known finding F1 of C03 cannot strike)
		if run.Rotate {
			// the weekly rotation happens at a barrier: a rotation concurrent with an increment in flight is
			// the scheduled part's business (and C03's known finding F1)
			now.Store(&t2)
			guard("rotate", func() { vf.Rotate1() })
			phase(2, false)
		}
		// ---- final state ----
		var first map[int]*ic.Counter
		var nameID map[string]int
		project := func() rt.M {
			pcs, ctrs := sc.VStacks()
			stacks := []int{}
			nameID = map[string]int{}
			first = map[int]*ic.Counter{}
			mem := make([]int, nc)
			for j := range pcs {
				id := keyOfPcs(run.Depth, run.NLeaf, run.NVia, pcs[j])
				stacks = append(stacks, id)
				if id > 0 && ctrs[j] != nil {
					if _, ok := first[id]; !ok {
						first[id] = ctrs[j]
						nameID[ctrs[j].Name()] = id
					}
					mem[id-1] += int(ctrs[j].VExtra())
				}
			}
			for i, c := range plain {
				first[ns+i+1] = c
				nameID[c.Name()] = ns + i + 1
				mem[ns+i] = int(c.VExtra())
			}
			disk := [][]int{make([]int, nc), make([]int, nc)}
			alien, malformed := 0, 0
			files, _ := filepath.Glob(filepath.Join(dir, "local", "*.count"))
			for _, p := range files {
				span := 0
				switch {
				case strings.Contains(p, "2024-03-04"):
					span = 1
				case strings.Contains(p, "2024-03-11"):
					span = 2
				}
				data, err := os.ReadFile(p)
				if err != nil || span == 0 {
					malformed++
					continue
				}
				dec := rt.DecodeV1(data)
				if !dec.WellFormed() {
					malformed++
				}
				for name, v := range dec.Counts() {
					if id, ok := nameID[name]; ok {
						disk[span-1][id-1] += int(v)
					} else {
						alien++
					}
				}
			}
			cur := 0
			switch cn := vf.CurrentName(); {
			case strings.Contains(cn, "2024-03-04"):
				cur = 1
			case strings.Contains(cn, "2024-03-11"):
				cur = 2
			case cn != "":
				cur = -2
			}
			return rt.M{"stacks": stacks, "cur": cur, "mem": mem, "disk": disk, "alien": alien, "malformed": malformed}
		}
		fin := project()
		stacks := fin["stacks"].([]int)
		bg, dn := make([]int, nc), make([]int, nc)
		for id := 1; id <= nc; id++ {
			bg[id-1], dn[id-1] = int(begun[id].Load()), int(done[id].Load())
		}
		fin["kind"], fin["run"], fin["begun"], fin["done"], fin["nc"], fin["ns"] = "free", run.ID, bg, dn, nc, ns
		fin["faults"], fin["final"], fin["reads"] = faults, len(faults) == 0, false
		if faults == nil {
			fin["faults"] = []string{}
		}
		if len(faults) == 0 {
			pan, msg := protect(func() {
				rd, rderr := make([]int, nc), make([]string, nc)
				for id := 1; id <= nc; id++ {
					rd[id-1] = -1
					if c := first[id]; c != nil {
						v, err := ic.Read(c)
						rd[id-1], rderr[id-1] = int(v), errStr(err)
					}
				}
				rs := make([]int, ns)
				for i := range rs {
					rs[i] = -1
				}
				m, err := ic.ReadStack(sc)
				rsalien := 0
				dec := map[string]int{}
				for name, id := range nameID {
					if id <= ns {
						dec[decode(name)] = id
					}
				}
				for name, v := range m {
					if id, ok := dec[name]; ok {
						rs[id-1] = int(v)
					} else {
						rsalien++
					}
				}
				names, cs := sc.Names(), sc.Counters()
				agree := len(names) == len(cs)
				for i := 0; agree && i < len(names); i++ {
					agree = cs[i] != nil && cs[i].Name() == names[i]
				}
				fin["rd"], fin["rderr"], fin["rs"], fin["rserr"], fin["rsalien"], fin["namesAgree"] = rd, rderr, rs, errStr(err), rsalien, agree
				after := project()
				fin["diskAfterRead"], fin["memAfterRead"] = after["disk"], after["mem"]
				fin["reads"] = true
			})
			if pan {
				fin["readpanic"] = msg
			}
		}
		rt.Out(fin)
		for _, s := range snaps {
			s["run"], s["fin"] = run.ID, stacks
			rt.Out(s)
		}
		vf.Close()
	}
}

func nz(x []int) []int {
	if x == nil {
		return []int{}
	}
	return x
}

// ------------------------------------------------------- foreign counter files

type fileVec struct {
	ID      int `json:"id"`
	Entries []struct {
		Name  string `json:"name"`
		Value uint64 `json:"value"`
	} `json:"entries"`
	Pad int `json:"pad"` // extra filler records (forces further pages and hash collisions)
}

func TestVerifX03File(t *testing.T) {
	defer rt.Flush()
	var in struct {
		Vectors []fileVec `json:"vectors"`
	}
	if err := rt.In(&in); err != nil {
		t.Skip(err)
	}
	dir := t.TempDir()
	meta := rt.V1Meta("2024-03-04T00:00:00Z", "2024-03-05T00:00:00Z", "example.com/other", "v1.2.3", "go1.22.1", "linux", "amd64")
	for _, v := range in.Vectors {
		var es []rt.V1Entry
		for _, e := range v.Entries {
			es = append(es, rt.V1Entry{Name: e.Name, Value: e.Value})
		}
		for i := 0; i < v.Pad; i++ {
			es = append(es, rt.V1Entry{Name: fmt.Sprintf("x03/pad/%04d/%s", i, strings.Repeat("p", 40+i%50)), Value: uint64(1000 + i)})
		}
		data, err := rt.WriteV1(meta, es)
		if err != nil {
			t.Fatalf("writer: %v", err)
		}
		p := filepath.Join(dir, fmt.Sprintf("other-%d.v1.count", v.ID))
		if err := os.WriteFile(p, data, 0666); err != nil {
			t.Fatal(err)
		}
		rec := rt.M{"kind": "file", "id": v.ID, "size": len(data)}
		pan, msg := protect(func() {
			cs, ss, err := countertest.ReadFile(p)
			rec["err"] = errStr(err)
			c2, s2 := rt.M{}, rt.M{}
			npad := 0
			for k, val := range cs {
				if strings.HasPrefix(k, "x03/pad/") {
					var i int
					fmt.Sscanf(k, "x03/pad/%04d/", &i)
					if val == uint64(1000+i) {
						npad++
					}
					continue
				}
				c2[k] = val
			}
			for k, val := range ss {
				s2[k] = val
			}
			rec["counters"], rec["stacks"], rec["npad"] = c2, s2, npad
		})
		rec["panic"] = ""
		if pan {
			rec["panic"] = msg
		}
		after, _ := os.ReadFile(p)
		rec["unchanged"] = string(after) == string(data)
		rt.Out(rec)
		os.Remove(p)
	}
}
