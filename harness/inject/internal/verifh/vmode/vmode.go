//go:build verif

// Package vmode holds what the harnesses of C02 and C19 share: the abstract
// mode-file classes of spec/ModeFile.tla with their concretization and the
// harness' own (independent) classification of real mode-file bytes, the
// library's read-back, calendar helpers and the recursive directory Snapshot.
package vmode

import (
	"bytes"
	"crypto/sha256"
	"encoding/hex"
	"os"
	"path/filepath"
	"regexp"
	"strconv"
	"time"

	"golang.org/x/telemetry/internal/telemetry"
)

const (
	NoDate  = -1
	BadDate = -2
)

func DateOf(day int) string { return time.Unix(int64(day)*86400, 0).UTC().Format("2006-01-02") }
func At(day, tod int) time.Time {
	return time.Unix(int64(day)*86400+int64(tod), 0).UTC()
}

var dateRE = regexp.MustCompile(`^\d{4}-\d{2}-\d{2}$`)

// DayOf is the harness' own strict reading of a calendar date.
func DayOf(s string) (int, bool) {
	if !dateRE.MatchString(s) {
		return 0, false
	}
	y, _ := strconv.Atoi(s[0:4])
	m, _ := strconv.Atoi(s[5:7])
	d, _ := strconv.Atoi(s[8:10])
	t := time.Date(y, time.Month(m), d, 0, 0, 0, 0, time.UTC)
	if t.Year() != y || int(t.Month()) != m || t.Day() != d || y < 1970 {
		return 0, false
	}
	return int(t.Unix() / 86400), true
}

// ---------------------------------------------------------------- mode file

type ModeFile struct {
	K   string `json:"k"`
	W   string `json:"w"`
	D   int    `json:"d"`
	Pad bool   `json:"pad"`
}

var badDates = []string{"2024-13-01", "2023-02-30", "yesterday", "2024-1-1", "20240101", "2024-01-01T00:00:00Z", "2024-01-01 x", "01/02/2024", "-", "2024-01-0"}
var pads = [][2]string{{"", "\n"}, {" ", ""}, {"", " \n"}, {"\t", "\r\n"}, {"\n", "\n\n"}, {"  ", "  "}}

// ModeBytes gives concrete bytes of an abstract mode-file class.
func ModeBytes(mf ModeFile, variant int) []byte {
	s := mf.W
	switch {
	case mf.D >= 0:
		s += " " + DateOf(mf.D)
	case mf.D == BadDate:
		s += " " + badDates[variant%len(badDates)]
	}
	if mf.Pad {
		p := pads[(variant/7)%len(pads)]
		s = p[0] + s + p[1]
	}
	return []byte(s)
}

func WriteMode(dir string, mf ModeFile, variant int) error {
	p := filepath.Join(dir, "mode")
	os.RemoveAll(p)
	switch mf.K {
	case "absent":
		return nil
	case "unreadable":
		return os.Mkdir(p, 0777)
	}
	return os.WriteFile(p, ModeBytes(mf, variant), 0666)
}

func isASCIISpace(b byte) bool {
	return b == ' ' || b == '\t' || b == '\n' || b == '\r' || b == '\v' || b == '\f'
}

func SafeWord(w string) string {
	switch w {
	case "on", "off", "local", "":
		return w
	}
	for i := 0; i < len(w); i++ {
		if w[i] < 0x21 || w[i] > 0x7e || w[i] == '"' || w[i] == '\\' {
			return "<other>"
		}
	}
	if len(w) > 24 {
		return "<other>"
	}
	return w
}

// Classify is the harness' independent abstraction of the mode file.
func Classify(dir string) ModeFile {
	p := filepath.Join(dir, "mode")
	fi, err := os.Lstat(p)
	if err != nil {
		return ModeFile{K: "absent", D: NoDate}
	}
	if !fi.Mode().IsRegular() {
		return ModeFile{K: "unreadable", D: NoDate}
	}
	data, err := os.ReadFile(p)
	if err != nil {
		return ModeFile{K: "unreadable", D: NoDate}
	}
	s := data
	for len(s) > 0 && isASCIISpace(s[0]) {
		s = s[1:]
	}
	for len(s) > 0 && isASCIISpace(s[len(s)-1]) {
		s = s[:len(s)-1]
	}
	mf := ModeFile{K: "text", D: NoDate, Pad: len(s) != len(data)}
	if i := bytes.IndexByte(s, ' '); i >= 0 {
		mf.W = SafeWord(string(s[:i]))
		if d, ok := DayOf(string(s[i+1:])); ok {
			mf.D = d
		} else {
			mf.D = BadDate
		}
	} else {
		mf.W = SafeWord(string(s))
	}
	return mf
}

type ReadBack struct {
	W string `json:"w"`
	D int    `json:"d"`
}

// LibRead is what the library reports for the mode file.
func LibRead(dir string) ReadBack {
	m, t := telemetry.NewDir(dir).Mode()
	r := ReadBack{W: SafeWord(m), D: NoDate}
	if !t.IsZero() {
		if t.Unix()%86400 != 0 {
			r.D = -3
		} else {
			r.D = int(t.Unix() / 86400)
		}
	}
	return r
}

type SnapEntry struct {
	Size int64
	Sum  string
	Dir  bool
}

// Snapshot is the recursive Snapshot (names, sizes, SHA-256) of a directory.
func Snapshot(dir string) map[string]SnapEntry {
	out := map[string]SnapEntry{}
	filepath.Walk(dir, func(p string, fi os.FileInfo, err error) error {
		if err != nil || p == dir {
			return nil
		}
		rel, _ := filepath.Rel(dir, p)
		if fi.IsDir() {
			out[rel] = SnapEntry{Dir: true}
			return nil
		}
		data, _ := os.ReadFile(p)
		h := sha256.Sum256(data)
		out[rel] = SnapEntry{Size: fi.Size(), Sum: hex.EncodeToString(h[:])}
		return nil
	})
	return out
}
