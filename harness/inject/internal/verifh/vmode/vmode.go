//go:build verif

// Package vmode holds what the harnesses of C02 and C19 share: the abstract
// mode-file classes of spec/ModeFile.tla with their concretization and the
// harness' own (independent) classification of real mode-file bytes, the
// library's read-back, calendar helpers and the recursive directory Snapshot.
package vmode

import (
	"bytes"
	"crypto/sha256"
	"encoding/hex"
	"os"
	"path/filepath"
	"regexp"
	"strconv"
	"strings"
	"time"
	"unicode/utf8"

	"golang.org/x/telemetry/internal/telemetry"
)

const (
	NoDate  = -1
	BadDate = -2
)

func DateOf(day int) string { return time.Unix(int64(day)*86400, 0).UTC().Format("2006-01-02") }
func At(day, tod int) time.Time {
	return time.Unix(int64(day)*86400+int64(tod), 0).UTC()
}

var dateRE = regexp.MustCompile(`^\d{4}-\d{2}-\d{2}$`)

// DayOf is the harness' own strict reading of a calendar date.
func DayOf(s string) (int, bool) {
	if !dateRE.MatchString(s) {
		return 0, false
	}
	y, _ := strconv.Atoi(s[0:4])
	m, _ := strconv.Atoi(s[5:7])
	d, _ := strconv.Atoi(s[8:10])
	t := time.Date(y, time.Month(m), d, 0, 0, 0, 0, time.UTC)
	if t.Year() != y || int(t.Month()) != m || t.Day() != d || y < 1970 || y > 9000 {
		return 0, false
	}
	return int(t.Unix() / 86400), true
}

// ---------------------------------------------------------------- mode file

type ModeFile struct {
	K   string `json:"k"`
	W   string `json:"w"`
	D   int    `json:"d"`
	Pad bool   `json:"pad"`
}

var badDates = []string{"2024-13-01", "2023-02-30", "yesterday", "2024-1-1", "20240101", "2024-01-01T00:00:00Z", "2024-01-01 x", "01/02/2024", "-", "2024-01-0"}

// white space around the text: ASCII blanks, tabs, line ends, vertical tab and
// form feed, the Unicode spaces (NEL, no-break space, em space, ideographic
// space, line separator) and a very long run of blanks
var pads = [][2]string{{"", "\n"}, {" ", ""}, {"", " \n"}, {"\t", "\r\n"}, {"\n", "\n\n"}, {"  ", "  "},
	{"", "\u00a0"}, {"\u0085", "\n"}, {"\u2003", "\u3000"}, {"\v", "\f"}, {"", "\u2028\n"}, {longBlank, "\n"}, {"", longBlank}}

var longBlank = strings.Repeat(" ", 70000)

// ModeBytes gives concrete bytes of an abstract mode-file class.
func ModeBytes(mf ModeFile, variant int) []byte {
	s := mf.W
	switch {
	case mf.D >= 0:
		s += " " + DateOf(mf.D)
	case mf.D == BadDate:
		s += " " + badDates[variant%len(badDates)]
	}
	if mf.Pad {
		p := pads[(variant/7)%len(pads)]
		s = p[0] + s + p[1]
	}
	return []byte(s)
}

func WriteMode(dir string, mf ModeFile, variant int) error {
	p := filepath.Join(dir, "mode")
	os.RemoveAll(p)
	switch mf.K {
	case "absent":
		return nil
	case "unreadable":
		return os.Mkdir(p, 0777)
	}
	return os.WriteFile(p, ModeBytes(mf, variant), 0666)
}

// isWhiteSpace: the code points with the Unicode White_Space property (the
// harness' own table).
func isWhiteSpace(r rune) bool {
	switch {
	case r >= 0x09 && r <= 0x0d, r == 0x20, r == 0x85, r == 0xa0, r == 0x1680, r >= 0x2000 && r <= 0x200a,
		r == 0x2028, r == 0x2029, r == 0x202f, r == 0x205f, r == 0x3000:
		return true
	}
	return false
}

func isASCIISpace(b byte) bool {
	return b == ' ' || b == '\t' || b == '\n' || b == '\r' || b == '\v' || b == '\f'
}

func SafeWord(w string) string {
	switch w {
	case "on", "off", "local", "":
		return w
	}
	for i := 0; i < len(w); i++ {
		if w[i] < 0x21 || w[i] > 0x7e || w[i] == '"' || w[i] == '\\' {
			return "<other>"
		}
	}
	if len(w) > 24 {
		return "<other>"
	}
	return w
}

// Classify is the harness' independent abstraction of the mode file.
func Classify(dir string) ModeFile {
	p := filepath.Join(dir, "mode")
	fi, err := os.Lstat(p)
	if err != nil {
		return ModeFile{K: "absent", D: NoDate}
	}
	if !fi.Mode().IsRegular() {
		return ModeFile{K: "unreadable", D: NoDate}
	}
	data, err := os.ReadFile(p)
	if err != nil {
		return ModeFile{K: "unreadable", D: NoDate}
	}
	s := data
	for len(s) > 0 {
		r, n := utf8.DecodeRune(s)
		if !isWhiteSpace(r) || (r == utf8.RuneError && n == 1) {
			break
		}
		s = s[n:]
	}
	for len(s) > 0 {
		r, n := utf8.DecodeLastRune(s)
		if !isWhiteSpace(r) || (r == utf8.RuneError && n == 1) {
			break
		}
		s = s[:len(s)-n]
	}
	mf := ModeFile{K: "text", D: NoDate, Pad: len(s) != len(data)}
	if i := bytes.IndexByte(s, ' '); i >= 0 {
		mf.W = SafeWord(string(s[:i]))
		if d, ok := DayOf(string(s[i+1:])); ok {
			mf.D = d
		} else {
			mf.D = BadDate
		}
	} else {
		mf.W = SafeWord(string(s))
	}
	return mf
}

type ReadBack struct {
	W string `json:"w"`
	D int    `json:"d"`
}

// LibRead is what the library reports for the mode file.
func LibRead(dir string) ReadBack {
	m, t := telemetry.NewDir(dir).Mode()
	r := ReadBack{W: SafeWord(m), D: NoDate}
	if !t.IsZero() {
		if t.Unix()%86400 != 0 {
			r.D = -3
		} else {
			r.D = int(t.Unix() / 86400)
		}
	}
	return r
}

type SnapEntry struct {
	Size int64
	Sum  string
	Dir  bool
}

// Snapshot is the recursive Snapshot (names, sizes, SHA-256) of a directory.
func Snapshot(dir string) map[string]SnapEntry {
	out := map[string]SnapEntry{}
	filepath.Walk(dir, func(p string, fi os.FileInfo, err error) error {
		if err != nil || p == dir {
			return nil
		}
		rel, _ := filepath.Rel(dir, p)
		if fi.IsDir() {
			out[rel] = SnapEntry{Dir: true}
			return nil
		}
		data, _ := os.ReadFile(p)
		h := sha256.Sum256(data)
		out[rel] = SnapEntry{Size: fi.Size(), Sum: hex.EncodeToString(h[:])}
		return nil
	})
	return out
}
