//go:build verif

package upload

// Conformance harness for Uploader.tla (properties C07 and C08): uploader
// runs are interleaved at every file-system / HTTP call, may be killed
// between two calls, and the harness-owned server answers what the schedule
// says.

import (
	"path"
	"crypto/rand"
	"crypto/sha256"
	"encoding/binary"
	"encoding/hex"
	"encoding/json"
	"errors"
	"fmt"
	"io"
	"log"
	"math"
	mrand "math/rand"
	"net/http"
	"net/http/httptest"
	"os"
	"path/filepath"
	"sort"
	"strings"
	"testing"
	"time"

	"golang.org/x/telemetry/internal/telemetry"
	rt "golang.org/x/telemetry/internal/verifrt"
)

type c08Run struct {
	ID        int      `json:"id"`
	Family    string   `json:"family"`
	Uploaders []string `json:"uploaders"`
	Files     []int    `json:"files"`    // file ids (sorted)
	WeekOf    []int    `json:"weekOf"`   // week number of each file
	Weeks     []int    `json:"weeks"`    // week numbers
	MaxRuns   int      `json:"maxRuns"`
	Late      []int    `json:"late"` // count files that appear only on "arrive:<id>"
	Schedule  []string `json:"schedule"` // task names or "kill:<task>"
	Replies   []string `json:"replies"`  // planned replies, in request order
	Finish    string   `json:"finish"`
	Seed      int64    `json:"seed"`
	DirDate   bool     `json:"dirDate"` // the telemetry directory's path contains a week date
	Extras    bool     `json:"extras"` // add an active and an unreadable count file (must stay untouched)
	BuildVar  int      `json:"buildVar"`  // which of the five build fields differs between odd and even files (0 GOARCH, 1 GOOS, 2 GoVersion, 3 Version, 4 Program, 5 none: one build, values add up)
	ModeLocal bool     `json:"modeLocal"` // the mode file says local: reports are made, nothing is offered for upload
	EndFmt    int      `json:"endFmt"`    // 0: TimeEnd written as ...Z; 1: even files write the same instant as ...+00:00; 2: all files do; 3: all files end at midnight +09:00 and the run starts 5 h later (mode local only)
	Aged      bool     `json:"aged"`      // the reports were made by an earlier run; every uploader of the race starts 14 days later (weeks older than 21 days)
}

// c08Build is the build (program, version, Go version, GOOS, GOARCH) that wrote count file f.
func c08Build(f, v int) [5]string {
	b := [5]string{"prog", "v1.0.0", "go1.21.0", "linux", "amd64"}
	if f%2 == 0 {
		switch v {
		case 0:
			b[4] = "386"
		case 1:
			b[3] = "darwin"
		case 2:
			b[2] = "go1.22.0"
		case 3:
			b[1] = "v1.1.0"
		case 4:
			b[0] = "example.com/local.prog" // its count files are named local.prog@...: not to be taken for local reports
		}
	}
	return b
}

const c08Stack = "st\nmain.f:10,+0x1"

var c08WeekDate = map[int]string{1: "2024-01-08", 2: "2024-01-15", 3: "2024-01-22"}

type taskReader struct{}

// X of an uploader run is determined by the task that asks: u1 -> 0.125, u2 -> 0.25, ...
func (taskReader) Read(p []byte) (int, error) {
	x := 0.0625
	name := rt.CurrentTask()
	if len(name) >= 2 {
		x = 0.125 * float64(name[1]-'0')
	}
	var b [8]byte
	binary.LittleEndian.PutUint64(b[:], math.Float64bits(0.5+x/2))
	for i := range p {
		p[i] = b[i%8]
	}
	return len(p), nil
}

type c08World struct {
	run     *c08Run
	dir     string
	acked   []rt.M
	posts   []rt.M
	plan    []string
	next    string
	runs    map[string]int
	sched   *rt.Sched
	extras  map[string]string // path -> sha256
	curPost rt.M
}

func sha(b []byte) string { h := sha256.Sum256(b); return hex.EncodeToString(h[:8]) }

func (w *c08World) bodyOf(data []byte) rt.M {
	if len(data) == 0 {
		return rt.M{"st": "body", "by": "?", "files": []int{}, "complete": false}
	}
	var r telemetry.Report
	if err := json.Unmarshal(data, &r); err != nil {
		return rt.M{"st": "body", "by": "?", "files": []int{}, "complete": false, "garbled": true}
	}
	by := fmt.Sprintf("u%d", int(math.Round(r.X/0.125)))
	var sum int64
	for _, p := range r.Programs {
		sum += p.Counters["c"]
	}
	files := []int{}
	for _, f := range w.run.Files {
		if sum&(1<<uint(f)) != 0 {
			files = append(files, f)
		}
	}
	// every program report must hold exactly the sum over the files of ITS build
	// (the five build fields), for the counter and for the stack counter, and no
	// build may appear twice
	buildsOK := true
	seen := map[string]bool{}
	for _, p := range r.Programs {
		key := [5]string{p.Program, p.Version, p.GoVersion, p.GOOS, p.GOARCH}
		ks := strings.Join(key[:], "|")
		if seen[ks] {
			buildsOK = false
		}
		seen[ks] = true
		var want int64
		known := false
		for _, f := range w.run.Files {
			if c08Build(f, w.run.BuildVar) == key {
				known = true
			}
		}
		for _, f := range files {
			if c08Build(f, w.run.BuildVar) == key {
				want += 1 << uint(f)
			}
		}
		if !known || p.Counters["c"] != want || len(p.Counters) > 1 {
			buildsOK = false
		}
		if want != 0 && (p.Stacks[c08Stack] != want || len(p.Stacks) != 1) {
			buildsOK = false
		}
		if want == 0 && len(p.Stacks) > 0 {
			buildsOK = false
		}
	}
	return rt.M{"st": "body", "by": by, "files": files, "complete": true, "week": r.Week, "buildsok": buildsOK}
}

func (w *c08World) fileState(path string) rt.M {
	data, err := os.ReadFile(path)
	if err != nil {
		return rt.M{"st": "absent"}
	}
	b := w.bodyOf(data)
	b["st"] = "file"
	return b
}

func (w *c08World) project() rt.M {
	local, upload := filepath.Join(w.dir, "local"), filepath.Join(w.dir, "upload")
	count := []int{}
	for i, f := range w.run.Files {
		_ = i
		if _, err := os.Stat(filepath.Join(local, c08CountName(f, w.run.BuildVar))); err == nil {
			count = append(count, f)
		}
	}
	ready, localr, uploaded, lock := rt.M{}, rt.M{}, rt.M{}, rt.M{}
	for _, wk := range w.run.Weeks {
		d := c08WeekDate[wk]
		k := fmt.Sprint(wk)
		ready[k] = w.fileState(filepath.Join(local, d+".json"))
		localr[k] = w.fileState(filepath.Join(local, "local."+d+".json"))
		uploaded[k] = w.fileState(filepath.Join(upload, d+".json"))
		_, err := os.Stat(filepath.Join(upload, d+".json.lock"))
		lock[k] = err == nil
	}
	untouched := true
	for p, h := range w.extras {
		data, err := os.ReadFile(p)
		if err != nil || sha(data) != h {
			untouched = false
		}
	}
	alive, quiet := rt.M{}, true
	for _, t := range w.sched.Tasks {
		alive[t.Name] = t.State != rt.Killed
		if t.State != rt.Done {
			quiet = false
		}
	}
	acks := append([]rt.M{}, w.acked...)
	posts := append([]rt.M{}, w.posts...)
	return rt.M{"count": count, "ready": ready, "localr": localr, "uploaded": uploaded, "lock": lock, "acks": acks, "posts": posts,
		"alive": alive, "untouched": untouched, "quiet": quiet}
}

// c08CountName: the uploader takes every *.v1.count file and reads the build from its metadata; names sort by
// file id (the model parses in that order).  In variant 4 the names begin with "local." like the count files of
// a program whose base name does (they must not be taken for local reports).
func c08CountName(f, v int) string {
	b := c08Build(f, v)
	pre := ""
	if v == 4 {
		pre = "local."
	}
	return fmt.Sprintf("%sf%d-%s@%s-%s-%s-%s-2024-01-01.v1.count", pre, f, path.Base(b[0]), b[1], b[2], b[3], b[4])
}

func TestVerifC08(t *testing.T) {
	defer rt.Flush()
	var in struct {
		Runs []c08Run `json:"runs"`
	}
	if err := rt.In(&in); err != nil {
		t.Skip(err)
	}
	rand.Reader = taskReader{}
	for i := range in.Runs {
		c08One(t, &in.Runs[i])
	}
}

// after a few runs that hang or deadlock the rest of the batch is skipped: each hang costs
// the step timeout, and the verdict is already clear
var c08Stuck int

func c08One(t *testing.T, run *c08Run) {
	if c08Stuck >= 6 {
		rt.Out(rt.M{"kind": "result", "run": run.ID, "family": run.Family, "status": "skipped", "steps": 0, "schedule": []string{}})
		return
	}
	base := t.TempDir()
	if run.DirDate {
		base = filepath.Join(base, "backup-"+c08WeekDate[1])
		os.MkdirAll(base, 0777)
	}
	w := &c08World{run: run, dir: base, plan: append([]string{}, run.Replies...), runs: map[string]int{}, extras: map[string]string{}}
	local, upload := filepath.Join(w.dir, "local"), filepath.Join(w.dir, "upload")
	os.MkdirAll(local, 0777)
	os.MkdirAll(upload, 0777)
	if run.ModeLocal {
		os.WriteFile(filepath.Join(w.dir, "mode"), []byte("local 2020-01-01"), 0666)
	} else {
		os.WriteFile(filepath.Join(w.dir, "mode"), []byte("on 2020-01-01"), 0666)
	}
	start := time.Date(2024, 1, 24, 12, 0, 0, 0, time.UTC)
	isLate := map[int]bool{}
	for _, f := range run.Late {
		isLate[f] = true
	}
	writeCount := func(i, f int) {
		end := c08WeekDate[run.WeekOf[i]]
		endT, _ := time.Parse("2006-01-02", end)
		b := c08Build(f, run.BuildVar)
		endS := endT.Format(time.RFC3339)
		if run.EndFmt == 2 || (run.EndFmt == 1 && f%2 == 0) {
			endS = endT.Format("2006-01-02T15:04:05") + "+00:00" // the same instant, written with a numeric offset
		}
		if run.EndFmt == 3 {
			// midnight of the same calendar day in a zone east of UTC (nine hours EARLIER as an instant);
			// the week is still named by the date the file records
			endS = endT.Format("2006-01-02T15:04:05") + "+09:00"
		}
		meta := rt.V1Meta(endT.AddDate(0, 0, -7).Format(time.RFC3339), endS, b[0], b[1], b[2], b[3], b[4])
		data, err := rt.WriteV1(meta, []rt.V1Entry{{Name: "c", Value: 1 << uint(f)}, {Name: c08Stack, Value: 1 << uint(f)}})
		if err != nil {
			t.Fatal(err)
		}
		os.WriteFile(filepath.Join(local, c08CountName(f, run.BuildVar)), data, 0666)
	}
	for i, f := range run.Files {
		if !isLate[f] {
			writeCount(i, f)
		}
	}
	if run.Extras {
		// a file that has not ended yet, and one that cannot be parsed
		endT := start.AddDate(0, 0, 3)
		meta := rt.V1Meta(start.AddDate(0, 0, -4).Format(time.RFC3339), endT.Format(time.RFC3339), "prog", "v1.0.0", "go1.21.0", "linux", "amd64")
		data, _ := rt.WriteV1(meta, []rt.V1Entry{{Name: "c", Value: 1 << 20}})
		p1 := filepath.Join(local, "zactive-prog@v1.0.0-go1.21.0-linux-amd64-2024-01-20.v1.count")
		os.WriteFile(p1, data, 0666)
		w.extras[p1] = sha(data)
		junk := []byte("# telemetry/counter file v1\n junk junk junk")
		p2 := filepath.Join(local, "zjunk-prog@v1.0.0-go1.21.0-linux-amd64-2024-01-01.v1.count")
		os.WriteFile(p2, junk, 0666)
		w.extras[p2] = sha(junk)
		// a week of its own (ended 2024-01-19) in which no program ever counted anything: two readable files
		// without any counter.  That week gets no report, so its files may not be removed.
		{
			endT := time.Date(2024, 1, 19, 0, 0, 0, 0, time.UTC)
			for _, arch := range []string{"amd64", "arm64"} {
				meta := rt.V1Meta(endT.AddDate(0, 0, -7).Format(time.RFC3339), endT.Format(time.RFC3339), "prog", "v1.0.0", "go1.21.0", "linux", arch)
				empty, _ := rt.WriteV1(meta, nil)
				p := filepath.Join(local, "idleweek-prog@v1.0.0-go1.21.0-linux-"+arch+"-2024-01-12.v1.count")
				os.WriteFile(p, empty, 0666)
				w.extras[p] = sha(empty)
			}
		}
		// in the week of the first early file: two files with a valid header but a damaged body
		// (cannot be read: must stay untouched even though their week gets its report), and two
		// readable files without any counter, sorting before and after all others (they change nothing)
		for i, f := range run.Files {
			if isLate[f] {
				continue
			}
			endT, _ := time.Parse("2006-01-02", c08WeekDate[run.WeekOf[i]])
			b := c08Build(f, run.BuildVar)
			meta := rt.V1Meta(endT.AddDate(0, 0, -7).Format(time.RFC3339), endT.Format(time.RFC3339), b[0], b[1], b[2], b[3], b[4])
			full, _ := rt.WriteV1(meta, []rt.V1Entry{{Name: "c", Value: 1 << 21}})
			hdr := append([]byte{}, full[:rt.V1HeaderLen(meta)]...)
			p3 := filepath.Join(local, "mcut-prog@v1.0.0-go1.21.0-linux-"+b[4]+"-2024-01-22.v1.count")
			os.WriteFile(p3, hdr, 0666)
			w.extras[p3] = sha(hdr)
			tab := rt.V1HeaderLen(meta) + 4
			binary.LittleEndian.PutUint32(full[tab+4*rt.V1Hash("c"):], 0x00ffff00)
			p4 := filepath.Join(local, "mlink-prog@v1.0.0-go1.21.0-linux-"+b[4]+"-2024-01-23.v1.count")
			os.WriteFile(p4, full, 0666)
			w.extras[p4] = sha(full)
			empty, _ := rt.WriteV1(meta, nil)
			os.WriteFile(filepath.Join(local, "aaa-idle-prog@v1.0.0-go1.21.0-linux-"+b[4]+"-2024-01-24.v1.count"), empty, 0666)
			os.WriteFile(filepath.Join(local, "zzz-idle-prog@v1.0.0-go1.21.0-linux-"+b[4]+"-2024-01-25.v1.count"), empty, 0666)
			break
		}
	}
	pc := func(name string) *telemetry.ProgramConfig {
		return &telemetry.ProgramConfig{Name: name, Versions: []string{"v1.0.0", "v1.1.0"}, Counters: []telemetry.CounterConfig{{Name: "c", Rate: 1}},
			Stacks: []telemetry.CounterConfig{{Name: "st", Rate: 1, Depth: 4}}}
	}
	cfg := &telemetry.UploadConfig{GOOS: []string{"linux", "darwin"}, GOARCH: []string{"amd64", "386"}, GoVersion: []string{"go1.21.0", "go1.22.0"}, SampleRate: 1,
		Programs: []*telemetry.ProgramConfig{pc("prog"), pc("example.com/local.prog")}}

	srv := httptest.NewServer(http.HandlerFunc(func(rw http.ResponseWriter, r *http.Request) {
		body, _ := io.ReadAll(r.Body)
		b := w.bodyOf(body)
		wk := 0
		for k, d := range c08WeekDate {
			if strings.HasSuffix(r.URL.Path, "/"+d) {
				wk = k
			}
		}
		reply := w.next
		p := rt.M{"w": wk, "body": b, "reply": reply}
		for k, v := range w.curPost {
			p[k] = v
		}
		w.posts = append(w.posts, p)
		switch reply {
		case "200":
			w.acked = append(w.acked, rt.M{"w": wk, "body": b})
			rw.WriteHeader(200)
		case "4xx":
			// any client error, not only 400
			rw.WriteHeader([]int{400, 404, 401, 403, 408, 409, 413, 422, 429, 451, 499}[(run.ID+len(w.posts))%11])
		default:
			// any server error, not only 500
			rw.WriteHeader([]int{500, 501, 503, 502, 504, 505, 507, 508, 511, 520, 599}[(run.ID+len(w.posts))%11])
		}
	}))
	defer srv.Close()

	// requests are intercepted in the transport: independent of the client API the uploader uses
	defer rt.InstallHTTP()()

	s := rt.NewSched()
	defer s.Close()
	w.sched = s
	s.StepTimeout = 10 * time.Second
	// the parsed-file cache mutex is private to one uploader: never contended
	s.Transparent = func(fn, kind string) bool { return kind == "Mutex.Lock" }
	rng := mrand.New(mrand.NewSource(run.Seed))
	rt.FaultHook = func(kind, path string) error {
		if kind != "http.Post" {
			return nil
		}
		r := "200"
		if len(w.plan) > 0 {
			r, w.plan = w.plan[0], w.plan[1:]
		} else if run.Finish == "random" || run.Finish == "randomkill" {
			r = []string{"200", "200", "4xx", "5xx", "none"}[rng.Intn(5)]
		}
		// was this week already acknowledged and recorded as uploaded?
		wk := 0
		for k, d := range c08WeekDate {
			if strings.HasSuffix(path, "/"+d) {
				wk = k
			}
		}
		_, serr := os.Stat(filepath.Join(upload, c08WeekDate[wk]+".json"))
		ackd := false
		for _, a := range w.acked {
			if a["w"] == wk {
				ackd = true
			}
		}
		w.curPost = rt.M{"by": rt.CurrentTask(), "n": w.runs[rt.CurrentTask()], "after": serr == nil && ackd}
		if r == "none" {
			w.posts = append(w.posts, rt.M{"w": wk, "body": rt.M{"st": "body", "by": "?", "files": []int{}, "complete": false, "unseen": true}, "reply": "none",
				"by": rt.CurrentTask(), "n": w.runs[rt.CurrentTask()], "after": serr == nil && ackd})
			return errors.New("verif: no answer")
		}
		w.next = r
		return nil
	}
	defer func() { rt.FaultHook = nil }()

	if run.EndFmt == 3 {
		// the run starts five hours after the last week's files ended, i.e. on the UTC day BEFORE the date they record
		last := 0
		for _, wk := range run.Weeks {
			if wk > last {
				last = wk
			}
		}
		endT, _ := time.Parse("2006-01-02", c08WeekDate[last])
		start = endT.Add(-9*time.Hour + 5*time.Hour)
	}
	if run.Aged {
		// an earlier run (at the normal start time) made the reports and could not deliver them; the race
		// happens two weeks later, when the older weeks are more than 21 days in the past
		u0 := &uploader{config: cfg, configVersion: "v1.2.3", dir: telemetry.NewDir(w.dir), uploadServerURL: srv.URL,
			startTime: start, logger: log.New(io.Discard, "", 0)}
		todo := u0.findWork()
		u0.reports(&todo)
		start = start.AddDate(0, 0, 14)
	}
	for ui, name := range run.Uploaders {
		name := name
		// the uploaders start on different UTC days (13 h apart); the same count files are finished for all of them
		gap := 13 * time.Hour
		if run.EndFmt == 3 {
			gap = time.Hour // all of them on the UTC day before the recorded date
		}
		start := start.Add(time.Duration(ui) * gap)
		tk := s.Go(name, func() {
			for k := 0; k < run.MaxRuns; k++ {
				rt.Yield("run", "")
				w.runs[name]++
				func() {
					defer func() {
						if r := recover(); r != nil {
							panic(r) // the exported Run recovers; the property says no panic should be needed
						}
					}()
					u := &uploader{config: cfg, configVersion: "v1.2.3", dir: telemetry.NewDir(w.dir), uploadServerURL: srv.URL,
						startTime: start, logger: log.New(io.Discard, "", 0)}
					u.Run()
				}()
			}
		})
		s.Step(tk) // up to the first "run" yield: not a model step
	}
	emit := func(kind string, m rt.M) {
		m["kind"], m["run"], m["family"] = kind, run.ID, run.Family
		rt.Out(m)
	}
	step := 0
	p := w.project()
	p["i"], p["t"] = 0, "init"
	emit("obs", p)
	status := "ok"
	var sched []string
	var fault rt.M
	hist := map[string][][2]string{}
	doStep := func(tk *rt.Task) bool {
		label, kind, arg := tk.Label, tk.Kind, tk.Arg
		step++
		ok := s.Step(tk)
		sched = append(sched, tk.Name)
		if tk.State == rt.Ready {
			hist[tk.Name] = append(hist[tk.Name], [2]string{tk.Label, tk.Kind})
		}
		p := w.project()
		p["i"], p["t"], p["label"], p["op"], p["arg"] = step, tk.Name, label, kind, filepath.Base(arg)
		emit("obs", p)
		if !ok {
			status, fault = "hang", rt.M{"task": tk.Name, "label": label, "op": kind}
			return false
		}
		if tk.State == rt.Faulted {
			status, fault = "panic", rt.M{"task": tk.Name, "label": label, "op": kind, "panic": fmt.Sprint(tk.Panic)}
			return false
		}
		return true
	}
	doKill := func(name string) {
		tk := s.Task(name)
		if tk == nil || tk.State != rt.Ready || tk.Kind == "run" {
			return
		}
		s.Kill(tk)
		step++
		sched = append(sched, "kill:"+name)
		p := w.project()
		p["i"], p["t"], p["victim"] = step, "kill", name
		emit("obs", p)
	}
	arrivedSet := map[int]bool{}
	doArrive := func(f int) {
		if !isLate[f] || arrivedSet[f] {
			return
		}
		arrivedSet[f] = true
		for i, x := range run.Files {
			if x == f {
				writeCount(i, f)
			}
		}
		step++
		sched = append(sched, fmt.Sprintf("arrive:%d", f))
		p := w.project()
		p["i"], p["t"], p["file"] = step, "arrive", f
		emit("obs", p)
	}
	alive := true
	for _, e := range run.Schedule {
		if strings.HasPrefix(e, "kill:") {
			doKill(e[5:])
			continue
		}
		if strings.HasPrefix(e, "arrive:") {
			var f int
			fmt.Sscanf(e[7:], "%d", &f)
			doArrive(f)
			continue
		}
		if i := strings.Index(e, ">>"); i > 0 {
			// "task>>fn|kind|k": run the task until it has been suspended k times (over its whole
			// life) in front of a call `kind` made from a function whose call chain contains fn,
			// and stands in front of one now ("done|x|1": until it ends)
			tk := s.Task(e[:i])
			parts := strings.Split(e[i+2:], "|")
			if tk == nil || len(parts) < 3 {
				continue
			}
			want := 1
			fmt.Sscanf(parts[2], "%d", &want)
			for n := 0; n < 400 && alive && s.Runnable(tk); n++ {
				seen := 0
				for _, h := range hist[tk.Name] {
					if strings.Contains(h[0], parts[0]) && h[1] == parts[1] {
						seen++
					}
				}
				if seen >= want && strings.Contains(tk.Label, parts[0]) && tk.Kind == parts[1] {
					break
				}
				if !doStep(tk) {
					alive = false
				}
			}
			if !alive {
				break
			}
			continue
		}
		tk := s.Task(e)
		if tk == nil || !s.Runnable(tk) {
			continue
		}
		if !doStep(tk) {
			alive = false
			break
		}
	}
	budget := 5000
	rr := 0
	for alive && !s.AllDone() {
		rs := s.RunnableTasks()
		if len(rs) == 0 {
			status = "deadlock"
			break
		}
		if budget--; budget < 0 {
			status = "livelock"
			break
		}
		var tk *rt.Task
		switch run.Finish {
		case "random":
			if len(run.Late) > 0 && rng.Intn(30) == 0 {
				doArrive(run.Late[rng.Intn(len(run.Late))])
				continue
			}
			tk = rs[rng.Intn(len(rs))]
		case "randomkill":
			if rng.Intn(60) == 0 {
				doKill(rs[rng.Intn(len(rs))].Name)
				continue
			}
			tk = rs[rng.Intn(len(rs))]
		case "stick":
			tk = rs[0]
			if len(sched) > 0 {
				for _, x := range rs {
					if x.Name == sched[len(sched)-1] {
						tk = x
					}
				}
			}
		default:
			tk = rs[rr%len(rs)]
			rr++
		}
		if !doStep(tk) {
			break
		}
	}
	fin := w.project()
	fin["status"], fin["steps"], fin["schedule"] = status, step, sched
	if fault != nil {
		fin["fault"] = fault
	}
	var names []string
	ents, _ := os.ReadDir(local)
	for _, e := range ents {
		names = append(names, e.Name())
	}
	sort.Strings(names)
	fin["localdir"] = names
	if status == "hang" || status == "deadlock" || status == "livelock" {
		c08Stuck++
	}
	emit("result", fin)
}
