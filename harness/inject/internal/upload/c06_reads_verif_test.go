//go:build verif

package upload

// C06, FileFormatReads.tla: one count-file path read several times in one
// process (by the uploaders of successive runs) while the file is changed in
// place.  Replays behaviours of the specification: what every read returns
// must be one of the versions the specification allows.

import (
	"fmt"
	"os"
	"path/filepath"
	"testing"
	"time"

	"golang.org/x/telemetry/internal/counter"
	rt "golang.org/x/telemetry/internal/verifrt"
)

type c06Step struct {
	Op      string `json:"op"`   // init | change | newreader | read
	Kind    string `json:"kind"` // inc | new | grow
	R       int    `json:"r"`
	How     string `json:"how"` // parse | span
	Allowed []int  `json:"allowed"`
	Ver     int    `json:"ver"`
	Pages   int    `json:"pages"`
}

type c06Behaviour struct {
	ID    int       `json:"id"`
	Steps []c06Step `json:"steps"`
}

const c06Meta = "TimeBegin: 2024-01-01T00:00:00Z\nTimeEnd: 2024-01-08T00:00:00Z\nProgram: example.com/prog\nVersion: v1.0.0\nGoVersion: go1.22.0\nGOOS: linux\nGOARCH: amd64\n\n"

func c06Equal(a map[string]uint64, b map[string]uint64) bool {
	if len(a) != len(b) {
		return false
	}
	for k, v := range a {
		if w, ok := b[k]; !ok || w != v {
			return false
		}
	}
	return true
}

func TestVerifC06Reads(t *testing.T) {
	defer rt.Flush()
	var in struct {
		Behaviours []c06Behaviour `json:"behaviours"`
	}
	if err := rt.In(&in); err != nil {
		t.Skip(err)
	}
	okB, reads, nbad := 0, 0, 0
	for _, bh := range in.Behaviours {
		dir := t.TempDir()
		if err := os.MkdirAll(filepath.Join(dir, "local"), 0777); err != nil {
			t.Fatal(err)
		}
		fname := filepath.Join(dir, "local", "prog@v1.0.0-go1.22.0-linux-amd64-2024-01-01.v1.count")
		// the content of every version: counter "c" carries the version number
		entries := []rt.V1Entry{{Name: "c", Value: 1}, {Name: "stack\nmain.f:+1,+0x1\n\".g:+2,+0x2", Value: 7}}
		contents := map[int]map[string]uint64{}
		write := func(ver int) {
			entries[0].Value = uint64(ver)
			data, err := rt.WriteV1(c06Meta, entries)
			if err != nil {
				t.Fatal(err)
			}
			// in place, as a process that has the file mapped writes: no truncation, same inode
			f, err := os.OpenFile(fname, os.O_RDWR|os.O_CREATE, 0666)
			if err != nil {
				t.Fatal(err)
			}
			if _, err := f.WriteAt(data, 0); err != nil {
				t.Fatal(err)
			}
			f.Close()
			m := map[string]uint64{}
			for _, e := range entries {
				m[counter.DecodeStack(e.Name)] = e.Value
			}
			contents[ver] = m
		}
		write(1)
		readers := map[int]*uploader{}
		mk := func(r int) *uploader {
			u, err := newUploader(RunConfig{TelemetryDir: dir, StartTime: time.Date(2024, 1, 20, 0, 0, 0, 0, time.UTC)})
			if err != nil {
				t.Fatal(err)
			}
			readers[r] = u
			return u
		}
		mk(1)
		good := true
		nnew := 0
		for i, st := range bh.Steps {
			switch st.Op {
			case "change":
				switch st.Kind {
				case "new":
					nnew++
					entries = append(entries, rt.V1Entry{Name: fmt.Sprintf("n%d", nnew), Value: uint64(100 + nnew)})
				case "grow":
					nnew++
					big := make([]byte, 4096)
					for j := range big {
						big[j] = byte('a' + (j+nnew)%26)
					}
					for k := 0; k < 4; k++ { // four 4 KiB names: one more page
						big[0] = byte('A' + k)
						entries = append(entries, rt.V1Entry{Name: string(big), Value: uint64(k)})
					}
				}
				before, _ := os.Stat(fname)
				write(st.Ver)
				// "inc" and "new" normally leave the size as it is (the case a size-based check cannot see); "grow" must change it
				if after, err := os.Stat(fname); err != nil || (st.Kind == "grow" && after.Size() <= before.Size()) {
					rt.Out(rt.M{"kind": "infra", "what": "the change did not have the intended effect on the file size", "id": bh.ID, "step": i, "change": st.Kind, "err": fmt.Sprint(err)})
					good = false
				}
			case "newreader":
				mk(st.R)
			case "read":
				u := readers[st.R]
				reads++
				if st.How == "span" {
					if _, _, err := u.counterDateSpan(fname); err != nil {
						nbad++
						good = false
						rt.Out(rt.M{"kind": "mismatch", "what": "span-error", "id": bh.ID, "step": i, "r": st.R, "err": err.Error()})
					}
					continue
				}
				f, err := u.parseCountFile(fname)
				if err != nil {
					nbad++
					good = false
					rt.Out(rt.M{"kind": "mismatch", "what": "rejected", "id": bh.ID, "step": i, "r": st.R, "err": err.Error()})
					continue
				}
				match := -1
				for _, v := range st.Allowed {
					if c06Equal(f.Count, contents[v]) {
						match = v
					}
				}
				if match < 0 {
					nbad++
					good = false
					got := -1
					for v, c := range contents {
						if c06Equal(f.Count, c) {
							got = v
						}
					}
					if nbad <= 20 {
						rt.Out(rt.M{"kind": "mismatch", "what": "stale", "id": bh.ID, "step": i, "r": st.R, "allowed": st.Allowed, "current": st.Ver,
							"got_version": got, "got_c": f.Count["c"], "counters": len(f.Count), "want_counters": len(contents[st.Ver])})
					}
				}
			}
			if !good {
				break
			}
		}
		for _, u := range readers {
			u.Close()
		}
		if good {
			okB++
		}
	}
	rt.Out(rt.M{"kind": "summary", "behaviours": len(in.Behaviours), "matched": okB, "reads": reads, "mismatches": nbad})
}
