//go:build verif

package upload

// Harness for property C05, uploader half (Faults.tla / FaultsTrace.tla):
// the exported upload.Run is run on a telemetry directory holding expired,
// active and unreadable count files and ready reports, in modes on (config
// fetched through a file proxy as the repository tests do) and local, under
// fault plans over the recorded call sequence of the current tree.

import (
	"bytes"
	"crypto/rand"
	"crypto/sha256"
	"encoding/base64"
	"encoding/binary"
	"encoding/hex"
	"io"
	"log"
	"math"
	"net/http"
	"net/http/httptest"
	"os"
	"path/filepath"
	"sort"
	"strings"
	"testing"
	"time"

	"golang.org/x/telemetry/internal/configtest"
	"golang.org/x/telemetry/internal/telemetry"
	c05h "golang.org/x/telemetry/internal/verifh/c05"
	rt "golang.org/x/telemetry/internal/verifrt"
)

type c05UScn struct {
	Name      string          `json:"name"`
	Mode      string          `json:"mode"`      // contents of the mode file ("" = none)
	ModeClass *c05h.ModeClass `json:"modeClass"` // if set: the mode file holds this class of bytes (ModeBytes.tla)
	Junk      bool            `json:"junk"`      // leftovers: unreadable count file, report with a short name, directory named like a report
	Debug     bool            `json:"debug"`     // a debug directory exists (the uploader logs into it)
	Odd       bool            `json:"odd"`       // odd but well-formed state: count file without counters, weeks that are too old / end before they begin, unusable TimeEnd, stale lock, report already there, debug is a file
	Empty     bool            `json:"empty"`     // no count files, no reports, no upload directory
	Reply     int             `json:"reply"`     // status the upload server answers (0 = 200)
	Stray     []string        `json:"stray"`     // leftover files in local/ with these names (StrayNames.tla); a trailing "/" makes a directory
	Steps     []string        `json:"steps"`     // "run" ...
}

type c05Reader struct{}

func (c05Reader) Read(p []byte) (int, error) {
	var b [8]byte
	binary.LittleEndian.PutUint64(b[:], math.Float64bits(0.5+0.125/2))
	for i := range p {
		p[i] = b[i%8]
	}
	return len(p), nil
}

func c05Sha(b []byte) string { h := sha256.Sum256(b); return hex.EncodeToString(h[:8]) }

var c05Start = time.Date(2024, 1, 24, 12, 0, 0, 0, time.UTC)

type c05CountFile struct {
	name    string
	week    string // expiry date; "" = not to be collected (active or unreadable)
	content []byte
}

func c05CountFiles(t *testing.T, junk, odd bool) []c05CountFile {
	mk := func(prog, begin, end string, v uint64) []byte {
		meta := rt.V1Meta(begin+"T00:00:00Z", end+"T00:00:00Z", prog, "v1.0.0", "go1.21.0", "linux", "amd64")
		data, err := rt.WriteV1(meta, []rt.V1Entry{{Name: "c", Value: v}, {Name: "d", Value: v + 1}})
		if err != nil {
			t.Fatal(err)
		}
		return data
	}
	fs := []c05CountFile{
		{"prog@v1.0.0-go1.21.0-linux-amd64-2024-01-01.v1.count", "2024-01-08", mk("prog", "2024-01-01", "2024-01-08", 1)},
		{"prog2@v1.0.0-go1.21.0-linux-amd64-2024-01-02.v1.count", "2024-01-08", mk("prog2", "2024-01-02", "2024-01-08", 2)},
		{"prog@v1.0.0-go1.21.0-linux-amd64-2024-01-08.v1.count", "2024-01-15", mk("prog", "2024-01-08", "2024-01-15", 4)},
		{"prog@v1.0.0-go1.21.0-linux-amd64-2024-01-22.v1.count", "", mk("prog", "2024-01-22", "2024-01-29", 8)},
	}
	if junk {
		fs = append(fs, c05CountFile{"junk@v1.0.0-go1.21.0-linux-amd64-2024-01-01.v1.count", "", []byte("# telemetry/counter file v1\n junk junk junk")})
		fs = append(fs, c05CountFile{"empty@v1.0.0-go1.21.0-linux-amd64-2024-01-01.v1.count", "", []byte{}})
	}
	if odd {
		raw := func(meta string, es []rt.V1Entry) []byte {
			data, err := rt.WriteV1(meta, es)
			if err != nil {
				t.Fatal(err)
			}
			return data
		}
		m := func(begin, end, prog string) string {
			return rt.V1Meta(begin+"T00:00:00Z", end+"T00:00:00Z", prog, "v1.0.0", "go1.21.0", "linux", "amd64")
		}
		one := []rt.V1Entry{{Name: "c", Value: 1}}
		fs = append(fs,
			// a valid file without any counter: no report can be made of its week, it must stay
			c05CountFile{"zero@v1.0.0-go1.21.0-linux-amd64-2024-01-03.v1.count", "2024-01-10", raw(m("2024-01-03", "2024-01-10", "zero"), nil)},
			// a week that ended more than 21 days ago: reported locally only
			c05CountFile{"old@v1.0.0-go1.21.0-linux-amd64-2023-11-20.v1.count", "2023-11-27", raw(m("2023-11-20", "2023-11-27", "old"), one)},
			// the span ends before it begins
			c05CountFile{"back@v1.0.0-go1.21.0-linux-amd64-2024-01-10.v1.count", "2024-01-03", raw(m("2024-01-10", "2024-01-03", "back"), one)},
			// unusable end of span: the file is not collected
			c05CountFile{"badend@v1.0.0-go1.21.0-linux-amd64-2024-01-01.v1.count", "", raw("TimeBegin: 2024-01-01T00:00:00Z\nTimeEnd: notadate\nProgram: badend\nVersion: v1.0.0\nGoVersion: go1.21.0\nGOOS: linux\nGOARCH: amd64\n\n", one)},
			c05CountFile{"noend@v1.0.0-go1.21.0-linux-amd64-2024-01-01.v1.count", "", raw("TimeBegin: 2024-01-01T00:00:00Z\nProgram: noend\nVersion: v1.0.0\nGoVersion: go1.21.0\nGOOS: linux\nGOARCH: amd64\n\n", one)},
			// only a stack counter, empty program name
			c05CountFile{"stack@v1.0.0-go1.21.0-linux-amd64-2024-01-02.v1.count", "2024-01-08", raw(m("2024-01-02", "2024-01-08", ""), []rt.V1Entry{{Name: "st\nexample.com/p.f:+1,+0x1\n\".g:+2,+0x2", Value: 2}})},
		)
	}
	return fs
}

func c05UploadCase(t *testing.T, scn *c05UScn, plan *c05h.Plan, env []string, budget int, record bool) {
	base := t.TempDir()
	defer os.RemoveAll(base)
	dir := filepath.Join(base, "tele")
	local, upload := filepath.Join(dir, "local"), filepath.Join(dir, "upload")
	os.MkdirAll(local, 0777)
	os.MkdirAll(upload, 0777)
	if scn.Debug {
		os.MkdirAll(filepath.Join(dir, "debug"), 0777)
	}
	if scn.Mode != "" {
		os.WriteFile(filepath.Join(dir, "mode"), []byte(scn.Mode), 0666)
	}
	if scn.ModeClass != nil {
		scn.ModeClass.Install(dir)
	}
	files := c05CountFiles(t, scn.Junk, scn.Odd)
	if scn.Empty {
		files = nil
	}
	for _, f := range files {
		os.WriteFile(filepath.Join(local, f.name), f.content, 0666)
	}
	// a report of an earlier week that is still waiting to be uploaded
	os.WriteFile(filepath.Join(local, "2024-01-01.json"), []byte(`{"Week":"2024-01-01","LastWeek":"","X":0.1,"Programs":[],"Config":"v1.2.3"}`), 0666)
	os.WriteFile(filepath.Join(upload, "2023-12-25.json"), []byte(`{"Week":"2023-12-25"}`), 0666)
	if scn.Junk {
		os.WriteFile(filepath.Join(local, "x.json"), []byte(`{}`), 0666) // shorter than a date
		os.MkdirAll(filepath.Join(local, "2023-12-18.json"), 0777)       // a directory named like a report
		os.WriteFile(filepath.Join(local, "local.junk.json"), []byte(`!`), 0666)
		os.WriteFile(filepath.Join(local, "weekends"), []byte("9\n"), 0666)
	}
	posts := 0
	posted := map[string]bool{} // weeks whose report reached the server (a refused report is dropped by design)
	srv := httptest.NewServer(http.HandlerFunc(func(rw http.ResponseWriter, r *http.Request) {
		io.Copy(io.Discard, r.Body)
		posts++
		posted[filepath.Base(r.URL.Path)] = true
		if scn.Reply != 0 {
			rw.WriteHeader(scn.Reply)
		} else {
			rw.WriteHeader(200)
		}
	}))
	defer srv.Close()
	if scn.Odd {
		os.WriteFile(filepath.Join(upload, "2024-01-01.json.lock"), nil, 0666)                             // a lock nobody gives back
		os.WriteFile(filepath.Join(local, "local.2024-01-15.json"), []byte(`{"Week":"2024-01-15"}`), 0666) // somebody already reported that week
		os.WriteFile(filepath.Join(local, "2024-02-05.json"), []byte(`{"Week":"2024-02-05"}`), 0666)       // a report from the future
		os.WriteFile(filepath.Join(dir, "debug"), []byte("not a directory"), 0666)
	}
	for _, n := range scn.Stray {
		if strings.HasSuffix(n, "/") {
			os.MkdirAll(filepath.Join(local, n), 0777)
		} else {
			os.WriteFile(filepath.Join(local, n), []byte(`{"Week":"stray","Programs":[]}`), 0666)
		}
	}
	if scn.Empty {
		os.RemoveAll(upload)
		os.Remove(filepath.Join(local, "2024-01-01.json"))
	}

	h := c05h.NewHooks(dir, plan)
	h.Install()
	defer c05h.Uninstall()
	var logbuf bytes.Buffer
	log.SetOutput(&logbuf)
	defer log.SetOutput(os.Stderr)

	exists := func(p string) bool { _, err := os.Lstat(p); return err == nil }
	var steps []rt.M
	dead := false
	for i, op := range scn.Steps {
		h.Step, h.Op = i+1, op
		rec := rt.M{"op": op, "ret": "ok", "fired": 0, "steps": 0, "where": "", "text": "", "err": false, "recovered": 0,
			"orphans": []string{}, "touched": []string{}, "deleted": 0}
		if dead {
			rec["ret"] = "skipped"
			steps = append(steps, rec)
			continue
		}
		nf := len(h.Fired)
		logbuf.Reset()
		var err error
		ret, n, where, text := c05h.Run(op, budget, func() {
			err = Run(RunConfig{TelemetryDir: dir, UploadURL: srv.URL, StartTime: c05Start, Env: env})
		})
		rec["ret"], rec["steps"], rec["where"], rec["text"] = ret, n, where, text
		rec["fired"] = len(h.Fired) - nf
		rec["err"] = err != nil
		rec["recovered"] = strings.Count(logbuf.String(), "upload recover")
		// count files: an expired one may only be gone if a report of its week exists;
		// the others, and every file that is still there, must be byte-identical
		orphans, touched := []string{}, []string{}
		deleted := 0
		for _, f := range files {
			data, rerr := os.ReadFile(filepath.Join(local, f.name))
			if rerr != nil {
				deleted++
				if f.week == "" {
					touched = append(touched, f.name+":removed")
					continue
				}
				if !exists(filepath.Join(local, "local."+f.week+".json")) && !exists(filepath.Join(local, f.week+".json")) && !exists(filepath.Join(upload, f.week+".json")) && !posted[f.week] {
					orphans = append(orphans, f.name)
				}
				continue
			}
			if c05Sha(data) != c05Sha(f.content) {
				touched = append(touched, f.name+":modified")
			}
		}
		sort.Strings(orphans)
		rec["orphans"], rec["touched"], rec["deleted"] = orphans, touched, deleted
		if ret != "ok" {
			dead = true
		}
		steps = append(steps, rec)
	}
	id := 0
	if plan != nil {
		id = plan.ID
	}
	var names []string
	filepath.Walk(dir, func(p string, info os.FileInfo, err error) error {
		if err == nil && p != dir {
			rel, _ := filepath.Rel(dir, p)
			if !strings.HasPrefix(rel, "debug"+string(filepath.Separator)) {
				names = append(names, rel)
			}
		}
		return nil
	})
	out := rt.M{"kind": "case", "id": id, "scn": scn.Name, "steps": steps, "fired": h.Fired, "ncalls": h.NCall, "posts": posts, "tree": names}
	if record {
		out["kind"] = "recording"
		out["calls"] = h.Calls
	}
	rt.Out(out)
	rt.Flush() // a panic on a goroutine of the code under test kills this process: the supervisor reads what was finished
}

func TestVerifC05Upload(t *testing.T) {
	defer rt.Flush()
	var in struct {
		Scenarios []c05UScn   `json:"scenarios"`
		Plans     []c05h.Plan `json:"plans"`
		Budget    int         `json:"budget"`
	}
	if err := rt.In(&in); err != nil {
		t.Skip(err)
	}
	if in.Budget == 0 {
		in.Budget = 2000000
	}
	rand.Reader = c05Reader{}
	cfg := &telemetry.UploadConfig{GOOS: []string{"linux"}, GOARCH: []string{"amd64"}, GoVersion: []string{"go1.21.0"}, SampleRate: 1,
		Programs: []*telemetry.ProgramConfig{{Name: "prog", Versions: []string{"v1.0.0"}, Counters: []telemetry.CounterConfig{{Name: "c", Rate: 1}}}}}
	env := configtest.LocalProxyEnv(t, cfg, "v1.2.3")
	byName := map[string]*c05UScn{}
	for i := range in.Scenarios {
		byName[in.Scenarios[i].Name] = &in.Scenarios[i]
	}
	if len(in.Plans) == 0 {
		for i := range in.Scenarios {
			c05UploadCase(t, &in.Scenarios[i], nil, env, in.Budget, true)
		}
		return
	}
	for i := range in.Plans {
		scn := byName[in.Plans[i].Scn]
		if scn == nil {
			t.Fatalf("unknown scenario %q", in.Plans[i].Scn)
		}
		c05UploadCase(t, scn, &in.Plans[i], env, in.Budget, false)
	}
}

// ------------------------------------------- corrupt count files and the uploader

// TestVerifC05UploadCorrupt: a count file that is corrupt at rest (the bytes
// come from the counter harness, Corrupt.tla classes) lies in local/ next to a
// good expired file and an active one; upload.Run must return, and the corrupt
// file must either stay byte-identical or be folded into a report of its week.
func TestVerifC05UploadCorrupt(t *testing.T) {
	defer rt.Flush()
	var in struct {
		Files []struct {
			ID   int    `json:"id"`
			Name string `json:"name"`
			Data string `json:"data"`
		} `json:"files"`
		Budget   int `json:"budget"`
		MaxHangs int `json:"maxHangs"`
	}
	if err := rt.In(&in); err != nil {
		t.Skip(err)
	}
	if in.Budget == 0 {
		in.Budget = 200000
	}
	if in.MaxHangs == 0 {
		in.MaxHangs = 20
	}
	rand.Reader = c05Reader{}
	var logbuf bytes.Buffer
	log.SetOutput(&logbuf)
	defer log.SetOutput(os.Stderr)
	mk := func(begin, end string, v uint64) []byte {
		meta := rt.V1Meta(begin+"T00:00:00Z", end+"T00:00:00Z", "prog", "v1.0.0", "go1.21.0", "linux", "amd64")
		data, err := rt.WriteV1(meta, []rt.V1Entry{{Name: "c", Value: v}})
		if err != nil {
			t.Fatal(err)
		}
		return data
	}
	good, active := mk("2024-02-19", "2024-02-26", 3), mk("2024-03-18", "2024-03-25", 4)
	const goodName, activeName = "prog@v1.0.0-go1.21.0-linux-amd64-2024-02-19.v1.count", "prog@v1.0.0-go1.21.0-linux-amd64-2024-03-18.v1.count"
	start := time.Date(2024, 3, 20, 12, 0, 0, 0, time.UTC)
	exists := func(p string) bool { _, err := os.Lstat(p); return err == nil }
	hangs := 0
	for _, f := range in.Files {
		if hangs >= in.MaxHangs {
			rt.Out(rt.M{"kind": "skipped", "id": f.ID})
			continue
		}
		data, err := base64.StdEncoding.DecodeString(f.Data)
		if err != nil {
			t.Fatal(err)
		}
		base := t.TempDir()
		dir := filepath.Join(base, "tele")
		local := filepath.Join(dir, "local")
		os.MkdirAll(local, 0777)
		os.MkdirAll(filepath.Join(dir, "upload"), 0777)
		os.WriteFile(filepath.Join(dir, "mode"), []byte("local"), 0666)
		os.WriteFile(filepath.Join(local, f.Name), data, 0666)
		os.WriteFile(filepath.Join(local, goodName), good, 0666)
		os.WriteFile(filepath.Join(local, activeName), active, 0666)
		logbuf.Reset()
		var rerr error
		ret, n, where, text := c05h.Run("run", in.Budget, func() {
			rerr = Run(RunConfig{TelemetryDir: dir, UploadURL: "http://127.0.0.1:1/unused", StartTime: start})
		})
		if ret == "hang" {
			hangs++
		}
		out := rt.M{"kind": "case", "id": f.ID, "ret": ret, "steps": n, "where": where, "text": text, "err": rerr != nil,
			"recovered": strings.Count(logbuf.String(), "upload recover"), "state": "", "bystanders": ""}
		after, e := os.ReadFile(filepath.Join(local, f.Name))
		var reports []string
		ents, _ := os.ReadDir(local)
		for _, e := range ents {
			if strings.HasSuffix(e.Name(), ".json") {
				reports = append(reports, e.Name())
			}
		}
		sort.Strings(reports)
		out["reports"] = reports
		switch {
		case e == nil && bytes.Equal(after, data):
			out["state"] = "kept"
		case e == nil:
			out["state"] = "modified"
		case exists(filepath.Join(local, "local.2024-03-05.json")):
			out["state"] = "reported"
		default:
			out["state"] = "orphan"
		}
		var by []string
		if a, e := os.ReadFile(filepath.Join(local, activeName)); e != nil || !bytes.Equal(a, active) {
			by = append(by, "active count file changed")
		}
		if g, e := os.ReadFile(filepath.Join(local, goodName)); e != nil {
			if !exists(filepath.Join(local, "local.2024-02-26.json")) {
				by = append(by, "good count file deleted without report")
			}
		} else if !bytes.Equal(g, good) {
			by = append(by, "good count file changed")
		}
		out["bystanders"] = strings.Join(by, "; ")
		rt.Out(out)
		rt.Flush()
		os.RemoveAll(base)
	}
}
