//go:build verif && go1.22

package main

// Harness of property C17 for the upload-config generator: runs the real
// generate() and padVersions() on the cases the driver sends, with the
// version lists injected through versionsForTesting.

import (
	"fmt"
	"testing"
	"time"

	"golang.org/x/telemetry/internal/chartconfig"
	rt "golang.org/x/telemetry/internal/verifrt"
	"golang.org/x/telemetry/internal/telemetry"
)

type c17GenCase struct {
	ID       int                       `json:"id"`
	Records  []chartconfig.ChartConfig `json:"records"`
	Versions map[string][]string       `json:"versions"` // module path -> versions the proxy lists
	Paddings map[string][5]int         `json:"paddings"` // program -> releases, maj, majmin, patch, pre
}

type c17PadCase struct {
	ID       int      `json:"id"`
	Versions []string `json:"versions"`
	Patterns []string `json:"patterns"`
	Padding  [5]int   `json:"padding"`
}

func c17Guard(fn func()) (panicMsg string, hang bool) {
	done := make(chan string, 1)
	go func() {
		msg := ""
		defer func() {
			if p := recover(); p != nil {
				msg = fmt.Sprint(p)
			}
			done <- msg
		}()
		fn()
	}()
	select {
	case m := <-done:
		return m, false
	case <-time.After(30 * time.Second):
		return "", true
	}
}

func TestVerifC17Gen(t *testing.T) {
	defer rt.Flush()
	var in struct {
		Gen []c17GenCase `json:"gen"`
		Pad []c17PadCase `json:"pad"`
	}
	if err := rt.In(&in); err != nil {
		t.Skip(err)
	}
	saved := versionsForTesting
	defer func() { versionsForTesting = saved }()
	for _, c := range in.Gen {
		versionsForTesting = c.Versions
		pads := map[string]padding{}
		for k, v := range c.Paddings {
			pads[k] = padding{releases: v[0], maj: v[1], majmin: v[2], patch: v[3], pre: v[4]}
		}
		var ucfg *telemetry.UploadConfig
		var err error
		pmsg, hang := c17Guard(func() { ucfg, err = generate(c.Records, pads) })
		rec := rt.M{"kind": "gen", "id": c.ID}
		switch {
		case hang:
			rec["hang"] = true
			rt.Out(rec)
			return
		case pmsg != "":
			rec["panic"] = pmsg
		case err != nil:
			rec["err"] = err.Error()
		default:
			progs := []rt.M{}
			for _, p := range ucfg.Programs {
				if p == nil {
					continue
				}
				cs, ss := []rt.M{}, []rt.M{}
				for _, x := range p.Counters {
					cs = append(cs, rt.M{"name": x.Name, "rate": x.Rate, "depth": x.Depth})
				}
				for _, x := range p.Stacks {
					ss = append(ss, rt.M{"name": x.Name, "rate": x.Rate, "depth": x.Depth})
				}
				vs := p.Versions
				if vs == nil {
					vs = []string{}
				}
				progs = append(progs, rt.M{"name": p.Name, "versions": vs, "counters": cs, "stacks": ss})
			}
			rec["programs"] = progs
			rec["goversion"] = ucfg.GoVersion
		}
		rt.Out(rec)
	}
	for _, c := range in.Pad {
		var out []string
		pd := padding{releases: c.Padding[0], maj: c.Padding[1], majmin: c.Padding[2], patch: c.Padding[3], pre: c.Padding[4]}
		pmsg, hang := c17Guard(func() { out = padVersions(c.Versions, c.Patterns, pd) })
		rec := rt.M{"kind": "pad", "id": c.ID}
		switch {
		case hang:
			rec["hang"] = true
			rt.Out(rec)
			return
		case pmsg != "":
			rec["panic"] = pmsg
		default:
			if out == nil {
				out = []string{}
			}
			rec["out"] = out
		}
		rt.Out(rec)
	}
	rt.Out(rt.M{"kind": "summary", "gen": len(in.Gen), "pad": len(in.Pad)})
}
