//go:build verif && go1.22

package main

// Harness of the extension engine X02 (generation -> distribution -> lookup):
// runs the real chartconfig.Parse, generate, contains and config.NewConfig on
// the cases the driver sends and reports what the lookups answer over a
// universe of names and versions.  It never judges; it only observes.

import (
	"encoding/json"
	"fmt"
	"math/rand"
	"os"
	"path/filepath"
	"reflect"
	"regexp"
	"sort"
	"strings"
	"testing"
	"time"

	"golang.org/x/telemetry/internal/chartconfig"
	"golang.org/x/telemetry/internal/config"
	"golang.org/x/telemetry/internal/telemetry"
	rt "golang.org/x/telemetry/internal/verifrt"
)

func x02Guard(fn func()) (panicMsg string, hang bool) {
	done := make(chan string, 1)
	go func() {
		msg := ""
		defer func() {
			if p := recover(); p != nil {
				msg = fmt.Sprint(p)
			}
			done <- msg
		}()
		fn()
	}()
	select {
	case m := <-done:
		return m, false
	case <-time.After(30 * time.Second):
		return "", true
	}
}

type x02Prog struct {
	Name   string `json:"name"`
	Module string `json:"module"`
	Tool   bool   `json:"tool"`
}

type x02FlowCase struct {
	ID        int                 `json:"id"`
	Text      string              `json:"text"`     // chart config in the documented syntax
	Versions  map[string][]string `json:"versions"` // module path -> versions the proxy lists
	Paddings  map[string][5]int   `json:"paddings"` // program -> releases, maj, majmin, patch, pre
	VUniverse []string            `json:"vuniverse"`
	Perm      int64               `json:"perm"`
}

func x02Paddings(m map[string][5]int) map[string]padding {
	pads := map[string]padding{}
	for k, v := range m {
		pads[k] = padding{releases: v[0], maj: v[1], majmin: v[2], patch: v[3], pre: v[4]}
	}
	return pads
}

func x02Copy(vs map[string][]string) map[string][]string {
	out := map[string][]string{}
	for k, l := range vs {
		out[k] = append([]string{}, l...)
	}
	return out
}

// a permuted copy of the proxy lists; toolchain versions additionally get
// other os/arch variants of versions that are already there
func x02Permute(vs map[string][]string, rng *rand.Rand) map[string][]string {
	out := map[string][]string{}
	for mod, l := range vs {
		c := append([]string{}, l...)
		if mod == "golang.org/toolchain" {
			for _, v := range l {
				if rng.Intn(2) == 0 {
					if i := strings.LastIndex(v, "."); i > 0 {
						c = append(c, v[:i]+"."+[]string{"plan9-386", "windows-arm64", "aix-ppc64"}[rng.Intn(3)])
					}
				}
			}
		}
		rng.Shuffle(len(c), func(i, j int) { c[i], c[j] = c[j], c[i] })
		out[mod] = c
	}
	return out
}

func x02Name(charts, buckets []string, c, b int) string {
	if b == 0 {
		return charts[c-1]
	}
	return charts[c-1] + ":" + buckets[b-1]
}

// strings that differ from a counter name in one respect
func x02NearNames(name string) []string {
	out := []string{name + " ", " " + name, name + "x", name + "}", name + ",", name + ":", strings.ToUpper(name)}
	if len(name) > 1 {
		out = append(out, name[:len(name)-1], name[1:])
	}
	if c, b, ok := strings.Cut(name, ":"); ok {
		out = append(out, c+":{"+b+"}", c+": "+b, c+"::"+b, c+":{"+b, c+b, c+":"+b+","+b, c+":", "{"+b+"}", c+":"+b+"}")
	} else {
		out = append(out, name+":{}", name+":{", "{"+name+"}")
	}
	return out
}

func TestVerifX02Flow(t *testing.T) {
	defer rt.Flush()
	var top struct {
		Flow struct {
			Charts  []string      `json:"charts"`
			Buckets []string      `json:"buckets"`
			Progs   []x02Prog     `json:"progs"`
			Cases   []x02FlowCase `json:"cases"`
		} `json:"flow"`
	}
	if err := rt.In(&top); err != nil {
		t.Skip(err)
	}
	in := top.Flow
	saved := versionsForTesting
	defer func() { versionsForTesting = saved }()
	exact := map[string]bool{}
	for c := 1; c <= len(in.Charts); c++ {
		for b := 0; b <= len(in.Buckets); b++ {
			exact[x02Name(in.Charts, in.Buckets, c, b)] = true
		}
	}
	isChart := map[string]bool{}
	for _, c := range in.Charts {
		isChart[c] = true
	}
	done := 0
	for _, c := range in.Cases {
		rec := rt.M{"kind": "flow", "id": c.ID}
		recs, err := chartconfig.Parse([]byte(c.Text))
		if err != nil {
			rec["parse_err"] = err.Error()
			rt.Out(rec)
			continue
		}
		pads := x02Paddings(c.Paddings)
		var ucfg *telemetry.UploadConfig
		// generate filters the proxy's list in place; the real listProxyVersions
		// returns a fresh list on every call, so every call here gets its own copy
		versionsForTesting = x02Copy(c.Versions)
		pmsg, hang := x02Guard(func() { ucfg, err = generate(recs, pads) })
		if hang {
			rec["hang"] = true
			rt.Out(rec)
			return
		}
		if pmsg != "" {
			rec["panic"] = pmsg
			rt.Out(rec)
			continue
		}
		if err != nil {
			rec["gen_err"] = err.Error()
			rt.Out(rec)
			continue
		}
		js1, err := json.MarshalIndent(ucfg, "", "\t")
		if err != nil {
			rec["gen_err"] = "marshal: " + err.Error()
			rt.Out(rec)
			continue
		}
		// G3: regenerate from permuted lists
		stable := true
		rng := rand.New(rand.NewSource(c.Perm))
		for k := 0; k < 2 && stable; k++ {
			versionsForTesting = x02Permute(c.Versions, rng)
			var u2 *telemetry.UploadConfig
			var err2 error
			pmsg, hang := x02Guard(func() { u2, err2 = generate(recs, pads) })
			if hang || pmsg != "" || err2 != nil {
				stable = false
				rec["regen"] = fmt.Sprint(pmsg, err2, hang)
				break
			}
			js2, _ := json.MarshalIndent(u2, "", "\t")
			if string(js1) != string(js2) {
				stable = false
				rec["regen"] = "different bytes"
			}
		}
		rec["stable"] = stable
		// the distribution path: config.json -> decode -> NewConfig
		var dec telemetry.UploadConfig
		if err := json.Unmarshal(js1, &dec); err != nil {
			rec["gen_err"] = "unmarshal: " + err.Error()
			rt.Out(rec)
			continue
		}
		cfg := config.NewConfig(&dec)
		order := []string{}
		listed := map[string][]string{}
		count := map[string]int{}
		progsOut := []rt.M{}
		vuni := map[string]bool{}
		for _, v := range c.VUniverse {
			vuni[v] = true
		}
		for _, p := range dec.Programs {
			if p == nil {
				continue
			}
			order = append(order, p.Name)
			count[p.Name]++
			listed[p.Name] = append(listed[p.Name], p.Versions...)
			for _, v := range p.Versions {
				vuni[v] = true
			}
			cs, ss := []string{}, []rt.M{}
			for _, x := range p.Counters {
				cs = append(cs, x.Name)
			}
			for _, x := range p.Stacks {
				ss = append(ss, rt.M{"name": x.Name, "depth": x.Depth})
			}
			progsOut = append(progsOut, rt.M{"name": p.Name, "counters": cs, "stacks": ss})
		}
		vlist := make([]string, 0, len(vuni))
		for v := range vuni {
			vlist = append(vlist, v)
		}
		sort.Strings(vlist)
		rec["order"] = order
		rec["programs"] = progsOut
		gv := dec.GoVersion
		if gv == nil {
			gv = []string{}
		}
		rec["goversion"] = gv
		hasgo := []string{}
		for _, v := range vlist {
			if cfg.HasGoVersion(v) {
				hasgo = append(hasgo, v)
			}
		}
		rec["hasgover"] = hasgo
		rec["samplerate"] = dec.SampleRate
		// near-miss strings: of every exact name and of every raw expression
		nearSet := map[string]bool{}
		for n := range exact {
			for _, s := range x02NearNames(n) {
				nearSet[s] = true
			}
		}
		for _, r := range recs {
			if strings.Contains(r.Counter, "{") {
				nearSet[r.Counter] = true
				for _, s := range x02NearNames(r.Counter) {
					nearSet[s] = true
				}
			}
		}
		for n := range exact {
			delete(nearSet, n)
		}
		nearList := make([]string, 0, len(nearSet))
		for s := range nearSet {
			nearList = append(nearList, s)
		}
		sort.Strings(nearList)
		perProg := []rt.M{}
		for _, p := range in.Progs {
			o := rt.M{"name": p.Name}
			o["present"] = cfg.HasProgram(p.Name)
			o["inlist"] = count[p.Name]
			l := listed[p.Name]
			if l == nil {
				l = []string{}
			}
			o["listed"] = l
			hv := []string{}
			for _, v := range vlist {
				if cfg.HasVersion(p.Name, v) {
					hv = append(hv, v)
				}
			}
			o["hasver"] = hv
			ctr, stk, r1, s1, pfx := [][2]int{}, [][2]int{}, [][2]int{}, [][2]int{}, []int{}
			odd := 0
			for ci := 1; ci <= len(in.Charts); ci++ {
				if cfg.HasCounterPrefix(p.Name, in.Charts[ci-1]) {
					pfx = append(pfx, ci)
				}
				for bi := 0; bi <= len(in.Buckets); bi++ {
					n := x02Name(in.Charts, in.Buckets, ci, bi)
					if cfg.HasCounter(p.Name, n) {
						ctr = append(ctr, [2]int{ci, bi})
					}
					if cfg.HasStack(p.Name, n) {
						stk = append(stk, [2]int{ci, bi})
					}
					switch r := cfg.Rate(p.Name, n); {
					case r == 1:
						r1 = append(r1, [2]int{ci, bi})
					case r != 0:
						odd++
					}
					switch r := cfg.StackRate(p.Name, n); {
					case r == 1:
						s1 = append(s1, [2]int{ci, bi})
					case r != 0:
						odd++
					}
				}
			}
			o["ctr"], o["stk"], o["rate1"], o["srate1"], o["pfx"], o["odd"] = ctr, stk, r1, s1, pfx, odd
			near := 0
			nearex := ""
			hit := func(s string) {
				near++
				if nearex == "" {
					nearex = s
				}
			}
			for _, s := range nearList {
				if cfg.HasCounter(p.Name, s) || cfg.HasStack(p.Name, s) || cfg.Rate(p.Name, s) != 0 || cfg.StackRate(p.Name, s) != 0 {
					hit("name " + s)
				}
				if !isChart[s] && cfg.HasCounterPrefix(p.Name, s) {
					hit("prefix " + s)
				}
			}
			// near misses of the program name itself
			for _, q := range []string{"", "/", p.Name + "/", p.Name + " ", p.Name[:len(p.Name)-1], p.Name + "x", strings.ToUpper(p.Name), "x/" + p.Name, p.Name[strings.LastIndex(p.Name, "/")+1:]} {
				known := false
				for _, pp := range in.Progs {
					known = known || pp.Name == q
				}
				if known {
					continue
				}
				if cfg.HasProgram(q) {
					hit("program " + q)
				}
				for n := range exact {
					if cfg.HasCounter(q, n) || cfg.HasStack(q, n) {
						hit("program " + q + " name " + n)
					}
				}
				for _, v := range vlist {
					if cfg.HasVersion(q, v) {
						hit("program " + q + " version " + v)
					}
				}
			}
			o["near"] = near
			if nearex != "" {
				o["nearex"] = nearex
			}
			perProg = append(perProg, o)
		}
		rec["progs"] = perProg
		rt.Out(rec)
		done++
	}
	rt.Out(rt.M{"kind": "summary", "of": "flow", "cases": len(in.Cases), "done": done})
}

// ---------------------------------------------------------------- G3: validation

type x02ValidCase struct {
	ID      int                       `json:"id"`
	Records []chartconfig.ChartConfig `json:"records"`
}

var x02BlameRx = regexp.MustCompile(`chart config #(\d+)`)

func x02CountErrs(err error) int {
	if err == nil {
		return 0
	}
	if j, ok := err.(interface{ Unwrap() []error }); ok {
		n := 0
		for _, e := range j.Unwrap() {
			n += x02CountErrs(e)
		}
		return n
	}
	return 1
}

func TestVerifX02Valid(t *testing.T) {
	defer rt.Flush()
	var top struct {
		Valid struct {
			Versions map[string][]string `json:"versions"`
			Paddings map[string][5]int   `json:"paddings"`
			Cases    []x02ValidCase      `json:"cases"`
		} `json:"valid"`
	}
	if err := rt.In(&top); err != nil {
		t.Skip(err)
	}
	in := top.Valid
	saved := versionsForTesting
	defer func() { versionsForTesting = saved }()
	versionsForTesting = in.Versions
	pads := x02Paddings(in.Paddings)
	for _, c := range in.Cases {
		rec := rt.M{"kind": "valid", "id": c.ID}
		var ucfg *telemetry.UploadConfig
		var err error
		versionsForTesting = x02Copy(in.Versions)
		pmsg, hang := x02Guard(func() { ucfg, err = generate(c.Records, pads) })
		switch {
		case hang:
			rec["hang"] = true
			rt.Out(rec)
			return
		case pmsg != "":
			rec["panic"] = pmsg
		case err != nil:
			rec["err"] = true
			rec["msg"] = err.Error()
			rec["cfg_nil"] = ucfg == nil
			rec["blamed"] = -1
			if m := x02BlameRx.FindStringSubmatch(err.Error()); m != nil {
				var i int
				fmt.Sscan(m[1], &i)
				rec["blamed"] = i + 1
			}
			// per record: the number of problems the validator itself reports, and
			// whether every one of them is in the message of generate
			per := []rt.M{}
			for _, r := range c.Records {
				var verr error
				x02Guard(func() { verr = ValidateChartConfig(r) })
				all := true
				if j, ok := verr.(interface{ Unwrap() []error }); ok {
					for _, e := range j.Unwrap() {
						all = all && strings.Contains(err.Error(), e.Error())
					}
				} else if verr != nil {
					all = strings.Contains(err.Error(), verr.Error())
				}
				per = append(per, rt.M{"n": x02CountErrs(verr), "inmsg": all})
			}
			rec["per"] = per
		default:
			rec["err"] = false
			rec["nprog"] = len(ucfg.Programs)
		}
		rt.Out(rec)
	}
	rt.Out(rt.M{"kind": "summary", "of": "valid", "cases": len(in.Cases)})
}

// ---------------------------------------------------------------- G4: contains

type x02StillCase struct {
	ID    int                    `json:"id"`
	Outer telemetry.UploadConfig `json:"outer"`
	Inner telemetry.UploadConfig `json:"inner"`
}

// is everything the inner configuration accepts accepted by the outer one, at the same rate?
func x02Sub(outer, inner *telemetry.UploadConfig) (bool, string) {
	o, i := config.NewConfig(outer), config.NewConfig(inner)
	if outer.SampleRate != inner.SampleRate {
		return false, "sample rate"
	}
	for _, s := range inner.GOOS {
		if !o.HasGOOS(s) {
			return false, "goos " + s
		}
	}
	for _, s := range inner.GOARCH {
		if !o.HasGOARCH(s) {
			return false, "goarch " + s
		}
	}
	for _, s := range inner.GoVersion {
		if !o.HasGoVersion(s) {
			return false, "goversion " + s
		}
	}
	for _, p := range inner.Programs {
		if !o.HasProgram(p.Name) {
			return false, "program " + p.Name
		}
		for _, v := range p.Versions {
			if !o.HasVersion(p.Name, v) {
				return false, "version " + p.Name + " " + v
			}
		}
		for _, c := range p.Counters {
			for _, e := range config.Expand(c.Name) {
				if !o.HasCounter(p.Name, e) || o.Rate(p.Name, e) != i.Rate(p.Name, e) {
					return false, "counter " + p.Name + " " + e
				}
			}
		}
		for _, s := range p.Stacks {
			if !o.HasStack(p.Name, s.Name) || o.StackRate(p.Name, s.Name) != i.StackRate(p.Name, s.Name) {
				return false, "stack " + p.Name + " " + s.Name
			}
		}
	}
	return true, ""
}

func TestVerifX02Still(t *testing.T) {
	defer rt.Flush()
	var top struct {
		Still struct {
			Cases []x02StillCase `json:"cases"`
		} `json:"still"`
	}
	if err := rt.In(&top); err != nil {
		t.Skip(err)
	}
	in := top.Still
	for k := range in.Cases {
		c := &in.Cases[k]
		rec := rt.M{"kind": "still", "id": c.ID}
		var got bool
		pmsg, hang := x02Guard(func() { got = contains(&c.Outer, &c.Inner) })
		switch {
		case hang:
			rec["hang"] = true
			rt.Out(rec)
			return
		case pmsg != "":
			rec["panic"] = pmsg
		default:
			rec["contains"] = got
			sub, why := x02Sub(&c.Outer, &c.Inner)
			rec["sub"] = sub
			rec["why"] = why
		}
		rt.Out(rec)
	}
	rt.Out(rt.M{"kind": "summary", "of": "still", "cases": len(in.Cases)})
}

// ---------------------------------------------------------------- the embedded pair

// expansion of a counter expression, written from the package documentation
// of internal/chartconfig ("chartname:{bucket1,bucket2,bucket3}")
func x02Expand(expr string) []string {
	i := strings.Index(expr, "{")
	if i < 0 || !strings.HasSuffix(expr, "}") {
		return []string{expr}
	}
	out := []string{}
	for _, b := range strings.Split(expr[i+1:len(expr)-1], ",") {
		out = append(out, expr[:i]+b)
	}
	return out
}

// config/config.json against internal/chartconfig/config.txt: the published
// configuration must be what generation produces from the chart
// configuration and the version lists it names itself.
func TestVerifX02Embedded(t *testing.T) {
	defer rt.Flush()
	if !rt.Enabled() {
		t.Skip("not driven")
	}
	rec := rt.M{"kind": "embedded"}
	defer func() { rt.Out(rec) }()
	file := filepath.Join("..", "..", "config", "config.json")
	if _, err := os.Stat(file); err != nil {
		rec["skip"] = err.Error()
		return
	}
	cur, err := readConfig(file)
	if err != nil {
		rec["read_err"] = err.Error()
		return
	}
	recs, err := chartconfig.Load()
	if err != nil {
		rec["load_err"] = err.Error()
		return
	}
	rec["nrecs"], rec["nprogs"] = len(recs), len(cur.Programs)
	saved := versionsForTesting
	defer func() { versionsForTesting = saved }()
	vs := map[string][]string{}
	for _, v := range cur.GoVersion {
		vs["golang.org/toolchain"] = append(vs["golang.org/toolchain"], "v0.0.1-"+v+".linux-amd64")
	}
	mods := map[string]string{}
	for _, r := range recs {
		mods[r.Program] = r.Module
	}
	pads := map[string]padding{}
	for _, p := range cur.Programs {
		if !telemetry.IsToolchainProgram(p.Name) {
			if m, ok := mods[p.Name]; ok {
				if _, dup := vs[m]; dup {
					rec["shared_modules"] = true
				}
				for _, v := range p.Versions {
					have := false
					for _, w := range vs[m] {
						have = have || w == v
					}
					if !have {
						vs[m] = append(vs[m], v)
					}
				}
			}
		}
	}
	for _, r := range recs {
		pads[r.Program] = padding{}
		if !telemetry.IsToolchainProgram(r.Program) {
			if _, ok := vs[r.Module]; !ok {
				vs[r.Module] = []string{}
			}
		}
	}
	versionsForTesting = vs
	var gen *telemetry.UploadConfig
	pmsg, hang := x02Guard(func() { gen, err = generate(recs, pads) })
	if hang || pmsg != "" || err != nil {
		rec["gen_err"] = fmt.Sprint(pmsg, err, hang)
		return
	}
	diffs := []string{}
	if !reflect.DeepEqual(gen.GOOS, cur.GOOS) || !reflect.DeepEqual(gen.GOARCH, cur.GOARCH) {
		diffs = append(diffs, "GOOS/GOARCH")
	}
	if !reflect.DeepEqual(gen.GoVersion, cur.GoVersion) {
		diffs = append(diffs, "GoVersion")
	}
	if gen.SampleRate != cur.SampleRate {
		diffs = append(diffs, "SampleRate")
	}
	gp := map[string]*telemetry.ProgramConfig{}
	for _, p := range gen.Programs {
		gp[p.Name] = p
	}
	for _, p := range cur.Programs {
		g := gp[p.Name]
		if g == nil {
			diffs = append(diffs, "program "+p.Name+" is published but no chart names it")
			continue
		}
		delete(gp, p.Name)
		if !reflect.DeepEqual(g.Counters, p.Counters) {
			diffs = append(diffs, "counters of "+p.Name)
		}
		if !reflect.DeepEqual(g.Stacks, p.Stacks) {
			diffs = append(diffs, "stacks of "+p.Name)
		}
		if !reflect.DeepEqual(g.Versions, p.Versions) {
			diffs = append(diffs, "versions of "+p.Name)
		}
	}
	for n := range gp {
		diffs = append(diffs, "program "+n+" has charts but is not published")
	}
	sort.Strings(diffs)
	rec["diffs"] = diffs
	// every name a chart names is accepted by the published configuration, for every listed version
	cfg := config.NewConfig(cur)
	missing := []string{}
	checked := 0
	for _, r := range recs {
		if !cfg.HasProgram(r.Program) {
			missing = append(missing, "program "+r.Program)
			continue
		}
		names := []string{r.Counter}
		if r.Depth == 0 {
			names = x02Expand(r.Counter)
		}
		for _, n := range names {
			checked++
			ok := cfg.HasStack(r.Program, n) && cfg.StackRate(r.Program, n) > 0
			if r.Depth == 0 {
				ok = cfg.HasCounter(r.Program, n) && cfg.Rate(r.Program, n) > 0
			}
			if !ok {
				missing = append(missing, r.Program+" "+n)
			}
		}
	}
	rec["missing"] = missing
	rec["names_checked"] = checked
}
