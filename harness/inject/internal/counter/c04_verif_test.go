//go:build verif

package counter

// Conformance harness for CounterFile.tla (property C04): several "processes"
// (independent file values with their own mappings of one count file) are
// interleaved at every access to the shared file and may be killed anywhere.

import (
	"encoding/binary"
	"fmt"
	"math/rand"
	"os"
	"path/filepath"
	"runtime/debug"
	"strings"
	"testing"
	"time"

	"golang.org/x/telemetry/internal/telemetry"
	rt "golang.org/x/telemetry/internal/verifrt"
)

type c04Proc struct {
	Name string   `json:"name"`
	Ctr  string   `json:"ctr"`
	Ctrs []string `json:"ctrs"` // the counters the process increments, one after the other
}

type c04Run struct {
	ID        int       `json:"id"`
	Family    string    `json:"family"`
	Procs     []c04Proc `json:"procs"`
	InitSlots int       `json:"initSlots"`
	MaxSlots  int       `json:"maxSlots"`
	Schedule  []string  `json:"schedule"` // task names, or "kill:<task>"
	Finish    string    `json:"finish"`
	Seed      int64     `json:"seed"`
	Trace     bool      `json:"trace"`
	// a counter whose record exists before the race with the value 2^64-1-(MaxVal-WarmVal);
	// values of that size are reported relative to 2^64-1-MaxVal
	Warm    string `json:"warm"`
	WarmVal int    `json:"warmVal"`
	MaxVal  int    `json:"maxVal"`
	// the file does not exist when the race starts: every process opens (creates) it as its first steps
	Create bool `json:"create"`
}

const c04NameLen = 4080 // record size 4096: three records per 16 KiB page

// names n1,n2 collide in one bucket, n3 lives in another; fillers avoid both.
var c04Names map[string]string
var c04Fillers []string

func c04Pad(s string) string { return s + strings.Repeat(".", c04NameLen-len(s)) }

func c04InitNames() {
	if c04Names != nil {
		return
	}
	c04Names = map[string]string{}
	n1 := c04Pad("n1-0")
	b1 := rt.V1Hash(n1)
	c04Names["n1"] = n1
	for i := 0; ; i++ {
		n := c04Pad(fmt.Sprintf("n2-%d", i))
		if rt.V1Hash(n) == b1 {
			c04Names["n2"] = n
			break
		}
	}
	var b2 uint32
	for i := 0; ; i++ {
		n := c04Pad(fmt.Sprintf("n3-%d", i))
		if rt.V1Hash(n) != b1 {
			c04Names["n3"] = n
			b2 = rt.V1Hash(n)
			break
		}
	}
	// n4: a third name in n1's bucket; n6, n7: two names of a third bucket
	for i := 0; ; i++ {
		n := c04Pad(fmt.Sprintf("n4-%d", i))
		if rt.V1Hash(n) == b1 {
			c04Names["n4"] = n
			break
		}
	}
	var b3 uint32
	for i := 0; ; i++ {
		n := c04Pad(fmt.Sprintf("n6-%d", i))
		if h := rt.V1Hash(n); h != b1 && h != b2 {
			c04Names["n6"] = n
			b3 = h
			break
		}
	}
	for i := 0; ; i++ {
		n := c04Pad(fmt.Sprintf("n7-%d", i))
		if rt.V1Hash(n) == b3 {
			c04Names["n7"] = n
			break
		}
	}
	for i := 0; len(c04Fillers) < 12; i++ {
		n := c04Pad(fmt.Sprintf("filler-%d", i))
		if h := rt.V1Hash(n); h != b1 && h != b2 && h != b3 {
			c04Fillers = append(c04Fillers, n)
		}
	}
}

type c04World struct {
	run    *c04Run
	path   string
	hdrLen uint32
	hdr    []byte // the header every process of this build and week writes
	openErr map[string]string
	slots  []uint32 // slot (1-based) -> offset
	ends   []uint32
	files  map[string]*file
	ctrs   map[string][]*Counter
	begun  map[string]int
	sched  *rt.Sched
	step   int
}

func (w *c04World) slotOf(off uint32) int {
	if off == 0 {
		return 0
	}
	if off == ^uint32(0) {
		return -1
	}
	for i, o := range w.slots {
		if o == off {
			return i + 1
		}
	}
	return -2
}

// projectShort is the projection of a file that is not yet one page long.
func (w *c04World) projectShort(size int) rt.M {
	recs := []rt.M{}
	for i := 0; i < w.run.MaxSlots; i++ {
		recs = append(recs, rt.M{"name": "none", "len": false, "next": 0, "val": 0})
	}
	alive, done := rt.M{}, rt.M{}
	for _, t := range w.sched.Tasks {
		alive[t.Name] = t.State != rt.Killed
		done[t.Name] = t.State == rt.Done
	}
	begun := rt.M{}
	for _, n := range []string{"n1", "n2", "n3", "n4", "n6", "n7"} {
		begun[n] = w.begun[n]
	}
	return rt.M{"size": size, "limit": 0, "head": rt.M{"b1": 0, "b2": 0, "b3": 0}, "rec": recs, "alive": alive, "finished": done,
		"begun": begun, "problems": []string{}}
}

func (w *c04World) project() rt.M {
	data, err := os.ReadFile(w.path)
	if err != nil {
		if os.IsNotExist(err) && w.run.Create {
			return w.projectShort(-2)
		}
		return rt.M{"readerr": err.Error()}
	}
	if len(data) < rt.V1Page {
		// during creation: -1 = empty, 0 = exactly the header, -3 = anything else
		size := -3
		switch {
		case len(data) == 0:
			size = -1
		case string(data) == string(w.hdr):
			size = 0
		}
		return w.projectShort(size)
	}
	dec := rt.DecodeV1(data)
	limit := binary.LittleEndian.Uint32(data[w.hdrLen:])
	lim := -2
	if limit == 0 {
		lim = 0
	}
	for i, e := range w.ends {
		if e == limit {
			lim = i + 1
		}
	}
	head := rt.M{}
	tab := w.hdrLen + 4
	for _, b := range [][2]string{{"b1", "n1"}, {"b2", "n3"}, {"b3", "n6"}} {
		h := rt.V1Hash(c04Names[b[1]])
		head[b[0]] = w.slotOf(binary.LittleEndian.Uint32(data[tab+4*h:]))
	}
	recs := []rt.M{}
	short := map[string]string{}
	for k, v := range c04Names {
		short[v] = k
	}
	for i := 0; i < w.run.MaxSlots; i++ {
		off := w.slots[i]
		r := rt.M{"name": "none", "len": false, "next": 0, "val": 0}
		if int(off)+16+c04NameLen <= len(data) {
			nm := string(data[off+16 : off+16+c04NameLen])
			switch {
			case nm[0] == 0:
			case short[nm] != "":
				r["name"] = short[nm]
			case strings.HasPrefix(nm, "filler-"):
				r["name"] = "filler"
			default:
				r["name"] = "other"
			}
			r["len"] = binary.LittleEndian.Uint32(data[off+8:]) != 0
			raw := binary.LittleEndian.Uint64(data[off:])
			r["val"] = int(raw)
			if w.run.MaxVal > 0 && raw > 1<<62 {
				r["val"] = int(int64(raw - (^uint64(0) - uint64(w.run.MaxVal))))
			}
			nx := w.slotOf(binary.LittleEndian.Uint32(data[off+12:]))
			if r["name"] == "filler" {
				nx = 0 // fillers live in buckets the model does not have
			}
			r["next"] = nx
		}
		recs = append(recs, r)
	}
	alive, done := rt.M{}, rt.M{}
	for _, t := range w.sched.Tasks {
		alive[t.Name] = t.State != rt.Killed
		done[t.Name] = t.State == rt.Done
	}
	begun := rt.M{}
	for _, n := range []string{"n1", "n2", "n3", "n4", "n6", "n7"} {
		begun[n] = w.begun[n]
	}
	problems := dec.Problems
	if problems == nil {
		problems = []string{}
	}
	return rt.M{"size": len(data) / rt.V1Page, "limit": lim, "head": head, "rec": recs, "alive": alive, "finished": done,
		"begun": begun, "problems": problems}
}

func TestVerifC04(t *testing.T) {
	defer rt.Flush()
	var in struct {
		Runs []c04Run `json:"runs"`
	}
	if err := rt.In(&in); err != nil {
		t.Skip(err)
	}
	c04InitNames()
	for i := range in.Runs {
		c04One(t, &in.Runs[i])
	}
}

func c04One(t *testing.T, run *c04Run) {
	dir := t.TempDir()
	telemetry.Default = telemetry.NewDir(dir)
	os.MkdirAll(telemetry.Default.LocalDir(), 0777)
	os.WriteFile(filepath.Join(telemetry.Default.LocalDir(), "weekends"), []byte("2\n"), 0666)
	now := time.Date(2024, 3, 4, 12, 0, 0, 0, time.UTC)
	CounterTime = func() time.Time { return now }
	c03w = &c03World{} // reuse the mapping registry (mprotect instead of munmap)
	memmap, munmap = c03Memmap, c03Munmap
	defer func() {
		w0 := c03w
		c03w = nil
		w0.release()
	}()
	bi := &debug.BuildInfo{GoVersion: "go1.23.0", Path: "example.com/verif/c04", Main: debug.Module{Path: "example.com/verif", Version: "v1.0.0"}}
	w := &c04World{run: run, files: map[string]*file{}, ctrs: map[string][]*Counter{}, begun: map[string]int{}, openErr: map[string]string{}}
	// the file is created and pre-filled by a setup process
	f0 := &file{buildInfo: bi}
	f0.rotate1()
	if f0.err != nil || f0.current.Raw() == nil {
		t.Fatalf("setup: %v", f0.err)
	}
	w.path = f0.current.Raw().f.Name()
	w.hdrLen = f0.current.Raw().hdrLen
	lim := uint32(0)
	for i := 0; i < run.MaxSlots+2; i++ {
		s, e := rt.V1Place(w.hdrLen, lim, c04NameLen)
		w.slots = append(w.slots, s)
		w.ends = append(w.ends, e)
		lim = e
	}
	for i := 0; i < run.InitSlots; i++ {
		c := &Counter{name: c04Fillers[i], file: f0}
		c.Add(1)
	}
	if run.Warm != "" {
		c := &Counter{name: c04Names[run.Warm], file: f0}
		c.Add(1)
		v, _, _, _ := f0.current.Raw().lookup(c04Names[run.Warm])
		if v == nil {
			t.Fatalf("setup: warm record not found")
		}
		v.Store(^uint64(0) - uint64(run.MaxVal-run.WarmVal))
		w.begun[run.Warm] = run.WarmVal
	}
	w.hdr, _ = mappedHeader(f0.current.Raw().meta)
	f0.current.Raw().close()
	if run.Create {
		os.Remove(w.path)
	}
	s := rt.NewSched()
	defer s.Close()
	w.sched = s
	s.StepTimeout = 5 * time.Second
	s.Transparent = func(fn, kind string) bool {
		// visible: accesses to the shared file (mappedFile methods, the file
		// calls they make, and Counter.add); everything else is process-local
		parts := strings.Split(fn, "<")
		if parts[0] == "(*Counter).add" || parts[0] == "openMapped" {
			return false
		}
		for _, p := range parts {
			if strings.HasPrefix(p, "(*mappedFile).") {
				return false
			}
		}
		return true
	}
	for _, p := range run.Procs {
		p := p
		fp := &file{buildInfo: bi}
		if !run.Create {
			fp.rotate1() // every process has the file open before the race starts
			if fp.err != nil {
				t.Fatalf("setup: %v", fp.err)
			}
		}
		w.files[p.Name] = fp
		names := p.Ctrs
		if len(names) == 0 {
			names = []string{p.Ctr}
		}
		var cs []*Counter
		for _, n := range names {
			cs = append(cs, &Counter{name: c04Names[n], file: fp})
		}
		w.ctrs[p.Name] = cs
		s.Go(p.Name, func() {
			if run.Create {
				fp.rotate1() // opens, and if need be sets up, the file: part of the race
				if fp.err != nil {
					w.openErr[p.Name] = fp.err.Error()
				}
			}
			for i, c := range cs {
				w.begun[names[i]]++
				c.Add(1)
			}
		})
	}
	rng := rand.New(rand.NewSource(run.Seed))
	emit := func(kind string, m rt.M) {
		m["kind"] = kind
		m["run"] = run.ID
		m["family"] = run.Family
		rt.Out(m)
	}
	if run.Trace {
		p := w.project()
		p["i"], p["t"] = 0, "init"
		emit("obs", p)
	}
	status := "ok"
	var sched []string
	var fault rt.M
	hist := map[string][][2]string{}
	doStep := func(tk *rt.Task) bool {
		label, kind := tk.Label, tk.Kind
		w.step++
		ok := s.Step(tk)
		sched = append(sched, tk.Name)
		if tk.State == rt.Ready {
			hist[tk.Name] = append(hist[tk.Name], [2]string{tk.Label, tk.Kind})
		}
		if run.Trace {
			p := w.project()
			p["i"], p["t"], p["label"], p["op"] = w.step, tk.Name, label, kind
			emit("obs", p)
		}
		if !ok {
			status = "hang"
			fault = rt.M{"task": tk.Name, "label": label, "op": kind}
			return false
		}
		if tk.State == rt.Faulted {
			status = "fault"
			fault = rt.M{"task": tk.Name, "label": label, "op": kind, "panic": fmt.Sprint(tk.Panic)}
			return false
		}
		return true
	}
	doKill := func(name string) {
		tk := s.Task(name)
		if tk == nil || tk.State != rt.Ready || tk.Steps == 0 && false {
			return
		}
		s.Kill(tk)
		w.step++
		sched = append(sched, "kill:"+name)
		if run.Trace {
			p := w.project()
			p["i"], p["t"], p["victim"] = w.step, "kill", name
			emit("obs", p)
		}
	}
	alive := true
	for _, e := range run.Schedule {
		if strings.HasPrefix(e, "kill:") {
			doKill(e[5:])
			continue
		}
		if i := strings.Index(e, ">>"); i > 0 {
			// "task>>fn|kind|k": run the task until it is suspended, for the k-th time, in front
			// of an operation `kind` whose call chain contains fn ("done|x|1": until it ends)
			tk := s.Task(e[:i])
			parts := strings.Split(e[i+2:], "|")
			if tk == nil || len(parts) < 3 {
				continue
			}
			want := 1
			fmt.Sscanf(parts[2], "%d", &want)
			for n := 0; n < 600 && alive && s.Runnable(tk); n++ {
				seen := 0
				for _, h := range hist[tk.Name] {
					if strings.Contains(h[0], parts[0]) && h[1] == parts[1] {
						seen++
					}
				}
				if seen >= want && strings.Contains(tk.Label, parts[0]) && tk.Kind == parts[1] {
					break
				}
				if !doStep(tk) {
					alive = false
				}
			}
			if !alive {
				break
			}
			continue
		}
		tk := s.Task(e)
		if tk == nil || !s.Runnable(tk) {
			continue
		}
		if !doStep(tk) {
			alive = false
			break
		}
	}
	budget := 5000
	rr := 0
	for alive && !s.AllDone() {
		rs := s.RunnableTasks()
		if len(rs) == 0 {
			status = "deadlock"
			break
		}
		if budget--; budget < 0 {
			status = "livelock"
			break
		}
		var tk *rt.Task
		switch run.Finish {
		case "random":
			tk = rs[rng.Intn(len(rs))]
		case "randomkill":
			if rng.Intn(40) == 0 {
				doKill(rs[rng.Intn(len(rs))].Name)
				continue
			}
			tk = rs[rng.Intn(len(rs))]
		case "stick":
			tk = rs[0]
			if len(sched) > 0 {
				for _, x := range rs {
					if x.Name == sched[len(sched)-1] {
						tk = x
					}
				}
			}
		default:
			tk = rs[rr%len(rs)]
			rr++
		}
		if !doStep(tk) {
			break
		}
	}
	fin := w.project()
	fin["status"] = status
	fin["steps"] = w.step
	fin["schedule"] = sched
	if fault != nil {
		fin["fault"] = fault
	}
	// what each surviving process is left with: an increment that was not
	// persisted shows up as pending extra
	pend := rt.M{}
	for _, tk := range s.Tasks {
		if tk.State == rt.Done {
			n := 0
			for _, c := range w.ctrs[tk.Name] {
				n += int(c.state.load().extra())
			}
			pend[tk.Name] = n
		}
	}
	fin["pending"] = pend
	fin["openErr"] = w.openErr
	emit("result", fin)
	for _, fp := range w.files {
		if m := fp.current.Raw(); m != nil {
			m.close()
		}
	}
}

// ---------------------------------------------------------------- records of different sizes
// TestVerifMixedSizesC04: processes with mappings of different ages record counters whose names have very
// different lengths, so that one process's record still fits in an earlier page while another's needs a
// new page.  The layout differs from run to run, so only the layout-independent clauses are judged
// (CounterFileLite.tla).
type c04MixRun struct {
	ID    int   `json:"id"`
	Seed  int64 `json:"seed"`
	Kill  bool  `json:"kill"`
	Chain int   `json:"chain"` // > 0: instead of the race, one process links this many names into ONE bucket, then a second one uses the chain
}

func TestVerifMixedSizesC04(t *testing.T) {
	defer rt.Flush()
	var in struct {
		Runs []c04MixRun `json:"runs"`
	}
	if err := rt.In(&in); err != nil {
		t.Skip(err)
	}
	c04InitNames()
	for i := range in.Runs {
		c04MixOne(t, &in.Runs[i])
	}
}

// c04ChainOne: a hash chain far longer than the number of records of a page.  Legal: any number of names may
// fall into one bucket.  Process A creates the names one by one, process B (opened before the file grew) looks the
// oldest one up and creates one more.
func c04ChainOne(t *testing.T, run *c04MixRun) {
	dir := t.TempDir()
	telemetry.Default = telemetry.NewDir(dir)
	os.MkdirAll(telemetry.Default.LocalDir(), 0777)
	os.WriteFile(filepath.Join(telemetry.Default.LocalDir(), "weekends"), []byte("2\n"), 0666)
	now := time.Date(2024, 3, 4, 12, 0, 0, 0, time.UTC)
	CounterTime = func() time.Time { return now }
	c03w = &c03World{}
	memmap, munmap = c03Memmap, c03Munmap
	defer func() {
		w0 := c03w
		c03w = nil
		w0.release()
	}()
	bi := &debug.BuildInfo{GoVersion: "go1.23.0", Path: "example.com/verif/c04", Main: debug.Module{Path: "example.com/verif", Version: "v1.0.0"}}
	open1 := func() *file {
		f := &file{buildInfo: bi}
		f.rotate1()
		if f.err != nil || f.current.Raw() == nil {
			t.Fatalf("setup: %v", f.err)
		}
		return f
	}
	fa, fb := open1(), open1()
	path := fa.current.Raw().f.Name()
	var names []string
	want := rt.V1Hash("chain-0")
	for i := 0; len(names) < run.Chain+1; i++ {
		n := fmt.Sprintf("chain-%d", i)
		if rt.V1Hash(n) == want {
			names = append(names, n)
		}
	}
	begun, surv, pend := rt.M{}, rt.M{}, rt.M{}
	status := "ok"
	var fault rt.M
	add := func(f *file, n string) {
		defer func() {
			if r := recover(); r != nil {
				status, fault = "fault", rt.M{"panic": fmt.Sprint(r), "label": "chain:" + n}
			}
		}()
		c := &Counter{name: n, file: f}
		if v, ok := begun[n].(int); ok {
			begun[n] = v + 1
		} else {
			begun[n] = 1
		}
		c.Add(1)
		if ex := int(c.state.load().extra()); ex > 0 {
			pend[n] = ex
		}
	}
	for _, n := range names[:run.Chain] {
		add(fa, n)
	}
	add(fb, names[0])        // the oldest record: at the far end of the chain
	add(fb, names[run.Chain]) // a new name behind the whole chain
	data, _ := os.ReadFile(path)
	dec := rt.DecodeV1(data)
	vals := rt.M{}
	for n, v := range dec.Counts() {
		vals[n] = int(v)
	}
	for n, b := range begun {
		if _, bad := pend[n]; !bad {
			surv[n] = b
		}
	}
	problems := dec.Problems
	if problems == nil {
		problems = []string{}
	}
	rt.Out(rt.M{"kind": "obs", "run": run.ID, "i": 1, "t": "final", "final": true, "survivors": surv, "size": len(data) / rt.V1Page, "limit": int(dec.Limit),
		"problems": problems, "vals": vals, "begun": begun})
	rt.Out(rt.M{"kind": "result", "run": run.ID, "status": status, "fault": fault, "steps": run.Chain + 2, "pending": pend})
	for _, f := range []*file{fa, fb} {
		if m := f.current.Raw(); m != nil {
			m.close()
		}
	}
}

func c04MixOne(t *testing.T, run *c04MixRun) {
	if run.Chain > 0 {
		c04ChainOne(t, run)
		return
	}
	dir := t.TempDir()
	telemetry.Default = telemetry.NewDir(dir)
	os.MkdirAll(telemetry.Default.LocalDir(), 0777)
	os.WriteFile(filepath.Join(telemetry.Default.LocalDir(), "weekends"), []byte("2\n"), 0666)
	now := time.Date(2024, 3, 4, 12, 0, 0, 0, time.UTC)
	CounterTime = func() time.Time { return now }
	c03w = &c03World{}
	memmap, munmap = c03Memmap, c03Munmap
	defer func() {
		w0 := c03w
		c03w = nil
		w0.release()
	}()
	bi := &debug.BuildInfo{GoVersion: "go1.23.0", Path: "example.com/verif/c04", Main: debug.Module{Path: "example.com/verif", Version: "v1.0.0"}}
	rng := rand.New(rand.NewSource(run.Seed))
	open1 := func() *file {
		f := &file{buildInfo: bi}
		f.rotate1()
		if f.err != nil || f.current.Raw() == nil {
			t.Fatalf("setup: %v", f.err)
		}
		return f
	}
	f0 := open1()
	path := f0.current.Raw().f.Name()
	fill := func(k int) {
		for i := 0; i < k; i++ {
			c := &Counter{name: fmt.Sprintf("filler-%d-%s", rng.Int63(), strings.Repeat("f", c04NameLen-40)), file: f0}
			c.Add(1)
		}
	}
	// process A opens while the file has one page; then the file grows to two pages whose second one is almost full;
	// process B (and C) open afterwards.  A short record still fits in page 2, a long one needs page 3.
	fill(3)
	fa := open1()
	fill(3)
	fb, fc := open1(), open1()
	f0.current.Raw().close()
	long := func(s string) string { return s + strings.Repeat("L", c04NameLen-len(s)) }
	procs := []struct {
		name  string
		f     *file
		names []string
	}{
		{"pA", fa, []string{"shortA", "sh2A"}},
		{"pB", fb, []string{long("longB-"), "shortB"}},
		{"pC", fc, []string{"shortC", long("longC-")}},
	}
	if rng.Intn(2) == 0 {
		procs[0].names, procs[2].names = procs[2].names, procs[0].names
	}
	s := rt.NewSched()
	defer s.Close()
	s.StepTimeout = 5 * time.Second
	s.Transparent = func(fn, kind string) bool {
		parts := strings.Split(fn, "<")
		if parts[0] == "(*Counter).add" {
			return false
		}
		for _, p := range parts {
			if strings.HasPrefix(p, "(*mappedFile).") {
				return false
			}
		}
		return true
	}
	begun := map[string]int{}
	ctrs := map[string][]*Counter{}
	for _, p := range procs {
		p := p
		var cs []*Counter
		for _, n := range p.names {
			cs = append(cs, &Counter{name: n, file: p.f})
		}
		ctrs[p.name] = cs
		s.Go(p.name, func() {
			for i, c := range cs {
				begun[p.names[i]]++
				c.Add(1)
			}
		})
	}
	project := func() rt.M {
		data, err := os.ReadFile(path)
		if err != nil {
			return rt.M{"size": -1, "limit": 0, "problems": []string{err.Error()}, "vals": rt.M{}, "begun": rt.M{}}
		}
		dec := rt.DecodeV1(data)
		vals := rt.M{}
		for n, v := range dec.Counts() {
			if !strings.HasPrefix(n, "filler-") {
				vals[n] = int(v)
			}
		}
		bg := rt.M{}
		for n, v := range begun {
			bg[n] = v
		}
		problems := dec.Problems
		if problems == nil {
			problems = []string{}
		}
		return rt.M{"size": len(data) / rt.V1Page, "limit": int(dec.Limit), "problems": problems, "vals": vals, "begun": bg}
	}
	step := 0
	emit := func(t string, final bool, surv rt.M) {
		p := project()
		p["kind"], p["run"], p["i"], p["t"], p["final"], p["survivors"] = "obs", run.ID, step, t, final, surv
		rt.Out(p)
	}
	emit("init", false, rt.M{})
	status := "ok"
	var fault rt.M
	killed := map[string]bool{}
	for !s.AllDone() && step < 4000 {
		rs := s.RunnableTasks()
		if len(rs) == 0 {
			status = "deadlock"
			break
		}
		tk := rs[rng.Intn(len(rs))]
		if run.Kill && rng.Intn(40) == 0 {
			s.Kill(tk)
			killed[tk.Name] = true
			step++
			emit("kill", false, rt.M{})
			continue
		}
		label, kind := tk.Label, tk.Kind
		step++
		ok := s.Step(tk)
		emit(tk.Name, false, rt.M{})
		if !ok {
			status, fault = "hang", rt.M{"task": tk.Name, "label": label, "op": kind}
			break
		}
		if tk.State == rt.Faulted {
			status, fault = "fault", rt.M{"task": tk.Name, "label": label, "op": kind, "panic": fmt.Sprint(tk.Panic)}
			break
		}
	}
	surv := rt.M{}
	pend := rt.M{}
	if status == "ok" {
		for _, p := range procs {
			if killed[p.name] {
				continue
			}
			for i, c := range ctrs[p.name] {
				if ex := int(c.state.load().extra()); ex > 0 {
					pend[p.name+":"+p.names[i]] = ex
				} else {
					surv[p.names[i]] = 1
				}
			}
		}
		step++
		emit("final", true, surv)
	}
	rt.Out(rt.M{"kind": "result", "run": run.ID, "status": status, "fault": fault, "steps": step, "pending": pend})
	for _, f := range []*file{fa, fb, fc} {
		if m := f.current.Raw(); m != nil {
			m.close()
		}
	}
}
