//go:build verif

package counter

// Conformance harness for Counter.tla (property C03).  It drives the real,
// instrumented internal/counter under the verifrt scheduler through schedules
// computed by TLC (or random ones), and records the projection of the real
// state after every step for validation by TLC.

import (
	"fmt"
	"math/rand"
	"os"
	"path/filepath"
	"runtime/debug"
	"sort"
	"strings"
	"syscall"
	"testing"
	"time"
	"unsafe"

	"golang.org/x/telemetry/internal/mmap"
	"golang.org/x/telemetry/internal/telemetry"
	rt "golang.org/x/telemetry/internal/verifrt"
)

type c03Adder struct {
	Name string `json:"name"`
	Ctr  string `json:"ctr"`
	N    int    `json:"n"`
	Amt  int    `json:"amt"` // amount of each Add, in model units (0 = 1)
}

type c03Run struct {
	ID       int        `json:"id"`
	Family   string     `json:"family"`
	Adders   []c03Adder `json:"adders"`
	Rotators []string   `json:"rotators"`
	NRot     int        `json:"nRot"` // rotate1 calls per rotator; the clock moves on one span between two calls
	Unit     int        `json:"unit"` // log2 of the real amount of one model unit (0: amounts are the model's); the in-memory limit 2^33-1 is then maxExtra units
	CapNew   int        `json:"capNew"` // free record slots of the file the first open finds (-1: a fresh file)
	Counters []string   `json:"counters"`
	Warm     []string   `json:"warm"`
	InitOpen bool       `json:"initOpen"`
	Clock2   bool       `json:"clock2"`
	Capacity int        `json:"capacity"`
	MaxExtra uint64     `json:"maxExtra"`
	WarmCell int        `json:"warmCell"` // model value of a warm counter's persisted value (1 = plain)
	MaxCell  int        `json:"maxCell"`
	Schedule []string   `json:"schedule"`
	Finish   string     `json:"finish"` // "rr" | "random" | "seq"
	Seed     int64      `json:"seed"`
	Trace    bool       `json:"trace"`
}

type region struct {
	id     int
	base   uintptr
	n      int
	data   *mmap.Data
	raw    []byte
	closed bool
	closer string
	cstep  int
	path   string
}

type c03World struct {
	t       *testing.T
	run     *c03Run
	dir     string
	f       *file
	ctrs    map[string]*Counter
	byPtr   map[*Counter]string
	regions []*region
	setupRegions []*region // mappings made by the setup process before the model's initial state
	files   []string // count file paths in creation order
	step    int
	begun   map[string]int
	hold    map[string]int // task -> step of its last hold acquisition
	sched   *rt.Sched
	now     time.Time
}

var c03w *c03World

func c03Memmap(f *os.File) (*mmap.Data, error) {
	d, err := mmap.Mmap(f)
	if err != nil || c03w == nil {
		return d, err
	}
	w := c03w
	r := &region{id: len(w.regions) + 1, data: d, raw: d.Data, n: len(d.Data), path: f.Name()}
	if len(d.Data) > 0 {
		r.base = uintptr(unsafe.Pointer(&d.Data[0]))
	}
	w.regions = append(w.regions, r)
	known := false
	for _, p := range w.files {
		if p == f.Name() {
			known = true
		}
	}
	if !known {
		w.files = append(w.files, f.Name())
	}
	return d, nil
}

func c03Munmap(d *mmap.Data) error {
	w := c03w
	if w == nil {
		return mmap.Munmap(d)
	}
	for _, r := range w.regions {
		if r.data == d && !r.closed {
			r.closed = true
			r.closer = rt.CurrentTask()
			r.cstep = w.step
			// keep the address range reserved but inaccessible: a use after
			// close faults deterministically instead of writing into whatever
			// gets mapped there next
			syscall.Mprotect(r.raw, syscall.PROT_NONE)
			return nil
		}
	}
	return nil
}

func (w *c03World) release() {
	for _, r := range append(append([]*region{}, w.setupRegions...), w.regions...) {
		if r.closed {
			syscall.Mprotect(r.raw, syscall.PROT_READ|syscall.PROT_WRITE)
		}
		mmap.Munmap(r.data)
	}
	w.regions = nil
}

func (w *c03World) regionOf(p unsafe.Pointer) int {
	if p == nil {
		return 0
	}
	a := uintptr(p)
	for _, r := range w.regions {
		if a >= r.base && a < r.base+uintptr(r.n) {
			return r.id
		}
	}
	return -1
}

func (w *c03World) regionOfMapped(m *mappedFile) int {
	if m == nil {
		return 0
	}
	for _, r := range w.regions {
		if r.data == m.mapping {
			return r.id
		}
	}
	// closed mappings have m.mapping == nil; find by file + closed state is not
	// possible, but current is never a closed mapping
	return -1
}

const c03NameLen = 1000

func c03RealName(short string) string {
	return short + strings.Repeat("_", c03NameLen-len(short))
}

// modelWord converts a real state word into Counter.tla's shrunk layout.
func modelWord(bits uint64, maxExtra uint64) int {
	b := counterStateBits(bits)
	r := b.readers()
	if b.locked() {
		r = 7
	} else if r > 6 {
		r = 6
	}
	hp := 0
	if b.havePtr() {
		hp = 1
	}
	ex := b.extra()
	if ex > maxExtra {
		ex = maxExtra
	}
	return r + 8*hp + 16*int(ex)
}

// modelCell maps a persisted value to the model's range: values near 2^64-1
// are measured from the top (MaxCell is the saturation limit).
func (w *c03World) modelCell(v uint64) int {
	if v >= 1<<63 {
		return w.run.MaxCell - int(^uint64(0)-v)
	}
	return int(v)
}

func (w *c03World) project() rt.M {
	st, ptr, nxt := rt.M{}, rt.M{}, rt.M{}
	cell1, cell2, cell3 := rt.M{}, rt.M{}, rt.M{}
	nameOf := func(c *Counter) string {
		switch {
		case c == nil:
			return "nil"
		case c == &w.f.end:
			return "end"
		}
		if n, ok := w.byPtr[c]; ok {
			return n
		}
		return "other"
	}
	var fdec [3]map[string]uint64
	for i := 0; i < 3 && i < len(w.files); i++ {
		if data, err := os.ReadFile(w.files[i]); err == nil {
			fdec[i] = rt.DecodeV1(data).Counts()
		}
	}
	for _, n := range w.run.Counters {
		c := w.ctrs[n]
		st[n] = modelWord(c.state.bits.Raw(), w.run.MaxExtra)
		if w.run.Unit > 0 {
			// the in-memory amount in model units, rounded up (2^33-1 is maxExtra units)
			b := counterStateBits(c.state.bits.Raw())
			u := uint64(1) << uint(w.run.Unit)
			ex := int((b.extra() + u - 1) / u)
			st[n] = modelWord(c.state.bits.Raw(), w.run.MaxExtra)%16 + 16*ex
		}
		ptr[n] = w.regionOf(unsafe.Pointer(c.ptr.count))
		nxt[n] = nameOf(c.next.Raw())
		cell1[n] = w.modelCell(fdec[0][c.name])
		cell2[n] = w.modelCell(fdec[1][c.name])
		cell3[n] = w.modelCell(fdec[2][c.name])
	}
	var open []int
	for _, r := range w.regions {
		if !r.closed {
			open = append(open, r.id)
		}
	}
	if open == nil {
		open = []int{}
	}
	held, owner := w.f.mu.Held()
	mu := "none"
	if held {
		mu = owner
		if mu == "" {
			mu = "harness"
		}
	}
	begun := rt.M{}
	for _, n := range w.run.Counters {
		begun[n] = w.begun[n]
	}
	var done, faulted []string
	for _, t := range w.sched.Tasks {
		switch t.State {
		case rt.Done:
			done = append(done, t.Name)
		case rt.Faulted, rt.Hung:
			faulted = append(faulted, t.Name)
		}
	}
	if done == nil {
		done = []string{}
	}
	if faulted == nil {
		faulted = []string{}
	}
	return rt.M{"st": st, "ptr": ptr, "nxt": nxt, "head": nameOf(w.f.counters.Raw()), "cur": w.regionOfMapped(w.f.current.Raw()),
		"open": open, "mu": mu, "cell1": cell1, "cell2": cell2, "cell3": cell3, "begun": begun, "done": done, "faulted": faulted,
		"fileopen": w.f.current.Raw() != nil}
}

func c03Setup(t *testing.T, run *c03Run) *c03World {
	w := &c03World{t: t, run: run, dir: t.TempDir(), f: new(file), ctrs: map[string]*Counter{}, byPtr: map[*Counter]string{},
		begun: map[string]int{}, hold: map[string]int{}}
	c03w = w
	telemetry.Default = telemetry.NewDir(w.dir)
	os.MkdirAll(telemetry.Default.LocalDir(), 0777)
	os.WriteFile(filepath.Join(telemetry.Default.LocalDir(), "weekends"), []byte("2\n"), 0666)
	t1 := time.Date(2024, 3, 4, 12, 0, 0, 0, time.UTC) // a Monday; the span ends Tuesday
	w.now = t1
	CounterTime = func() time.Time { return w.now }
	memmap, munmap = c03Memmap, c03Munmap
	w.f.buildInfo = &debug.BuildInfo{GoVersion: "go1.23.0", Path: "example.com/verif/c03", Main: debug.Module{Path: "example.com/verif", Version: "v1.0.0"}}
	for _, n := range run.Counters {
		c := &Counter{name: c03RealName(n), file: w.f}
		w.ctrs[n] = c
		w.byPtr[c] = n
	}
	w.sched = rt.NewSched()
	w.sched.Transparent = func(fn, kind string) bool {
		// inside one process the mappedFile internals are serialized by file.mu
		first := fn
		if i := strings.Index(fn, "<"); i >= 0 {
			first = fn[:i]
		}
		return strings.HasPrefix(first, "(*mappedFile).")
	}
	if run.InitOpen {
		w.f.rotate1()
		if w.f.err != nil || w.f.current.Raw() == nil {
			t.Fatalf("setup: open failed: %v", w.f.err)
		}
		m := w.f.current.Raw()
		// how many records of our size fit into the first page?
		slots := 0
		lim := uint32(0)
		for {
			_, end := rt.V1Place(m.hdrLen, lim, c03NameLen)
			if end > rt.V1Page {
				break
			}
			slots++
			lim = end
		}
		fill := slots - len(run.Warm) - run.Capacity
		if fill < 0 {
			t.Fatalf("setup: capacity %d impossible (%d slots)", run.Capacity, slots)
		}
		for i := 0; i < fill; i++ {
			c := &Counter{name: c03RealName(fmt.Sprintf("fill%02d", i)), file: w.f}
			c.Add(1)
		}
		for _, n := range run.Warm {
			w.ctrs[n].Add(1)
			w.begun[n] = 1
			if run.WarmCell > 1 {
				// preset the persisted value just below its saturation limit
				w.ctrs[n].ptr.count.Store(^uint64(0) - uint64(run.MaxCell-run.WarmCell))
				w.begun[n] = run.WarmCell
			}
		}
		if len(w.regions) != 1 {
			t.Fatalf("setup: %d mappings after warm-up", len(w.regions))
		}
		// the filler counters are not part of the model's registration list:
		// unlink them (they are never touched again)
		w.relinkWarm()
	}
	if !run.InitOpen {
		if run.CapNew >= 0 {
			// the count file exists already (left by an earlier process of the same build) with CapNew free slots
			tmp := new(file)
			tmp.buildInfo = w.f.buildInfo
			tmp.rotate1()
			if tmp.err != nil || tmp.current.Raw() == nil {
				t.Fatalf("setup: prefill open failed: %v", tmp.err)
			}
			m := tmp.current.Raw()
			slots := 0
			lim := uint32(0)
			for {
				_, end := rt.V1Place(m.hdrLen, lim, c03NameLen)
				if end > rt.V1Page {
					break
				}
				slots++
				lim = end
			}
			for i := 0; i < slots-run.CapNew; i++ {
				c := &Counter{name: c03RealName(fmt.Sprintf("fill%02d", i)), file: tmp}
				c.Add(1)
			}
			tmp.current.Raw().close()
			// the mappings of the setup process are not part of the model: forget them (they stay reserved until release)
			w.setupRegions = append(w.setupRegions, w.regions...)
			w.regions = nil
		}
		// counters incremented before the file is open: registered, the amount pending in memory
		for _, n := range run.Warm {
			w.ctrs[n].Add(1)
			w.begun[n] = 1
		}
	}
	if run.Clock2 {
		w.now = t1.AddDate(0, 0, 7)
	}
	return w
}

// relinkWarm rebuilds the registration list so that it holds exactly the warm
// counters, in warm-up order (first warmed is last in the list), which is the
// initial state of Counter.tla.
func (w *c03World) relinkWarm() {
	var prev *Counter = &w.f.end
	if len(w.run.Warm) == 0 {
		w.f.counters.Store(nil)
		return
	}
	for _, n := range w.run.Warm {
		c := w.ctrs[n]
		c.next.Store(prev)
		prev = c
	}
	w.f.counters.Store(prev)
}

type stepRec struct {
	task, label, kind string
}

func TestVerifC03(t *testing.T) {
	defer rt.Flush()
	var in struct {
		Runs []c03Run `json:"runs"`
	}
	if err := rt.In(&in); err != nil {
		t.Skip(err)
	}
	for i := range in.Runs {
		c03One(t, &in.Runs[i])
	}
	c03w = nil
}

func c03One(t *testing.T, run *c03Run) {
	w := c03Setup(t, run)
	s := w.sched
	defer func() {
		s.Close()
		if m := w.f.current.Raw(); m != nil {
			m.close()
		}
		c03w = nil
		w.release()
	}()
	s.StepTimeout = 5 * time.Second
	for _, a := range run.Adders {
		a := a
		s.Go(a.Name, func() {
			amt := a.Amt
			if amt == 0 {
				amt = 1
			}
			for k := 0; k < a.N; k++ {
				w.begun[a.Ctr] += amt
				w.ctrs[a.Ctr].Add(int64(amt) << uint(run.Unit))
			}
		})
	}
	for _, r := range run.Rotators {
		s.Go(r, func() {
			w.f.rotate1()
			for k := 1; k < run.NRot; k++ {
				rt.Yield("tick", "") // a model step of its own: the clock moves on to the next span
				w.now = w.now.AddDate(0, 0, 7)
				w.f.rotate1()
			}
		})
	}
	rng := rand.New(rand.NewSource(run.Seed))
	emit := func(kind string, m rt.M) {
		m["kind"] = kind
		m["run"] = run.ID
		m["family"] = run.Family
		rt.Out(m)
	}
	if run.Trace {
		p := w.project()
		p["i"] = 0
		p["t"] = "init"
		emit("obs", p)
	}
	status := "ok"
	skipped := 0
	var sched []string
	var faultInfo rt.M
	hist := map[string][][2]string{} // per task: the operations it has been suspended in front of
	doStep := func(tk *rt.Task) bool {
		label, kind := tk.Label, tk.Kind
		before := map[string]uint64{}
		for n, c := range w.ctrs {
			before[n] = c.state.bits.Raw()
		}
		w.step++
		ok := s.Step(tk)
		sched = append(sched, tk.Name)
		if tk.State == rt.Ready {
			hist[tk.Name] = append(hist[tk.Name], [2]string{tk.Label, tk.Kind})
		}
		for n, c := range w.ctrs {
			b0, b1 := counterStateBits(before[n]), counterStateBits(c.state.bits.Raw())
			if (b1.locked() && !b0.locked()) || (!b1.locked() && !b0.locked() && b1.readers() == b0.readers()+1) {
				w.hold[tk.Name] = w.step
			}
		}
		if run.Trace {
			p := w.project()
			p["i"] = w.step
			p["t"] = tk.Name
			p["label"] = label
			p["op"] = kind
			emit("obs", p)
		}
		if !ok {
			status = "hang"
			faultInfo = rt.M{"task": tk.Name, "label": label, "op": kind}
			return false
		}
		if tk.State == rt.Faulted {
			status = "fault"
			fn := ""
			for _, ln := range strings.Split(tk.Stack, "\n") {
				if strings.Contains(ln, "internal/counter.") && !strings.Contains(ln, "c03") && !strings.Contains(ln, "verifrt") {
					fn = strings.TrimSpace(ln)
					fn = fn[strings.Index(fn, "internal/counter.")+len("internal/counter."):]
					if i := strings.LastIndex(fn, "("); i > 0 {
						fn = fn[:i]
					}
					break
				}
			}
			// which mapping did the task touch? the one its counter's pointer points into
			ctr := ""
			for _, a := range run.Adders {
				if a.Name == tk.Name {
					ctr = a.Ctr
				}
			}
			reg, closer, cstep := 0, "", 0
			if ctr != "" {
				reg = w.regionOf(unsafe.Pointer(w.ctrs[ctr].ptr.count))
			}
			// a task refreshing other counters (invalidateCounters) may fault on any closed region
			for _, r := range w.regions {
				if r.id == reg || (reg <= 0 && r.closed) {
					closer, cstep = r.closer, r.cstep
					if reg <= 0 {
						reg = r.id
					}
				}
			}
			faultInfo = rt.M{"task": tk.Name, "panic": fmt.Sprint(tk.Panic), "fn": fn, "label": label, "op": kind, "mapping": reg,
				"closer": closer, "closeStep": cstep, "holdStep": w.hold[tk.Name], "step": w.step}
			return false
		}
		return true
	}
	alive := true
	for _, name := range run.Schedule {
		if i := strings.Index(name, ">>"); i > 0 {
			// "task>>fn|kind|k": run the task until, for the k-th time, the operation it is
			// suspended in front of is `kind` inside a function whose call chain contains fn
			// (or until it ends / blocks).  This aligns a replay on WHERE a task stands rather
			// than on how many steps it took, so code that adds or removes a shared operation
			// elsewhere still reaches the window.
			tk := s.Task(name[:i])
			parts := strings.Split(name[i+2:], "|")
			if tk == nil || len(parts) < 3 {
				continue
			}
			want := 1
			fmt.Sscanf(parts[2], "%d", &want)
			for n := 0; n < 400 && alive && s.Runnable(tk); n++ {
				// how often has this task been suspended in front of such an operation so far?
				seen := 0
				for _, h := range hist[tk.Name] {
					if strings.Contains(h[0], parts[0]) && h[1] == parts[1] {
						seen++
					}
				}
				if seen >= want && strings.Contains(tk.Label, parts[0]) && tk.Kind == parts[1] {
					break
				}
				if !doStep(tk) {
					alive = false
				}
			}
			if !alive {
				break
			}
			continue
		}
		tk := s.Task(name)
		if tk == nil || !s.Runnable(tk) {
			skipped++
			continue
		}
		if !doStep(tk) {
			alive = false
			break
		}
	}
	budget := 20000
	rr := 0
	for alive && !s.AllDone() {
		rs := s.RunnableTasks()
		if len(rs) == 0 {
			status = "deadlock"
			break
		}
		if budget--; budget < 0 {
			status = "livelock"
			break
		}
		var tk *rt.Task
		switch run.Finish {
		case "random":
			tk = rs[rng.Intn(len(rs))]
		case "seq":
			tk = rs[0]
		case "stick":
			// the task that moved last keeps running while it can
			tk = rs[0]
			if len(sched) > 0 {
				for _, x := range rs {
					if x.Name == sched[len(sched)-1] {
						tk = x
					}
				}
			}
		default:
			tk = rs[rr%len(rs)]
			rr++
		}
		if !doStep(tk) {
			break
		}
	}
	fin := w.project()
	fin["status"] = status
	fin["steps"] = w.step
	fin["skipped"] = skipped
	fin["schedule"] = sched
	if faultInfo != nil {
		fin["fault"] = faultInfo
	}
	names := make([]string, 0, len(w.files))
	for _, p := range w.files {
		names = append(names, filepath.Base(p))
	}
	sort.Strings(names)
	fin["nfiles"] = len(names)
	emit("result", fin)
}
