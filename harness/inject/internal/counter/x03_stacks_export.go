//go:build verif

package counter

// Exports for X03 (C15 no longer needs them: it uses the public Counters()
// and records the PCs of a stack with its own tab.Incer).  Kept apart from
// verif_export.go so that a change of StackCounter's private representation
// cannot break the build of the other counter-package checks; the x03_ prefix
// makes vlib/core.py inject it for X03 only.

// VStacks returns, for every counter the stack counter has created so
// far, the program counters it was created for and the counter itself.
func (c *StackCounter) VStacks() (pcs [][]uintptr, ctrs []*Counter) {
	c.mu.Lock()
	defer c.mu.Unlock()
	for _, s := range c.stacks {
		pcs = append(pcs, append([]uintptr(nil), s.pcs...))
		ctrs = append(ctrs, s.counter)
	}
	return pcs, ctrs
}

// VNumStacks is the number of counters the stack counter has created.
func (c *StackCounter) VNumStacks() int {
	return len(c.Counters())
}
