//go:build verif

package counter

// Harness for property C05 (Faults.tla / FaultsTrace.tla / Corrupt.tla):
//
//   - TestVerifC05Faults records the sequence of file-system / mmap calls the
//     CURRENT tree makes in each API scenario (open, first Add, growth,
//     rotation, Read, files deleted while in use) and replays fault plans
//     (which call fails with which errno) against the instrumented package;
//   - TestVerifC05Corrupt writes corrupt counter files at rest (independent
//     writer rt.WriteV1 + targeted overwrites) at the path the library opens
//     and runs open + Add on an existing and on a new counter name.
//
// Every API call runs as a task of the verifrt scheduler with all yields
// transparent and COUNTED: a call that needs more than the step budget is
// suspended for good and reported as a hang (nothing keeps spinning).  Panics
// and memory faults (debug.SetPanicOnFault) are recovered by the scheduler
// and reported as records; the harness itself never fails for them.

import (
	"bytes"
	"crypto/sha256"
	"encoding/base64"
	"encoding/binary"
	"encoding/hex"
	"fmt"
	mrand "math/rand"
	"os"
	"path/filepath"
	"runtime"
	"runtime/debug"
	"sort"
	"strings"
	"syscall"
	"testing"
	"time"

	"golang.org/x/telemetry/internal/mmap"
	"golang.org/x/telemetry/internal/telemetry"
	c05h "golang.org/x/telemetry/internal/verifh/c05"
	rt "golang.org/x/telemetry/internal/verifrt"
)

// ------------------------------------------------------------------ input

type c05Step struct {
	Op  string `json:"op"` // open | rotate | add | read | week2 | rmfile | rmdir
	Ctr string `json:"ctr"`
	N   int64  `json:"n"`
}

type c05Scn struct {
	Name      string          `json:"name"`
	Setup     string          `json:"setup"`     // fresh | existing | full
	Mode      string          `json:"mode"`      // contents of the mode file ("" = no mode file)
	ModeClass *c05h.ModeClass `json:"modeClass"` // if set: the mode file holds this class of bytes (ModeBytes.tla)
	Steps     []c05Step       `json:"steps"`
}

// ------------------------------------------------------------------ world

type c05Region struct {
	data   *mmap.Data
	raw    []byte
	path   string
	closed bool
}

type c05World struct {
	t       *testing.T
	dir     string // the telemetry directory
	f       *file
	ctrs    map[string]*Counter
	short   map[string]string // real counter name -> short name
	regions []*c05Region
	now     time.Time
	h       *c05h.Hooks // fault plan
	// double unmap detection
	badUnmap int
}

var c05w *c05World

const c05LongLen = 3000

// c05RealName: counters whose short name starts with L have 3000-byte names,
// H = 4096 bytes (the longest name the format allows; three such records fill
// a page), X = 5000 bytes (too long: the library refuses to store it).
var c05OddNames = map[string]string{
	"N:empty": "", "N:one": "z", "N:nul": "a\x00b", "N:utf8": "\xff\xfe\x80", "N:multibyte": "z\u00e4hler/\u8ba1\u6570",
	"N:nl": "st\nexample.com/p.f:+1,+0x1", "N:ditto": "st\n\".f:1,+0x2\n\".g:2,+0x3", "N:meta": "TimeEnd: 1999-01-01T00:00:00Z\n\n",
}

func c05RealName(short string) string {
	if r, ok := c05OddNames[short]; ok {
		return r
	}
	if strings.HasPrefix(short, "K") {
		return c05BucketName(short)
	}
	n := 0
	switch {
	case strings.HasPrefix(short, "L"):
		n = c05LongLen
	case strings.HasPrefix(short, "H"):
		n = rt.V1MaxName
	case strings.HasPrefix(short, "X"):
		n = 5000
	}
	if n > len(short) {
		return short + strings.Repeat("_", n-len(short))
	}
	return short
}

// c05BucketName gives K-names: 3900 bytes long, and all in hash bucket 77 (a
// counter appended to the short name is searched for).
var c05BucketNames = map[string]string{}

func c05BucketName(short string) string {
	if r, ok := c05BucketNames[short]; ok {
		return r
	}
	for i := 0; ; i++ {
		h := fmt.Sprintf("%s#%d#", short, i)
		r := h + strings.Repeat("_", 3900-len(h))
		if rt.V1Hash(r) == 77 {
			c05BucketNames[short] = r
			return r
		}
	}
}

var c05Pause bool // a foreign process is at work: no faults, no recording

func c05Fault(kind, path string) error {
	if c05Pause {
		return nil
	}
	if w := c05w; w != nil && w.h != nil {
		return w.h.Fault(kind, path)
	}
	return nil
}

func c05Memmap(f *os.File) (*mmap.Data, error) {
	rt.Yield("mmap", f.Name())
	if err := c05Fault("mmap", f.Name()); err != nil {
		return nil, err
	}
	d, err := mmap.Mmap(f)
	if err != nil || c05w == nil {
		return d, err
	}
	c05w.regions = append(c05w.regions, &c05Region{data: d, raw: d.Data, path: f.Name()})
	return d, nil
}

func c05Munmap(d *mmap.Data) error {
	w := c05w
	if w == nil {
		return mmap.Munmap(d)
	}
	for _, r := range w.regions {
		if r.data == d {
			if r.closed {
				w.badUnmap++
				return nil
			}
			if err := c05Fault("munmap", r.path); err != nil {
				return err // the mapping stays valid
			}
			r.closed = true
			// keep the range reserved but inaccessible: a use after close is a
			// deterministic fault instead of a write into a recycled mapping
			if len(r.raw) > 0 {
				syscall.Mprotect(r.raw[:cap(r.raw)], syscall.PROT_NONE)
			}
			return nil
		}
	}
	return mmap.Munmap(d)
}

func (w *c05World) release() {
	for _, r := range w.regions {
		if len(r.raw) == 0 {
			continue
		}
		if r.closed {
			syscall.Mprotect(r.raw[:cap(r.raw)], syscall.PROT_READ|syscall.PROT_WRITE)
		}
		mmap.Munmap(r.data)
	}
	w.regions = nil
}

var c05T1 = time.Date(2024, 3, 4, 12, 0, 0, 0, time.UTC) // a Monday; with weekends "2" the span ends on Tuesday

func c05BuildInfo() *debug.BuildInfo {
	return &debug.BuildInfo{GoVersion: "go1.23.0", Path: "example.com/verif/c05", Main: debug.Module{Path: "example.com/verif", Version: "v1.0.0"}}
}

func c05CountName(begin time.Time) string {
	return fmt.Sprintf("c05@v1.0.0-go1.23.0-%s-%s-%s.v1.count", runtime.GOOS, runtime.GOARCH, begin.Format("2006-01-02"))
}

func c05Meta(begin time.Time) string {
	b := time.Date(begin.Year(), begin.Month(), begin.Day(), 0, 0, 0, 0, time.UTC)
	return rt.V1Meta(b.Format(time.RFC3339), b.AddDate(0, 0, 1).Format(time.RFC3339), "example.com/verif/c05", "v1.0.0", "go1.23.0", runtime.GOOS, runtime.GOARCH)
}

// c05Entries returns the records of the pre-existing file of a set-up.
func c05Entries(setup string) []rt.V1Entry {
	es := []rt.V1Entry{{Name: "o1", Value: 5}, {Name: "o2", Value: 7}}
	if setup == "full" {
		// fill the first page so that one more long-named record needs a second page
		hdr := rt.V1HeaderLen(c05Meta(c05T1))
		lim := uint32(0)
		for _, e := range es {
			_, lim = rt.V1Place(hdr, lim, len(e.Name))
		}
		for i := 0; ; i++ {
			_, end := rt.V1Place(hdr, lim, c05LongLen)
			_, end2 := rt.V1Place(hdr, end, c05LongLen)
			if end2 > rt.V1Page {
				break
			}
			es = append(es, rt.V1Entry{Name: c05RealName(fmt.Sprintf("Lfill%02d", i)), Value: uint64(10 + i)})
			lim = end
		}
		// exactly one more long record fits; take it, so the next one grows the file
		es = append(es, rt.V1Entry{Name: c05RealName("Lfill99"), Value: 9})
	}
	return es
}

func c05NewWorld(t *testing.T, setup, mode string) *c05World {
	w := &c05World{t: t, dir: filepath.Join(t.TempDir(), "tele"), f: new(file), ctrs: map[string]*Counter{}, short: map[string]string{}, now: c05T1}
	telemetry.Default = telemetry.NewDir(w.dir)
	CounterTime = func() time.Time { return w.now }
	memmap, munmap = c05Memmap, c05Munmap
	w.f.buildInfo = c05BuildInfo()
	local := telemetry.Default.LocalDir()
	if setup == "bare" { // the directories exist, nothing else does
		os.MkdirAll(local, 0777)
	} else if setup != "fresh" {
		os.MkdirAll(local, 0777)
		os.WriteFile(filepath.Join(local, "weekends"), []byte("2\n"), 0666)
		data, err := rt.WriteV1(c05Meta(c05T1), c05Entries(setup))
		if err != nil {
			t.Fatal(err)
		}
		if err := os.WriteFile(filepath.Join(local, c05CountName(c05T1)), data, 0666); err != nil {
			t.Fatal(err)
		}
	}
	if mode != "" {
		os.MkdirAll(w.dir, 0777)
		os.WriteFile(filepath.Join(w.dir, "mode"), []byte(mode), 0666)
	}
	return w
}

func (w *c05World) ctr(short string) *Counter {
	if c, ok := w.ctrs[short]; ok {
		return c
	}
	c := &Counter{name: c05RealName(short), file: w.f}
	w.ctrs[short] = c
	w.short[c.name] = short
	return c
}

func (w *c05World) shortName(real string) string {
	if s, ok := w.short[real]; ok {
		return s
	}
	if len(real) > 12 {
		return strings.TrimRight(real, "_")
	}
	return real
}

type c05Snap struct {
	vals map[string]uint64 // "file|name" -> value
	sha  map[string]string
}

func c05Sha(b []byte) string { h := sha256.Sum256(b); return hex.EncodeToString(h[:8]) }

func (w *c05World) snapshot() c05Snap {
	s := c05Snap{vals: map[string]uint64{}, sha: map[string]string{}}
	ents, _ := os.ReadDir(filepath.Join(w.dir, "local"))
	for _, e := range ents {
		if !strings.HasSuffix(e.Name(), ".v1.count") {
			continue
		}
		data, err := os.ReadFile(filepath.Join(w.dir, "local", e.Name()))
		if err != nil {
			continue
		}
		s.sha[e.Name()] = c05Sha(data)
		for _, r := range rt.DecodeV1(data).Records {
			s.vals[e.Name()+"|"+w.shortName(r.Name)] = r.Value
		}
	}
	return s
}

// ------------------------------------------------------------ fault plans

func (w *c05World) curIsToday() bool {
	m := w.f.current.Raw()
	if m == nil || m.f == nil {
		return false
	}
	return filepath.Base(m.f.Name()) == c05CountName(w.now)
}

func c05RunFaultCase(t *testing.T, scn *c05Scn, plan *c05h.Plan, budget int, record bool) {
	w := c05NewWorld(t, scn.Setup, scn.Mode)
	if scn.ModeClass != nil {
		if err := scn.ModeClass.Install(w.dir); err != nil {
			t.Fatal(err)
		}
	}
	c05w = w
	w.h = c05h.NewHooks(w.dir, plan)
	w.h.Install()
	mrand.Seed(20240304) // the week-end day a recreated weekends file gets
	defer func() {
		c05h.Uninstall()
		c05w = nil
		if m := w.f.current.Raw(); m != nil {
			m.close()
		}
		w.release()
		memmap, munmap = mmap.Mmap, mmap.Munmap
		os.RemoveAll(filepath.Dir(w.dir))
	}()
	id := 0
	if plan != nil {
		id = plan.ID
	}
	var steps []rt.M
	dead := false
	for i, st := range scn.Steps {
		w.h.Step, w.h.Op = i+1, st.Op
		rec := rt.M{"op": st.Op, "ctr": st.Ctr, "n": st.N, "ret": "ok", "fired": 0, "dP": 0, "dE": 0, "pe": 0, "others": false, "files": false,
			"parked": w.f.err != nil, "cur": w.f.current.Raw() != nil, "today": w.curIsToday(), "dbl": false, "steps": 0, "where": "", "text": "", "rv": -1, "rerr": false, "pv": -1}
		if dead {
			rec["ret"] = "skipped"
			steps = append(steps, rec)
			continue
		}
		nf := len(w.h.Fired)
		before := w.snapshot()
		var c *Counter
		var pe uint64
		if st.Ctr != "" {
			c = w.ctr(st.Ctr)
			pe = counterStateBits(c.state.bits.Raw()).extra()
		}
		removed := ""
		ret, n, where, text := "ok", 0, "", ""
		switch st.Op {
		case "open", "rotate":
			ret, n, where, text = c05h.Run(st.Op, budget, func() { w.f.rotate1() })
		case "week2":
			w.now = c05T1.AddDate(0, 0, 7)
		case "week1": // the clock goes back
			w.now = c05T1
		case "day2": // a later day of the first week
			w.now = c05T1.AddDate(0, 0, 1).Add(3 * time.Hour)
		case "add":
			ret, n, where, text = c05h.Run("add", budget, func() { c.Add(st.N) })
		case "read":
			var v uint64
			var err error
			ret, n, where, text = c05h.Run("read", budget, func() { v, err = Read(c) })
			if ret == "ok" {
				if err != nil {
					rec["rerr"] = true
				} else {
					rec["rv"] = v
				}
			}
		case "foreign":
			// another process on the same file (a second file value with the same
			// build info), fault-free and outside the recording
			c05Pause = true
			c05h.Uninstall()
			func() {
				defer func() { recover() }()
				b := new(file)
				b.buildInfo = c05BuildInfo()
				b.rotate1()
				for k := 0; k < int(st.N); k++ {
					(&Counter{name: c05RealName(fmt.Sprintf("Kf%d", k)), file: b}).Add(int64(k) + 1)
				}
				if m := b.current.Raw(); m != nil {
					m.close()
				}
			}()
			w.h.Install()
			c05Pause = false
		case "rmfile":
			removed = c05CountName(w.now)
			os.Remove(filepath.Join(w.dir, "local", removed))
		case "rmdir":
			removed = "*"
			os.RemoveAll(filepath.Join(w.dir, "local"))
		}
		after := w.snapshot()
		// persisted amounts: the counter of this step may only grow; every other
		// (file, counter) pair that could be read before must read the same now
		var sumB, sumA uint64
		others := false
		for k, v := range before.vals {
			file, name, _ := strings.Cut(k, "|")
			if removed == "*" || file == removed {
				continue
			}
			v2, ok := after.vals[k]
			if st.Op == "add" && name == st.Ctr {
				if !ok || v2 < v {
					others = true // the counter's own persisted amount went down
				}
				continue
			}
			if !ok || v2 != v {
				others = true
				rec["lost"] = fmt.Sprintf("%s: %d -> %d (present=%v)", k, v, v2, ok)
			}
		}
		for k, v := range before.vals {
			if _, name, _ := strings.Cut(k, "|"); name == st.Ctr {
				sumB += v
			}
		}
		for k, v := range after.vals {
			if _, name, _ := strings.Cut(k, "|"); name == st.Ctr {
				sumA += v
			}
		}
		filesChanged := false
		for k, h := range before.sha {
			if removed == "*" || k == removed {
				continue
			}
			if after.sha[k] != h {
				filesChanged = true
			}
		}
		for k := range after.sha {
			if _, ok := before.sha[k]; !ok {
				filesChanged = true
			}
		}
		rec["ret"], rec["steps"], rec["where"], rec["text"] = ret, n, where, text
		rec["dbl"] = w.badUnmap > 0
		rec["fired"] = len(w.h.Fired) - nf
		rec["others"], rec["files"] = others, filesChanged
		rec["parked"], rec["cur"], rec["today"] = w.f.err != nil, w.f.current.Raw() != nil, w.curIsToday()
		if c != nil {
			ea := counterStateBits(c.state.bits.Raw()).extra()
			rec["pe"], rec["dE"], rec["dP"] = pe, int64(ea)-int64(pe), int64(sumA)-int64(sumB)
			if st.Op == "read" {
				rec["pv"] = -1
				if m := w.f.current.Raw(); m != nil && m.f != nil {
					if v, ok := after.vals[filepath.Base(m.f.Name())+"|"+st.Ctr]; ok {
						rec["pv"] = v
					}
				}
			}
		}
		if ret != "ok" {
			dead = true // a hung call may hold file.mu; a panicking one left unknown state
		}
		steps = append(steps, rec)
	}
	out := rt.M{"kind": "case", "id": id, "scn": scn.Name, "steps": steps, "fired": w.h.Fired, "ncalls": w.h.NCall}
	if record {
		out["kind"] = "recording"
		out["calls"] = w.h.Calls
	}
	rt.Out(out)
}

func TestVerifC05Faults(t *testing.T) {
	defer rt.Flush()
	var in struct {
		Scenarios []c05Scn    `json:"scenarios"`
		Plans     []c05h.Plan `json:"plans"`
		Budget    int         `json:"budget"`
	}
	if err := rt.In(&in); err != nil {
		t.Skip(err)
	}
	if in.Budget == 0 {
		in.Budget = 200000
	}
	byName := map[string]*c05Scn{}
	for i := range in.Scenarios {
		byName[in.Scenarios[i].Name] = &in.Scenarios[i]
	}
	if len(in.Plans) == 0 {
		for i := range in.Scenarios {
			c05RunFaultCase(t, &in.Scenarios[i], nil, in.Budget, true)
		}
		return
	}
	for i := range in.Plans {
		scn := byName[in.Plans[i].Scn]
		if scn == nil {
			t.Fatalf("unknown scenario %q", in.Plans[i].Scn)
		}
		c05RunFaultCase(t, scn, &in.Plans[i], in.Budget, false)
	}
}

// ------------------------------------------------------- corrupt files at rest

// One case of Corrupt.tla: the damage classes of the file and the operation.
type c05CCase struct {
	ID    int    `json:"id"`
	Hdr   string `json:"hdr"`
	Trunc string `json:"trunc"`
	Limit string `json:"limit"`
	HeadE string `json:"headE"`
	HeadN string `json:"headN"`
	NlenC string `json:"nlenC"`
	NextC string `json:"nextC"`
	NextE string `json:"nextE"`
	Vals  string `json:"vals"` // nz | zero: the values of records C and E
	Op    string `json:"op"`   // addE | addN | addM | read (counter.Read of E: parses the whole file) | upload (the bytes are handed to the uploader harness)
	Rand  int64  `json:"rand"` // != 0: random damage instead of the classes
}

// The undamaged file: records E and C share a bucket (chain head -> C -> E),
// long-named fillers use up the first page, V lives alone in its bucket on
// the second page.  N is a new name whose bucket is empty, M a new name that
// collides with E and C.
type c05Base struct {
	data                []byte
	hdrLen              uint32
	nameE, nameC, nameV string
	nameN, nameM        string
	offE, offC, offV    uint32
	bE, bN, bV          uint32
	limit               uint32
	emptySlots          uint32            // offset inside the hash table, 32-aligned, 64 bytes of zero slots
	names               map[string]string // real name -> short
}

var c05base *c05Base

func c05MakeBase(t *testing.T) *c05Base {
	if c05base != nil {
		return c05base
	}
	b := &c05Base{names: map[string]string{}}
	meta := c05Meta(c05T1)
	b.hdrLen = rt.V1HeaderLen(meta)
	b.nameE = "e"
	b.bE = rt.V1Hash(b.nameE)
	find := func(prefix string, ok func(h uint32) bool) string {
		for i := 0; ; i++ {
			n := fmt.Sprintf("%s%d", prefix, i)
			if ok(rt.V1Hash(n)) {
				return n
			}
		}
	}
	b.nameC = find("c", func(h uint32) bool { return h == b.bE })
	b.nameM = find("m", func(h uint32) bool { return h == b.bE })
	b.nameV = find("v", func(h uint32) bool { return h != b.bE && h >= 100 && h < 400 })
	b.bV = rt.V1Hash(b.nameV)
	used := map[uint32]bool{b.bE: true, b.bV: true}
	es := []rt.V1Entry{{Name: b.nameE, Value: 5}, {Name: b.nameC, Value: 6}}
	lim := uint32(0)
	for _, e := range es {
		_, lim = rt.V1Place(b.hdrLen, lim, len(e.Name))
	}
	for i := 0; ; i++ {
		_, end := rt.V1Place(b.hdrLen, lim, c05LongLen)
		if end > rt.V1Page {
			break
		}
		n := ""
		for j := 0; ; j++ {
			n = c05RealName(fmt.Sprintf("Lfill%02d.%d", i, j))
			// keep the fillers' buckets away from the slots the damage classes use
			if h := rt.V1Hash(n); !used[h] && h >= 8 && (h < 440 || h > 470) {
				used[h] = true
				break
			}
		}
		es = append(es, rt.V1Entry{Name: n, Value: uint64(10 + i)})
		b.names[n] = fmt.Sprintf("Lfill%02d", i)
		lim = end
	}
	// V: a long name too, so that it cannot fit the rest of page one
	b.nameV = ""
	for j := 0; ; j++ {
		n := c05RealName(fmt.Sprintf("Lv.%d", j))
		// (the slot of V's bucket is the link field of a record written 12 bytes below it)
		if h := rt.V1Hash(n); !used[h] && h >= 100 && h < 400 && (b.hdrLen+4+4*h-12)%32 == 0 {
			b.nameV, b.bV = n, h
			used[h] = true
			break
		}
	}
	b.names[b.nameV] = "v"
	es = append(es, rt.V1Entry{Name: b.nameV, Value: 7})
	b.nameN = find("n", func(h uint32) bool { return !used[h] && h >= 8 && (h < 440 || h > 470) })
	b.bN = rt.V1Hash(b.nameN)
	data, err := rt.WriteV1(meta, es)
	if err != nil {
		t.Fatal(err)
	}
	b.data = data
	dec := rt.DecodeV1(data)
	if !dec.WellFormed() || len(data) != 2*rt.V1Page {
		t.Fatalf("c05 base file: size %d problems %v", len(data), dec.Problems)
	}
	for _, r := range dec.Records {
		switch r.Name {
		case b.nameE:
			b.offE = r.Off
		case b.nameC:
			b.offC = r.Off
		case b.nameV:
			b.offV = r.Off
		}
	}
	if b.offV < rt.V1Page || b.offC > rt.V1Page || b.offE != (b.hdrLen+4+4*rt.V1NumHash+31)&^31 {
		t.Fatalf("c05 base file layout: E %#x C %#x V %#x", b.offE, b.offC, b.offV)
	}
	b.limit = dec.Limit
	b.emptySlots = (b.hdrLen + 4 + 4*448 + 31) &^ 31 // buckets 440..470 are unused
	c05base = b
	return b
}

func put32(data []byte, off uint32, v uint32) {
	if int(off)+4 <= len(data) {
		binary.LittleEndian.PutUint32(data[off:], v)
	}
}

// c05Concretize builds the bytes of one corrupt file.
func c05Concretize(b *c05Base, c *c05CCase) []byte {
	data := append([]byte(nil), b.data...)
	size := uint32(len(data))
	tab := b.hdrLen + 4
	badOff := func(class string) (uint32, bool) {
		switch class {
		case "hdr":
			return 64, true
		case "table":
			return b.emptySlots, true
		case "unaligned":
			return b.offV + 4, true
		case "gelimit":
			return ((b.limit + 31) &^ 31) + 64, true
		case "gefile":
			return size + 32, true
		}
		return 0, false
	}
	switch c.Limit {
	case "zero":
		put32(data, b.hdrLen, 0)
	case "hdr":
		put32(data, b.hdrLen, 64)
	case "table":
		put32(data, b.hdrLen, tab+4*b.bV-12) // a record written there has its link field on V's bucket head
	case "low":
		put32(data, b.hdrLen, b.offC)
	case "unaligned":
		put32(data, b.hdrLen, b.limit+4)
	case "beyondfile":
		put32(data, b.hdrLen, size+rt.V1Page)
	case "near32":
		put32(data, b.hdrLen, 0xfffffff0)
	case "wrappage":
		put32(data, b.hdrLen, 0xffffc000)
	}
	switch c.HeadE {
	case "ok":
	case "zero":
		put32(data, tab+4*b.bE, 0)
	default:
		off, _ := badOff(c.HeadE)
		put32(data, tab+4*b.bE, off)
	}
	switch c.HeadN {
	case "zero":
	case "valid":
		put32(data, tab+4*b.bN, b.offV)
	default:
		off, _ := badOff(c.HeadN)
		put32(data, tab+4*b.bN, off)
	}
	switch c.NlenC {
	case "zero":
		put32(data, b.offC+8, 0xff000000)
	case "pastpage":
		put32(data, b.offC+8, 0xff000000|rt.V1Page)
	case "pastend":
		put32(data, b.offC+8, 0xff000000|(size-b.offC-8)) // the name ends 8 bytes beyond the file
	case "pastfile":
		put32(data, b.offC+8, 0xffffffff)
	}
	next := func(at uint32, class string) {
		switch class {
		case "zero":
			put32(data, at+12, 0)
		case "self":
			put32(data, at+12, at)
		case "other":
			put32(data, at+12, b.offV)
		case "cycle2":
			put32(data, at+12, b.offC)
		case "range":
			put32(data, at+12, size+64)
		case "ffff":
			put32(data, at+12, 0xffffffff)
		}
	}
	next(b.offC, c.NextC)
	next(b.offE, c.NextE)
	if c.Vals == "zero" {
		binary.LittleEndian.PutUint64(data[b.offC:], 0)
		binary.LittleEndian.PutUint64(data[b.offE:], 0)
	}
	if c.Vals == "max" {
		binary.LittleEndian.PutUint64(data[b.offC:], ^uint64(0))
		binary.LittleEndian.PutUint64(data[b.offE:], ^uint64(0))
	}
	switch c.Hdr {
	case "len0":
		put32(data, 28, 0)
	case "lensmall":
		put32(data, 28, 5)
	case "lenplus":
		put32(data, 28, b.hdrLen+32)
	case "lenpage":
		put32(data, 28, rt.V1Page+32)
	case "lenhuge":
		put32(data, 28, 0x7fffffe0)
	case "prefix":
		data[2] ^= 0x20
	case "meta":
		data[40] ^= 0x01
	}
	switch c.Trunc {
	case "zero":
		data = data[:0]
	case "pageminus1":
		data = data[:rt.V1Page-1]
	case "onepage":
		data = data[:rt.V1Page]
	case "pageplus":
		data = data[:rt.V1Page+100]
	}
	return data
}

// c05RandomDamage overwrites 1..3 words of the undamaged file (allocation
// limit, bucket heads, name lengths, links) with values from pools of
// interesting offsets.  Pointers are 32-aligned or out of range, so that the
// independent decoder and the library agree on which records exist.
func c05RandomDamage(b *c05Base, seed int64) ([]byte, []string) {
	rng := mrand.New(mrand.NewSource(seed))
	data := append([]byte(nil), b.data...)
	size := uint32(len(data))
	tab := b.hdrLen + 4
	first := (tab + 4*rt.V1NumHash + 31) &^ 31
	alignedIn := func() uint32 { return first + 32*uint32(rng.Intn(int((size-first)/32))) }
	ptrs := func() uint32 {
		pool := []uint32{0, b.offE, b.offC, b.offV, b.offC + 32, 64, b.emptySlots, size + 32, 0xffffffff, first, (b.limit + 63) &^ 31, alignedIn(), alignedIn()}
		return pool[rng.Intn(len(pool))]
	}
	limits := func() uint32 {
		pool := []uint32{0, 64, tab + 4*b.bV - 12, tab + 4*b.bE - 12, b.offC, b.offE + 32, b.limit, b.limit + 4, b.limit + 32, size, size + rt.V1Page, 0xfffffff0, alignedIn(), alignedIn()}
		return pool[rng.Intn(len(pool))]
	}
	nlens := []uint32{0, 1, 2, 5, 16, 0xffffff} // no name may run into another record
	recs := map[string]uint32{"E": b.offE, "C": b.offC, "V": b.offV}
	rn := []string{"E", "C", "V"}
	var desc []string
	if rng.Intn(3) == 0 {
		for _, r := range rn {
			if rng.Intn(3) > 0 {
				binary.LittleEndian.PutUint64(data[recs[r]:], 0)
				desc = append(desc, fmt.Sprintf("val[%s]=0", r))
			}
		}
	}
	for k := 1 + rng.Intn(3); k > 0; k-- {
		switch rng.Intn(8) {
		case 0, 1:
			v := limits()
			put32(data, b.hdrLen, v)
			desc = append(desc, fmt.Sprintf("limit=%#x", v))
		case 2:
			v := ptrs()
			put32(data, tab+4*b.bE, v)
			desc = append(desc, fmt.Sprintf("head[bE]=%#x", v))
		case 3:
			v := ptrs()
			put32(data, tab+4*b.bN, v)
			desc = append(desc, fmt.Sprintf("head[bN]=%#x", v))
		case 4:
			v := ptrs()
			h := uint32(rng.Intn(rt.V1NumHash))
			if rng.Intn(2) == 0 {
				h = b.bV
			}
			put32(data, tab+4*h, v)
			desc = append(desc, fmt.Sprintf("head[%d]=%#x", h, v))
		case 5, 6:
			r := rn[rng.Intn(3)]
			v := ptrs()
			put32(data, recs[r]+12, v)
			desc = append(desc, fmt.Sprintf("next[%s]=%#x", r, v))
		case 7:
			r := rn[rng.Intn(3)]
			v := nlens[rng.Intn(len(nlens))]
			if rng.Intn(6) == 0 {
				v = size - recs[r] - 16 + uint32(rng.Intn(3)) - 1 // ends one byte before / at / one byte past the end of the file
			}
			put32(data, recs[r]+8, 0xff000000|v)
			desc = append(desc, fmt.Sprintf("nlen[%s]=%#x", r, v))
		}
	}
	return data, desc
}

// c05LimitClass abstracts the allocation limit of a (damaged) file into the
// vocabulary of Corrupt.tla.
func c05LimitClass(b *c05Base, data []byte) string {
	if len(data) < int(b.hdrLen)+4 {
		return "-"
	}
	lim := binary.LittleEndian.Uint32(data[b.hdrLen:])
	first := b.hdrLen + 4 + 4*rt.V1NumHash
	var maxEnd uint32
	for _, r := range rt.DecodeV1(data).Records {
		if e := r.Off + (uint32(16+len(r.Name))+31)&^31; e > maxEnd {
			maxEnd = e
		}
	}
	switch {
	case lim == 0 && maxEnd == 0:
		return "ok"
	case lim == 0:
		return "zero"
	case lim < b.hdrLen+4:
		return "hdr"
	case lim < first:
		return "table"
	case lim >= 0xffffffe0:
		return "near32"
	case lim > 0xffffc000-4200:
		return "wrappage"
	case int64(lim) > int64(len(data)):
		return "beyondfile"
	case lim < maxEnd:
		return "low"
	case lim%32 != 0:
		return "unaligned"
	}
	return "ok"
}

// c05ChainClass walks the hash chain of name the way the layout documents
// it (independent of the library): found | absent | invalid | cycle.
func c05ChainClass(b *c05Base, data []byte, name string) string {
	size := int64(len(data))
	if size < int64(b.hdrLen)+4+4*rt.V1NumHash {
		return "-"
	}
	off := binary.LittleEndian.Uint32(data[b.hdrLen+4+4*rt.V1Hash(name):])
	seen := map[uint32]bool{}
	for off != 0 {
		if seen[off] {
			return "cycle"
		}
		seen[off] = true
		if off < b.hdrLen+4 || int64(off)+16 > size {
			return "invalid"
		}
		n := binary.LittleEndian.Uint32(data[off+8:]) & 0xffffff
		if n == 0 || int64(off)+16+int64(n) > size {
			return "invalid"
		}
		if string(data[off+16:off+16+n]) == name {
			return "found"
		}
		off = binary.LittleEndian.Uint32(data[off+12:])
	}
	return "absent"
}

func c05Reachable(b *c05Base, data []byte) map[string]uint64 {
	m := map[string]uint64{}
	for _, r := range rt.DecodeV1(data).Records {
		n := r.Name
		if s, ok := b.names[n]; ok {
			n = s
		} else if len(n) > 40 {
			n = fmt.Sprintf("long(%d):%s", len(n), c05Sha([]byte(n)))
		}
		if _, dup := m[n]; !dup {
			m[n] = r.Value
		}
	}
	return m
}

func c05RunCorrupt(t *testing.T, b *c05Base, c *c05CCase, budget int, skipCycles bool) (status string) {
	w := &c05World{t: t, dir: filepath.Join(t.TempDir(), "tele"), f: new(file), ctrs: map[string]*Counter{}, short: map[string]string{}, now: c05T1}
	c05w = w
	telemetry.Default = telemetry.NewDir(w.dir)
	CounterTime = func() time.Time { return w.now }
	memmap, munmap = c05Memmap, c05Munmap
	w.f.buildInfo = c05BuildInfo()
	local := telemetry.Default.LocalDir()
	os.MkdirAll(local, 0777)
	os.WriteFile(filepath.Join(local, "weekends"), []byte("2\n"), 0666)
	os.WriteFile(filepath.Join(w.dir, "mode"), []byte("local"), 0666)
	path := filepath.Join(local, c05CountName(c05T1))
	var orig []byte
	var desc []string
	if c.Rand != 0 {
		orig, desc = c05RandomDamage(b, c.Rand)
	} else {
		orig = c05Concretize(b, c)
	}
	if err := os.WriteFile(path, orig, 0666); err != nil {
		t.Fatal(err)
	}
	defer func() {
		c05w = nil
		if m := w.f.current.Raw(); m != nil {
			m.close()
		}
		w.release()
		memmap, munmap = mmap.Mmap, mmap.Munmap
		os.RemoveAll(filepath.Dir(w.dir))
	}()
	name, short := "", ""
	switch c.Op {
	case "addE":
		name, short = b.nameE, "e"
	case "addN":
		name, short = b.nameN, b.nameN
	case "addM":
		name, short = b.nameM, b.nameM
	case "read":
		name, short = b.nameE, "-"
	case "upload":
		// the uploader lives in another package: hand the bytes over
		rt.Out(rt.M{"kind": "bytes", "id": c.ID, "name": c05CountName(c05T1), "data": base64.StdEncoding.EncodeToString(orig),
			"limClass": c05LimitClass(b, orig), "damage": desc, "chain": c05ChainClass(b, orig, b.nameE)})
		return "ok"
	}
	chain := c05ChainClass(b, orig, name)
	if skipCycles && chain == "cycle" {
		rt.Out(rt.M{"kind": "skipped", "id": c.ID})
		return "skipped"
	}
	before := c05Reachable(b, orig)
	out := rt.M{"kind": "case", "id": c.ID, "open": "", "ret": "ok", "steps": 0, "where": "", "text": "", "mode": "", "dP": 0, "dE": 0,
		"others": false, "untouched": false, "dbl": false, "lost": "", "size": len(orig), "limClass": c05LimitClass(b, orig), "damage": desc, "chain": "-"}
	ret, n, where, text := c05h.Run("open", budget, func() { w.f.rotate1() })
	out["steps"] = n
	if ret != "ok" {
		out["ret"], out["where"], out["text"], out["stage"] = ret, where, text, "open"
		rt.Out(out)
		return ret
	}
	switch {
	case w.f.err != nil && w.f.current.Raw() == nil:
		out["open"] = "parks"
	case w.f.err == nil && w.f.current.Raw() != nil:
		out["open"] = "opens"
	default:
		out["open"] = "inconsistent"
	}
	out["chain"] = chain
	ctr := &Counter{name: name, file: w.f}
	const amount = 3
	if c.Op == "read" {
		var rv uint64
		var rerr error
		ret, n, where, text = c05h.Run(c.Op, budget, func() { rv, rerr = Read(ctr) })
		out["rv"], out["rerr"] = rv, rerr != nil
	} else {
		ret, n, where, text = c05h.Run(c.Op, budget, func() { ctr.Add(amount) })
	}
	out["steps"] = n
	if ret != "ok" {
		out["ret"], out["where"], out["text"], out["stage"] = ret, where, text, "add"
	}
	after, err := os.ReadFile(path)
	if err != nil {
		out["lost"] = "count file unreadable: " + err.Error()
		out["others"] = true
		rt.Out(out)
		return ret
	}
	out["untouched"] = bytes.Equal(after, orig)
	out["dbl"] = w.badUnmap > 0
	reach := c05Reachable(b, after)
	var lost []string
	for k, v := range before {
		if k == short {
			continue
		}
		if v2, ok := reach[k]; !ok || v2 != v {
			lost = append(lost, fmt.Sprintf("%s: %d -> %d (reachable=%v)", k, v, v2, ok))
		}
	}
	sort.Strings(lost)
	if len(lost) > 0 {
		out["others"] = true
		out["lost"] = strings.Join(lost, "; ")
	}
	dP := int64(reach[short]) - int64(before[short])
	dE := int64(counterStateBits(ctr.state.bits.Raw()).extra())
	out["dP"], out["dE"] = dP, dE
	// the counter's own readable value went down (unsigned; the largest of the records of that name, since
	// damaged links can make a record reachable twice or shadow it by a new one)
	maxOf := func(data []byte) (m uint64) {
		for _, r := range rt.DecodeV1(data).Records {
			if r.Name == name && r.Value > m {
				m = r.Value
			}
		}
		return m
	}
	out["dec"] = c.Op != "read" && maxOf(after) < maxOf(orig)
	switch {
	case c.Op == "read":
		out["mode"] = "-"
	case dP == amount && dE == 0:
		out["mode"] = "persist"
	case dP == 0 && dE == amount:
		out["mode"] = "memory"
	case dP == 0 && dE == 0:
		out["mode"] = "dropped"
	default:
		out["mode"] = "other"
	}
	rt.Out(out)
	return ret
}

func TestVerifC05Corrupt(t *testing.T) {
	defer rt.Flush()
	var in struct {
		Cases    []c05CCase `json:"cases"`
		Budget   int        `json:"budget"`
		MaxHangs int        `json:"maxHangs"` // a call that never returns costs a whole step budget: stop after so many
	}
	if err := rt.In(&in); err != nil {
		t.Skip(err)
	}
	if in.Budget == 0 {
		in.Budget = 200000
	}
	b := c05MakeBase(t)
	rt.Out(rt.M{"kind": "base", "hdrLen": b.hdrLen, "offE": b.offE, "offC": b.offC, "offV": b.offV, "bE": b.bE, "bN": b.bN, "bV": b.bV,
		"limit": b.limit, "size": len(b.data), "nameC": b.nameC, "nameN": b.nameN, "nameM": b.nameM})
	if in.MaxHangs == 0 {
		in.MaxHangs = 100
	}
	hangs := 0
	for i := range in.Cases {
		if hangs >= 5*in.MaxHangs {
			rt.Out(rt.M{"kind": "skipped", "id": in.Cases[i].ID})
			continue
		}
		// once the cap is reached, files whose chain is cyclic (independent walk) are
		// not run any more; everything else still is
		if c05RunCorrupt(t, b, &in.Cases[i], in.Budget, hangs >= in.MaxHangs) == "hang" {
			hangs++
		}
	}
}
