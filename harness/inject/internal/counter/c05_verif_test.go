//go:build verif

package counter

// Harness for property C05 (Faults.tla / FaultsTrace.tla / Corrupt.tla):
//
//   - TestVerifC05Faults records the sequence of file-system / mmap calls the
//     CURRENT tree makes in each API scenario (open, first Add, growth,
//     rotation, Read, files deleted while in use) and replays fault plans
//     (which call fails with which errno) against the instrumented package;
//   - TestVerifC05Corrupt writes corrupt counter files at rest (independent
//     writer rt.WriteV1 + targeted overwrites) at the path the library opens
//     and runs open + Add on an existing and on a new counter name.
//
// Every API call runs as a task of the verifrt scheduler with all yields
// transparent and COUNTED: a call that needs more than the step budget is
// suspended for good and reported as a hang (nothing keeps spinning).  Panics
// and memory faults (debug.SetPanicOnFault) are recovered by the scheduler
// and reported as records; the harness itself never fails for them.

import (
	"crypto/sha256"
	"encoding/binary"
	"encoding/hex"
	"fmt"
	mrand "math/rand"
	"os"
	"path/filepath"
	"runtime"
	"runtime/debug"
	"sort"
	"strings"
	"syscall"
	"testing"
	"time"

	"golang.org/x/telemetry/internal/mmap"
	"golang.org/x/telemetry/internal/telemetry"
	c05h "golang.org/x/telemetry/internal/verifh/c05"
	rt "golang.org/x/telemetry/internal/verifrt"
)

// ------------------------------------------------------------------ input

type c05Step struct {
	Op  string `json:"op"` // open | rotate | add | read | week2 | rmfile | rmdir
	Ctr string `json:"ctr"`
	N   int64  `json:"n"`
}

type c05Scn struct {
	Name  string    `json:"name"`
	Setup string    `json:"setup"` // fresh | existing | full
	Mode  string    `json:"mode"`  // contents of the mode file ("" = no mode file)
	Steps []c05Step `json:"steps"`
}

// ------------------------------------------------------------------ world

type c05Region struct {
	data   *mmap.Data
	raw    []byte
	path   string
	closed bool
}

type c05World struct {
	t       *testing.T
	dir     string // the telemetry directory
	f       *file
	ctrs    map[string]*Counter
	short   map[string]string // real counter name -> short name
	regions []*c05Region
	now     time.Time
	h       *c05h.Hooks // fault plan
	// double unmap detection
	badUnmap int
}

var c05w *c05World

const c05LongLen = 3000

func c05RealName(short string) string {
	if strings.HasPrefix(short, "L") { // long-named counters
		return short + strings.Repeat("_", c05LongLen-len(short))
	}
	return short
}

func c05Fault(kind, path string) error {
	if w := c05w; w != nil && w.h != nil {
		return w.h.Fault(kind, path)
	}
	return nil
}

func c05Memmap(f *os.File) (*mmap.Data, error) {
	rt.Yield("mmap", f.Name())
	if err := c05Fault("mmap", f.Name()); err != nil {
		return nil, err
	}
	d, err := mmap.Mmap(f)
	if err != nil || c05w == nil {
		return d, err
	}
	c05w.regions = append(c05w.regions, &c05Region{data: d, raw: d.Data, path: f.Name()})
	return d, nil
}

func c05Munmap(d *mmap.Data) error {
	w := c05w
	if w == nil {
		return mmap.Munmap(d)
	}
	for _, r := range w.regions {
		if r.data == d {
			if r.closed {
				w.badUnmap++
				return nil
			}
			if err := c05Fault("munmap", r.path); err != nil {
				return err // the mapping stays valid
			}
			r.closed = true
			// keep the range reserved but inaccessible: a use after close is a
			// deterministic fault instead of a write into a recycled mapping
			if len(r.raw) > 0 {
				syscall.Mprotect(r.raw[:cap(r.raw)], syscall.PROT_NONE)
			}
			return nil
		}
	}
	return mmap.Munmap(d)
}

func (w *c05World) release() {
	for _, r := range w.regions {
		if len(r.raw) == 0 {
			continue
		}
		if r.closed {
			syscall.Mprotect(r.raw[:cap(r.raw)], syscall.PROT_READ|syscall.PROT_WRITE)
		}
		mmap.Munmap(r.data)
	}
	w.regions = nil
}

var c05T1 = time.Date(2024, 3, 4, 12, 0, 0, 0, time.UTC) // a Monday; with weekends "2" the span ends on Tuesday

func c05BuildInfo() *debug.BuildInfo {
	return &debug.BuildInfo{GoVersion: "go1.23.0", Path: "example.com/verif/c05", Main: debug.Module{Path: "example.com/verif", Version: "v1.0.0"}}
}

func c05CountName(begin time.Time) string {
	return fmt.Sprintf("c05@v1.0.0-go1.23.0-%s-%s-%s.v1.count", runtime.GOOS, runtime.GOARCH, begin.Format("2006-01-02"))
}

func c05Meta(begin time.Time) string {
	b := time.Date(begin.Year(), begin.Month(), begin.Day(), 0, 0, 0, 0, time.UTC)
	return rt.V1Meta(b.Format(time.RFC3339), b.AddDate(0, 0, 1).Format(time.RFC3339), "example.com/verif/c05", "v1.0.0", "go1.23.0", runtime.GOOS, runtime.GOARCH)
}

// c05Entries returns the records of the pre-existing file of a set-up.
func c05Entries(setup string) []rt.V1Entry {
	es := []rt.V1Entry{{Name: "o1", Value: 5}, {Name: "o2", Value: 7}}
	if setup == "full" {
		// fill the first page so that one more long-named record needs a second page
		hdr := rt.V1HeaderLen(c05Meta(c05T1))
		lim := uint32(0)
		for _, e := range es {
			_, lim = rt.V1Place(hdr, lim, len(e.Name))
		}
		for i := 0; ; i++ {
			_, end := rt.V1Place(hdr, lim, c05LongLen)
			_, end2 := rt.V1Place(hdr, end, c05LongLen)
			if end2 > rt.V1Page {
				break
			}
			es = append(es, rt.V1Entry{Name: c05RealName(fmt.Sprintf("Lfill%02d", i)), Value: uint64(10 + i)})
			lim = end
		}
		// exactly one more long record fits; take it, so the next one grows the file
		es = append(es, rt.V1Entry{Name: c05RealName("Lfill99"), Value: 9})
	}
	return es
}

func c05NewWorld(t *testing.T, setup, mode string) *c05World {
	w := &c05World{t: t, dir: filepath.Join(t.TempDir(), "tele"), f: new(file), ctrs: map[string]*Counter{}, short: map[string]string{}, now: c05T1}
	telemetry.Default = telemetry.NewDir(w.dir)
	CounterTime = func() time.Time { return w.now }
	memmap, munmap = c05Memmap, c05Munmap
	w.f.buildInfo = c05BuildInfo()
	local := telemetry.Default.LocalDir()
	if setup != "fresh" {
		os.MkdirAll(local, 0777)
		os.WriteFile(filepath.Join(local, "weekends"), []byte("2\n"), 0666)
		data, err := rt.WriteV1(c05Meta(c05T1), c05Entries(setup))
		if err != nil {
			t.Fatal(err)
		}
		if err := os.WriteFile(filepath.Join(local, c05CountName(c05T1)), data, 0666); err != nil {
			t.Fatal(err)
		}
	}
	if mode != "" {
		os.MkdirAll(w.dir, 0777)
		os.WriteFile(filepath.Join(w.dir, "mode"), []byte(mode), 0666)
	}
	return w
}

func (w *c05World) ctr(short string) *Counter {
	if c, ok := w.ctrs[short]; ok {
		return c
	}
	c := &Counter{name: c05RealName(short), file: w.f}
	w.ctrs[short] = c
	w.short[c.name] = short
	return c
}

func (w *c05World) shortName(real string) string {
	if s, ok := w.short[real]; ok {
		return s
	}
	if len(real) > 12 {
		return strings.TrimRight(real, "_")
	}
	return real
}

type c05Snap struct {
	vals map[string]uint64 // "file|name" -> value
	sha  map[string]string
}

func c05Sha(b []byte) string { h := sha256.Sum256(b); return hex.EncodeToString(h[:8]) }

func (w *c05World) snapshot() c05Snap {
	s := c05Snap{vals: map[string]uint64{}, sha: map[string]string{}}
	ents, _ := os.ReadDir(filepath.Join(w.dir, "local"))
	for _, e := range ents {
		if !strings.HasSuffix(e.Name(), ".v1.count") {
			continue
		}
		data, err := os.ReadFile(filepath.Join(w.dir, "local", e.Name()))
		if err != nil {
			continue
		}
		s.sha[e.Name()] = c05Sha(data)
		for _, r := range rt.DecodeV1(data).Records {
			s.vals[e.Name()+"|"+w.shortName(r.Name)] = r.Value
		}
	}
	return s
}

// ------------------------------------------------------------ fault plans

func (w *c05World) curIsToday() bool {
	m := w.f.current.Raw()
	if m == nil || m.f == nil {
		return false
	}
	return filepath.Base(m.f.Name()) == c05CountName(w.now)
}

func c05RunFaultCase(t *testing.T, scn *c05Scn, plan *c05h.Plan, budget int, record bool) {
	w := c05NewWorld(t, scn.Setup, scn.Mode)
	c05w = w
	w.h = c05h.NewHooks(w.dir, plan)
	w.h.Install()
	mrand.Seed(20240304) // the week-end day a recreated weekends file gets
	defer func() {
		c05h.Uninstall()
		c05w = nil
		if m := w.f.current.Raw(); m != nil {
			m.close()
		}
		w.release()
		memmap, munmap = mmap.Mmap, mmap.Munmap
		os.RemoveAll(filepath.Dir(w.dir))
	}()
	id := 0
	if plan != nil {
		id = plan.ID
	}
	var steps []rt.M
	dead := false
	for i, st := range scn.Steps {
		w.h.Step, w.h.Op = i+1, st.Op
		rec := rt.M{"op": st.Op, "ctr": st.Ctr, "n": st.N, "ret": "ok", "fired": 0, "dP": 0, "dE": 0, "pe": 0, "others": false, "files": false,
			"parked": w.f.err != nil, "cur": w.f.current.Raw() != nil, "today": w.curIsToday(), "steps": 0, "where": "", "text": "", "rv": -1, "rerr": false, "pv": -1}
		if dead {
			rec["ret"] = "skipped"
			steps = append(steps, rec)
			continue
		}
		nf := len(w.h.Fired)
		before := w.snapshot()
		var c *Counter
		var pe uint64
		if st.Ctr != "" {
			c = w.ctr(st.Ctr)
			pe = counterStateBits(c.state.bits.Raw()).extra()
		}
		removed := ""
		ret, n, where, text := "ok", 0, "", ""
		switch st.Op {
		case "open", "rotate":
			ret, n, where, text = c05h.Run(st.Op, budget, func() { w.f.rotate1() })
		case "week2":
			w.now = c05T1.AddDate(0, 0, 7)
		case "add":
			ret, n, where, text = c05h.Run("add", budget, func() { c.Add(st.N) })
		case "read":
			var v uint64
			var err error
			ret, n, where, text = c05h.Run("read", budget, func() { v, err = Read(c) })
			if ret == "ok" {
				if err != nil {
					rec["rerr"] = true
				} else {
					rec["rv"] = v
				}
			}
		case "rmfile":
			removed = c05CountName(w.now)
			os.Remove(filepath.Join(w.dir, "local", removed))
		case "rmdir":
			removed = "*"
			os.RemoveAll(filepath.Join(w.dir, "local"))
		}
		after := w.snapshot()
		// persisted amounts: the counter of this step may only grow; every other
		// (file, counter) pair that could be read before must read the same now
		var sumB, sumA uint64
		others := false
		for k, v := range before.vals {
			file, name, _ := strings.Cut(k, "|")
			if removed == "*" || file == removed {
				continue
			}
			v2, ok := after.vals[k]
			if st.Op == "add" && name == st.Ctr {
				if !ok || v2 < v {
					others = true // the counter's own persisted amount went down
				}
				continue
			}
			if !ok || v2 != v {
				others = true
				rec["lost"] = fmt.Sprintf("%s: %d -> %d (present=%v)", k, v, v2, ok)
			}
		}
		for k, v := range before.vals {
			if _, name, _ := strings.Cut(k, "|"); name == st.Ctr {
				sumB += v
			}
		}
		for k, v := range after.vals {
			if _, name, _ := strings.Cut(k, "|"); name == st.Ctr {
				sumA += v
			}
		}
		filesChanged := false
		for k, h := range before.sha {
			if removed == "*" || k == removed {
				continue
			}
			if after.sha[k] != h {
				filesChanged = true
			}
		}
		for k := range after.sha {
			if _, ok := before.sha[k]; !ok {
				filesChanged = true
			}
		}
		rec["ret"], rec["steps"], rec["where"], rec["text"] = ret, n, where, text
		rec["fired"] = len(w.h.Fired) - nf
		rec["others"], rec["files"] = others, filesChanged
		rec["parked"], rec["cur"], rec["today"] = w.f.err != nil, w.f.current.Raw() != nil, w.curIsToday()
		if c != nil {
			ea := counterStateBits(c.state.bits.Raw()).extra()
			rec["pe"], rec["dE"], rec["dP"] = pe, int64(ea)-int64(pe), int64(sumA)-int64(sumB)
			if st.Op == "read" {
				rec["pv"] = -1
				if m := w.f.current.Raw(); m != nil && m.f != nil {
					if v, ok := after.vals[filepath.Base(m.f.Name())+"|"+st.Ctr]; ok {
						rec["pv"] = v
					}
				}
			}
		}
		if ret != "ok" {
			dead = true // a hung call may hold file.mu; a panicking one left unknown state
		}
		steps = append(steps, rec)
	}
	if w.badUnmap > 0 {
		steps[len(steps)-1]["doubleUnmap"] = w.badUnmap
	}
	out := rt.M{"kind": "case", "id": id, "scn": scn.Name, "steps": steps, "fired": w.h.Fired, "ncalls": w.h.NCall}
	if record {
		out["kind"] = "recording"
		out["calls"] = w.h.Calls
	}
	rt.Out(out)
}

func TestVerifC05Faults(t *testing.T) {
	defer rt.Flush()
	var in struct {
		Scenarios []c05Scn  `json:"scenarios"`
		Plans     []c05h.Plan `json:"plans"`
		Budget    int       `json:"budget"`
	}
	if err := rt.In(&in); err != nil {
		t.Skip(err)
	}
	if in.Budget == 0 {
		in.Budget = 200000
	}
	byName := map[string]*c05Scn{}
	for i := range in.Scenarios {
		byName[in.Scenarios[i].Name] = &in.Scenarios[i]
	}
	if len(in.Plans) == 0 {
		for i := range in.Scenarios {
			c05RunFaultCase(t, &in.Scenarios[i], nil, in.Budget, true)
		}
		return
	}
	for i := range in.Plans {
		scn := byName[in.Plans[i].Scn]
		if scn == nil {
			t.Fatalf("unknown scenario %q", in.Plans[i].Scn)
		}
		c05RunFaultCase(t, scn, &in.Plans[i], in.Budget, false)
	}
}

var _ = binary.LittleEndian
var _ = sort.Strings
