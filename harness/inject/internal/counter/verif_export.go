//go:build verif

package counter

// Exports for the verification harness packages under internal/verifh (this
// file exists only in the scratch copy /verif builds; it adds no behaviour).

import (
	"runtime/debug"
	"sync/atomic"
	"time"
)

// VFile is a private counter file: an independent `file` value, which is what
// the package's own tests use to get a fresh (or a second, "other process")
// view of a counter file.
type VFile struct{ F file }

func (v *VFile) New(name string) *Counter { return &Counter{name: name, file: &v.F} }
func (v *VFile) NewStack(name string, depth int) *StackCounter {
	return &StackCounter{name: name, depth: depth, file: &v.F}
}
func (v *VFile) Rotate1() time.Time { return v.F.rotate1() }

// Rotate is file.rotate: rotate1 plus arming the timer for the next rotation.
func (v *VFile) Rotate() { v.F.rotate() }
func (v *VFile) Err() error {
	v.F.mu.Lock()
	defer v.F.mu.Unlock()
	return v.F.err
}
func (v *VFile) SetBuildInfo(bi *debug.BuildInfo) { v.F.buildInfo = bi }
func (v *VFile) CurrentName() string {
	m := v.F.current.Load()
	if m == nil || m.f == nil {
		return ""
	}
	return m.f.Name()
}
func (v *VFile) HasCurrent() bool { return v.F.current.Load() != nil }
func (v *VFile) Close() {
	if m := v.F.current.Load(); m != nil {
		m.close()
	}
}
func (v *VFile) Lookup(name string) *atomic.Uint64 { return v.F.lookup(name).count }

func VCounterSpan() (time.Time, time.Time, error) { return counterSpan() }
func VWeekEnd() (time.Weekday, error)             { return weekEnd() }
func VHash(name string) uint32                    { return hash(name) }
func VPlace(hdrLen, limit uint32, name string) (uint32, uint32) {
	m := &mappedFile{hdrLen: hdrLen}
	return m.place(limit, name)
}
func VMappedHeader(meta string) ([]byte, error) { return mappedHeader(meta) }

// VState returns the raw state word and whether the counter currently has a
// non-nil cell pointer.
func (c *Counter) VState() (bits uint64, ptrSet bool) {
	return c.state.bits.Load(), c.ptr.count != nil
}
func (c *Counter) VExtra() uint64 { return c.state.load().extra() }

