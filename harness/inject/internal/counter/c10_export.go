//go:build verif

package counter

// Export for the C10 harness (internal/verifh/c10) only.

import (
	"os"

	"golang.org/x/telemetry/internal/mmap"
)

// C10HookMemmap arranges for fn to run once, immediately before the next
// time the package maps a counter file into memory (which it does when it
// opens a file, when it finds its mapping outdated and when it has just
// extended the file).  The returned function removes the hook and reports
// whether fn ran.
func C10HookMemmap(fn func()) (restore func() bool) {
	old := memmap
	fired := false
	memmap = func(f *os.File) (*mmap.Data, error) {
		if !fired {
			fired = true
			fn()
		}
		return old(f)
	}
	return func() bool { memmap = old; return fired }
}
