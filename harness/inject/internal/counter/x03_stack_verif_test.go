//go:build verif

package counter

// Conformance harness for CtrApi.tla (extension engine X03: the stack-counter
// layer and the file's registration list under first open / rotation).  It
// drives the real, instrumented internal/counter under the verifrt scheduler
// with exactly the operations visible that CtrApi.tla has actions for, and
// records the projection of the real state after every step.

import (
	"fmt"
	"math/rand"
	"os"
	"path/filepath"
	"runtime"
	"runtime/debug"
	"strings"
	"syscall"
	"testing"
	"time"
	"unsafe"

	"golang.org/x/telemetry/internal/mmap"
	"golang.org/x/telemetry/internal/telemetry"
	rt "golang.org/x/telemetry/internal/verifrt"
)

type x03StackTask struct {
	Name string   `json:"name"`
	Prog [][2]int `json:"prog"` // calls <<leaf, via>>
}

type x03PlainTask struct {
	Name string `json:"name"`
	Idx  int    `json:"idx"`
	N    int    `json:"n"`
}

type x03ObsTask struct {
	Name string `json:"name"`
	N    int    `json:"n"`
}

type x03Run struct {
	ID        int            `json:"id"`
	Family    string         `json:"family"`
	NLeaf     int            `json:"nleaf"`
	NVia      int            `json:"nvia"`
	Depth     int            `json:"depth"`
	Stack     []x03StackTask `json:"stack"`
	Plain     []x03PlainTask `json:"plain"`
	Rotators  []string       `json:"rotators"`
	Tickers   []string       `json:"tickers"`
	Observers []x03ObsTask   `json:"observers"`
	InitOpen  bool           `json:"initOpen"`
	Schedule  []string       `json:"schedule"`
	Finish    string         `json:"finish"` // rr | random | seq | stick
	Seed      int64          `json:"seed"`
	Trace     bool           `json:"trace"`
}

// ---- call sites: distinct program counters for <<leaf, via>> ----

var x03Sink int

//go:noinline
func x03Leaf1(sc *StackCounter) { sc.Inc(); x03Sink++ }

//go:noinline
func x03Leaf2(sc *StackCounter) { sc.Inc(); x03Sink += 2 }

//go:noinline
func x03Leaf3(sc *StackCounter) { sc.Inc(); x03Sink += 3 }

//go:noinline
func x03Via1(leaf func(*StackCounter), sc *StackCounter) { leaf(sc); x03Sink++ }

//go:noinline
func x03Via2(leaf func(*StackCounter), sc *StackCounter) { leaf(sc); x03Sink += 2 }

var x03Leaves = []func(*StackCounter){x03Leaf1, x03Leaf2, x03Leaf3}
var x03Vias = []func(func(*StackCounter), *StackCounter){x03Via1, x03Via2}

func x03Call(sc *StackCounter, leaf, via int) { x03Vias[via-1](x03Leaves[leaf-1], sc) }

// calibration: the program counters of every leaf and via function, learnt by
// calling each site once on a depth-2 stack counter of an unopened file.
var (
	x03PcLeaf = map[uintptr]int{}
	x03PcVia  = map[uintptr]int{}
)

func x03Calibrate(t *testing.T) (ok bool) {
	if len(x03PcLeaf) > 0 {
		return true
	}
	defer func() {
		if !ok {
			x03PcLeaf, x03PcVia = map[uintptr]int{}, map[uintptr]int{}
		}
	}()
	var cf file
	for l := 1; l <= len(x03Leaves); l++ {
		for v := 1; v <= len(x03Vias); v++ {
			sc := &StackCounter{name: "cal", depth: 2, file: &cf}
			x03Call(sc, l, v)
			if len(sc.stacks) != 1 || len(sc.stacks[0].pcs) != 2 {
				return false
			}
			p := sc.stacks[0].pcs
			if old, ok := x03PcLeaf[p[0]]; ok && old != l {
				return false
			}
			if old, ok := x03PcVia[p[1]]; ok && old != v {
				return false
			}
			x03PcLeaf[p[0]] = l
			x03PcVia[p[1]] = v
		}
	}
	return len(x03PcLeaf) == len(x03Leaves) && len(x03PcVia) == len(x03Vias)
}

type x03Region struct {
	data   *mmap.Data
	raw    []byte
	base   uintptr
	n      int
	span   int
	closed bool
}

type x03World struct {
	t       *testing.T
	run     *x03Run
	f       *file
	sc      *StackCounter
	plain   map[int]*Counter // idx -> counter
	regions []*x03Region
	paths   map[int]string // span -> path
	now     time.Time
	t1, t2  time.Time
	reading bool
	step    int
	ns, nc  int
	begun   []int
	done    []int
	snap    map[string][]int
	sched   *rt.Sched
}

var x03w *x03World

func x03SpanOf(path string) int {
	switch {
	case strings.Contains(path, "2024-03-04"):
		return 1
	case strings.Contains(path, "2024-03-11"):
		return 2
	}
	return -2
}

func x03Memmap(f *os.File) (*mmap.Data, error) {
	d, err := mmap.Mmap(f)
	w := x03w
	if err != nil || w == nil || w.reading {
		return d, err
	}
	r := &x03Region{data: d, raw: d.Data, n: len(d.Data), span: x03SpanOf(f.Name())}
	if len(d.Data) > 0 {
		r.base = uintptr(unsafe.Pointer(&d.Data[0]))
	}
	w.regions = append(w.regions, r)
	w.paths[r.span] = f.Name()
	return d, nil
}

func x03Munmap(d *mmap.Data) error {
	w := x03w
	if w != nil {
		for _, r := range w.regions {
			if r.data == d {
				if !r.closed {
					r.closed = true
					// keep the range reserved but inaccessible: a use after close faults deterministically
					syscall.Mprotect(r.raw, syscall.PROT_NONE)
				}
				return nil
			}
		}
	}
	return mmap.Munmap(d)
}

func (w *x03World) release() {
	for _, r := range w.regions {
		if r.closed {
			syscall.Mprotect(r.raw, syscall.PROT_READ|syscall.PROT_WRITE)
		}
		mmap.Munmap(r.data)
	}
	w.regions = nil
}

func (w *x03World) spanOfPtr(p unsafe.Pointer) int {
	a := uintptr(p)
	for _, r := range w.regions {
		if a >= r.base && a < r.base+uintptr(r.n) {
			return r.span
		}
	}
	return -2
}

// key is CtrApi!Key applied to an OBSERVED stack of program counters.
func (w *x03World) keyOfPcs(pcs []uintptr) int {
	if len(pcs) != w.run.Depth {
		return -2
	}
	switch w.run.Depth {
	case 0:
		return 1
	case 1:
		l, ok := x03PcLeaf[pcs[0]]
		if !ok || l > w.run.NLeaf {
			return -2
		}
		return l
	default:
		l, ok := x03PcLeaf[pcs[0]]
		v, ok2 := x03PcVia[pcs[1]]
		if !ok || !ok2 || l > w.run.NLeaf || v > w.run.NVia {
			return -2
		}
		return (l-1)*w.run.NVia + v
	}
}

func (w *x03World) keyOfCall(c [2]int) int {
	switch w.run.Depth {
	case 0:
		return 1
	case 1:
		return c[0]
	}
	return (c[0]-1)*w.run.NVia + c[1]
}

// x03Decode is an independent expansion of the ditto marks of a stack counter
// name (counter/doc.go, stackcounter.go: a line whose import path is `"`
// repeats the import path of the closest earlier line that has one).
func x03Decode(name string) string {
	if !strings.Contains(name, "\n") {
		return name
	}
	lines := strings.Split(name, "\n")
	last := ""
	for i, ln := range lines {
		j := strings.LastIndex(ln, ".")
		if j <= 0 {
			continue
		}
		if ln[:j] == `"` {
			lines[i] = last + ln[j:]
		} else {
			last = ln[:j]
		}
	}
	return strings.Join(lines, "\n")
}

type x03Objs struct {
	byID  map[int]*Counter // first object of an id
	idOf  map[*Counter]int
	names map[string]int // raw counter name -> id
	ids   []int          // the stacks list as ids
	dups  map[int][]*Counter
}

func (w *x03World) objects() *x03Objs {
	o := &x03Objs{byID: map[int]*Counter{}, idOf: map[*Counter]int{}, names: map[string]int{}, dups: map[int][]*Counter{}}
	for _, s := range w.sc.stacks {
		id := w.keyOfPcs(s.pcs)
		o.ids = append(o.ids, id)
		if s.counter == nil {
			continue
		}
		if _, ok := o.byID[id]; !ok && id > 0 {
			o.byID[id] = s.counter
			o.idOf[s.counter] = id
			o.names[s.counter.name] = id
		} else if id > 0 {
			o.dups[id] = append(o.dups[id], s.counter)
		}
	}
	for idx, c := range w.plain {
		id := w.ns + idx
		o.byID[id] = c
		o.idOf[c] = id
		o.names[c.name] = id
	}
	if o.ids == nil {
		o.ids = []int{}
	}
	return o
}

func (w *x03World) project() rt.M {
	o := w.objects()
	nc := w.nc
	nxt, hp, mem := make([]int, nc), make([]int, nc), make([]int, nc)
	nameOf := func(c *Counter) int {
		switch {
		case c == nil:
			return 0
		case c == &w.f.end:
			return -1
		}
		if id, ok := o.idOf[c]; ok {
			return id
		}
		return -2
	}
	for id := 1; id <= nc; id++ {
		c := o.byID[id]
		hp[id-1] = -1
		if c == nil {
			continue
		}
		nxt[id-1] = nameOf(c.next.Raw())
		b := counterStateBits(c.state.bits.Raw())
		if b.havePtr() {
			if c.ptr.count == nil {
				hp[id-1] = 0
			} else {
				hp[id-1] = w.spanOfPtr(unsafe.Pointer(c.ptr.count))
			}
		}
		mem[id-1] = int(b.extra())
		for _, d := range o.dups[id] {
			mem[id-1] += int(counterStateBits(d.state.bits.Raw()).extra())
		}
	}
	disk := [][]int{make([]int, nc), make([]int, nc)}
	alien := 0
	malformed := 0
	for span := 1; span <= 2; span++ {
		p, ok := w.paths[span]
		if !ok {
			continue
		}
		data, err := os.ReadFile(p)
		if err != nil {
			continue
		}
		dec := rt.DecodeV1(data)
		if !dec.WellFormed() {
			malformed++
		}
		for name, v := range dec.Counts() {
			if id, ok := o.names[name]; ok {
				disk[span-1][id-1] += int(v)
			} else {
				alien++
			}
		}
	}
	closed := []int{}
	for _, r := range w.regions {
		if r.closed {
			dup := false
			for _, x := range closed {
				dup = dup || x == r.span
			}
			if !dup {
				closed = append(closed, r.span)
			}
		}
	}
	cur := 0
	if m := w.f.current.Raw(); m != nil {
		cur = -2
		for _, r := range w.regions {
			if r.data == m.mapping && m.mapping != nil {
				cur = r.span
			}
		}
	}
	held, owner := w.sc.mu.Held()
	smu := "none"
	if held {
		smu = owner
		if smu == "" {
			smu = "harness"
		}
	}
	snap := [][]int{}
	for _, ob := range w.run.Observers {
		snap = append(snap, w.snap[ob.Name])
	}
	clock := 1
	if w.now.Equal(w.t2) {
		clock = 2
	}
	return rt.M{"stacks": o.ids, "smu": smu, "nxt": nxt, "head": nameOf(w.f.counters.Raw()), "cur": cur, "clock": clock,
		"hp": hp, "mem": mem, "disk": disk, "closed": closed, "begun": append([]int{}, w.begun[1:]...), "done": append([]int{}, w.done[1:]...),
		"snap": snap, "alien": alien, "malformed": malformed, "nc": nc, "ns": w.ns}
}

// x03Transparent decides which yields are scheduling points: exactly the
// operations CtrApi.tla has actions for.  Everything below Counter.Add other
// than file.register, all of Counter.invalidate / Counter.refresh, and the
// locked section of rotate1 are auto-continued (one step).
func x03Transparent(_ string, kind string) bool {
	var pcs [64]uintptr
	n := runtime.Callers(2, pcs[:])
	frs := runtime.CallersFrames(pcs[:n])
	inner := ""
	underAdd, underRef := false, false
	const pkg = "/internal/counter."
	for {
		fr, more := frs.Next()
		name := fr.Function
		if !strings.Contains(name, "/verifrt.") {
			if i := strings.Index(name, pkg); i >= 0 {
				short := name[i+len(pkg):]
				if !strings.HasPrefix(short, "x03") && !strings.HasPrefix(short, "TestVerifX03") {
					if inner == "" {
						inner = short
					}
					switch short {
					case "(*Counter).Add":
						underAdd = true
					case "(*Counter).refresh", "(*Counter).invalidate":
						underRef = true
					}
				}
			}
		}
		if !more {
			break
		}
	}
	switch {
	case underRef:
		return true
	case underAdd:
		return inner != "(*file).register"
	case inner == "(*file).invalidateCounters":
		return false
	case strings.HasPrefix(inner, "(*file).rotate1.func") && kind == "Pointer.Load":
		return false
	case strings.HasPrefix(inner, "(*StackCounter)."):
		return false
	}
	return true
}

func x03Setup(t *testing.T, run *x03Run) *x03World {
	w := &x03World{t: t, run: run, f: new(file), plain: map[int]*Counter{}, paths: map[int]string{}, snap: map[string][]int{}}
	x03w = w
	dir := t.TempDir()
	telemetry.Default = telemetry.NewDir(dir)
	os.MkdirAll(telemetry.Default.LocalDir(), 0777)
	os.WriteFile(filepath.Join(telemetry.Default.LocalDir(), "weekends"), []byte("2\n"), 0666)
	w.t1 = time.Date(2024, 3, 4, 12, 0, 0, 0, time.UTC) // a Monday; the span ends on Tuesday
	w.t2 = w.t1.AddDate(0, 0, 7)
	w.now = w.t1
	CounterTime = func() time.Time { return w.now }
	memmap, munmap = x03Memmap, x03Munmap
	w.f.buildInfo = &debug.BuildInfo{GoVersion: "go1.23.0", Path: "example.com/verif/x03", Main: debug.Module{Path: "example.com/verif", Version: "v1.0.0"}}
	switch run.Depth {
	case 0:
		w.ns = 1
	case 1:
		w.ns = run.NLeaf
	default:
		w.ns = run.NLeaf * run.NVia
	}
	w.nc = w.ns + len(run.Plain)
	w.begun = make([]int, w.nc+1)
	w.done = make([]int, w.nc+1)
	w.sc = &StackCounter{name: "x03/stack", depth: run.Depth, file: w.f}
	for _, p := range run.Plain {
		w.plain[p.Idx] = &Counter{name: fmt.Sprintf("x03/plain-%d", p.Idx), file: w.f}
	}
	w.sched = rt.NewSched()
	w.sched.Transparent = x03Transparent
	if run.InitOpen {
		w.f.rotate1()
		if w.f.err != nil || w.f.current.Raw() == nil {
			t.Fatalf("setup: open failed: %v", w.f.err)
		}
	}
	return w
}

func TestVerifX03Stack(t *testing.T) {
	defer rt.Flush()
	var in struct {
		Runs []x03Run `json:"runs"`
	}
	if err := rt.In(&in); err != nil {
		t.Skip(err)
	}
	if !x03Calibrate(t) {
		// one Inc from each call site of a fresh depth-2 stack counter did not leave exactly one
		// remembered stack of two program counters per site: reported, not a harness failure
		rt.Out(rt.M{"kind": "calfail"})
		return
	}
	for i := range in.Runs {
		x03One(t, &in.Runs[i])
	}
	x03w = nil
}

func x03One(t *testing.T, run *x03Run) {
	w := x03Setup(t, run)
	s := w.sched
	defer func() {
		s.Close()
		if m := w.f.current.Raw(); m != nil {
			m.close()
		}
		x03w = nil
		w.release()
		memmap, munmap = mmap.Mmap, mmap.Munmap
	}()
	s.StepTimeout = 30 * time.Second
	for _, a := range run.Stack {
		a := a
		s.Go(a.Name, func() {
			for _, c := range a.Prog {
				id := w.keyOfCall(c)
				w.begun[id]++
				x03Call(w.sc, c[0], c[1])
				w.done[id]++
			}
		})
	}
	for _, p := range run.Plain {
		p := p
		s.Go(p.Name, func() {
			id := w.ns + p.Idx
			for i := 0; i < p.N; i++ {
				w.begun[id]++
				w.plain[p.Idx].Inc()
				w.done[id]++
			}
		})
	}
	for _, r := range run.Rotators {
		s.Go(r, func() { w.f.rotate1() })
	}
	for _, k := range run.Tickers {
		s.Go(k, func() { w.now = w.t2 })
	}
	for _, ob := range run.Observers {
		ob := ob
		s.Go(ob.Name, func() {
			for i := 0; i < ob.N; i++ {
				// alternate Names() and Counters(); the result is mapped to ids position by position
				var ids []int
				if i%2 == 0 {
					names := w.sc.Names()
					for j, n := range names {
						id := -2
						if j < len(w.sc.stacks) && w.sc.stacks[j].counter != nil && w.sc.stacks[j].counter.name == n {
							id = w.keyOfPcs(w.sc.stacks[j].pcs)
						}
						ids = append(ids, id)
					}
				} else {
					cs := w.sc.Counters()
					for j, c := range cs {
						id := -2
						if j < len(w.sc.stacks) && w.sc.stacks[j].counter == c && c != nil {
							id = w.keyOfPcs(w.sc.stacks[j].pcs)
						}
						ids = append(ids, id)
					}
				}
				if ids == nil {
					ids = []int{}
				}
				w.snap[ob.Name] = ids
			}
		})
	}
	for _, ob := range run.Observers {
		w.snap[ob.Name] = []int{}
	}
	rng := rand.New(rand.NewSource(run.Seed))
	emit := func(kind string, m rt.M) {
		m["kind"] = kind
		m["run"] = run.ID
		m["family"] = run.Family
		rt.Out(m)
	}
	if run.Trace {
		p := w.project()
		p["i"] = 0
		p["t"] = "init"
		emit("obs", p)
	}
	status := "ok"
	skipped := 0
	var sched []string
	var faultInfo rt.M
	doStep := func(tk *rt.Task) bool {
		label, kind := tk.Label, tk.Kind
		w.step++
		ok := s.Step(tk)
		sched = append(sched, tk.Name)
		if run.Trace {
			p := w.project()
			p["i"] = w.step
			p["t"] = tk.Name
			p["label"] = label
			p["op"] = kind
			emit("obs", p)
		}
		if !ok {
			status = "hang"
			faultInfo = rt.M{"task": tk.Name, "label": label, "op": kind}
			return false
		}
		if tk.State == rt.Faulted {
			status = "fault"
			stack := tk.Stack
			if len(stack) > 1500 {
				stack = stack[:1500]
			}
			faultInfo = rt.M{"task": tk.Name, "panic": fmt.Sprint(tk.Panic), "label": label, "op": kind, "step": w.step, "stack": stack}
			return false
		}
		return true
	}
	alive := true
	for _, name := range run.Schedule {
		tk := s.Task(name)
		if tk == nil || !s.Runnable(tk) {
			skipped++
			continue
		}
		if !doStep(tk) {
			alive = false
			break
		}
	}
	budget := 20000
	rr := 0
	for alive && !s.AllDone() {
		rs := s.RunnableTasks()
		if len(rs) == 0 {
			status = "deadlock"
			break
		}
		if budget--; budget < 0 {
			status = "livelock"
			break
		}
		var tk *rt.Task
		switch run.Finish {
		case "random":
			tk = rs[rng.Intn(len(rs))]
		case "seq":
			tk = rs[0]
		case "stick":
			tk = rs[0]
			if len(sched) > 0 {
				for _, x := range rs {
					if x.Name == sched[len(sched)-1] {
						tk = x
					}
				}
			}
		default:
			tk = rs[rr%len(rs)]
			rr++
		}
		if !doStep(tk) {
			break
		}
	}
	fin := w.project()
	fin["status"] = status
	fin["steps"] = w.step
	fin["skipped"] = skipped
	fin["schedule"] = sched
	if faultInfo != nil {
		fin["fault"] = faultInfo
	}
	// ---- reads at rest (G3), only when no rotation is pending (a read rotates) ----
	s.Close()
	fin["reads"] = false
	if status == "ok" && ((fin["cur"].(int) == 0) || fin["cur"].(int) == fin["clock"].(int)) {
		func() {
			defer func() {
				if r := recover(); r != nil {
					fin["readpanic"] = fmt.Sprint(r)
				}
			}()
			w.reading = true
			defer func() { w.reading = false }()
			o := w.objects()
			rd := make([]int, w.nc)
			rderr := make([]string, w.nc)
			for id := 1; id <= w.nc; id++ {
				rd[id-1] = -1
				if c := o.byID[id]; c != nil {
					v, err := Read(c)
					rd[id-1] = int(v)
					if err != nil {
						rderr[id-1] = err.Error()
					}
				}
			}
			fin["rd"], fin["rderr"] = rd, rderr
			rs := make([]int, w.ns)
			for i := range rs {
				rs[i] = -1
			}
			m, err := ReadStack(w.sc)
			rsalien := 0
			if err != nil {
				fin["rserr"] = err.Error()
			} else {
				fin["rserr"] = ""
				dec := map[string]int{}
				for name, id := range o.names {
					if id <= w.ns {
						dec[x03Decode(name)] = id
					}
				}
				for name, v := range m {
					if id, ok := dec[name]; ok {
						rs[id-1] = int(v)
					} else {
						rsalien++
					}
				}
			}
			fin["rs"], fin["rsalien"] = rs, rsalien
			// Names()[i] must be the name of Counters()[i]
			names, ctrs := w.sc.Names(), w.sc.Counters()
			agree := len(names) == len(ctrs)
			for i := 0; agree && i < len(names); i++ {
				agree = ctrs[i] != nil && ctrs[i].Name() == names[i]
			}
			fin["namesAgree"] = agree
			after := w.project()
			fin["diskAfterRead"] = after["disk"]
			fin["memAfterRead"] = after["mem"]
			fin["reads"] = true
		}()
	}
	emit("result", fin)
}
