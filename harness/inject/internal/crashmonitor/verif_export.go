//go:build verif

package crashmonitor

// Exports for the verification harness (internal/verifh/c14).  This file
// exists only in the scratch copy /verif builds; it adds no behaviour.

import "io"

// VTelemetryCounterName is the function under test: crash text -> counter name.
func VTelemetryCounterName(crash []byte) (string, error) { return telemetryCounterName(crash) }

// VSentinel is the address the child uses to relocate the parent's PCs.
func VSentinel() uint64 { return sentinel() }

// VWriteSentinel writes the sentinel line exactly as Parent does.
func VWriteSentinel(w io.Writer) { writeSentinel(w) }

// VRunChild runs the monitor side (Child) of this process: it reads the crash
// text from stdin exactly as the real sidecar does; record receives every
// counter it would increment.  Never returns.
func VRunChild(record func(name string)) {
	incrementCounter = record
	childExitHook = func() {}
	Child()
}
