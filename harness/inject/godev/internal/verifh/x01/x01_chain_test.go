//go:build verif

package x01

// The middleware package on its own: every chain order TLC enumerates, built
// from the real middleware.Chain / Log / Timeout / RequestSize / Recover around
// a handler that behaves as the vector says.  Reported: what the caller of the
// chain saw (status, who wrote the body, an escaping panic, whether the chain
// was still running when the handler stalled), what the handler's body reads
// gave, and the log records.

import (
	"bytes"
	"context"
	"io"
	"net/http"
	"net/http/httptest"
	"strings"
	"sync"
	"testing"
	"time"

	xslog "golang.org/x/exp/slog"
	"golang.org/x/telemetry/godev/internal/middleware"
	rt "golang.org/x/telemetry/internal/verifrt"
)

// capHandler collects the records of one logger.
type capSink struct {
	mu   sync.Mutex
	recs []rt.M
}

type capHandler struct {
	sink  *capSink
	attrs []xslog.Attr
}

func (h *capHandler) Enabled(context.Context, xslog.Level) bool { return true }
func (h *capHandler) Handle(_ context.Context, r xslog.Record) error {
	m := rt.M{"msg": r.Message, "level": r.Level.String()}
	for _, a := range h.attrs {
		m[a.Key] = a.Value.Any()
	}
	r.Attrs(func(a xslog.Attr) bool {
		if a.Key != "duration" {
			m[a.Key] = a.Value.Any()
		}
		return true
	})
	h.sink.mu.Lock()
	h.sink.recs = append(h.sink.recs, m)
	h.sink.mu.Unlock()
	return nil
}
func (h *capHandler) WithAttrs(as []xslog.Attr) xslog.Handler {
	return &capHandler{sink: h.sink, attrs: append(append([]xslog.Attr{}, h.attrs...), as...)}
}
func (h *capHandler) WithGroup(string) xslog.Handler { return h }

func (s *capSink) snapshot() []rt.M {
	s.mu.Lock()
	defer s.mu.Unlock()
	return append([]rt.M{}, s.recs...)
}

// settle waits until the sink has not grown for a little while.
func (s *capSink) settle() []rt.M {
	last, stable := -1, 0
	for i := 0; i < 400; i++ {
		n := len(s.snapshot())
		if n == last {
			stable++
			if stable >= 8 {
				break
			}
		} else {
			stable = 0
		}
		last = n
		time.Sleep(4 * time.Millisecond)
	}
	return s.snapshot()
}

// respWriter is a minimal ResponseWriter that remembers the first status.
type respWriter struct {
	mu   sync.Mutex
	h    http.Header
	code int
	body bytes.Buffer
}

func (w *respWriter) Header() http.Header { return w.h }
func (w *respWriter) WriteHeader(c int) {
	w.mu.Lock()
	defer w.mu.Unlock()
	if w.code == 0 {
		w.code = c
	}
}
func (w *respWriter) Write(p []byte) (int, error) {
	w.mu.Lock()
	defer w.mu.Unlock()
	if w.code == 0 {
		w.code = 200
	}
	return w.body.Write(p)
}

func srcOf(body string) string {
	hb := strings.Contains(body, "HANDLER-BODY")
	p5 := strings.Contains(body, http.StatusText(500))
	to := strings.Contains(body, "request timed out")
	switch {
	case to:
		return "timeout"
	case hb && p5:
		return "handler+panic500"
	case hb:
		return "handler"
	case p5:
		return "panic500"
	case body == "":
		return "none"
	}
	return "other"
}

type mwVec struct {
	ID    int      `json:"id"`
	Ord   []string `json:"ord"`
	Act   string   `json:"act"`
	St    int      `json:"st"`
	Reads bool     `json:"reads"`
	Body  string   `json:"body"` // fits | over
	Size  int      `json:"size"` // concrete body size chosen by the driver
}

func runMW(v mwVec, limit int64) rt.M {
	sink := &capSink{}
	logger := xslog.New(&capHandler{sink: sink})
	stalls := v.Act == "stall" || v.Act == "stallpanic"
	d := time.Hour
	if stalls {
		d = 25 * time.Millisecond
	}
	hasTimeout := false
	var mws []middleware.Middleware
	for _, name := range v.Ord {
		switch name {
		case "Log":
			mws = append(mws, middleware.Log(logger))
		case "Timeout":
			mws = append(mws, middleware.Timeout(d))
			hasTimeout = true
		case "Size":
			mws = append(mws, middleware.RequestSize(limit))
		case "Recover":
			mws = append(mws, middleware.Recover())
		}
	}
	stalled := make(chan struct{})
	release := make(chan struct{})
	hdone := make(chan struct{})
	seen, seenN := "none", 0
	ctxCancelled := false
	h := http.HandlerFunc(func(w http.ResponseWriter, r *http.Request) {
		defer close(hdone)
		if v.Reads {
			b, err := io.ReadAll(r.Body)
			seenN = len(b)
			if err == nil {
				seen = "all"
			} else {
				seen = "cut"
			}
		}
		switch v.Act {
		case "ok":
			// every other 200 is an implicit one (no WriteHeader call)
			if v.St != 200 || v.ID%2 == 0 {
				w.WriteHeader(v.St)
			}
			io.WriteString(w, "HANDLER-BODY")
		case "silent":
		case "panic":
			panic("x01 handler panic")
		case "writepanic":
			w.WriteHeader(v.St)
			io.WriteString(w, "HANDLER-BODY")
			panic("x01 handler panic after write")
		case "stall":
			close(stalled)
			<-release
			ctxCancelled = r.Context().Err() != nil
			w.WriteHeader(v.St)
			io.WriteString(w, "HANDLER-BODY")
		case "stallpanic":
			close(stalled)
			<-release
			ctxCancelled = r.Context().Err() != nil
			panic("x01 late handler panic")
		}
	})
	chain := middleware.Chain(mws...)(h)
	body := bytes.Repeat([]byte("b"), v.Size)
	req := httptest.NewRequest("POST", "http://site.invalid/x01", bytes.NewReader(body))
	w := &respWriter{h: http.Header{}}
	type res struct{ p any }
	done := make(chan res, 1)
	go func() {
		var r res
		defer func() {
			r.p = recover()
			done <- r
		}()
		chain.ServeHTTP(w, req)
	}()
	out := rt.M{"kind": "mw", "id": v.ID}
	late, hang := false, false
	var r res
	got := false
	if stalls {
		select {
		case r = <-done: // answered although the handler never reached its stall?
			got = true
		case <-stalled:
			wait := 40 * time.Millisecond
			if hasTimeout {
				wait = 3 * time.Second // the chain must answer by itself
			}
			select {
			case r = <-done:
				got = true
			case <-time.After(wait):
				late = true
			}
		case <-time.After(10 * time.Second):
			hang = true
		}
		// the answer as it stands before the handler is let go
		if got {
			w.mu.Lock()
			out["status_before_release"] = w.code
			w.mu.Unlock()
		}
		close(release)
	}
	if !got && !hang {
		select {
		case r = <-done:
		case <-time.After(10 * time.Second):
			hang = true
		}
	}
	if hang {
		out["hang"] = true
		return out
	}
	select {
	case <-hdone:
	case <-time.After(5 * time.Second):
		out["handler_never_ran"] = true
	}
	// without a stall everything ran synchronously inside ServeHTTP; after a stall
	// the released handler's goroutine may still be on its way out through the
	// middlewares inside Timeout
	logs := sink.snapshot()
	if stalls {
		logs = sink.settle()
	}
	w.mu.Lock()
	code, bodyStr := w.code, w.body.String()
	w.mu.Unlock()
	escaped := r.p != nil
	status := code
	if code == 0 {
		if escaped {
			status = 0
		} else {
			status = 200
		}
	}
	out["status"] = status
	out["src"] = srcOf(bodyStr)
	out["escaped"] = escaped
	out["late"] = late
	out["seen"] = seen
	out["seen_n"] = seenN
	out["cancelled"] = ctxCancelled
	var ls []rt.M
	for _, l := range logs {
		msg := "other"
		switch l["msg"] {
		case "request start":
			msg = "start"
		case "request end", "request error", "request rejected":
			msg = "end"
		}
		st := 0
		if x, ok := l["status"].(int64); ok {
			st = int(x)
		}
		lv := strings.ToLower(l["level"].(string))
		if lv == "warning" {
			lv = "warn"
		}
		ls = append(ls, rt.M{"msg": msg, "status": st, "level": lv, "text": l["msg"], "method": l["method"], "uri": l["uri"]})
	}
	if ls == nil {
		ls = []rt.M{}
	}
	out["logs"] = ls
	return out
}

func TestVerifX01Chain(t *testing.T) {
	defer rt.Flush()
	var in struct {
		Limit   int64   `json:"limit"`
		Vectors []mwVec `json:"vectors"`
		Chains  []struct {
			ID  int      `json:"id"`
			Beh []string `json:"beh"`
		} `json:"chains"`
		Par int `json:"par"`
	}
	if err := rt.In(&in); err != nil {
		t.Skip(err)
	}
	defer quiet()()
	if in.Par <= 0 {
		in.Par = 8
	}
	// ---- Chain's order of execution with marker middlewares
	for _, c := range in.Chains {
		var mu sync.Mutex
		events := []int{}
		ev := func(e int) { mu.Lock(); events = append(events, e); mu.Unlock() }
		var mws []middleware.Middleware
		for i, b := range c.Beh {
			i, b := i+1, b
			mws = append(mws, func(next http.Handler) http.Handler {
				return http.HandlerFunc(func(w http.ResponseWriter, r *http.Request) {
					ev(i)
					if b == "short" {
						w.WriteHeader(299)
					} else {
						next.ServeHTTP(w, r)
					}
					ev(-i)
				})
			})
		}
		h := middleware.Chain(mws...)(http.HandlerFunc(func(w http.ResponseWriter, r *http.Request) { ev(0) }))
		rec, pan, hung := serve(h, httptest.NewRequest("GET", "http://site.invalid/", nil))
		rt.Out(rt.M{"kind": "chain", "id": c.ID, "events": events, "status": rec.Code, "panic": pan, "hang": hung})
	}
	// ---- the real middlewares
	jobs := make(chan mwVec)
	var wg sync.WaitGroup
	for i := 0; i < in.Par; i++ {
		wg.Add(1)
		go func() {
			defer wg.Done()
			for v := range jobs {
				rt.Out(runMW(v, in.Limit))
			}
		}()
	}
	for _, v := range in.Vectors {
		jobs <- v
	}
	close(jobs)
	wg.Wait()
	rt.Out(rt.M{"kind": "summary", "n": len(in.Vectors), "chains": len(in.Chains)})
}
