//go:build verif

// Package x01 binds spec/WebContent*.tla and spec/WebPipeline*.tla to the real
// godev/internal/content server and godev/internal/middleware package.
//
// Nothing here decides what is right: every test reports what the real code
// answered (status, which file's marker the body carries, where a redirect
// points, what was logged); checks/x01.py and TLC compare with the
// specification.
package x01

import (
	"bufio"
	"bytes"
	"errors"
	"fmt"
	"io"
	"io/fs"
	stdslog "log/slog"
	"math/rand"
	"net/http"
	"net/http/httptest"
	"net/url"
	"os"
	"path"
	"path/filepath"
	"regexp"
	"sort"
	"strings"
	"testing"
	"testing/fstest"
	"time"

	xslog "golang.org/x/exp/slog"
	"golang.org/x/telemetry/godev/internal/content"
	"golang.org/x/telemetry/internal/unionfs"
	rt "golang.org/x/telemetry/internal/verifrt"
)

func quiet() func() {
	stdslog.SetDefault(stdslog.New(stdslog.NewTextHandler(io.Discard, nil)))
	xslog.SetDefault(xslog.New(xslog.NewTextHandler(io.Discard, nil)))
	devnull, _ := os.OpenFile(os.DevNull, os.O_WRONLY, 0)
	real := os.Stdout
	if devnull != nil {
		os.Stdout = devnull
	}
	return func() { os.Stdout = real }
}

// ------------------------------------------------------------ file contents

const layoutName = "base.html"
const layoutSrc = "<html><body>LAYOUT[{{with .}}{{.Content}}{{end}}]</body></html>\n"

var mkRe = regexp.MustCompile(`MK_(\d+)_KM`)

// fileBody gives the file with number id a body from which the answer tells
// (a) which file it came from and (b) whether it was rendered or served raw.
func fileBody(name string, id int) []byte {
	switch filepath.Ext(name) {
	case ".md":
		return []byte(fmt.Sprintf("---\nLayout: %s\n---\n\n*MK_%d_KM*\n", layoutName, id))
	case ".html":
		return []byte(fmt.Sprintf("<p>MK_{{\"%d\"}}_KM</p>\n", id))
	default:
		return []byte(fmt.Sprintf("static MK_%d_KM ;\n", id))
	}
}

type answer struct {
	Status    int      `json:"status"`
	K         string   `json:"k"`    // page | static | redirect | notfound | dirlist | other
	File      int      `json:"file"` // number of the file whose marker the body carries (0: none)
	Form      string   `json:"form"` // md | html | static | "" : how the marker appears
	Loc       string   `json:"loc"`  // Location header as sent
	To        string   `json:"to"`   // Location resolved against the request path (path only)
	LocSafe   bool     `json:"locsafe"`
	CType     string   `json:"ctype"`
	Entries   []string `json:"entries,omitempty"`
	RawSrc    bool     `json:"rawsrc"` // the body shows unrendered page source
	Leaked    bool     `json:"leaked"` // the body carries bytes of a file outside the served roots
	Panic     string   `json:"panic,omitempty"`
	BodyLen   int      `json:"bodylen"`
	Stdlib500 bool     `json:"stdlib500,omitempty"`
	Snip      string   `json:"snip,omitempty"` // start of the body, for answers of kind "other"
	CLenOK    bool     `json:"clenok"`         // Content-Length, when set, equals the body length
}

var hrefRe = regexp.MustCompile(`<a href="([^"]*)">`)

// locSafe reports whether a Location value keeps every user agent on the site:
// after the clean-up browsers apply (strip C0/space at the ends, drop tab/CR/LF,
// read '\' as '/'), it has neither a scheme nor an authority.
func locSafe(loc string) bool {
	if loc == "" {
		return true
	}
	s := strings.TrimFunc(loc, func(r rune) bool { return r <= 0x20 })
	s = strings.NewReplacer("\t", "", "\n", "", "\r", "").Replace(s)
	s = strings.ReplaceAll(s, "\\", "/")
	if strings.HasPrefix(s, "//") {
		return false
	}
	for i, c := range s {
		switch {
		case c == ':':
			return i == 0 // "x:..." is a scheme
		case c >= 'a' && c <= 'z', c >= 'A' && c <= 'Z':
		case i > 0 && (c >= '0' && c <= '9' || c == '+' || c == '-' || c == '.'):
		default:
			return true
		}
	}
	return true
}

func resolveLoc(reqPath, loc string) string {
	if loc == "" {
		return ""
	}
	base := &url.URL{Scheme: "http", Host: "site.invalid", Path: reqPath}
	u, err := url.Parse(loc)
	if err != nil {
		return "!unparsable"
	}
	r := base.ResolveReference(u)
	if r.Host != "site.invalid" {
		return "!offsite:" + r.Host
	}
	return r.Path
}

// serve runs one request through h, never letting a panic or a hang out.
func serve(h http.Handler, req *http.Request) (rec *httptest.ResponseRecorder, panicked string, hung bool) {
	rec = httptest.NewRecorder()
	done := make(chan string, 1)
	go func() {
		defer func() {
			if r := recover(); r != nil {
				done <- fmt.Sprint("panic: ", r)
				return
			}
			done <- ""
		}()
		h.ServeHTTP(rec, req)
	}()
	select {
	case p := <-done:
		return rec, p, false
	case <-time.After(20 * time.Second):
		return httptest.NewRecorder(), "", true
	}
}

// classify abstracts a response.  statics maps file number -> exact bytes for
// the files that are served verbatim.
func classify(rec *httptest.ResponseRecorder, reqPath string, statics map[int][]byte) answer {
	body := rec.Body.Bytes()
	a := answer{Status: rec.Code, Loc: rec.Header().Get("Location"), CType: rec.Header().Get("Content-Type"), BodyLen: len(body), CLenOK: true}
	if cl := rec.Header().Get("Content-Length"); cl != "" && cl != fmt.Sprint(len(body)) {
		a.CLenOK = false
	}
	a.LocSafe = locSafe(a.Loc)
	a.To = resolveLoc(reqPath, a.Loc)
	// net/http's own FileServer answers a file URL that ends in "/." or "/.." with
	// this fixed 500; that is the standard library's choice, not the package's
	a.Stdlib500 = rec.Code == 500 && strings.HasPrefix(string(body), "http: attempting to traverse a non-directory")
	a.Leaked = bytes.Contains(body, []byte("OUTSIDE"))
	a.RawSrc = bytes.Contains(body, []byte("{{")) || bytes.Contains(body, []byte("Layout:")) || bytes.Contains(body, []byte("*MK_"))
	if m := mkRe.FindSubmatch(body); m != nil {
		fmt.Sscan(string(m[1]), &a.File)
		switch {
		case bytes.Contains(body, []byte("LAYOUT[")) && bytes.Contains(body, []byte("<em>"+string(m[0])+"</em>")):
			a.Form = "md"
		case bytes.Contains(body, []byte("<p>"+string(m[0])+"</p>")):
			a.Form = "html"
		case statics != nil && bytes.Equal(body, statics[a.File]):
			a.Form = "static"
		default:
			a.Form = "?"
		}
	}
	switch {
	case rec.Code == 200 && (a.Form == "md" || a.Form == "html"):
		a.K = "page"
	case rec.Code == 200 && a.Form == "static":
		a.K = "static"
	case rec.Code == http.StatusMovedPermanently:
		a.K = "redirect"
	case rec.Code == 404:
		a.K = "notfound"
	case rec.Code == 200 && a.File == 0 && bytes.Contains(body, []byte("<pre>")):
		a.K = "dirlist"
		a.Entries = []string{}
		for _, m := range hrefRe.FindAllSubmatch(body, -1) {
			a.Entries = append(a.Entries, string(m[1]))
		}
		sort.Strings(a.Entries)
	default:
		a.K = "other"
		a.Snip = trunc(string(body), 300)
	}
	return a
}

// ------------------------------------------------- model -> code: G1 vectors

func TestVerifX01Resolve(t *testing.T) {
	defer rt.Flush()
	var in struct {
		Files  [][]string `json:"files"` // the universe; file number = index + 1
		Groups []struct {
			FS   []int `json:"fs"`
			Reqs []struct {
				ID    int      `json:"id"`
				Segs  []string `json:"segs"`
				Slash bool     `json:"slash"`
			} `json:"reqs"`
		} `json:"groups"`
	}
	if err := rt.In(&in); err != nil {
		t.Skip(err)
	}
	defer quiet()()
	n := 0
	for _, g := range in.Groups {
		m := fstest.MapFS{layoutName: &fstest.MapFile{Data: []byte(layoutSrc)}}
		statics := map[int][]byte{}
		for _, id := range g.FS {
			segs := in.Files[id-1]
			name := strings.Join(segs, "/")
			data := fileBody(name, id)
			m[name] = &fstest.MapFile{Data: data}
			if e := filepath.Ext(name); e != ".md" && e != ".html" {
				statics[id] = data
			}
		}
		srv := content.Server(m)
		for _, rq := range g.Reqs {
			p := "/" + strings.Join(rq.Segs, "/")
			if rq.Slash && len(rq.Segs) > 0 {
				p += "/"
			}
			req := httptest.NewRequest("GET", "http://site.invalid/", nil)
			req.URL.Path = p
			req.RequestURI = p
			rec, pan, hung := serve(srv, req)
			if hung {
				rt.Out(rt.M{"kind": "hang", "id": rq.ID, "path": p})
				rt.Out(rt.M{"kind": "summary", "n": n, "aborted": "hang"})
				return
			}
			a := classify(rec, p, statics)
			a.Panic = pan
			rt.Out(rt.M{"kind": "ans", "id": rq.ID, "path": p, "a": a})
			n++
		}
	}
	rt.Out(rt.M{"kind": "summary", "n": n})
}

// ------------------------------------------------------ model -> code: G3

func TestVerifX01Errors(t *testing.T) {
	defer rt.Flush()
	var in struct {
		Vectors []struct {
			ID   int    `json:"id"`
			Res  string `json:"res"`
			Code int    `json:"code"`
		} `json:"vectors"`
	}
	if err := rt.In(&in); err != nil {
		t.Skip(err)
	}
	defer quiet()()
	const secret = "INTERNAL-DETAIL-7731"
	n := 0
	for _, v := range in.Vectors {
		v := v
		errText := fmt.Sprintf("E-TEXT-%d", v.ID)
		fn := content.HandlerFunc(func(w http.ResponseWriter, r *http.Request) error {
			switch v.Res {
			case "nil":
				w.WriteHeader(v.Code)
				io.WriteString(w, "HANDLER-BODY")
				return nil
			case "annotated":
				return content.Error(errors.New(errText+" "+secret), v.Code)
			case "plain":
				return errors.New("plain failure " + secret)
			case "status":
				return content.Status(w, v.Code)
			}
			return nil
		})
		// both ways a HandlerFunc is mounted: in a content server, and directly
		// (as telemetrygodev's mux does)
		srv := content.Server(fstest.MapFS{}, content.Handler("/h", fn))
		for _, via := range []string{"server", "direct"} {
			req := httptest.NewRequest("GET", "http://site.invalid/h", nil)
			var h http.Handler = srv
			if via == "direct" {
				h = fn
			}
			rec, pan, hung := serve(h, req)
			if hung {
				rt.Out(rt.M{"kind": "hang", "id": v.ID})
				return
			}
			body := rec.Body.String()
			cls := "other"
			switch strings.TrimRight(body, "\n") {
			case "HANDLER-BODY":
				cls = "handler"
			case errText + " " + secret:
				cls = "errtext"
			case http.StatusText(http.StatusInternalServerError):
				cls = "generic"
			case http.StatusText(v.Code):
				cls = "statustext"
			}
			if v.Code == 500 && cls == "statustext" {
				cls = "generic"
			}
			rt.Out(rt.M{"kind": "err", "id": v.ID, "via": via, "res": v.Res, "code": v.Code, "status": rec.Code, "body": cls,
				"secret": strings.Contains(body, secret) && v.Res == "plain", "panic": pan, "text": trunc(body, 80)})
			n++
		}
	}
	rt.Out(rt.M{"kind": "summary", "n": n})
}

func trunc(s string, n int) string {
	if len(s) > n {
		return s[:n]
	}
	return s
}

// --------------------------------------- code -> model: random trees (G1, G2)

type tree struct {
	kind   map[string]string // path (no leading slash) -> "file" | "dir"; "" is the root
	id     map[string]int
	byID   map[int]string
	static map[int][]byte
	broken map[string]bool // pages that cannot be rendered (markdown without layout)
	next   int
}

func (tr *tree) add(p string, data []byte) {
	tr.next++
	tr.kind[p] = "file"
	tr.id[p] = tr.next
	tr.byID[tr.next] = p
	if data == nil {
		data = fileBody(p, tr.next)
	}
	if e := filepath.Ext(p); e != ".md" && e != ".html" {
		tr.static[tr.next] = data
	}
	for d := filepath.Dir(p); d != "."; d = filepath.Dir(d) {
		tr.kind[d] = "dir"
	}
}

var stems = []string{"a", "b", "c", "index", "docs", "p1", "x.y", "A", "readme"}
var staticExts = []string{".css", ".txt", ".js", "", ".tmpl", ".json"}

// genTree fills dir (the "site" root) with a random tree and returns its map.
func genTree(rng *rand.Rand, write func(rel string, data []byte)) *tree {
	tr := &tree{kind: map[string]string{"": "dir"}, id: map[string]int{}, byID: map[int]string{}, static: map[int][]byte{}, broken: map[string]bool{}}
	var fill func(prefix string, depth int)
	fill = func(prefix string, depth int) {
		used := map[string]bool{}
		for _, s := range stems {
			if prefix == "" && (s == "base" || s == "shared" || s == "sh") {
				continue
			}
			switch rng.Intn(7) {
			case 0: // page(s)
				if rng.Intn(2) == 0 {
					tr.add(prefix+s+".md", nil)
				}
				if rng.Intn(2) == 0 {
					tr.add(prefix+s+".html", nil)
				}
			case 1: // static file(s)
				e := staticExts[rng.Intn(len(staticExts))]
				if e == "" && used[s] {
					break
				}
				if e == "" {
					used[s] = true
				}
				if e == ".tmpl" {
					tr.add(prefix+s+e, []byte(fmt.Sprintf(`{{define "t%d"}}static MK_%d_KM ;{{end}}`, tr.next+1, tr.next+1)))
					break
				}
				tr.add(prefix+s+e, nil)
			case 2: // directory, perhaps next to a page of the same name
				if depth >= 3 || used[s] {
					break
				}
				used[s] = true
				before := tr.next
				fill(prefix+s+"/", depth+1)
				if tr.next == before {
					tr.add(prefix+s+"/keep.txt", nil)
				}
				if rng.Intn(3) == 0 {
					tr.add(prefix+s+".md", nil)
				}
			}
		}
	}
	fill("", 0)
	if rng.Intn(4) == 0 {
		p := "nolayout.md"
		tr.add(p, []byte("# no layout\n\n*MK_0_KM*\n"))
		tr.broken[p] = true
	}
	for p, k := range tr.kind {
		if k == "file" {
			data := tr.static[tr.id[p]]
			if data == nil {
				data = fileBody(p, tr.id[p])
				if tr.broken[p] {
					data = []byte("# no layout\n\ntext\n")
				}
			}
			write(p, data)
		}
	}
	return tr
}

func extClass(name string) string {
	switch filepath.Ext(name) {
	case "":
		return "none"
	case ".":
		return "dot"
	case ".md":
		return "md"
	case ".html":
		return "html"
	}
	return "other"
}

// abstractOf computes, from the harness's own map of the tree (never through
// the code under test), the facts WebContent.tla makes the answer depend on.
func abstractOf(tr *tree, p string, slash bool) rt.M {
	last := p
	if i := strings.LastIndex(p, "/"); i >= 0 {
		last = p[i+1:]
	}
	ext := extClass(last)
	stem := strings.TrimSuffix(last, filepath.Ext(last))
	has := rt.M{"md": false, "html": false, "imd": false, "ihtml": false, "exact": "none"}
	if k, ok := tr.kind[p]; ok {
		has["exact"] = k
	}
	if ext == "none" {
		has["md"] = tr.kind[p+".md"] == "file"
		has["html"] = tr.kind[p+".html"] == "file"
		has["imd"] = tr.kind[p+"/index.md"] == "file"
		has["ihtml"] = tr.kind[p+"/index.html"] == "file"
	}
	return rt.M{"ext": ext, "index": stem == "index" && ext != "dot", "slash": slash, "has": has}
}

func observed(tr *tree, p string, slash bool, a answer) rt.M {
	o := rt.M{"k": a.K, "which": "", "how": ""}
	reqPath := "/" + p
	if slash {
		reqPath += "/"
	}
	switch a.K {
	case "page", "static":
		f := tr.byID[a.File]
		switch f {
		case p + ".md":
			o["which"] = "md"
		case p + ".html":
			o["which"] = "html"
		case p + "/index.md":
			o["which"] = "imd"
		case p + "/index.html":
			o["which"] = "ihtml"
		case p:
			o["which"] = "exact"
		default:
			o["which"] = "other:" + f
		}
		if a.K == "page" && !strings.HasPrefix(a.CType, "text/html") {
			o["k"] = "other"
		}
	case "redirect":
		last := p
		if i := strings.LastIndex(p, "/"); i >= 0 {
			last = p[i+1:]
		}
		noext := "/" + strings.TrimSuffix(p, filepath.Ext(last))
		noindex := strings.TrimSuffix("/"+p, "/index")
		if noindex == "" {
			noindex = "/"
		}
		switch a.To {
		case reqPath + "/":
			o["k"] = "dirslash"
		case noext:
			o["how"] = "ext"
		case noindex:
			o["how"] = "index"
		default:
			o["how"] = "other"
		}
	}
	return o
}

type outsideSpec struct{ rel, data string }

// hitsBroken: a hostile spelling may still come down to a page of the tree that
// cannot be rendered (markdown without layout); its 500 is the page's fault.
func hitsBroken(tr *tree, decoded string) bool {
	c := path.Clean(strings.TrimPrefix(decoded, "/"))
	return tr.broken[c] || tr.broken[c+".md"]
}

// whyNoFile names, for reports only, the reason a path cannot name a file of
// the tree at all: what is left after lexical cleaning is not a valid io/fs name
// ("invalid-path"), it holds a NUL byte ("nul-byte"), or it leads through a
// regular file ("through-file").
func whyNoFile(tr *tree, decoded string) string {
	c := path.Clean(strings.TrimPrefix(decoded, "/"))
	switch {
	case !fs.ValidPath(c):
		return "invalid-path"
	case strings.ContainsRune(c, 0):
		return "nul-byte"
	}
	for i := 0; i < len(c); i++ {
		if c[i] == '/' && tr.kind[c[:i]] == "file" {
			return "through-file"
		}
	}
	return ""
}

// TestVerifX01Fuzz serves random trees from the real file system the way
// telemetrygodev does (unionfs.Sub over two roots of one directory) and plainly
// (os.DirFS), surrounded by files that must never be served, and fires
// canonical and hostile request paths at them: directly at the content server
// (URL.Path as the server would have decoded it) and through an http.ServeMux
// parsing the encoded request line exactly as net/http's server does.
func TestVerifX01Fuzz(t *testing.T) {
	defer rt.Flush()
	var in struct {
		Trees    int `json:"trees"`
		Canon    int `json:"canon"`
		Hostile  int `json:"hostile"`
		ShapeVec []struct {
			ID    int      `json:"id"`
			Segs  []string `json:"segs"`
			Sfx   string   `json:"sfx"`
			Enc   bool     `json:"enc"`
			Class string   `json:"class"`
		} `json:"shapes"`
	}
	if err := rt.In(&in); err != nil {
		t.Skip(err)
	}
	defer quiet()()
	rng := rand.New(rand.NewSource(rt.Seed()*7919 + 17))
	nobs := 0
	for ti := 0; ti < in.Trees; ti++ {
		top := t.TempDir()
		base := filepath.Join(top, "mid", "base")
		must := func(err error) {
			if err != nil {
				t.Fatal(err)
			}
		}
		wr := func(root, rel string, data []byte) {
			p := filepath.Join(root, filepath.FromSlash(rel))
			must(os.MkdirAll(filepath.Dir(p), 0777))
			must(os.WriteFile(p, data, 0666))
		}
		tr := genTree(rng, func(rel string, data []byte) { wr(filepath.Join(base, "site"), rel, data) })
		must(os.MkdirAll(filepath.Join(base, "site"), 0777))
		// second root of the union: the layout and a few shared files
		wr(filepath.Join(base, "shared"), layoutName, []byte(layoutSrc))
		tr.add("shared.css", nil)
		wr(filepath.Join(base, "shared"), "shared.css", tr.static[tr.id["shared.css"]])
		tr.add("sh/page.md", nil)
		wr(filepath.Join(base, "shared"), "sh/page.md", fileBody("sh/page.md", tr.id["sh/page.md"]))
		tr.kind[layoutName] = "file"
		// what must never be served
		for _, o := range []outsideSpec{
			{"secret/leak.css", "OUTSIDE css"}, {"secret/page.md", "---\nLayout: base.html\n---\n\nOUTSIDE md\n"},
			{"secret/index.html", "<p>OUTSIDE index</p>"}, {"outer.html", "<p>OUTSIDE outer</p>"}, {"outer.css", "OUTSIDE outer css"},
			{"../mid.css", "OUTSIDE mid"}, {"../../top.css", "OUTSIDE top"}, {"../../top.html", "<p>OUTSIDE top</p>"},
		} {
			wr(base, o.rel, []byte(o.data))
		}
		ufs, err := unionfs.Sub(os.DirFS(base), "site", "shared")
		must(err)
		servers := []struct {
			name string
			h    http.Handler
		}{{"union", content.Server(ufs)}}
		// the plain DirFS server sees only "site": give it the layout too
		wr(filepath.Join(base, "site"), layoutName, []byte(layoutSrc))
		servers = append(servers, struct {
			name string
			h    http.Handler
		}{"dirfs", content.Server(os.DirFS(filepath.Join(base, "site")))})

		// ---- canonical requests: G1 decided by TLC on the abstraction
		var paths []string
		for p := range tr.kind {
			if p != "" {
				paths = append(paths, p)
			}
		}
		sort.Strings(paths)
		for ci := 0; ci < in.Canon; ci++ {
			p := paths[rng.Intn(len(paths))]
			switch rng.Intn(8) {
			case 0:
				p = strings.TrimSuffix(p, filepath.Ext(p))
			case 1:
				p = strings.TrimSuffix(p, filepath.Ext(p)) + []string{".md", ".html", ".css"}[rng.Intn(3)]
			case 2:
				p = strings.TrimSuffix(p, filepath.Ext(p)) + "/index"
			case 3:
				p = p + "/" + stems[rng.Intn(len(stems))]
			case 4:
				p = filepath.ToSlash(filepath.Dir(p))
				if p == "." {
					p = stems[rng.Intn(len(stems))]
				}
			case 5:
				p = strings.TrimSuffix(p, filepath.Ext(p)) + "/index" + []string{".md", ".html"}[rng.Intn(2)]
			}
			if strings.HasPrefix(p, "base") || strings.Contains(p, "//") || p == "" {
				continue
			}
			slash := rng.Intn(4) == 0
			for _, sv := range servers {
				if sv.name == "dirfs" && (strings.HasPrefix(p, "sh/") || p == "sh" || strings.HasPrefix(p, "shared")) {
					continue
				}
				reqPath := "/" + p
				if slash {
					reqPath += "/"
				}
				req := httptest.NewRequest("GET", "http://site.invalid/", nil)
				req.URL.Path = reqPath
				req.RequestURI = reqPath
				rec, pan, hung := serve(sv.h, req)
				if hung {
					rt.Out(rt.M{"kind": "hang", "path": reqPath})
					return
				}
				a := classify(rec, reqPath, tr.static)
				abs := abstractOf(tr, p, slash)
				if abs["ext"] == "dot" {
					continue // "name." : nothing is documented about it
				}
				// broken: the request names a page that exists and cannot be rendered
				broken := false
				if abs["ext"] == "none" {
					for _, c := range []string{p + ".md", p + ".html", p + "/index.md", p + "/index.html"} {
						if tr.kind[c] == "file" {
							broken = tr.broken[c]
							break
						}
					}
				} else if slash {
					broken = tr.broken[p]
				}
				rt.Out(rt.M{"kind": "obs", "cls": "canonical", "via": sv.name, "path": reqPath, "abs": abs,
					"obs":    observed(tr, p, slash, a),
					"safe":   rt.M{"status": a.Status, "leaked": a.Leaked, "locsafe": a.LocSafe, "broken": broken || a.Stdlib500},
					"rawsrc": a.RawSrc && a.K != "static" && a.K != "dirlist", "loc": a.Loc, "panic": pan, "why": whyNoFile(tr, reqPath), "snip": a.Snip})
				nobs++
			}
		}

		// ---- hostile requests: G2 (+ the 5xx rule)
		mux := http.NewServeMux()
		mux.Handle("/", servers[0].h)
		fire := func(id int, class, decoded, encoded string) {
			// (1) directly, as decoded by a server in front
			req := httptest.NewRequest("GET", "http://site.invalid/", nil)
			req.URL.Path = decoded
			req.RequestURI = encoded
			for _, sv := range servers {
				rec, pan, hung := serve(sv.h, req.Clone(req.Context()))
				if hung {
					rt.Out(rt.M{"kind": "hang", "path": decoded})
					continue
				}
				a := classify(rec, decoded, nil)
				rt.Out(rt.M{"kind": "obs", "cls": "hostile", "class": class, "shape": id, "via": sv.name, "path": decoded,
					"safe": rt.M{"status": a.Status, "leaked": a.Leaked, "locsafe": a.LocSafe, "broken": hitsBroken(tr, decoded) || a.Stdlib500},
					"loc":  a.Loc, "panic": pan, "k": a.K, "why": whyNoFile(tr, decoded), "snip": a.Snip})
				nobs++
			}
			// (2) through a ServeMux, from the request line as a client sends it
			r2, err := http.ReadRequest(bufio.NewReader(strings.NewReader("GET " + encoded + " HTTP/1.1\r\nHost: site.invalid\r\n\r\n")))
			if err != nil {
				return // net/http's server answers 400 itself
			}
			rec, pan, hung := serve(mux, r2)
			if hung {
				rt.Out(rt.M{"kind": "hang", "path": encoded})
				return
			}
			a := classify(rec, r2.URL.Path, nil)
			rt.Out(rt.M{"kind": "obs", "cls": "hostile", "class": class, "shape": id, "via": "mux", "path": encoded,
				"safe": rt.M{"status": a.Status, "leaked": a.Leaked, "locsafe": a.LocSafe, "broken": hitsBroken(tr, r2.URL.Path) || a.Stdlib500},
				"loc":  a.Loc, "panic": pan, "k": a.K, "why": whyNoFile(tr, r2.URL.Path)})
			nobs++
		}
		// an existing directory and page of this tree, for the shapes to lean on
		dirName, pageName := "sh", "sh/page"
		for _, p := range paths {
			if tr.kind[p] == "dir" && !strings.Contains(p, "/") {
				dirName = p
				break
			}
		}
		conc := func(seg string) string {
			switch seg {
			case "DIR":
				return dirName
			case "PAGE":
				return pageName
			}
			return seg
		}
		for _, sh := range in.ShapeVec {
			if len(in.ShapeVec) > 400 && sh.ID%in.Trees != ti {
				continue // spread a large shape set over the trees
			}
			var segs []string
			for _, s := range sh.Segs {
				segs = append(segs, conc(s))
			}
			decoded := "/" + strings.Join(segs, "/") + sh.Sfx
			fire(sh.ID, sh.Class, decoded, encodePath(decoded, sh.Enc, nil))
		}
		for hi := 0; hi < in.Hostile; hi++ {
			decoded, class := randomHostile(rng, paths)
			fire(-1, class, decoded, encodePath(decoded, true, rng))
		}
	}
	rt.Out(rt.M{"kind": "summary", "n": nobs})
}

// encodePath spells a decoded path as a request target.  all: escape every
// byte that is special ('.', '/', '\\', control, space, '%', '?', '#') except the
// leading slash; with rng, escape a random subset of them instead.
func encodePath(decoded string, all bool, rng *rand.Rand) string {
	var b strings.Builder
	for i := 0; i < len(decoded); i++ {
		c := decoded[i]
		must := c <= 0x20 || c >= 0x7f || c == '%' || c == '?' || c == '#' || c == '"' || c == '<' || c == '>' || c == '`' || c == '{' || c == '}' || c == '|' || c == '^'
		special := c == '.' || c == '/' || c == '\\'
		esc := must
		if special && i > 0 {
			if rng != nil {
				esc = rng.Intn(3) == 0
			} else {
				esc = all
			}
		}
		if esc {
			fmt.Fprintf(&b, "%%%02X", c)
		} else {
			b.WriteByte(c)
		}
	}
	return b.String()
}

var lures = []string{"..", "..", ".", "", "secret", "leak.css", "outer", "outer.css", "top.css", "mid.css", "evil.example", "\\evil.example", "\\\\evil.example",
	"..\\secret", "\t", " ", "%2e%2e", "%2f", "page", "index", "site", "shared", "base", "mid", "http:", "javascript:alert(1)", "\x00", "a b", "é", "..;", "...", ".%2e"}
var suffixes = []string{"", "", ".html", ".md", "/index", "/", "/index.html", "/index.md", ".", "/.", "/..", ".css", "?x=1"}

func randomHostile(rng *rand.Rand, paths []string) (string, string) {
	n := 1 + rng.Intn(5)
	var segs []string
	depth, esc, weird := 0, false, false
	for i := 0; i < n; i++ {
		var s string
		if rng.Intn(3) == 0 && len(paths) > 0 {
			p := paths[rng.Intn(len(paths))]
			s = strings.Split(p, "/")[0]
		} else {
			s = lures[rng.Intn(len(lures))]
		}
		switch s {
		case "..":
			depth--
			if depth < 0 {
				esc = true
			}
		case ".", "":
			weird = true
		default:
			depth++
			if strings.ContainsAny(s, "\\\t\x00 %:") {
				weird = true
			}
		}
		segs = append(segs, s)
	}
	p := "/" + strings.Join(segs, "/") + suffixes[rng.Intn(len(suffixes))]
	class := "plain"
	switch {
	case esc:
		class = "escape"
	case strings.HasPrefix(p, "//"):
		class = "dblslash"
	case weird:
		class = "weird"
	}
	return p, class
}

var _ fs.FS = unionfs.FS(nil)
