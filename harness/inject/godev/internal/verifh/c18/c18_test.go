//go:build verif

// Package c18 binds spec/Storage.tla to the real file-system storage backend
// (godev/internal/storage.FSBucket).
package c18

import (
	"context"
	"crypto/sha256"
	"encoding/hex"
	"errors"
	"fmt"
	"io"
	"io/fs"
	"math/rand"
	"os"
	"path/filepath"
	"sort"
	"strings"
	"testing"
	"time"

	"golang.org/x/telemetry/godev/internal/storage"
	rt "golang.org/x/telemetry/internal/verifrt"
)

// ---------------------------------------------------------------- helpers

// guard runs f, turning a panic into an error and a hang into errHang.
var errHang = errors.New("hang")

func guard(f func() error) (err error) {
	done := make(chan error, 1)
	go func() {
		defer func() {
			if r := recover(); r != nil {
				done <- fmt.Errorf("panic: %v", r)
			}
		}()
		done <- f()
	}()
	select {
	case err = <-done:
		return err
	case <-time.After(20 * time.Second):
		return errHang
	}
}

// source holds the objects that are copied from: an FS bucket below a root of
// its own (outside the tree that is compared with the model), filled directly
// through the file system.
type source struct {
	dir string
	b   storage.BucketHandle
	n   int
}

func newSource(t *testing.T) *source {
	dir := t.TempDir()
	b, err := storage.NewFSBucket(context.Background(), dir, "src")
	if err != nil {
		t.Fatal(err)
	}
	return &source{dir: dir, b: b}
}

func (s *source) object(t *testing.T, data []byte) storage.ObjectHandle {
	s.n++
	name := fmt.Sprintf("o%d", s.n)
	if err := os.WriteFile(filepath.Join(s.dir, "src", name), data, 0666); err != nil {
		t.Fatal(err)
	}
	return s.b.Object(name)
}

// chunks cuts data into the Write calls of one style: "write" two halves,
// "uneven" a short head, a long body and a one-byte tail, "tiny" 7-byte
// writes for the first 700 bytes and the rest in one call. The bytes and
// their order are the same in every style.
func chunks(data []byte, style string) [][]byte {
	switch style {
	case "uneven":
		h := 18
		if h > len(data) {
			h = len(data)
		}
		t := len(data) - 1
		if t < h {
			t = h
		}
		return [][]byte{data[:h], data[h:t], data[t:]}
	case "tiny":
		var cs [][]byte
		i := 0
		for ; i+7 <= len(data) && i < 700; i += 7 {
			cs = append(cs, data[i:i+7])
		}
		return append(cs, data[i:])
	}
	h := len(data) / 2
	return [][]byte{data[:h], data[h:]}
}

// writeObj stores data under name in one of the ways a caller can:
//
//	"write":   NewWriter, Write twice (two halves; for empty data two empty
//	           Writes), Close
//	"uneven", "tiny": as "write" with other chunk sizes (see chunks)
//	"nowrite": NewWriter, Close -- no Write call at all (empty data only)
//	"copy":    storage.Copy from a source object that holds data
func writeObj(t *testing.T, src *source, b storage.BucketHandle, name string, data []byte, style string) error {
	var from storage.ObjectHandle
	if style == "copy" {
		from = src.object(t, data)
	}
	return guard(func() error {
		if style == "copy" {
			if err := storage.Copy(context.Background(), b.Object(name), from); err != nil {
				return fmt.Errorf("Copy: %w", err)
			}
			return nil
		}
		w, err := b.Object(name).NewWriter(context.Background())
		if err != nil {
			return fmt.Errorf("NewWriter: %w", err)
		}
		if style == "nowrite" {
			if len(data) != 0 {
				w.Close()
				return errors.New("harness: nowrite with data")
			}
		} else {
			// several chunks, to notice writers that keep only the last Write
			// or that reorder / coalesce chunks of different sizes
			for _, c := range chunks(data, style) {
				if _, err := w.Write(c); err != nil {
					w.Close()
					return fmt.Errorf("Write: %w", err)
				}
			}
		}
		if err := w.Close(); err != nil {
			return fmt.Errorf("Close: %w", err)
		}
		return nil
	})
}

// copyObj runs storage.Copy between two objects of the buckets under test.
// It returns whether the copy succeeded and, if not, whether the error is
// ErrObjectNotExist; err is set only for a panic or hang.
func copyObj(dst storage.BucketHandle, dname string, src storage.BucketHandle, sname string) (ok, notExist bool, cerr string, err error) {
	err = guard(func() (e error) {
		defer func() {
			if r := recover(); r != nil {
				e = fmt.Errorf("panic: %v", r)
			}
		}()
		ce := storage.Copy(context.Background(), dst.Object(dname), src.Object(sname))
		ok = ce == nil
		if ce != nil {
			notExist = errors.Is(ce, storage.ErrObjectNotExist)
			cerr = ce.Error()
		}
		return nil
	})
	return
}

// readObj returns (data, exists, err): err is nil both for a successful read
// and for a not-exist answer.
func readObj(b storage.BucketHandle, name string) (data []byte, exists bool, err error) {
	err = guard(func() error {
		r, e := b.Object(name).NewReader(context.Background())
		if e != nil {
			if errors.Is(e, storage.ErrObjectNotExist) {
				return nil
			}
			return fmt.Errorf("NewReader: %w", e)
		}
		defer r.Close()
		exists = true
		d, e := io.ReadAll(r)
		if e != nil {
			return fmt.Errorf("ReadAll: %w", e)
		}
		data = d
		return nil
	})
	return
}

func listObjs(b storage.BucketHandle, prefix string) (names []string, err error) {
	err = guard(func() error {
		it := b.Objects(context.Background(), prefix)
		it2 := b.Objects(context.Background(), prefix) // a second listing, consumed after the first
		for i := 0; ; i++ {
			n, e := it.Next()
			if errors.Is(e, storage.ErrObjectIteratorDone) {
				// an exhausted iterator stays exhausted
				for k := 0; k < 2; k++ {
					if n2, e2 := it.Next(); !errors.Is(e2, storage.ErrObjectIteratorDone) {
						return fmt.Errorf("Next after done returned (%q, %v)", n2, e2)
					}
				}
				// the second listing of the same state gives the same names
				for k := 0; ; k++ {
					n2, e2 := it2.Next()
					if errors.Is(e2, storage.ErrObjectIteratorDone) {
						if k != len(names) {
							return fmt.Errorf("two listings of one state differ: %d and %d names", len(names), k)
						}
						return nil
					}
					if e2 != nil {
						return fmt.Errorf("Next: %w", e2)
					}
					if k >= len(names) || names[k] != n2 {
						return fmt.Errorf("two listings of one state differ at %d: %q", k, n2)
					}
				}
			}
			if e != nil {
				return fmt.Errorf("Next: %w", e)
			}
			names = append(names, n)
			if i > 1_000_000 {
				return errors.New("iterator does not end")
			}
		}
	})
	return
}

// snapshot lists every regular file (and any other non-directory entry) below
// dir as slash-separated relative path -> content.
func snapshot(dir string) map[string][]byte {
	out := map[string][]byte{}
	filepath.WalkDir(dir, func(p string, d fs.DirEntry, err error) error {
		if err != nil {
			return nil
		}
		if d.IsDir() { // directories: relative path + "/"
			if rel, _ := filepath.Rel(dir, p); rel != "." {
				out[filepath.ToSlash(rel)+"/"] = nil
			}
			return nil
		}
		rel, _ := filepath.Rel(dir, p)
		data, _ := os.ReadFile(p)
		out[filepath.ToSlash(rel)] = data
		return nil
	})
	return out
}

func hashOf(b []byte) string {
	h := sha256.Sum256(b)
	return hex.EncodeToString(h[:8])
}

// -------------------------------------------------- model -> code: replay

type rstep struct {
	Op     string                       `json:"op"`
	B      string                       `json:"b"`
	Name   string                       `json:"name"`
	Data   string                       `json:"data"`
	Prefix string                       `json:"prefix"`
	Style  string                       `json:"style"`
	Via    int                          `json:"via"`   // which handle of the bucket(s) to use (1 or 2)
	W      string                       `json:"w"`     // writer steps (wopen / wwrite / wclose / wcloseagain / wforget): the writer
	Open   []string                     `json:"open"`  // objects ("bucket/name") that have a writer open after the step: not compared
	SB     string                       `json:"sb"`    // copy: source bucket
	SName  string                       `json:"sname"` // copy: source name
	Exists bool                         `json:"exists"` // read: expected
	Want   string                       `json:"want"`   // read: expected data id
	List   []string                     `json:"list"`   // list: expected names
	Objs   map[string]map[string]string `json:"objs"`   // expected state after the step: bucket -> name -> data id
}

type rbehaviour struct {
	ID      int      `json:"id"`
	Buckets []string `json:"buckets"`
	Steps   []rstep  `json:"steps"`
}

func sameSet(a, b []string) bool {
	if len(a) != len(b) {
		return false
	}
	x := append([]string(nil), a...)
	y := append([]string(nil), b...)
	sort.Strings(x)
	sort.Strings(y)
	for i := range x {
		if x[i] != y[i] {
			return false
		}
	}
	return true
}

// TestVerifC18Replay replays behaviours of Storage.tla (write / read / list
// over two buckets below one storage root) into real FSBuckets and compares
// every result and, after every step, the files on disk with the model state.
func TestVerifC18Replay(t *testing.T) {
	defer rt.Flush()
	var in struct {
		Datas      map[string]string `json:"datas"` // id -> generator spec "len:seed"
		Behaviours []rbehaviour      `json:"behaviours"`
	}
	if err := rt.In(&in); err != nil {
		t.Skip(err)
	}
	datas := map[string][]byte{}
	for id, spec := range in.Datas {
		var n int
		var seed int64
		fmt.Sscanf(spec, "%d:%d", &n, &seed)
		datas[id] = genData(n, seed)
	}
	idOf := func(b []byte) string {
		for id, d := range datas {
			if string(d) == string(b) {
				return id
			}
		}
		return fmt.Sprintf("?len=%d,sha=%s", len(b), hashOf(b))
	}
	matched, steps := 0, 0
	ctx := context.Background()
	src := newSource(t)
	origWD, _ := os.Getwd()
	defer os.Chdir(origWD)
	for _, bh := range in.Behaviours {
		parent := t.TempDir()
		root := filepath.Join(parent, "root")
		os.WriteFile(filepath.Join(parent, "sentinel"), []byte("s"), 0666)
		// every second behaviour names the storage root by a relative path, as
		// the default configuration (".localstorage") does
		if bh.ID%2 == 1 {
			if err := os.Chdir(parent); err != nil {
				t.Fatal(err)
			}
			root = "root"
		}
		// two handles per bucket: the second is opened lazily, after the first
		// has been used (a second process, or a restart)
		handles := map[string][]storage.BucketHandle{}
		good := true
		for _, b := range bh.Buckets {
			h, err := storage.NewFSBucket(ctx, root, b)
			if err != nil {
				rt.Out(rt.M{"kind": "mismatch", "what": "newbucket", "id": bh.ID, "err": err.Error()})
				good = false
				break
			}
			handles[b] = []storage.BucketHandle{h, nil}
		}
		pick := func(b string, via int) storage.BucketHandle {
			if via != 2 {
				return handles[b][0]
			}
			if handles[b][1] == nil {
				h, err := storage.NewFSBucket(ctx, root, b)
				if err != nil {
					t.Fatal(err)
				}
				handles[b][1] = h
			}
			return handles[b][1]
		}
		type openWriter struct {
			wc   io.WriteCloser
			data []byte
			nw   int
		}
		writers := map[string]*openWriter{}
		ndiv := 0
		for i, st := range bh.Steps {
			if !good {
				break
			}
			steps++
			bad := func(what string, extra rt.M) {
				good = false
				m := rt.M{"kind": "mismatch", "what": what, "id": bh.ID, "step": i, "op": st.Op, "b": st.B, "name": st.Name, "prefix": st.Prefix, "data": st.Data, "style": st.Style, "via": st.Via, "relative_root": bh.ID%2 == 1}
				for k, v := range extra {
					m[k] = v
				}
				rt.Out(m)
			}
			switch st.Op {
			case "init":
			case "write":
				if err := writeObj(t, src, pick(st.B, st.Via), st.Name, datas[st.Data], st.Style); err != nil {
					bad("write-error", rt.M{"err": err.Error()})
				}
			case "wopen", "wwrite", "wclose", "wcloseagain", "wforget":
				// one step of a writer's life; several writers are open at the same time
				err := guard(func() error {
					w := writers[st.W]
					switch st.Op {
					case "wopen":
						wc, err := pick(st.B, st.Via).Object(st.Name).NewWriter(ctx)
						if err != nil {
							return fmt.Errorf("NewWriter: %w", err)
						}
						writers[st.W] = &openWriter{wc: wc, data: datas[st.Data]}
					case "wwrite":
						h := len(w.data) / 2
						part := w.data[:h]
						if w.nw == 1 {
							part = w.data[h:]
						}
						w.nw++
						if n, err := w.wc.Write(part); err != nil || n != len(part) {
							return fmt.Errorf("Write: %d of %d bytes, %v", n, len(part), err)
						}
					case "wclose":
						if err := w.wc.Close(); err != nil {
							return fmt.Errorf("Close: %w", err)
						}
					case "wcloseagain":
						w.wc.Close() // whatever it returns
					case "wforget":
						delete(writers, st.W)
					}
					return nil
				})
				if err != nil {
					bad("writer-"+st.Op, rt.M{"err": err.Error(), "w": st.W})
				}
			case "copy":
				ok, _, cerr, err := copyObj(pick(st.B, st.Via), st.Name, pick(st.SB, st.Via), st.SName)
				switch {
				case err != nil:
					bad("copy-error", rt.M{"err": err.Error(), "sb": st.SB, "sname": st.SName})
				case ok != st.Exists:
					bad("copy-result", rt.M{"want_ok": st.Exists, "got_ok": ok, "copy_err": cerr, "sb": st.SB, "sname": st.SName})
				}
			case "read":
				d, ex, err := readObj(pick(st.B, st.Via), st.Name)
				switch {
				case err != nil:
					bad("read-error", rt.M{"err": err.Error(), "want_exists": st.Exists})
				case ex != st.Exists:
					bad("read-exists", rt.M{"want_exists": st.Exists, "got_exists": ex})
				case ex && idOf(d) != st.Want:
					bad("read-data", rt.M{"want": st.Want, "got": idOf(d)})
				}
			case "list":
				names, err := listObjs(pick(st.B, st.Via), st.Prefix)
				if err != nil {
					bad("list-error", rt.M{"err": err.Error()})
				} else if !sameSet(names, st.List) {
					sort.Strings(names)
					bad("list", rt.M{"want": st.List, "got": names})
				}
			}
			if !good {
				break
			}
			// disk projection: exactly one file per stored object, at root/<bucket>/<name>
			want := map[string]string{"sentinel": "sentinel", "root/": "dir"}
			addDirs := func(p string) { // the directories an object at p needs
				for i := strings.LastIndex(p, "/"); i > 0; i = strings.LastIndex(p[:i], "/") {
					want[p[:i+1]] = "dir"
				}
			}
			for _, b := range bh.Buckets {
				want["root/"+b+"/"] = "dir"
			}
			for b, m := range st.Objs {
				for n, d := range m {
					want["root/"+b+"/"+n] = d
					addDirs("root/" + b + "/" + n)
				}
			}
			got := snapshot(parent)
			for _, o := range st.Open { // being written: no claim about what is visible
				delete(want, "root/"+o)
				delete(got, "root/"+o)
				addDirs("root/" + o)
			}
			// A directory inside a bucket's own directory is not an object: the
			// property says nothing about which of them exist, so a surplus or
			// missing one there is a divergence from the model, not a violation.
			insideBucket := func(p string) bool {
				for _, b := range bh.Buckets {
					if strings.HasPrefix(p, "root/"+b+"/") && p != "root/"+b+"/" {
						return true
					}
				}
				return false
			}
			var diffs, divs []string
			for p, d := range got {
				isDir := strings.HasSuffix(p, "/")
				id := "sentinel"
				if isDir {
					id = "dir"
				} else if p != "sentinel" {
					id = idOf(d)
				}
				if w, ok := want[p]; !ok {
					if isDir && insideBucket(p) {
						divs = append(divs, "unexpected directory "+p)
					} else if isDir {
						diffs = append(diffs, "unexpected directory "+p+" outside every bucket")
					} else {
						diffs = append(diffs, "unexpected file "+p)
					}
				} else if w != id {
					diffs = append(diffs, fmt.Sprintf("%s holds %s, want %s", p, id, w))
				}
			}
			for p := range want {
				if _, ok := got[p]; !ok {
					if strings.HasSuffix(p, "/") {
						divs = append(divs, "missing directory "+p)
					} else {
						diffs = append(diffs, "missing file "+p)
					}
				}
			}
			if len(divs) > 0 && ndiv < 20 {
				ndiv++
				sort.Strings(divs)
				if len(divs) > 6 {
					divs = divs[:6]
				}
				rt.Out(rt.M{"kind": "divergence", "id": bh.ID, "step": i, "op": st.Op, "b": st.B, "name": st.Name, "dirs": divs})
			}
			if len(diffs) > 0 {
				sort.Strings(diffs)
				if len(diffs) > 8 {
					diffs = diffs[:8]
				}
				bad("disk", rt.M{"diffs": diffs})
			}
		}
		os.Chdir(origWD)
		if good {
			matched++
		}
	}
	rt.Out(rt.M{"kind": "summary", "behaviours": len(in.Behaviours), "matched": matched, "steps": steps})
}

func genData(n int, seed int64) []byte {
	r := rand.New(rand.NewSource(seed))
	b := make([]byte, n)
	r.Read(b)
	return b
}

// ------------------------------------------- code -> model: random histories

// chars splits a string into its characters (runes), one string each.
func chars(s string) []string {
	out := make([]string, 0, len(s))
	for _, c := range s {
		out = append(out, string(c))
	}
	return out
}

func comps(name string) [][]string {
	var out [][]string
	for _, c := range strings.Split(name, "/") {
		out = append(out, chars(c))
	}
	return out
}

// characters of ordinary components: letters, digits, punctuation that means
// something to shells, globs, URLs or Windows but nothing to a Unix file
// name, blanks, and multi-byte characters
var compChars = []rune("abcxyzABX0123456789-_.+" + "abc012-_." + " ~$%#?*[]:=,;@!&()'\"\\{}^|<>" + "éü日本語")

func randComp(r *rand.Rand) string {
	for {
		n := 1 + r.Intn(4)
		if r.Intn(60) == 0 {
			n = 60 + r.Intn(25) // a long component (at most 84 characters of at most 3 bytes: below the 255-byte limit of a file name)
		}
		var sb strings.Builder
		for i := 0; i < n; i++ {
			sb.WriteRune(compChars[r.Intn(len(compChars))])
		}
		s := sb.String()
		if s != "." && s != ".." {
			return s
		}
	}
}

// lastCompLen is the length in bytes of the last component of a name.
func lastCompLen(n string) int {
	return len(n) - 1 - strings.LastIndex(n, "/")
}

// properPathPrefix reports whether a is a proper component-wise prefix of b.
func properPathPrefix(a, b string) bool {
	return len(a) < len(b) && strings.HasPrefix(b, a+"/")
}

// diskOf lists the complete file tree below the parent of the storage root as
// records (bucket, name components, data id).
func diskOf(parent string, dataID func([]byte) string) []rt.M {
	disk := []rt.M{}
	for p, c := range snapshot(parent) {
		if strings.HasSuffix(p, "/") {
			// a directory: fine at or below root/<bucket>/, reported anywhere else
			if p != "root/" && !(strings.HasPrefix(p, "root/") && strings.Count(p, "/") >= 2) {
				disk = append(disk, rt.M{"b": "<outside:" + p + ">", "name": [][]string{}, "data": "dir"})
			}
			continue
		}
		parts := strings.Split(p, "/")
		if len(parts) >= 3 && parts[0] == "root" {
			var cs [][]string
			for _, c := range parts[2:] {
				cs = append(cs, chars(c))
			}
			disk = append(disk, rt.M{"b": parts[1], "name": cs, "data": dataID(c)})
		} else {
			disk = append(disk, rt.M{"b": "<outside:" + p + ">", "name": [][]string{}, "data": dataID(c)})
		}
	}
	return disk
}

// handlePair gives out one of two handles on the same bucket; the second is
// opened when first asked for (after the first has been used).
type handlePair struct {
	t      *testing.T
	root   string
	bucket string
	r      *rand.Rand
	first  storage.BucketHandle
	second storage.BucketHandle
}

func (p *handlePair) any() storage.BucketHandle {
	if p.r.Intn(2) == 0 {
		return p.first
	}
	if p.second == nil {
		h, err := storage.NewFSBucket(context.Background(), p.root, p.bucket)
		if err != nil {
			p.t.Fatal(err)
		}
		p.second = h
	}
	return p.second
}

// TestVerifC18Random runs random operation histories against real FSBuckets
// and records every operation with its observed result (and, for writes, the
// complete file tree) for validation by StorageTrace.tla.
func TestVerifC18Random(t *testing.T) {
	defer rt.Flush()
	var in struct {
		Histories int `json:"histories"`
		Ops       int `json:"ops"`
	}
	if err := rt.In(&in); err != nil {
		t.Skip(err)
	}
	r := rand.New(rand.NewSource(rt.Seed()*7919 + 18))
	ctx := context.Background()
	nops := 0
	src := newSource(t)
	origWD, _ := os.Getwd()
	defer os.Chdir(origWD)
	for h := 0; h < in.Histories; h++ {
		os.Chdir(origWD)
		parent := t.TempDir()
		root := filepath.Join(parent, "root")
		if h%3 == 1 { // the storage root named by a relative path
			if err := os.Chdir(parent); err != nil {
				t.Fatal(err)
			}
			root = "root"
		}
		bnames := [][]string{{"bk", "bk2"}, {"local-telemetry-uploaded", "local-telemetry-merged"}, {"x", "y"}}[r.Intn(3)]
		bk := map[string]*handlePair{}
		failed := false
		for _, b := range bnames {
			hd, err := storage.NewFSBucket(ctx, root, b)
			if err != nil {
				rt.Out(rt.M{"kind": "obs", "op": "error", "h": h, "err": err.Error()})
				failed = true
				break
			}
			bk[b] = &handlePair{t: t, root: root, bucket: b, r: r, first: hd}
		}
		if failed {
			continue
		}
		rt.Out(rt.M{"kind": "obs", "op": "reset", "h": h, "buckets": bnames})
		// a pool of names that share string prefixes and path prefixes
		var pool []string
		for len(pool) < 6+r.Intn(8) {
			var n string
			switch k := r.Intn(10); {
			case k < 4 || len(pool) == 0:
				d := 1 + r.Intn(3)
				var cs []string
				for i := 0; i < d; i++ {
					cs = append(cs, randComp(r))
				}
				n = strings.Join(cs, "/")
			case k < 6: // string extension of the last component: "a/b" -> "a/bc"
				n = pool[r.Intn(len(pool))] + randComp(r)
			case k < 8: // sibling: same directory
				p := pool[r.Intn(len(pool))]
				if i := strings.LastIndex(p, "/"); i >= 0 {
					n = p[:i+1] + randComp(r)
				} else {
					n = randComp(r)
				}
			default: // path extension (conflicts with its parent; only one of them can be stored)
				n = pool[r.Intn(len(pool))] + "/" + randComp(r)
			}
			if strings.Count(n, "/") <= 4 && lastCompLen(n) <= 255 {
				pool = append(pool, n)
			}
		}
		// service-shaped names
		pool = append(pool, "2023-01-01/0.5.json", "2023-01-01/1e+308.json", "2023-01-08/0.5.json", "2023-01-01.json", "2023-01-01_2023-01-07.json")
		// dots that are not "." or "..", and a component of exactly 255 bytes
		pool = append(pool, ".hidden", "...", "..x/y", "x../..y", "d/...", "d/ ")
		if r.Intn(2) == 0 {
			pool = append(pool, strings.Repeat("L", 255)+"/"+strings.Repeat("m", 255))
		}
		stored := map[string]map[string]bool{}
		for _, b := range bnames {
			stored[b] = map[string]bool{}
		}
		usable := func(b, n string) bool {
			for m := range stored[b] {
				if properPathPrefix(m, n) || properPathPrefix(n, m) {
					return false
				}
			}
			return true
		}
		datas := map[string]string{} // content -> id
		dataID := func(d []byte) string {
			if id, ok := datas[string(d)]; ok {
				return id
			}
			return "?" + hashOf(d)
		}
		for i := 0; i < in.Ops; i++ {
			b := bnames[r.Intn(len(bnames))]
			n := pool[r.Intn(len(pool))]
			switch k := r.Intn(12); {
			case k >= 10: // copy n <- m (same bucket or across), source stored or absent
				sb := bnames[r.Intn(len(bnames))]
				m := pool[r.Intn(len(pool))]
				if r.Intn(3) > 0 && len(stored[sb]) > 0 { // prefer a stored source
					var ks []string
					for x := range stored[sb] {
						ks = append(ks, x)
					}
					sort.Strings(ks)
					m = ks[r.Intn(len(ks))]
				}
				if !usable(b, n) || !usable(sb, m) || (b == sb && n == m) {
					continue
				}
				ok, ne, cerr, err := copyObj(bk[b].any(), n, bk[sb].any(), m)
				rec := rt.M{"kind": "obs", "op": "copy", "h": h, "b": b, "name": comps(n), "sb": sb, "sname": comps(m), "ok": ok && err == nil,
					"notexist": ne, "text": n + " <- " + sb + ":" + m}
				if err != nil {
					rec["err"] = err.Error()
				} else if cerr != "" {
					rec["err"] = cerr
				}
				rec["disk"] = diskOf(parent, dataID)
				rt.Out(rec)
				if ok && err == nil {
					stored[b][n] = true
				}
				nops++
			case k < 4: // write
				if !usable(b, n) {
					continue
				}
				var ln int
				switch r.Intn(8) {
				case 0, 1:
					ln = 0
				case 6:
					ln = []int{1, 32768, 32769, 32767, 65536}[r.Intn(5)] // around the buffer size of io.Copy
				case 2:
					ln = 70000 + r.Intn(70000)
				default:
					ln = 1 + r.Intn(40)
				}
				d := genData(ln, r.Int63())
				id := fmt.Sprintf("d%d", len(datas))
				if old, ok := datas[string(d)]; ok {
					id = old
				}
				datas[string(d)] = id
				style := []string{"write", "copy", "uneven", "tiny"}[r.Intn(4)]
				if ln == 0 {
					style = []string{"nowrite", "nowrite", "write", "copy"}[r.Intn(4)]
				}
				err := writeObj(t, src, bk[b].any(), n, d, style)
				rec := rt.M{"kind": "obs", "op": "write", "h": h, "b": b, "name": comps(n), "data": id, "ok": err == nil, "text": n, "style": style, "empty": ln == 0}
				if err != nil {
					rec["err"] = err.Error()
				}
				rec["disk"] = diskOf(parent, dataID)
				rt.Out(rec)
				stored[b][n] = true
				nops++
			case k < 7: // read
				if !usable(b, n) {
					continue
				}
				d, ex, err := readObj(bk[b].any(), n)
				rec := rt.M{"kind": "obs", "op": "read", "h": h, "b": b, "name": comps(n), "ok": err == nil, "exists": ex, "data": "", "text": n}
				if err != nil {
					rec["err"] = err.Error()
				} else if ex {
					rec["data"] = dataID(d)
				}
				rt.Out(rec)
				nops++
			default: // list
				var p string
				switch r.Intn(6) {
				case 0:
					p = ""
				case 1:
					p = n
				case 2:
					p = n + []string{"/", "x", "0"}[r.Intn(3)]
				case 3:
					p = randComp(r)
				default:
					rs := []rune(n)
					p = string(rs[:r.Intn(len(rs)+1)])
				}
				names, err := listObjs(bk[b].any(), p)
				rec := rt.M{"kind": "obs", "op": "list", "h": h, "b": b, "prefix": chars(p), "ok": err == nil, "text": p}
				if err != nil {
					rec["err"] = err.Error()
				}
				var ns [][][]string
				for _, x := range names {
					ns = append(ns, comps(x))
				}
				if ns == nil {
					ns = [][][]string{}
				}
				rec["names"] = ns
				rt.Out(rec)
				nops++
			}
		}
	}
	rt.Out(rt.M{"kind": "summary", "histories": in.Histories, "ops": nops})
}
