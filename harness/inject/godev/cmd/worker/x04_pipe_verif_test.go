//go:build verif

package main

// X04 (worker pipeline): the real handleCopy / handleMerge / handleChart are
// driven over FS buckets below a fresh directory; after every request the whole
// tree is projected into the vocabulary of spec/WorkerPipe.tla (flat integer
// tuples); anything in the tree that has no meaning in that vocabulary (a file
// outside the buckets, an object with unknown bytes, a duplicated report line,
// a chart whose DateRange does not match its name ...) is reported as "extra".

import (
	"bufio"
	"bytes"
	"context"
	"encoding/json"
	"fmt"
	"io/fs"
	"math/rand"
	"net/http"
	"net/http/httptest"
	"net/url"
	"os"
	"path/filepath"
	"sort"
	"strings"
	"testing"
	"time"

	"golang.org/x/telemetry/godev/internal/config"
	"golang.org/x/telemetry/godev/internal/storage"
	tconfig "golang.org/x/telemetry/internal/config"
	"golang.org/x/telemetry/internal/telemetry"
	rt "golang.org/x/telemetry/internal/verifrt"
)

const x04Prod = "prod-telemetry-uploaded"

var x04Base = time.Date(2023, 2, 26, 0, 0, 0, 0, time.UTC) // day 1 = 2023-02-27, day 3 = 2023-03-01

func x04Date(d int) string { return x04Base.AddDate(0, 0, d).Format("2006-01-02") }
func x04Day(s string) int {
	t, err := time.Parse("2006-01-02", s)
	if err != nil {
		return -1
	}
	return int(t.Sub(x04Base).Hours() / 24)
}
func x04X(d, i int) string { return fmt.Sprintf("0.%02d%d", d, i) }
func x04Name(d, i int) string {
	return x04Date(d) + "/" + x04X(d, i) + ".json"
}

// the bytes of a report: variant 1 = as an uploader writes it, 2 = the bytes in the source bucket
func x04Bytes(d, i, v int) []byte {
	if v == 3 { // an undecodable (cut short) report
		return []byte(fmt.Sprintf(`{"Week":%q,"LastWeek":"","X":%s,"Programs":[{"Progr`, x04Date(d), x04X(d, i)))
	}
	sp := ""
	if v == 2 {
		sp = " "
		if d == 2 && i == 1 { // one source object larger than io.Copy's buffer
			sp = strings.Repeat(" ", 33<<10)
		}
	}
	return []byte(fmt.Sprintf(`{%s"Week":%q,"LastWeek":"","X":%s,"Programs":[{"Program":"cmd/go","Version":"go1.21.0","GoVersion":"go1.21.0","GOOS":"linux","GOARCH":"amd64","Counters":{"r:d%di%d":1}}],"Config":"v1.0.0"}`+"\n",
		sp, x04Date(d), x04X(d, i), d, i))
}

type x04Rq struct {
	Op   string `json:"op"`
	Form string `json:"form"`
	A    int    `json:"a"`
	B    int    `json:"b"`
}

type x04Obs struct {
	Src   [][]int  `json:"src"`
	Up    [][]int  `json:"up"`
	Mg    []int    `json:"mg"`
	Mgc   [][]int  `json:"mgc"`
	Chp   [][]int  `json:"chp"`
	Chc   [][]int  `json:"chc"`
	Extra []string `json:"extra"`
}

type x04World struct {
	root     string
	cfg      *config.Config
	api      *storage.API
	handlers map[string]http.Handler
	nd, ni   int
}

func x04New(t *testing.T, base string, nd, ni int, src [][]int) *x04World {
	dir, err := os.MkdirTemp(base, "w")
	if err != nil {
		t.Fatal(err)
	}
	w := &x04World{root: filepath.Join(dir, "root"), nd: nd, ni: ni}
	os.WriteFile(filepath.Join(dir, "sentinel"), []byte("s"), 0666)
	cfg := config.NewConfig()
	cfg.LocalStorage = w.root
	cfg.ProjectID = ""
	w.cfg = cfg
	api, err := storage.NewAPI(context.Background(), cfg)
	if err != nil {
		t.Fatal(err)
	}
	w.api = api
	var names []string
	for d := 1; d <= nd; d++ {
		for i := 1; i <= ni; i++ {
			names = append(names, fmt.Sprintf("d%di%d", d, i))
		}
	}
	ucfg := tconfig.NewConfig(&telemetry.UploadConfig{
		GOOS: []string{"linux"}, GOARCH: []string{"amd64"}, GoVersion: []string{"go1.21.0"},
		Programs: []*telemetry.ProgramConfig{{Name: "cmd/go", Versions: []string{"go1.21.0"},
			Counters: []telemetry.CounterConfig{{Name: "r:{" + strings.Join(names, ",") + "}", Rate: 1}}}},
	})
	os.MkdirAll(filepath.Join(w.root, x04Prod), 0777)
	for _, p := range src {
		f := filepath.Join(w.root, x04Prod, filepath.FromSlash(x04Name(p[0], p[1])))
		os.MkdirAll(filepath.Dir(f), 0777)
		if err := os.WriteFile(f, x04Bytes(p[0], p[1], 2), 0666); err != nil {
			t.Fatal(err)
		}
	}
	w.handlers = map[string]http.Handler{
		"merge": handleMerge(api),
		"chart": handleChart(ucfg, api),
		"copy":  handleCopy(cfg, api),
	}
	return w
}

var x04Garbage = []string{"x", "2023-2-27", "20230227", "2023-02-30", "2023-02-27T00:00:00Z", " 2023-02-27", "2023-02-27 ", "27-02-2023", "2023-13-01", "0"}

// query concretizes an abstract request; k varies the free choices
func (w *x04World) query(rq x04Rq, k int) url.Values {
	q := url.Values{}
	g := x04Garbage[k%len(x04Garbage)]
	a, b := x04Date(rq.A), x04Date(rq.B)
	switch rq.Form {
	case "ok":
		if rq.Op == "merge" {
			q.Set("date", a)
		} else if rq.A == rq.B && k%2 == 0 {
			q.Set("date", a)
		} else {
			q.Set("start", a)
			q.Set("end", b)
		}
	case "rev":
		q.Set("start", a)
		q.Set("end", b)
	case "date+start":
		q.Set("date", a)
		q.Set("start", a)
		if k%3 == 0 {
			q.Set("end", a)
		}
	case "date+end":
		q.Set("date", a)
		q.Set("end", a)
	case "baddate":
		q.Set("date", g)
	case "badstart":
		q.Set("start", g)
		q.Set("end", a)
	case "badend":
		q.Set("start", a)
		q.Set("end", g)
	case "nostart":
		q.Set("end", a)
	case "noend":
		q.Set("start", a)
	case "none":
		if k%2 == 0 {
			q.Set("other", a)
		}
	}
	return q
}

// do performs one request; returns the answer class
func (w *x04World) do(rq x04Rq, k int) (code string, status int, perr string) {
	if rq.Op == "upload" {
		wr, err := w.api.Upload.Object(x04Name(rq.A, rq.B)).NewWriter(context.Background())
		if err != nil {
			return "5xx", 0, err.Error()
		}
		v := 1
		if rq.Form == "broken" {
			v = 3
		}
		wr.Write(x04Bytes(rq.A, rq.B, v))
		wr.Close()
		return "ok", 200, ""
	}
	h := w.handlers[rq.Op]
	rec := httptest.NewRecorder()
	func() {
		defer func() {
			if e := recover(); e != nil {
				perr = fmt.Sprint(e)
			}
		}()
		req := httptest.NewRequest("GET", "/"+rq.Op+"/?"+w.query(rq, k).Encode(), nil)
		h.ServeHTTP(rec, req)
	}()
	status = rec.Code
	switch {
	case perr != "":
		code = "panic"
	case status >= 200 && status < 300:
		code = "ok"
	case status >= 400 && status < 500:
		code = "4xx"
	default:
		code = "5xx"
	}
	return
}

func x04SortT(x [][]int) [][]int {
	sort.Slice(x, func(i, j int) bool {
		for k := range x[i] {
			if x[i][k] != x[j][k] {
				return x[i][k] < x[j][k]
			}
		}
		return false
	})
	if x == nil {
		x = [][]int{}
	}
	return x
}

// which report is this (by its counter), 0,0 if none of ours
func x04Ident(r *telemetry.Report) (int, int) {
	if len(r.Programs) != 1 || len(r.Programs[0].Counters) != 1 {
		return 0, 0
	}
	for c, v := range r.Programs[0].Counters {
		var d, i int
		if n, _ := fmt.Sscanf(c, "r:d%di%d", &d, &i); n == 2 && v == 1 && r.Week == x04Date(d) && fmt.Sprint(r.X) == x04X(d, i) {
			return d, i
		}
	}
	return 0, 0
}

func (w *x04World) observe() x04Obs {
	o := x04Obs{Mg: []int{}, Extra: []string{}}
	parent := filepath.Dir(w.root)
	filepath.WalkDir(parent, func(p string, de fs.DirEntry, err error) error {
		if err != nil || de.IsDir() {
			return nil
		}
		rel, _ := filepath.Rel(parent, p)
		rel = filepath.ToSlash(rel)
		if rel == "sentinel" {
			if b, _ := os.ReadFile(p); string(b) != "s" {
				o.Extra = append(o.Extra, "sentinel changed")
			}
			return nil
		}
		data, _ := os.ReadFile(p)
		parts := strings.Split(rel, "/")
		bad := func(why string) { o.Extra = append(o.Extra, rel+": "+why) }
		if len(parts) < 3 || parts[0] != "root" {
			bad("file outside the buckets")
			return nil
		}
		switch parts[1] {
		case x04Prod, w.cfg.UploadBucket:
			d := -1
			var i int
			if len(parts) == 4 {
				d = x04Day(parts[2])
				for j := 1; j <= w.ni; j++ {
					if d >= 1 && parts[3] == x04X(d, j)+".json" {
						i = j
					}
				}
			}
			if i == 0 {
				bad("unexpected object name")
				return nil
			}
			v := 0
			for _, c := range []int{1, 2, 3} {
				if bytes.Equal(data, x04Bytes(d, i, c)) {
					v = c
				}
			}
			if v == 0 {
				bad(fmt.Sprintf("object bytes are neither variant (%d bytes)", len(data)))
				return nil
			}
			if parts[1] == x04Prod {
				if v != 2 {
					bad("source object changed")
				}
				o.Src = append(o.Src, []int{d, i})
			} else {
				o.Up = append(o.Up, []int{d, i, v})
			}
		case w.cfg.MergedBucket:
			d := -1
			if len(parts) == 3 && strings.HasSuffix(parts[2], ".json") {
				d = x04Day(strings.TrimSuffix(parts[2], ".json"))
			}
			if d < 1 {
				bad("unexpected merged object name")
				return nil
			}
			o.Mg = append(o.Mg, d)
			if len(data) > 0 && data[len(data)-1] != '\n' {
				bad("merged object does not end in a newline")
			}
			seen := map[[2]int]bool{}
			sc := bufio.NewScanner(bytes.NewReader(data))
			sc.Buffer(nil, 1<<20)
			for sc.Scan() {
				var r telemetry.Report
				if err := json.Unmarshal(sc.Bytes(), &r); err != nil {
					bad("merged line does not decode: " + err.Error())
					continue
				}
				rd, ri := x04Ident(&r)
				if rd == 0 {
					bad("merged line is not one of the uploaded reports")
					continue
				}
				if seen[[2]int{rd, ri}] {
					bad(fmt.Sprintf("report d%di%d occurs twice in the merged object", rd, ri))
					continue
				}
				seen[[2]int{rd, ri}] = true
				if rd != d {
					bad(fmt.Sprintf("report of day %d in the merged object of day %d", rd, d))
				}
				o.Mgc = append(o.Mgc, []int{rd, ri}) // listed under the day of the OBJECT below
				o.Mgc[len(o.Mgc)-1][0] = d
			}
		case w.cfg.ChartDataBucket:
			s, e := -1, -1
			if len(parts) == 3 && strings.HasSuffix(parts[2], ".json") {
				nm := strings.TrimSuffix(parts[2], ".json")
				if a, b, ok := strings.Cut(nm, "_"); ok {
					s, e = x04Day(a), x04Day(b)
					if s >= e {
						s = -1
					}
				} else {
					s = x04Day(nm)
					e = s
				}
			}
			if s < 1 || e < 1 {
				bad("unexpected chart object name")
				return nil
			}
			var cd chartdata
			if err := json.Unmarshal(data, &cd); err != nil {
				bad("chart object does not decode: " + err.Error())
				return nil
			}
			o.Chp = append(o.Chp, []int{s, e})
			if cd.DateRange != [2]string{x04Date(s), x04Date(e)} {
				bad(fmt.Sprintf("chart DateRange %v does not match its name", cd.DateRange))
			}
			cnt := 0
			for _, pr := range cd.Programs {
				for _, c := range pr.Charts {
					if c.Name != "r" {
						continue
					}
					for _, dt := range c.Data {
						var d, i int
						if n, _ := fmt.Sscanf(dt.Key, "d%di%d", &d, &i); n != 2 {
							bad("chart key " + dt.Key)
							continue
						}
						if dt.Value == 0 {
							continue
						}
						if dt.Value != 1 {
							bad(fmt.Sprintf("chart value %v for %s", dt.Value, dt.Key))
						}
						cnt++
						o.Chc = append(o.Chc, []int{s, e, d, i})
					}
				}
			}
			if cd.NumReports != cnt {
				bad(fmt.Sprintf("chart NumReports %d but %d reports plotted", cd.NumReports, cnt))
			}
		default:
			bad("file in an unknown bucket")
		}
		return nil
	})
	o.Src, o.Up, o.Mgc, o.Chp, o.Chc = x04SortT(o.Src), x04SortT(o.Up), x04SortT(o.Mgc), x04SortT(o.Chp), x04SortT(o.Chc)
	sort.Ints(o.Mg)
	return o
}

func x04TmpBase(t *testing.T) string {
	base := os.Getenv("X04_TMP")
	if base == "" {
		base = t.TempDir()
	}
	return base
}

// model -> code: behaviours of WorkerPipe.tla replayed step by step
func TestVerifX04Replay(t *testing.T) {
	defer rt.Flush()
	var in struct {
		ND         int `json:"nd"`
		NI         int `json:"ni"`
		Behaviours []struct {
			ID    int     `json:"id"`
			Src   [][]int `json:"src"`
			Steps []x04Rq `json:"steps"`
		} `json:"behaviours"`
	}
	if err := rt.In(&in); err != nil {
		t.Skip(err)
	}
	base := x04TmpBase(t)
	n := 0
	for _, b := range in.Behaviours {
		w := x04New(t, base, in.ND, in.NI, b.Src)
		obs := []rt.M{{"code": "ok", "obs": w.observe()}}
		for k, rq := range b.Steps {
			code, status, perr := w.do(rq, k+b.ID)
			obs = append(obs, rt.M{"code": code, "status": status, "panic": perr, "obs": w.observe(), "query": w.query(rq, k+b.ID).Encode()})
			n++
		}
		rt.Out(rt.M{"kind": "beh", "id": b.ID, "steps": obs})
		os.RemoveAll(filepath.Dir(w.root))
	}
	rt.Out(rt.M{"kind": "summary", "requests": n})
}

// code -> model: random histories, each request recorded with the state before and after
func TestVerifX04Random(t *testing.T) {
	defer rt.Flush()
	var in struct {
		ND        int `json:"nd"`
		NI        int `json:"ni"`
		Histories int `json:"histories"`
		Len       int `json:"len"`
	}
	if err := rt.In(&in); err != nil {
		t.Skip(err)
	}
	rng := rand.New(rand.NewSource(rt.Seed()*7919 + 4))
	base := x04TmpBase(t)
	bad := []string{"date+start", "date+end", "baddate", "badstart", "badend", "nostart", "noend", "none"}
	n := 0
	for h := 0; h < in.Histories; h++ {
		var src [][]int
		for d := 1; d <= in.ND; d++ {
			for i := 1; i <= in.NI; i++ {
				if rng.Intn(2) == 0 {
					src = append(src, []int{d, i})
				}
			}
		}
		w := x04New(t, base, in.ND, in.NI, src)
		pre := w.observe()
		for k := 0; k < in.Len; k++ {
			var rq x04Rq
			a, b := 1+rng.Intn(in.ND), 1+rng.Intn(in.ND)
			if a > b && rng.Intn(4) != 0 {
				a, b = b, a
			}
			switch c := rng.Intn(10); {
			case c < 3:
				rq = x04Rq{"upload", "ok", a, 1 + rng.Intn(in.NI)}
			case c < 5:
				rq = x04Rq{"merge", "ok", a, a}
			case c < 7:
				rq = x04Rq{"copy", "ok", a, b}
			default:
				rq = x04Rq{"chart", "ok", a, b}
			}
			if rq.Op != "upload" {
				if rq.Op != "merge" && a > b {
					rq.Form = "rev"
				} else if rng.Intn(6) == 0 {
					rq.Form = bad[rng.Intn(len(bad))]
					if rq.Op == "merge" {
						rq.Form = []string{"baddate", "none"}[rng.Intn(2)]
					}
					rq.B = rq.A
				}
			}
			kk := rng.Intn(1000)
			code, status, perr := w.do(rq, kk)
			post := w.observe()
			rt.Out(rt.M{"kind": "obs", "h": h, "k": k, "rq": rq, "code": code, "status": status, "panic": perr,
				"pre": pre, "post": post, "extra": len(post.Extra) + len(pre.Extra), "extras": post.Extra, "query": w.query(rq, kk).Encode()})
			pre = post
			n++
		}
		os.RemoveAll(filepath.Dir(w.root))
	}
	rt.Out(rt.M{"kind": "summary", "requests": n})
}

// G5: a merge that fails on an undecodable uploaded object must leave the buckets as they were
func TestVerifX04Fail(t *testing.T) {
	defer rt.Flush()
	var in struct {
		NI int `json:"ni"`
	}
	if err := rt.In(&in); err != nil {
		t.Skip(err)
	}
	base := x04TmpBase(t)
	n := 0
	for prior := 0; prior < 2; prior++ {
		for day := 1; day <= 2; day++ {
			for k := 1; k <= in.NI; k++ {
				w := x04New(t, base, 2, in.NI, nil)
				for i := 1; i <= in.NI; i++ {
					w.do(x04Rq{"upload", "ok", day, i}, 0)
				}
				w.do(x04Rq{"upload", "ok", 3 - day, 1}, 0)
				if prior == 1 {
					w.do(x04Rq{"merge", "ok", day, day}, 0)
				}
				w.do(x04Rq{"upload", "broken", day, k}, 0)
				pre := w.observe()
				rq := x04Rq{"merge", "ok", day, day}
				code, status, perr := w.do(rq, 0)
				post := w.observe()
				rt.Out(rt.M{"kind": "obs", "prior": prior, "broken": k, "rq": rq, "code": code, "status": status, "panic": perr,
					"pre": pre, "post": post, "extra": len(post.Extra) + len(pre.Extra), "extras": post.Extra})
				n++
				os.RemoveAll(filepath.Dir(w.root))
			}
		}
	}
	// a chart over a day whose merged object holds a line that does not decode
	for prior := 0; prior < 2; prior++ {
		for _, rg := range [][2]int{{1, 2}, {2, 2}} {
			w := x04New(t, base, 2, in.NI, nil)
			for i := 1; i <= in.NI; i++ {
				w.do(x04Rq{"upload", "ok", 1, i}, 0)
				w.do(x04Rq{"upload", "ok", 2, i}, 0)
			}
			w.do(x04Rq{"merge", "ok", 1, 1}, 0)
			w.do(x04Rq{"merge", "ok", 2, 2}, 0)
			if prior == 1 {
				w.do(x04Rq{"chart", "ok", rg[0], rg[1]}, 1)
			}
			w.do(x04Rq{"upload", "ok", 2, 1}, 0)
			f, err := os.OpenFile(filepath.Join(w.root, w.cfg.MergedBucket, x04Date(2)+".json"), os.O_WRONLY|os.O_APPEND, 0666)
			if err != nil {
				t.Fatal(err)
			}
			f.Write(x04Bytes(2, 1, 3))
			f.Write([]byte("\n"))
			f.Close()
			pre := w.observe()
			pre.Extra = []string{} // the undecodable line is the scenario
			rq := x04Rq{"chart", "ok", rg[0], rg[1]}
			code, status, perr := w.do(rq, 1)
			post := w.observe()
			var extras []string
			for _, e := range post.Extra {
				if !strings.Contains(e, "merged line does not decode") {
					extras = append(extras, e)
				}
			}
			rt.Out(rt.M{"kind": "obs", "what": "undecodable-merged-line", "prior": prior, "broken": 1, "rq": rq, "code": code, "status": status, "panic": perr,
				"pre": pre, "post": post, "extra": len(extras), "extras": extras})
			n++
			os.RemoveAll(filepath.Dir(w.root))
		}
	}
	rt.Out(rt.M{"kind": "summary", "requests": n})
}
