//go:build verif

package main

// C18 (service-name clause): the object names the merge and chart services
// construct resolve inside their bucket's directory, whatever the request
// parameters are. The real handlers run over FS buckets below a private
// storage root; the complete file tree of the root's parent is compared before
// and after every request.

import (
	"bytes"
	"context"
	"fmt"
	"io/fs"
	"net/http"
	"net/http/httptest"
	"net/url"
	"os"
	"path/filepath"
	"sort"
	"strings"
	"testing"

	"golang.org/x/telemetry/godev/internal/config"
	"golang.org/x/telemetry/godev/internal/storage"
	tconfig "golang.org/x/telemetry/internal/config"
	"golang.org/x/telemetry/internal/telemetry"
	rt "golang.org/x/telemetry/internal/verifrt"
)

func c18Snapshot(dir string) map[string][]byte {
	out := map[string][]byte{}
	filepath.WalkDir(dir, func(p string, d fs.DirEntry, err error) error {
		if err != nil {
			return nil
		}
		if d.IsDir() { // directories count too: relative path + "/"
			if rel, _ := filepath.Rel(dir, p); rel != "." {
				out[filepath.ToSlash(rel)+"/"] = nil
			}
			return nil
		}
		rel, _ := filepath.Rel(dir, p)
		data, _ := os.ReadFile(p)
		out[filepath.ToSlash(rel)] = data
		return nil
	})
	return out
}

func c18Diff(before, after map[string][]byte) (created, changed, removed []string) {
	for p, d := range after {
		if o, ok := before[p]; !ok {
			created = append(created, p)
		} else if !bytes.Equal(o, d) {
			changed = append(changed, p)
		}
	}
	for p := range before {
		if _, ok := after[p]; !ok {
			removed = append(removed, p)
		}
	}
	sort.Strings(created)
	sort.Strings(changed)
	sort.Strings(removed)
	return
}

// c18RecBucket is a BucketHandle that logs every name a handler constructs
// (Object) and every listing prefix (Objects) before passing it on to the real
// FS bucket.
type c18RecBucket struct {
	storage.BucketHandle
	label string // which bucket of the service
	dir   string // the bucket's directory
	log   *[]rt.M
}

func (b *c18RecBucket) Object(name string) storage.ObjectHandle {
	*b.log = append(*b.log, rt.M{"call": "Object", "bucket": b.label, "base": b.dir, "name": name})
	return b.BucketHandle.Object(name)
}

func (b *c18RecBucket) Objects(ctx context.Context, prefix string) storage.ObjectIterator {
	*b.log = append(*b.log, rt.M{"call": "Objects", "bucket": b.label, "base": b.dir, "name": prefix})
	return b.BucketHandle.Objects(ctx, prefix)
}

func TestVerifC18Worker(t *testing.T) {
	defer rt.Flush()
	var in struct {
		Requests []struct {
			Svc   string            `json:"svc"`
			Query map[string]string `json:"query"`
		} `json:"requests"`
	}
	if err := rt.In(&in); err != nil {
		t.Skip(err)
	}
	ctx := context.Background()
	parent := t.TempDir()
	root := filepath.Join(parent, "root")
	if err := os.WriteFile(filepath.Join(parent, "sentinel"), []byte("s"), 0666); err != nil {
		t.Fatal(err)
	}
	cfg := config.NewConfig()
	cfg.LocalStorage = root
	cfg.ProjectID = ""
	buckets, err := storage.NewAPI(ctx, cfg)
	if err != nil {
		t.Fatal(err)
	}
	ucfg := tconfig.NewConfig(&telemetry.UploadConfig{
		GOOS: []string{"linux"}, GOARCH: []string{"amd64"}, GoVersion: []string{"go1.21.0"},
		Programs: []*telemetry.ProgramConfig{{Name: "cmd/go", Versions: []string{"go1.21.0"},
			Counters: []telemetry.CounterConfig{{Name: "main", Rate: 1}}}},
	})
	// some uploaded reports so that merges and charts have content
	for _, n := range []string{"2023-01-01/0.5.json", "2023-01-02/0.25.json", "2023-01-03/0.75.json", "2024-02-29/0.5.json"} {
		week, _, _ := strings.Cut(n, "/")
		w, err := buckets.Upload.Object(n).NewWriter(ctx)
		if err != nil {
			t.Fatal(err)
		}
		fmt.Fprintf(w, `{"Week":%q,"LastWeek":"","X":0.5,"Programs":[{"Program":"cmd/go","Version":"go1.21.0","GoVersion":"go1.21.0","GOOS":"linux","GOARCH":"amd64","Counters":{"main":1}}],"Config":"v1.0.0"}`+"\n", week)
		if err := w.Close(); err != nil {
			t.Fatal(err)
		}
	}
	// the handlers get recording buckets around the real ones
	var names []rt.M
	absRoot, _ := filepath.Abs(root)
	wrap := func(label string, b storage.BucketHandle, bucket string) storage.BucketHandle {
		return &c18RecBucket{b, label, filepath.Join(absRoot, bucket), &names}
	}
	recAPI := &storage.API{
		Upload: wrap("upload", buckets.Upload, cfg.UploadBucket),
		Merge:  wrap("merge", buckets.Merge, cfg.MergedBucket),
		Chart:  wrap("chart", buckets.Chart, cfg.ChartDataBucket),
	}
	// source of the copy service (the handler opens it itself, by this name)
	os.MkdirAll(filepath.Join(root, "prod-telemetry-uploaded", "2023-01-05"), 0777)
	os.WriteFile(filepath.Join(root, "prod-telemetry-uploaded", "2023-01-05", "0.5.json"), []byte(`{"Week":"2023-01-05","X":0.5}`+"\n"), 0666)
	handlers := map[string]http.Handler{
		"merge": handleMerge(recAPI),
		"chart": handleChart(ucfg, recAPI),
		"copy":  handleCopy(cfg, recAPI),
	}
	allowed := map[string]string{
		"merge": "root/" + cfg.MergedBucket + "/",
		"chart": "root/" + cfg.ChartDataBucket + "/",
		"copy":  "root/" + cfg.UploadBucket + "/",
	}
	n := 0
	for _, rq := range in.Requests {
		h := handlers[rq.Svc]
		if h == nil {
			continue
		}
		q := url.Values{}
		for k, v := range rq.Query {
			q.Set(k, v)
		}
		before := c18Snapshot(parent)
		names = nil
		rec := httptest.NewRecorder()
		var perr any
		func() {
			defer func() { perr = recover() }()
			req := httptest.NewRequest("GET", "/"+rq.Svc+"/?"+q.Encode(), nil)
			h.ServeHTTP(rec, req)
		}()
		n++
		if perr != nil {
			rt.Out(rt.M{"kind": "panic", "svc": rq.Svc, "query": rq.Query, "err": fmt.Sprint(perr)})
		}
		created, changed, removed := c18Diff(before, c18Snapshot(parent))
		var esc []string
		for _, p := range append(append(append([]string{}, created...), changed...), removed...) {
			if !strings.HasPrefix(p, allowed[rq.Svc]) {
				esc = append(esc, p)
			}
		}
		if len(esc) > 0 {
			rt.Out(rt.M{"kind": "escape", "svc": rq.Svc, "query": rq.Query, "paths": esc, "status": rec.Code})
		}
		for _, nm := range names {
			nm["kind"], nm["svc"], nm["handler"], nm["req"] = "name", "worker", rq.Svc, "/"+rq.Svc+"/?"+q.Encode()
			rt.Out(nm)
		}
		rt.Out(rt.M{"kind": "req", "svc": rq.Svc, "query": rq.Query, "status": rec.Code, "created": created, "changed": changed})
	}
	rt.Out(rt.M{"kind": "summary", "requests": n})
}
