//go:build verif

package main

// Harness of property C13 (merging and charting).  It is a thin executor: the
// Python driver sends scenarios (sequences of upload / merge / chart / permute
// steps over three file-system buckets), the harness runs the REAL handlers
// (handleMerge, handleChart) and reports what can be observed from outside:
// status codes, the merged object (line lengths and, for every line, which of
// the stored reports it equals -- decided by an independent decoder) and the
// chart objects written.

import (
	"bytes"
	"context"
	"encoding/json"
	"fmt"
	"math/rand"
	"net/http"
	"net/http/httptest"
	"os"
	"path/filepath"
	"sort"
	"strings"
	"syscall"
	"testing"
	"time"

	"golang.org/x/telemetry/godev/internal/storage"
	tconfig "golang.org/x/telemetry/internal/config"
	"golang.org/x/telemetry/internal/telemetry"
	rt "golang.org/x/telemetry/internal/verifrt"
)

type c13Step struct {
	Op    string `json:"op"` // upload | merge | chart | permute
	Day   string `json:"day"`
	Name  string `json:"name"`
	Body  int    `json:"body"` // index into Bodies
	Start string `json:"start"`
	End   string `json:"end"`
	Form  string `json:"form"` // chart: "date" or "range"
	Order   []int `json:"order"`   // permute: wanted sequence of body indices of the merged lines
	Shuffle int64 `json:"shuffle"` // permute: if non-zero, shuffle the lines with this seed instead
	Rep   int    `json:"rep"`  // chart: number of repetitions (outputs must be identical)
}

type c13Scenario struct {
	ID     int             `json:"id"`
	Nofile uint64          `json:"nofile"` // if > 0: soft RLIMIT_NOFILE while the handlers of this scenario run
	Config json.RawMessage `json:"config"`
	Steps  []c13Step       `json:"steps"`
}

type c13In struct {
	Bodies    []string      `json:"bodies"`
	Scenarios []c13Scenario `json:"scenarios"`
}

// vProg / vReport: the harness' own reading of a stored report (documented
// JSON field names; nil and empty maps are the same thing).
type vProg struct {
	Program, Version, GoVersion, GOOS, GOARCH string
	Counters, Stacks                          map[string]int64
}
type vReport struct {
	Week, LastWeek string
	X              json.Number
	Programs       []*vProg
	Config         string
}

func c13Canon(data []byte) (string, error) {
	var r vReport
	dec := json.NewDecoder(bytes.NewReader(data))
	dec.UseNumber()
	if err := dec.Decode(&r); err != nil {
		return "", err
	}
	var sb strings.Builder
	x, _ := r.X.Float64()
	fmt.Fprintf(&sb, "W=%q L=%q X=%x C=%q", r.Week, r.LastWeek, x, r.Config)
	for _, p := range r.Programs {
		if p == nil {
			sb.WriteString(" P=nil")
			continue
		}
		fmt.Fprintf(&sb, " P=%q %q %q %q %q", p.Program, p.Version, p.GoVersion, p.GOOS, p.GOARCH)
		for _, m := range []map[string]int64{p.Counters, p.Stacks} {
			keys := make([]string, 0, len(m))
			for k := range m {
				keys = append(keys, k)
			}
			sort.Strings(keys)
			sb.WriteString(" {")
			for _, k := range keys {
				fmt.Fprintf(&sb, "%q:%d,", k, m[k])
			}
			sb.WriteString("}")
		}
	}
	return sb.String(), nil
}

type c13World struct {
	dir    string
	api    *storage.API
	ucfg   *tconfig.Config
	mergeH http.Handler
	chartH http.Handler
}

// the task queue POSTs; a developer's browser GETs: the handlers accept both
func c13Method(n int) string {
	if n%3 == 0 {
		return "GET"
	}
	return "POST"
}

func c13NewWorld(t *testing.T, cfgJSON []byte) (*c13World, error) {
	dir, err := os.MkdirTemp("", "c13-")
	if err != nil {
		return nil, err
	}
	ctx := context.Background()
	up, err := storage.NewFSBucket(ctx, dir, "uploaded")
	if err != nil {
		return nil, err
	}
	mg, err := storage.NewFSBucket(ctx, dir, "merged")
	if err != nil {
		return nil, err
	}
	ch, err := storage.NewFSBucket(ctx, dir, "charted")
	if err != nil {
		return nil, err
	}
	var uc telemetry.UploadConfig
	if err := json.Unmarshal(cfgJSON, &uc); err != nil {
		return nil, err
	}
	w := &c13World{dir: dir, api: &storage.API{Upload: up, Merge: mg, Chart: ch}, ucfg: tconfig.NewConfig(&uc)}
	w.mergeH = handleMerge(w.api)
	w.chartH = handleChart(w.ucfg, w.api)
	return w, nil
}

type c13Resp struct {
	code  int
	body  string
	panic string
	hang  bool
}

// c13Nofile is the soft limit on open files under which the next handler call
// runs (0: unchanged).  The property quantifies over any number of reports per
// day; a server process has a bounded number of descriptors, and merging a day
// must not need more of them the more reports there are.
var c13Nofile uint64

func c13Call(fn func(w *httptest.ResponseRecorder)) c13Resp {
	if c13Nofile > 0 {
		var old syscall.Rlimit
		if err := syscall.Getrlimit(syscall.RLIMIT_NOFILE, &old); err == nil && old.Cur > c13Nofile {
			if err := syscall.Setrlimit(syscall.RLIMIT_NOFILE, &syscall.Rlimit{Cur: c13Nofile, Max: old.Max}); err == nil {
				defer syscall.Setrlimit(syscall.RLIMIT_NOFILE, &old)
			}
		}
	}
	done := make(chan c13Resp, 1)
	go func() {
		var res c13Resp
		defer func() {
			if p := recover(); p != nil {
				res.panic = fmt.Sprint(p)
			}
			done <- res
		}()
		w := httptest.NewRecorder()
		fn(w)
		res.code = w.Code
		res.body = w.Body.String()
	}()
	select {
	case r := <-done:
		return r
	case <-time.After(30 * time.Second):
		return c13Resp{hang: true}
	}
}

// c13Merged reads the merged object of a day: its lines, and for every line
// its length and the index of the stored body of that day it equals (-1: none).
func c13Merged(w *c13World, day string, ever map[int]bool, canonBodies []string) (ls []string, info []rt.M, exists, endsNL bool) {
	data, err := os.ReadFile(filepath.Join(w.dir, "merged", day+".json"))
	if err != nil {
		return nil, nil, false, false
	}
	// candidates: every body ever stored under this day (an object may have
	// been replaced after the merge)
	var want []int
	for bi := range ever {
		want = append(want, bi)
	}
	sort.Ints(want)
	text := string(data)
	endsNL = text == "" || strings.HasSuffix(text, "\n")
	text = strings.TrimSuffix(text, "\n")
	info = []rt.M{}
	if text != "" {
		ls = strings.Split(text, "\n")
	}
	for _, ln := range ls {
		m := -1
		if c, err := c13Canon([]byte(ln)); err == nil {
			for _, bi := range want {
				if canonBodies[bi] == c {
					m = bi
					break
				}
			}
		}
		info = append(info, rt.M{"len": len(ln), "match": m})
	}
	return ls, info, true, endsNL
}

func TestVerifC13(t *testing.T) {
	defer rt.Flush()
	var in c13In
	if err := rt.In(&in); err != nil {
		t.Skip(err)
	}
	canonBodies := make([]string, len(in.Bodies))
	for i, b := range in.Bodies {
		c, err := c13Canon([]byte(b))
		if err != nil {
			t.Fatalf("body %d is not a report: %v", i, err)
		}
		canonBodies[i] = c
	}
	nsteps := 0
	for _, sc := range in.Scenarios {
		w, err := c13NewWorld(t, sc.Config)
		if err != nil {
			t.Fatal(err)
		}
		c13Nofile = sc.Nofile
		stored := map[string]map[string]int{} // day -> object name -> body index
		ever := map[string]map[int]bool{}     // day -> body indices ever stored
		dead := false
		for si, st := range sc.Steps {
			if dead {
				break
			}
			nsteps++
			rec := rt.M{"kind": "step", "sc": sc.ID, "step": si, "op": st.Op}
			switch st.Op {
			case "upload":
				// what the upload server does after validation: <week>/<name>.json
				p := filepath.Join(w.dir, "uploaded", st.Day, st.Name)
				if err := os.MkdirAll(filepath.Dir(p), 0777); err != nil {
					t.Fatal(err)
				}
				if err := os.WriteFile(p, []byte(in.Bodies[st.Body]), 0666); err != nil {
					t.Fatal(err)
				}
				if stored[st.Day] == nil {
					stored[st.Day] = map[string]int{}
				}
				stored[st.Day][st.Name] = st.Body
				if ever[st.Day] == nil {
					ever[st.Day] = map[int]bool{}
				}
				ever[st.Day][st.Body] = true
				continue // nothing to observe
			case "merge":
				h := w.mergeH // one handler value serves every request, as in the real server
				r := c13Call(func(rw *httptest.ResponseRecorder) {
					h.ServeHTTP(rw, httptest.NewRequest(c13Method(sc.ID+si), "/merge/?date="+st.Day, nil))
				})
				rec["code"], rec["resp"], rec["panic"], rec["hang"] = r.code, r.body, r.panic, r.hang
				dead = r.hang
				rec["day"] = st.Day
				// the stored reports of the day (by body index, sorted)
				var want []int
				for _, bi := range stored[st.Day] {
					want = append(want, bi)
				}
				sort.Ints(want)
				rec["stored"] = want
				_, info, exists, endsNL := c13Merged(w, st.Day, ever[st.Day], canonBodies)
				rec["exists"], rec["endsnl"] = exists, endsNL
				if info == nil {
					info = []rt.M{}
				}
				rec["lines"] = info
			case "permute":
				ls, info, exists, _ := c13Merged(w, st.Day, ever[st.Day], canonBodies)
				if !exists || len(ls) < 2 {
					continue
				}
				var out []string
				if st.Shuffle != 0 {
					out = append(out, ls...)
					r := rand.New(rand.NewSource(st.Shuffle))
					r.Shuffle(len(out), func(i, j int) { out[i], out[j] = out[j], out[i] })
				} else {
					used := make([]bool, len(ls))
					for _, bi := range st.Order {
						for k := range ls {
							if !used[k] && info[k]["match"] == bi {
								used[k] = true
								out = append(out, ls[k])
								break
							}
						}
					}
					if len(out) != len(ls) {
						continue // the merge was already reported as wrong; keep the file
					}
				}
				if err := os.WriteFile(filepath.Join(w.dir, "merged", st.Day+".json"), []byte(strings.Join(out, "\n")+"\n"), 0666); err != nil {
					t.Fatal(err)
				}
				continue
			case "chart":
				q := "start=" + st.Start + "&end=" + st.End
				if st.Form == "date" && st.Start == st.End {
					q = "date=" + st.Start
				}
				rep := st.Rep
				if rep < 1 {
					rep = 1
				}
				cdir := filepath.Join(w.dir, "charted")
				var outs []rt.M
				for k := 0; k < rep && !dead; k++ {
					// age the existing chart objects so that a rewrite (even with
					// identical content) is visible afterwards
					old := time.Unix(1000000000, 0)
					filepath.Walk(cdir, func(p string, info os.FileInfo, err error) error {
						if err == nil && !info.IsDir() {
							os.Chtimes(p, old, old)
						}
						return nil
					})
					h := w.chartH
					r := c13Call(func(rw *httptest.ResponseRecorder) {
						h.ServeHTTP(rw, httptest.NewRequest(c13Method(sc.ID+si+k), "/chart/?"+q, nil))
					})
					dead = r.hang
					written := rt.M{}
					filepath.Walk(cdir, func(p string, info os.FileInfo, err error) error {
						if err == nil && !info.IsDir() && !info.ModTime().Equal(old) {
							b, _ := os.ReadFile(p)
							rel, _ := filepath.Rel(cdir, p)
							written[filepath.ToSlash(rel)] = string(b)
						}
						return nil
					})
					outs = append(outs, rt.M{"code": r.code, "resp": r.body, "panic": r.panic, "hang": r.hang, "written": written})
				}
				rec["start"], rec["end"], rec["runs"] = st.Start, st.End, outs
				// the merged objects the chart had to read, in file order
				mfile := [][]rt.M{}
				d0, _ := time.Parse("2006-01-02", st.Start)
				d1, _ := time.Parse("2006-01-02", st.End)
				for d := d0; !d.After(d1); d = d.AddDate(0, 0, 1) {
					day := d.Format("2006-01-02")
					_, info, _, _ := c13Merged(w, day, ever[day], canonBodies)
					mfile = append(mfile, info)
				}
				rec["mfile"] = mfile
			default:
				t.Fatalf("unknown op %q", st.Op)
			}
			rt.Out(rec)
		}
		c13Nofile = 0
		os.RemoveAll(w.dir)
	}
	rt.Out(rt.M{"kind": "summary", "scenarios": len(in.Scenarios), "steps": nsteps})
}
