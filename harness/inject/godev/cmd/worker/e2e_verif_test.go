//go:build verif

package main

// E2E, stage B: the worker.  For every behaviour of spec/Telemetry.tla that
// stage A (godev/cmd/telemetrygodev) executed, the merge and chart steps are
// run here with the REAL handleMerge / handleChart over FS buckets: the upload
// bucket is the snapshot stage A took at that step, the merged and charted
// buckets persist over the behaviour.  After each step the merged objects of
// the touched days and all chart objects are recorded.  The harness only
// executes and records.

import (
	"context"
	"encoding/json"
	"fmt"
	"io"
	"log"
	stdslog "log/slog"
	"net/http/httptest"
	"os"
	"path/filepath"
	"strings"
	"testing"
	"time"

	xslog "golang.org/x/exp/slog"
	"golang.org/x/telemetry/godev/internal/storage"
	tconfig "golang.org/x/telemetry/internal/config"
	"golang.org/x/telemetry/internal/telemetry"
	rt "golang.org/x/telemetry/internal/verifrt"
)

type e2eWStep struct {
	K     int      `json:"k"`  // index of the step in the behaviour
	Op    string   `json:"op"` // merge | chart
	Days  []string `json:"days"`
	Start string   `json:"start"`
	End   string   `json:"end"`
}

type e2eWBehaviour struct {
	ID    int        `json:"id"`
	Steps []e2eWStep `json:"steps"`
}

type e2eWIn struct {
	Base       string          `json:"base"`
	Config     json.RawMessage `json:"config"`
	Behaviours []e2eWBehaviour `json:"behaviours"`
}

type e2eWResp struct {
	Code  int    `json:"code"`
	Body  string `json:"body"`
	Panic string `json:"panic,omitempty"`
	Hang  bool   `json:"hang,omitempty"`
}

func e2eWCall(fn func(w *httptest.ResponseRecorder)) e2eWResp {
	done := make(chan e2eWResp, 1)
	go func() {
		var res e2eWResp
		defer func() {
			if p := recover(); p != nil {
				res.Panic = fmt.Sprint(p)
			}
			done <- res
		}()
		w := httptest.NewRecorder()
		fn(w)
		res.Code = w.Code
		res.Body = w.Body.String()
		if len(res.Body) > 300 {
			res.Body = res.Body[:300]
		}
	}()
	select {
	case r := <-done:
		return r
	case <-time.After(60 * time.Second):
		return e2eWResp{Hang: true}
	}
}

// e2eWObjects reads every object of a flat bucket directory.
func e2eWObjects(dir string, lines bool) []rt.M {
	out := []rt.M{}
	filepath.Walk(dir, func(p string, info os.FileInfo, err error) error {
		if err != nil || info.IsDir() {
			return nil
		}
		rel, _ := filepath.Rel(dir, p)
		data, _ := os.ReadFile(p)
		rec := rt.M{"name": filepath.ToSlash(rel)}
		if lines {
			text := string(data)
			rec["endsnl"] = text == "" || strings.HasSuffix(text, "\n")
			ls := []any{}
			text = strings.TrimSuffix(text, "\n")
			if text != "" {
				for _, ln := range strings.Split(text, "\n") {
					var v any
					if err := json.Unmarshal([]byte(ln), &v); err != nil {
						v = rt.M{"jsonerr": err.Error(), "len": len(ln)}
					}
					ls = append(ls, v)
				}
			}
			rec["lines"] = ls
		} else {
			var v any
			if err := json.Unmarshal(data, &v); err != nil {
				v = rt.M{"jsonerr": err.Error(), "raw": string(data)}
			}
			rec["chart"] = v
		}
		out = append(out, rec)
		return nil
	})
	return out
}

func TestVerifE2EWorker(t *testing.T) {
	defer rt.Flush()
	var in e2eWIn
	if err := rt.In(&in); err != nil {
		t.Skip(err)
	}
	stdslog.SetDefault(stdslog.New(stdslog.NewTextHandler(io.Discard, nil)))
	xslog.SetDefault(xslog.New(xslog.NewTextHandler(io.Discard, nil)))
	log.SetOutput(io.Discard)
	var uc telemetry.UploadConfig
	if err := json.Unmarshal(in.Config, &uc); err != nil {
		t.Fatal(err)
	}
	ucfg := tconfig.NewConfig(&uc)
	ctx := context.Background()
	nsteps := 0
	for _, bh := range in.Behaviours {
		dir := filepath.Join(in.Base, fmt.Sprintf("b%d", bh.ID))
		wdir := filepath.Join(dir, "worker")
		mg, err := storage.NewFSBucket(ctx, wdir, "merged")
		if err != nil {
			t.Fatal(err)
		}
		ch, err := storage.NewFSBucket(ctx, wdir, "charted")
		if err != nil {
			t.Fatal(err)
		}
		dead := false
		for _, st := range bh.Steps {
			if dead {
				break
			}
			nsteps++
			snapdir := filepath.Join(dir, fmt.Sprintf("snap%d", st.K))
			up, err := storage.NewFSBucket(ctx, snapdir, "uploaded")
			if err != nil {
				t.Fatal(err)
			}
			api := &storage.API{Upload: up, Merge: mg, Chart: ch}
			rec := rt.M{"kind": "wstate", "id": bh.ID, "k": st.K, "op": st.Op}
			var resps []e2eWResp
			switch st.Op {
			case "merge":
				h := handleMerge(api)
				for _, d := range st.Days {
					r := e2eWCall(func(rw *httptest.ResponseRecorder) {
						h.ServeHTTP(rw, httptest.NewRequest("POST", "/merge/?date="+d, nil))
					})
					resps = append(resps, r)
					if r.Hang {
						dead = true
						break
					}
				}
			case "chart":
				q := "start=" + st.Start + "&end=" + st.End
				if st.Start == st.End {
					q = "date=" + st.Start
				}
				h := handleChart(ucfg, api)
				r := e2eWCall(func(rw *httptest.ResponseRecorder) {
					h.ServeHTTP(rw, httptest.NewRequest("POST", "/chart/?"+q, nil))
				})
				resps = append(resps, r)
				dead = r.Hang
			default:
				t.Fatalf("unknown op %q", st.Op)
			}
			rec["resps"] = resps
			rec["merged"] = e2eWObjects(filepath.Join(wdir, "merged"), true)
			rec["charted"] = e2eWObjects(filepath.Join(wdir, "charted"), false)
			rt.Out(rec)
		}
	}
	rt.Out(rt.M{"kind": "summary", "behaviours": len(in.Behaviours), "steps": nsteps})
}
