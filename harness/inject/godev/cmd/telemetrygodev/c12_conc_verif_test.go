//go:build verif

package main

// C12, requests in flight together (spec/ServerConc.tla): every round is a
// set of requests that are released at the same moment into the real handler
// chain built by newHandler, each from its own goroutine; the file tree is
// compared before and after the round. (Helpers are in c12_verif_test.go.)

import (
	"bytes"
	"context"
	"encoding/base64"
	"encoding/json"
	"fmt"
	"io"
	stdslog "log/slog"
	"net/http/httptest"
	"os"
	"path/filepath"
	"reflect"
	"sort"
	"strings"
	"sync"
	"testing"
	"time"

	xslog "golang.org/x/exp/slog"
	"golang.org/x/telemetry/godev/internal/config"
	rt "golang.org/x/telemetry/internal/verifrt"
)

type c12Round struct {
	Steps  []c12Step `json:"steps"`
	Repeat int       `json:"repeat"` // run the round this many times in a row (default 1)
}

func TestVerifC12Conc(t *testing.T) {
	defer rt.Flush()
	var in struct {
		Config     json.RawMessage `json:"config"`
		Behaviours []struct {
			ID     int        `json:"id"`
			Fresh  bool       `json:"fresh"`
			Rounds []c12Round `json:"rounds"`
		} `json:"behaviours"`
	}
	if err := rt.In(&in); err != nil {
		t.Skip(err)
	}
	stdslog.SetDefault(stdslog.New(stdslog.NewTextHandler(io.Discard, nil)))
	xslog.SetDefault(xslog.New(xslog.NewTextHandler(io.Discard, nil)))
	if devnull, _ := os.OpenFile(os.DevNull, os.O_WRONLY, 0); devnull != nil {
		realStdout := os.Stdout
		os.Stdout = devnull
		defer func() { os.Stdout = realStdout }()
	}
	cfgfile := filepath.Join(t.TempDir(), "config.json")
	if err := os.WriteFile(cfgfile, in.Config, 0666); err != nil {
		t.Fatal(err)
	}
	ctx := context.Background()
	parent, err := os.MkdirTemp(os.Getenv("C12_TMP"), "c12c-")
	if err != nil {
		t.Fatal(err)
	}
	defer os.RemoveAll(parent)
	root := filepath.Join(parent, filepath.FromSlash(c12Levels), "root")
	os.MkdirAll(root, 0777)
	os.WriteFile(filepath.Join(parent, "sentinel"), []byte("outside the storage root"), 0666)
	cfg := config.NewConfig()
	cfg.LocalStorage = root
	cfg.ProjectID = ""
	cfg.UploadConfig = cfgfile
	limit := cfg.MaxRequestBytes
	uploadPrefix := c12Levels + "/root/" + cfg.UploadBucket + "/"
	handler := newHandler(ctx, cfg)
	nreq := 0
	for _, bh := range in.Behaviours {
		if bh.Fresh {
			handler = newHandler(ctx, cfg)
		}
		ents, _ := os.ReadDir(filepath.Join(root, cfg.UploadBucket))
		for _, e := range ents {
			os.RemoveAll(filepath.Join(root, cfg.UploadBucket, e.Name()))
		}
		after := c12Snapshot(parent)
		for ri, rd := range bh.Rounds {
			bodies := make([][]byte, len(rd.Steps))
			for i, st := range rd.Steps {
				body, err := base64.StdEncoding.DecodeString(st.Body64)
				if err != nil {
					t.Fatal(err)
				}
				if st.Pad != nil {
					target := st.Pad.Mul*limit + st.Pad.Add
					n := target - int64(len(body)-len(c12PadToken))
					if n < 0 {
						t.Fatalf("cannot pad to %d", target)
					}
					body = bytes.Replace(body, []byte(c12PadToken), bytes.Repeat([]byte(st.Pad.Char), int(n)), 1)
				}
				bodies[i] = body
			}
			reps := rd.Repeat
			if reps < 1 {
				reps = 1
			}
			for rep := 0; rep < reps; rep++ {
				before := after
				statuses := make([]int, len(rd.Steps))
				panics := make([]string, len(rd.Steps))
				start := make(chan struct{})
				var wg sync.WaitGroup
				for i, st := range rd.Steps {
					wg.Add(1)
					go func() {
						defer wg.Done()
						defer func() {
							if r := recover(); r != nil {
								panics[i] = fmt.Sprint(r)
							}
						}()
						rec := httptest.NewRecorder()
						req := httptest.NewRequest(st.Method, st.Path, bytes.NewReader(bodies[i]))
						if st.Undeclared {
							req.ContentLength = -1
							req.TransferEncoding = []string{"chunked"}
						}
						<-start
						handler.ServeHTTP(rec, req)
						statuses[i] = rec.Code
					}()
				}
				done := make(chan struct{})
				go func() { wg.Wait(); close(done) }()
				close(start)
				nreq += len(rd.Steps)
				out := rt.M{"kind": "round", "id": bh.ID, "round": ri, "rep": rep}
				select {
				case <-done:
				case <-time.After(60 * time.Second):
					out["hang"] = true
					rt.Out(out)
					rt.Out(rt.M{"kind": "summary", "requests": nreq, "limit": limit, "upload_prefix": uploadPrefix, "aborted": "hang"})
					return
				}
				after = c12Snapshot(parent)
				created, changed, removed := []string{}, []string{}, []string{}
				for p, d := range after {
					if o, ok := before[p]; !ok {
						created = append(created, p)
					} else if !bytes.Equal(o, d) {
						changed = append(changed, p)
					}
				}
				for p := range before {
					if _, ok := after[p]; !ok {
						removed = append(removed, p)
					}
				}
				sort.Strings(created)
				sort.Strings(changed)
				sort.Strings(removed)
				var dirsCreated, dirsRemoved []string
				created, dirsCreated = c12SplitDirs(created)
				removed, dirsRemoved = c12SplitDirs(removed)
				out["dirs_created"], out["dirs_removed"] = dirsCreated, dirsRemoved
				listing, dirs := []string{}, []string{}
				for p := range after {
					if strings.HasPrefix(p, uploadPrefix) {
						if strings.HasSuffix(p, "/") {
							if p != uploadPrefix {
								dirs = append(dirs, p)
							}
						} else {
							listing = append(listing, p)
						}
					}
				}
				sort.Strings(listing)
				sort.Strings(dirs)
				out["dirs"] = dirs
				// per request: the objects that decode to its report
				matches := make([][]string, len(rd.Steps))
				for i := range rd.Steps {
					matches[i] = []string{}
					var want vReport
					if err := json.NewDecoder(bytes.NewReader(bodies[i])).Decode(&want); err != nil {
						continue
					}
					vNormalize(&want)
					for _, p := range listing {
						got, serr := c12StrictReport(after[p])
						if serr != nil {
							continue
						}
						vNormalize(&got)
						if reflect.DeepEqual(got, want) {
							matches[i] = append(matches[i], p)
						}
					}
				}
				out["status"], out["panics"] = statuses, panics
				out["created"], out["changed"], out["removed"] = created, changed, removed
				out["listing"], out["matches"] = listing, matches
				sizes := rt.M{}
				for _, p := range append(append([]string{}, created...), changed...) {
					sizes[p] = len(after[p])
				}
				out["sizes"] = sizes
				rt.Out(out)
			}
		}
	}
	rt.Out(rt.M{"kind": "summary", "requests": nreq, "limit": limit, "upload_prefix": uploadPrefix})
}
