//go:build verif

package main

// E2E, stage A: the client side of the pipeline and the upload endpoint.
//
// Behaviours of spec/Telemetry.tla are executed step by step on the real code:
//
//	inc      a private counter file (counter.VFile) per program build, with
//	         counter.CounterTime mocked; Rotate1 is called before the increment
//	         (it stands for the rotation timer / a program start)
//	tick     the mocked clock advances
//	setmode  telemetry.Default.SetModeAsOf
//	run      the real upload.Run (StartTime = the mocked clock, X fixed through
//	         crypto/rand.Reader, upload config from a file-based module proxy)
//	         against an httptest server wrapping the real newHandler chain over
//	         FS buckets in a directory the driver names
//	merge, chart   executed by stage B (godev/cmd/worker): here the upload
//	         bucket is only snapshotted for it
//
// After every step the projection is recorded: count files (decoded by the
// independent v1 decoder), local / ready / uploaded reports, the objects of the
// upload bucket.  The harness only executes and records.

import (
	"context"
	"crypto/rand"
	"encoding/binary"
	"encoding/json"
	"fmt"
	"io"
	"log"
	stdslog "log/slog"
	"math"
	"net/http"
	"net/http/httptest"
	"os"
	"path/filepath"
	"runtime"
	"runtime/debug"
	"sort"
	"strings"
	"sync/atomic"
	"testing"
	"time"

	xslog "golang.org/x/exp/slog"
	"golang.org/x/telemetry/godev/internal/config"
	"golang.org/x/telemetry/internal/configstore"
	"golang.org/x/telemetry/internal/counter"
	"golang.org/x/telemetry/internal/proxy"
	"golang.org/x/telemetry/internal/telemetry"
	"golang.org/x/telemetry/internal/upload"
	rt "golang.org/x/telemetry/internal/verifrt"
)

type e2eBuild struct {
	Program string `json:"program"`
	Version string `json:"version"`
	GoVer   string `json:"gover"`
}

type e2eStep struct {
	Op  string  `json:"op"`
	P   string  `json:"p"`
	N   string  `json:"n"`
	M   string  `json:"m"`
	X   float64 `json:"x"`
	Up  bool    `json:"up"`
	Day int64   `json:"day"`
	Tod int64   `json:"tod"`
}

type e2eBehaviour struct {
	ID    int       `json:"id"`
	Wend  int       `json:"wend"`
	Mode  string    `json:"mode"` // initial contents of the mode file ("" = none)
	Steps []e2eStep `json:"steps"`
}

type e2eIn struct {
	Base       string              `json:"base"`
	Config     json.RawMessage     `json:"config"`
	CfgVer     string              `json:"cfgver"`
	Builds     map[string]e2eBuild `json:"builds"`
	Stacks     map[string]bool     `json:"stacks"` // names that are stack counters
	Behaviours []e2eBehaviour      `json:"behaviours"`
}

// e2eXReader makes upload.computeRandom return exactly the chosen X.
type e2eXReader struct{ bits atomic.Uint64 }

func (r *e2eXReader) Read(p []byte) (int, error) {
	var b [8]byte
	binary.LittleEndian.PutUint64(b[:], r.bits.Load())
	for i := range p {
		p[i] = b[i%8]
	}
	return len(p), nil
}
func (r *e2eXReader) set(x float64) { r.bits.Store(math.Float64bits(0.5 + x/2)) }

var e2eNow time.Time

func e2eAt(day, tod int64) time.Time { return time.Unix(day*86400+tod, 0).UTC() }

// one running program build
type e2eProc struct {
	vf     *counter.VFile
	ctrs   map[string]*counter.Counter
	stacks map[string]*counter.StackCounter
}

//go:noinline
func e2eStackInc(sc *counter.StackCounter) { sc.Inc() }

func e2eReadJSON(p string) any {
	data, err := os.ReadFile(p)
	if err != nil {
		return rt.M{"readerr": err.Error()}
	}
	var v any
	if err := json.Unmarshal(data, &v); err != nil {
		return rt.M{"jsonerr": err.Error(), "raw": string(data)}
	}
	return v
}

// e2eProject records what an observer of the telemetry directory and of the
// upload bucket sees.
func e2eProject(tele, bucket string) rt.M {
	files, local, ready, uploaded, store, other := []rt.M{}, []rt.M{}, []rt.M{}, []rt.M{}, []rt.M{}, []string{}
	ents, _ := os.ReadDir(filepath.Join(tele, "local"))
	for _, e := range ents {
		name := e.Name()
		p := filepath.Join(tele, "local", name)
		switch {
		case strings.HasSuffix(name, ".v1.count"):
			data, err := os.ReadFile(p)
			if err != nil {
				files = append(files, rt.M{"name": name, "err": err.Error()})
				continue
			}
			f := rt.DecodeV1(data)
			counts := map[string]uint64{}
			for k, v := range f.Counts() {
				counts[k] = v
			}
			files = append(files, rt.M{"name": name, "meta": f.Meta, "counts": counts, "problems": f.Problems})
		case strings.HasPrefix(name, "local.") && strings.HasSuffix(name, ".json"):
			local = append(local, rt.M{"name": name, "report": e2eReadJSON(p)})
		case strings.HasSuffix(name, ".json"):
			ready = append(ready, rt.M{"name": name, "report": e2eReadJSON(p)})
		case name == "weekends":
		default:
			other = append(other, "local/"+name)
		}
	}
	ents, _ = os.ReadDir(filepath.Join(tele, "upload"))
	for _, e := range ents {
		name := e.Name()
		if strings.HasSuffix(name, ".json") {
			uploaded = append(uploaded, rt.M{"name": name, "report": e2eReadJSON(filepath.Join(tele, "upload", name))})
		} else {
			other = append(other, "upload/"+name)
		}
	}
	ents, _ = os.ReadDir(tele)
	for _, e := range ents {
		switch e.Name() {
		case "local", "upload", "mode":
		default:
			other = append(other, e.Name())
		}
	}
	filepath.Walk(bucket, func(p string, info os.FileInfo, err error) error {
		if err != nil || info.IsDir() {
			return nil
		}
		rel, _ := filepath.Rel(bucket, p)
		store = append(store, rt.M{"name": filepath.ToSlash(rel), "report": e2eReadJSON(p)})
		return nil
	})
	mode, _ := os.ReadFile(filepath.Join(tele, "mode"))
	sort.Strings(other)
	return rt.M{"files": files, "local": local, "ready": ready, "uploaded": uploaded, "store": store, "other": other, "mode": string(mode)}
}

func e2eCopyDir(src, dst string) error {
	return filepath.Walk(src, func(p string, info os.FileInfo, err error) error {
		if err != nil {
			return nil
		}
		rel, _ := filepath.Rel(src, p)
		if info.IsDir() {
			return os.MkdirAll(filepath.Join(dst, rel), 0777)
		}
		data, err := os.ReadFile(p)
		if err != nil {
			return err
		}
		return os.WriteFile(filepath.Join(dst, rel), data, 0666)
	})
}

func TestVerifE2EClient(t *testing.T) {
	defer rt.Flush()
	var in e2eIn
	if err := rt.In(&in); err != nil {
		t.Skip(err)
	}
	stdslog.SetDefault(stdslog.New(stdslog.NewTextHandler(io.Discard, nil)))
	xslog.SetDefault(xslog.New(xslog.NewTextHandler(io.Discard, nil)))
	log.SetOutput(io.Discard)

	xr := &e2eXReader{}
	xr.set(0.5)
	rand.Reader = xr
	counter.CounterTime = func() time.Time { return e2eNow }

	if err := os.MkdirAll(in.Base, 0777); err != nil {
		t.Fatal(err)
	}
	cfgFile := filepath.Join(in.Base, "config.json")
	if err := os.WriteFile(cfgFile, in.Config, 0666); err != nil {
		t.Fatal(err)
	}
	// the uploader downloads its configuration from a file-based module proxy
	pxdir := filepath.Join(in.Base, fmt.Sprintf("px-%d", os.Getpid()))
	dp := configstore.ModulePath + "@" + in.CfgVer + "/"
	uri, err := proxy.WriteProxy(filepath.Join(pxdir, "proxy"), map[string][]byte{
		dp + "go.mod":      []byte("module " + configstore.ModulePath + "\n\ngo 1.20\n"),
		dp + "config.json": in.Config,
	})
	if err != nil {
		t.Fatal(err)
	}
	env := []string{"GOPROXY=" + uri, "GONOSUMDB=*", "GONOSUMCHECK=1", "GOSUMDB=off", "GOFLAGS=-modcacherw",
		"GOMODCACHE=" + filepath.Join(pxdir, "modcache")}

	ctx := context.Background()
	nsteps := 0
	for _, bh := range in.Behaviours {
		dir := filepath.Join(in.Base, fmt.Sprintf("b%d", bh.ID))
		tele := filepath.Join(dir, "tele")
		storage := filepath.Join(dir, "storage")
		bucket := filepath.Join(storage, "uploaded")
		for _, d := range []string{filepath.Join(tele, "local"), bucket} {
			if err := os.MkdirAll(d, 0777); err != nil {
				t.Fatal(err)
			}
		}
		telemetry.Default = telemetry.NewDir(tele)
		if err := os.WriteFile(filepath.Join(tele, "local", "weekends"), []byte(fmt.Sprintf("%d\n", bh.Wend)), 0666); err != nil {
			t.Fatal(err)
		}
		if bh.Mode != "" {
			if err := os.WriteFile(filepath.Join(tele, "mode"), []byte(bh.Mode), 0666); err != nil {
				t.Fatal(err)
			}
		}
		cfg := config.NewConfig()
		cfg.LocalStorage = storage
		cfg.ProjectID = ""
		cfg.UploadConfig = cfgFile
		cfg.UseGCS = false
		cfg.UploadBucket, cfg.MergedBucket, cfg.ChartDataBucket = "uploaded", "merged", "charted"
		handler := newHandler(ctx, cfg)
		var down atomic.Bool
		var nreq atomic.Int64
		srv := httptest.NewServer(http.HandlerFunc(func(w http.ResponseWriter, r *http.Request) {
			nreq.Add(1)
			if down.Load() {
				io.Copy(io.Discard, r.Body)
				w.WriteHeader(http.StatusServiceUnavailable)
				return
			}
			handler.ServeHTTP(w, r)
		}))
		procs := map[string]*e2eProc{}
		closeProc := func(p string) {
			if pr := procs[p]; pr != nil {
				pr.vf.Close()
				delete(procs, p)
			}
		}
		dead := false
		for k, st := range bh.Steps {
			if dead {
				break
			}
			nsteps++
			rec := rt.M{"kind": "state", "id": bh.ID, "k": k, "op": st.Op}
			func() {
				defer func() {
					if p := recover(); p != nil {
						rec["panic"] = fmt.Sprint(p)
						dead = true
					}
				}()
				switch st.Op {
				case "init", "tick":
					e2eNow = e2eAt(st.Day, st.Tod)
				case "setmode":
					if err := telemetry.Default.SetModeAsOf(st.M, e2eNow); err != nil {
						rec["err"] = err.Error()
					}
				case "inc":
					b, ok := in.Builds[st.P]
					if !ok {
						t.Fatalf("unknown build %q", st.P)
					}
					pr := procs[st.P]
					if pr != nil && pr.vf.Err() != nil {
						// the program gave up (telemetry was off when it looked): a new run of it
						closeProc(st.P)
						pr = nil
					}
					if pr == nil {
						pr = &e2eProc{vf: &counter.VFile{}, ctrs: map[string]*counter.Counter{}, stacks: map[string]*counter.StackCounter{}}
						pr.vf.SetBuildInfo(&debug.BuildInfo{GoVersion: b.GoVer, Path: b.Program, Main: debug.Module{Path: b.Program, Version: b.Version}})
						procs[st.P] = pr
					}
					pr.vf.Rotate1()
					if err := pr.vf.Err(); err != nil {
						rec["roterr"] = err.Error()
					}
					if in.Stacks[st.N] {
						sc := pr.stacks[st.N]
						if sc == nil {
							sc = pr.vf.NewStack(st.N, 4)
							pr.stacks[st.N] = sc
						}
						e2eStackInc(sc)
					} else {
						c := pr.ctrs[st.N]
						if c == nil {
							c = pr.vf.New(st.N)
							pr.ctrs[st.N] = c
						}
						c.Inc()
					}
				case "run":
					xr.set(st.X)
					down.Store(!st.Up)
					before := nreq.Load()
					done := make(chan string, 1)
					go func() {
						defer func() {
							if p := recover(); p != nil {
								done <- fmt.Sprintf("panic: %v", p)
							}
						}()
						if err := upload.Run(upload.RunConfig{TelemetryDir: tele, UploadURL: srv.URL + "/upload", Env: env, StartTime: e2eNow}); err != nil {
							done <- "error: " + err.Error()
							return
						}
						done <- ""
					}()
					select {
					case msg := <-done:
						if msg != "" {
							rec["err"] = msg
						}
					case <-time.After(120 * time.Second):
						rec["err"] = "hang"
						dead = true
					}
					rec["requests"] = nreq.Load() - before
				case "merge", "chart":
					// stage B runs the worker on a snapshot of the upload bucket as it is now
					snap := filepath.Join(dir, fmt.Sprintf("snap%d", k), "uploaded")
					if err := e2eCopyDir(bucket, snap); err != nil {
						rec["err"] = "snapshot: " + err.Error()
					}
				default:
					t.Fatalf("unknown op %q", st.Op)
				}
			}()
			rec["obs"] = e2eProject(tele, bucket)
			rt.Out(rec)
		}
		for p := range procs {
			closeProc(p)
		}
		srv.Close()
	}
	rt.Out(rt.M{"kind": "summary", "behaviours": len(in.Behaviours), "steps": nsteps, "goos": runtime.GOOS, "goarch": runtime.GOARCH})
	// module caches are read-only trees unless -modcacherw took effect
	filepath.Walk(pxdir, func(p string, info os.FileInfo, err error) error {
		if err == nil && info.IsDir() {
			os.Chmod(p, 0777)
		}
		return nil
	})
}
