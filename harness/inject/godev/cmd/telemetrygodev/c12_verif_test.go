//go:build verif

package main

// C12: drives the real handler chain built by newHandler (mux, handlers and
// all middleware) over FS buckets below a private storage root. Every request
// is executed with a snapshot of the complete file tree of the root's parent
// before and after; the record of each step carries the status and the exact
// file-system effect. Deciding what is right is left to checks/c12.py and
// spec/Server*.tla.

import (
	"bytes"
	"context"
	"encoding/base64"
	"encoding/json"
	"fmt"
	"io"
	"io/fs"
	stdslog "log/slog"
	"net/http/httptest"
	"os"
	"path/filepath"
	"reflect"
	"sort"
	"strings"
	"testing"
	"time"

	xslog "golang.org/x/exp/slog"
	"golang.org/x/telemetry/godev/internal/config"
	rt "golang.org/x/telemetry/internal/verifrt"
)

// c12SplitDirs separates directory entries (trailing slash) from files.
func c12SplitDirs(paths []string) (files, dirs []string) {
	files, dirs = []string{}, []string{}
	for _, p := range paths {
		if strings.HasSuffix(p, "/") {
			dirs = append(dirs, p)
		} else {
			files = append(files, p)
		}
	}
	return
}

// c12Levels puts the storage root a few levels below the directory whose tree
// is compared, so that names escaping upwards stay visible.
const c12Levels = "l1/l2/l3"

// independent mirror of the documented report layout
type vProgram struct {
	Program   string
	Version   string
	GoVersion string
	GOOS      string
	GOARCH    string
	Counters  map[string]int64
	Stacks    map[string]int64
}

type vReport struct {
	Week     string
	LastWeek string
	X        float64
	Programs []*vProgram
	Config   string
}

// c12StrictReport decodes a STORED object: it must be exactly one JSON value
// (nothing but blanks after it), an object with report fields only (no unknown
// field anywhere), no key twice in any object.
func c12StrictReport(data []byte) (vReport, error) {
	var r vReport
	dec := json.NewDecoder(bytes.NewReader(data))
	dec.DisallowUnknownFields()
	if err := dec.Decode(&r); err != nil {
		return r, err
	}
	var rest json.RawMessage
	if err := dec.Decode(&rest); err != io.EOF {
		return r, fmt.Errorf("more than one JSON value in the stored object")
	}
	// duplicate keys: walk the tokens
	td := json.NewDecoder(bytes.NewReader(data))
	type frame struct {
		obj  bool
		keys map[string]bool
		key  bool // next token is a key
	}
	var st []*frame
	for {
		tok, err := td.Token()
		if err == io.EOF {
			break
		}
		if err != nil {
			return r, err
		}
		top := func() *frame {
			if len(st) == 0 {
				return nil
			}
			return st[len(st)-1]
		}
		if d, ok := tok.(json.Delim); ok {
			switch d {
			case '{':
				if t := top(); t != nil && t.obj {
					t.key = true
				}
				st = append(st, &frame{obj: true, keys: map[string]bool{}, key: true})
			case '[':
				if t := top(); t != nil && t.obj {
					t.key = true
				}
				st = append(st, &frame{})
			case '}', ']':
				st = st[:len(st)-1]
			}
			continue
		}
		if t := top(); t != nil && t.obj {
			if t.key {
				k, _ := tok.(string)
				if t.keys[k] {
					return r, fmt.Errorf("key %q twice in the stored object", k)
				}
				t.keys[k] = true
				t.key = false
			} else {
				t.key = true
			}
		}
	}
	return r, nil
}

func vNormalize(r *vReport) {
	if len(r.Programs) == 0 {
		r.Programs = nil
	}
	for _, p := range r.Programs {
		if p == nil {
			continue
		}
		if len(p.Counters) == 0 {
			p.Counters = nil
		}
		if len(p.Stacks) == 0 {
			p.Stacks = nil
		}
	}
}

// c12Snapshot lists the complete tree below dir: files as relative path ->
// content, directories as relative path + "/" -> nil.
func c12Snapshot(dir string) map[string][]byte {
	out := map[string][]byte{}
	filepath.WalkDir(dir, func(p string, d fs.DirEntry, err error) error {
		if err != nil {
			return nil
		}
		rel, _ := filepath.Rel(dir, p)
		rel = filepath.ToSlash(rel)
		if d.IsDir() {
			if rel != "." {
				out[rel+"/"] = nil
			}
			return nil
		}
		data, _ := os.ReadFile(p)
		out[rel] = data
		return nil
	})
	return out
}

type c12Step struct {
	Method string `json:"method"`
	Path   string `json:"path"`
	Body64 string `json:"body64"`
	Pad    *struct {
		Mul  int64  `json:"mul"`
		Add  int64  `json:"add"`
		Char string `json:"char"`
	} `json:"pad"`
	NoBody bool `json:"nobody"`
	// Undeclared: the request does not announce its length (as with
	// Transfer-Encoding: chunked): ContentLength is -1, the body reader is the same.
	Undeclared bool `json:"undeclared"`
}

type c12Behaviour struct {
	ID int `json:"id"`
	// Fresh: serve this behaviour with a newly built handler chain (what the
	// first requests of a server process see) instead of the long-lived one.
	Fresh bool `json:"fresh"`
	Steps []c12Step `json:"steps"`
}

const c12PadToken = "@@PAD@@"

func TestVerifC12(t *testing.T) {
	defer rt.Flush()
	var in struct {
		Config     json.RawMessage `json:"config"`
		Behaviours []c12Behaviour  `json:"behaviours"`
	}
	if err := rt.In(&in); err != nil {
		t.Skip(err)
	}
	stdslog.SetDefault(stdslog.New(stdslog.NewTextHandler(io.Discard, nil)))
	xslog.SetDefault(xslog.New(xslog.NewTextHandler(io.Discard, nil)))
	// the Recover middleware prints stacks with fmt.Println: keep stdout small
	devnull, _ := os.OpenFile(os.DevNull, os.O_WRONLY, 0)
	realStdout := os.Stdout
	if devnull != nil {
		os.Stdout = devnull
		defer func() { os.Stdout = realStdout }()
	}

	cfgdir := t.TempDir()
	cfgfile := filepath.Join(cfgdir, "config.json")
	if err := os.WriteFile(cfgfile, in.Config, 0666); err != nil {
		t.Fatal(err)
	}
	ctx := context.Background()
	nsteps := 0
	var limit int64
	var uploadPrefix string
	// One storage root and one handler chain for the whole run (the FS buckets
	// keep no state in memory); the upload bucket is emptied between behaviours.
	// $C12_TMP (a tmpfs directory owned by the driver, when there is one) keeps
	// the thousands of small file operations cheap.
	parent, err := os.MkdirTemp(os.Getenv("C12_TMP"), "c12-")
	if err != nil {
		t.Fatal(err)
	}
	defer os.RemoveAll(parent)
	root := filepath.Join(parent, filepath.FromSlash(c12Levels), "root")
	os.MkdirAll(root, 0777)
	os.WriteFile(filepath.Join(parent, "sentinel"), []byte("outside the storage root"), 0666)
	os.WriteFile(filepath.Join(root, "sentinel"), []byte("inside the root, outside every bucket"), 0666)
	cfg := config.NewConfig()
	cfg.LocalStorage = root
	cfg.ProjectID = ""
	cfg.UploadConfig = cfgfile
	limit = cfg.MaxRequestBytes
	uploadPrefix = c12Levels + "/root/" + cfg.UploadBucket + "/"
	handler := newHandler(ctx, cfg)
	os.WriteFile(filepath.Join(root, cfg.MergedBucket, "sentinel.json"), []byte("in another bucket"), 0666)
	pristine := c12Snapshot(parent)
	dirty := false
	for _, bh := range in.Behaviours {
		if bh.Fresh {
			handler = newHandler(ctx, cfg)
		}
		// back to the pristine tree: empty upload bucket, nothing else touched
		ents, _ := os.ReadDir(filepath.Join(root, cfg.UploadBucket))
		for _, e := range ents {
			os.RemoveAll(filepath.Join(root, cfg.UploadBucket, e.Name()))
		}
		if dirty {
			// something outside the bucket was left behind by an earlier behaviour
			// (already reported there); rebuild the tree
			now := c12Snapshot(parent)
			var extra []string
			for p := range now {
				if _, ok := pristine[p]; !ok {
					extra = append(extra, p)
				}
			}
			sort.Sort(sort.Reverse(sort.StringSlice(extra))) // children before their directories
			for _, p := range extra {
				os.Remove(filepath.Join(parent, filepath.FromSlash(p)))
			}
			for p, d := range pristine {
				if strings.HasSuffix(p, "/") {
					os.MkdirAll(filepath.Join(parent, filepath.FromSlash(p)), 0777)
					continue
				}
				os.MkdirAll(filepath.Dir(filepath.Join(parent, filepath.FromSlash(p))), 0777)
				os.WriteFile(filepath.Join(parent, filepath.FromSlash(p)), d, 0666)
			}
			dirty = false
		}
		after := c12Snapshot(parent)
		for i, st := range bh.Steps {
			nsteps++
			body, err := base64.StdEncoding.DecodeString(st.Body64)
			if err != nil {
				t.Fatalf("behaviour %d step %d: bad base64: %v", bh.ID, i, err)
			}
			if st.Pad != nil {
				target := st.Pad.Mul*limit + st.Pad.Add
				n := target - int64(len(body)-len(c12PadToken))
				if n < 0 || !bytes.Contains(body, []byte(c12PadToken)) {
					t.Fatalf("behaviour %d step %d: cannot pad to %d", bh.ID, i, target)
				}
				body = bytes.Replace(body, []byte(c12PadToken), bytes.Repeat([]byte(st.Pad.Char), int(n)), 1)
			}
			before := after
			rec := httptest.NewRecorder()
			type outcome struct {
				panicked any
			}
			done := make(chan outcome, 1)
			go func() {
				var o outcome
				defer func() {
					o.panicked = recover()
					done <- o
				}()
				var rd io.Reader
				if !st.NoBody {
					rd = bytes.NewReader(body)
				}
				req := httptest.NewRequest(st.Method, st.Path, rd)
				if st.Undeclared && rd != nil {
					req.ContentLength = -1
					req.TransferEncoding = []string{"chunked"}
					req.Header.Del("Content-Length")
				}
				handler.ServeHTTP(rec, req)
			}()
			out := rt.M{"kind": "step", "id": bh.ID, "i": i, "len": len(body)}
			select {
			case o := <-done:
				if o.panicked != nil {
					out["panic"] = fmt.Sprint(o.panicked)
				}
			case <-time.After(60 * time.Second):
				out["hang"] = true
				rt.Out(out)
				rt.Out(rt.M{"kind": "summary", "steps": nsteps, "limit": limit, "upload_prefix": uploadPrefix, "aborted": "hang"})
				return
			}
			out["status"] = rec.Code
			resp := rec.Body.String()
			if len(resp) > 160 {
				resp = resp[:160]
			}
			out["resp"] = resp
			after = c12Snapshot(parent)
			created, changed, removed := []string{}, []string{}, []string{}
			for p, d := range after {
				if o, ok := before[p]; !ok {
					created = append(created, p)
				} else if !bytes.Equal(o, d) {
					changed = append(changed, p)
				}
			}
			for p := range before {
				if _, ok := after[p]; !ok {
					removed = append(removed, p)
				}
			}
			sort.Strings(created)
			sort.Strings(changed)
			sort.Strings(removed)
			for _, p := range append(append(append([]string{}, created...), changed...), removed...) {
				if !strings.HasPrefix(p, uploadPrefix) {
					dirty = true
				}
			}
			// directories are reported apart from files
			var dirsCreated, dirsRemoved []string
			created, dirsCreated = c12SplitDirs(created)
			removed, dirsRemoved = c12SplitDirs(removed)
			out["created"], out["changed"], out["removed"] = created, changed, removed
			out["dirs_created"], out["dirs_removed"] = dirsCreated, dirsRemoved
			// what was stored: decode with the independent mirror and compare with the
			// same decoding of the request body (first JSON value)
			stored := []rt.M{}
			for _, p := range append(append([]string{}, created...), changed...) {
				if !strings.HasPrefix(p, uploadPrefix) {
					continue
				}
				s := rt.M{"path": p, "size": len(after[p])}
				got, serr := c12StrictReport(after[p])
				if serr != nil {
					s["decode_err"] = serr.Error()
				} else {
					s["week"] = got.Week
					s["x"] = got.X
					var want vReport
					if err := json.NewDecoder(bytes.NewReader(body)).Decode(&want); err != nil {
						s["request_decode_err"] = err.Error()
					} else {
						vNormalize(&got)
						vNormalize(&want)
						s["same"] = reflect.DeepEqual(got, want)
					}
				}
				if len(after[p]) <= 600 {
					s["content"] = string(after[p])
				}
				stored = append(stored, s)
			}
			out["stored"] = stored
			listing, dirs := []string{}, []string{}
			for p := range after {
				if strings.HasPrefix(p, uploadPrefix) {
					if strings.HasSuffix(p, "/") {
						if p != uploadPrefix {
							dirs = append(dirs, p)
						}
					} else {
						listing = append(listing, p)
					}
				}
			}
			sort.Strings(listing)
			sort.Strings(dirs)
			out["listing"] = listing
			out["dirs"] = dirs // every directory below the bucket directory
			// every object of the bucket that decodes to the report of this request
			matches := []string{}
			var want vReport
			if err := json.NewDecoder(bytes.NewReader(body)).Decode(&want); err == nil {
				vNormalize(&want)
				for _, p := range listing {
					got, serr := c12StrictReport(after[p])
					if serr != nil {
						continue
					}
					vNormalize(&got)
					if reflect.DeepEqual(got, want) {
						matches = append(matches, p)
					}
				}
			}
			out["matches"] = matches
			rt.Out(out)
		}
	}
	rt.Out(rt.M{"kind": "summary", "steps": nsteps, "limit": limit, "upload_prefix": uploadPrefix})
}
