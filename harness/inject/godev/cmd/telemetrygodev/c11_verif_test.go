//go:build verif

package main

// C11 harness: the real upload endpoint (newHandler: mux, middleware chain,
// handleUpload, validate, FS bucket) decides reports under configurations
// chosen by the check.  It only executes and records.

import (
	"context"
	"encoding/json"
	"fmt"
	"io"
	"log"
	"log/slog"
	"net/http"
	"net/http/httptest"
	"os"
	"path/filepath"
	"strings"
	"sync"
	"testing"

	"golang.org/x/telemetry/godev/internal/config"
	rt "golang.org/x/telemetry/internal/verifrt"
)

type c11Report struct {
	RID  int    `json:"rid"`
	Path string `json:"path"` // e.g. /upload/2024-02-28
	Body string `json:"body"`
}

type c11Case struct {
	ID      int             `json:"id"`
	Cfg     json.RawMessage `json:"cfg"`
	Reports []c11Report     `json:"reports"`
}

func c11RunCase(base string, c *c11Case) []rt.M {
	var out []rt.M
	dir := filepath.Join(base, fmt.Sprintf("c%d", c.ID))
	if err := os.MkdirAll(dir, 0777); err != nil {
		return []rt.M{{"kind": "verdict", "id": c.ID, "infra": err.Error()}}
	}
	defer os.RemoveAll(dir)
	cfgFile := filepath.Join(dir, "config.json")
	if err := os.WriteFile(cfgFile, c.Cfg, 0666); err != nil {
		return []rt.M{{"kind": "verdict", "id": c.ID, "infra": err.Error()}}
	}
	cfg := config.NewConfig()
	cfg.LocalStorage = filepath.Join(dir, "storage")
	cfg.ProjectID = ""
	cfg.UploadConfig = cfgFile
	cfg.UseGCS = false
	handler := newHandler(context.Background(), cfg)
	for _, r := range c.Reports {
		rec := rt.M{"kind": "verdict", "id": c.ID, "rid": r.RID}
		func() {
			defer func() {
				if p := recover(); p != nil {
					rec["panic"] = fmt.Sprint(p)
				}
			}()
			req := httptest.NewRequest("POST", r.Path, strings.NewReader(r.Body))
			req.Header.Set("Content-Type", "application/json")
			w := httptest.NewRecorder()
			handler.ServeHTTP(w, req)
			res := w.Result()
			b, _ := io.ReadAll(res.Body)
			rec["status"] = res.StatusCode
			if len(b) > 300 {
				b = b[:300]
			}
			rec["resp"] = string(b)
		}()
		// what the bucket holds afterwards (names only)
		var stored []string
		filepath.Walk(cfg.LocalStorage, func(p string, info os.FileInfo, err error) error {
			if err == nil && !info.IsDir() {
				rel, _ := filepath.Rel(cfg.LocalStorage, p)
				stored = append(stored, rel)
			}
			return nil
		})
		rec["stored"] = len(stored)
		out = append(out, rec)
	}
	return out
}

func TestVerifC11Server(t *testing.T) {
	defer rt.Flush()
	var in struct {
		Cases []c11Case `json:"cases"`
	}
	if err := rt.In(&in); err != nil {
		t.Skip(err)
	}
	slog.SetDefault(slog.New(slog.NewTextHandler(io.Discard, nil)))
	log.SetOutput(io.Discard)
	base := t.TempDir()
	var wg sync.WaitGroup
	sem := make(chan bool, 8)
	res := make([][]rt.M, len(in.Cases))
	for i := range in.Cases {
		wg.Add(1)
		sem <- true
		go func(i int) {
			defer wg.Done()
			defer func() { <-sem }()
			res[i] = c11RunCase(base, &in.Cases[i])
		}(i)
	}
	wg.Wait()
	n := 0
	for _, rs := range res {
		for _, r := range rs {
			rt.Out(r)
			n++
		}
	}
	rt.Out(rt.M{"kind": "summary", "cases": len(in.Cases), "verdicts": n})
	_ = http.StatusOK
}
