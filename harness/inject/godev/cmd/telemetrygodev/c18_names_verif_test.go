//go:build verif

package main

// C18 (service-name clause, read side): which object names do the handlers of
// telemetrygodev construct from request input? The same routes as newHandler
// are served by the real handlers over recording BucketHandles (every
// Object(name) / Objects(prefix) argument is logged, then passed on to the
// real FS bucket); the real chain built by newHandler serves the same request
// over the same storage root, so that the routing outcome of the two can be
// compared. Deciding whether a name resolves inside its bucket's directory is
// left to spec/StorageNames.tla.

import (
	"bytes"
	"context"
	"encoding/base64"
	"fmt"
	"io"
	stdslog "log/slog"
	"net/http"
	"net/http/httptest"
	"os"
	"path/filepath"
	"strings"
	"testing"

	xslog "golang.org/x/exp/slog"
	"golang.org/x/telemetry/godev/internal/config"
	"golang.org/x/telemetry/godev/internal/content"
	"golang.org/x/telemetry/godev/internal/storage"
	tconfig "golang.org/x/telemetry/internal/config"
	rt "golang.org/x/telemetry/internal/verifrt"
)

type c18RecBucket struct {
	storage.BucketHandle
	label string
	dir   string
	log   *[]rt.M
}

func (b *c18RecBucket) Object(name string) storage.ObjectHandle {
	*b.log = append(*b.log, rt.M{"call": "Object", "bucket": b.label, "base": b.dir, "name": name})
	return b.BucketHandle.Object(name)
}

func (b *c18RecBucket) Objects(ctx context.Context, prefix string) storage.ObjectIterator {
	*b.log = append(*b.log, rt.M{"call": "Objects", "bucket": b.label, "base": b.dir, "name": prefix})
	return b.BucketHandle.Objects(ctx, prefix)
}

func TestVerifC18Names(t *testing.T) {
	defer rt.Flush()
	var in struct {
		Config64 string `json:"config64"`
		Requests []struct {
			Method string `json:"method"`
			Target string `json:"target"` // {charted} {merged} {uploaded} stand for the bucket names
			Body64 string `json:"body64"`
		} `json:"requests"`
	}
	if err := rt.In(&in); err != nil {
		t.Skip(err)
	}
	stdslog.SetDefault(stdslog.New(stdslog.NewTextHandler(io.Discard, nil)))
	xslog.SetDefault(xslog.New(xslog.NewTextHandler(io.Discard, nil)))
	devnull, _ := os.OpenFile(os.DevNull, os.O_WRONLY, 0)
	if devnull != nil {
		realStdout := os.Stdout
		os.Stdout = devnull
		defer func() { os.Stdout = realStdout }()
	}
	cfgjson, err := base64.StdEncoding.DecodeString(in.Config64)
	if err != nil {
		t.Fatal(err)
	}
	cfgfile := filepath.Join(t.TempDir(), "config.json")
	if err := os.WriteFile(cfgfile, cfgjson, 0666); err != nil {
		t.Fatal(err)
	}
	ctx := context.Background()
	parent := t.TempDir()
	root := filepath.Join(parent, "root")
	cfg := config.NewConfig()
	cfg.LocalStorage = root
	cfg.ProjectID = ""
	cfg.UploadConfig = cfgfile
	real := newHandler(ctx, cfg) // also creates the bucket directories

	// content: one chart object, and decoys where hostile names point
	chart := []byte(`{"DateRange":["2024-03-11","2024-03-11"],"Programs":[],"NumReports":7331}` + "\n")
	decoy := []byte(`{"DateRange":["1999-09-09","1999-09-09"],"Programs":[],"NumReports":424242}` + "\n")
	os.WriteFile(filepath.Join(root, cfg.ChartDataBucket, "2024-03-11.json"), chart, 0666)
	os.WriteFile(filepath.Join(root, cfg.MergedBucket, "2024-03-11.json"), decoy, 0666)
	os.WriteFile(filepath.Join(root, "sentinel.json"), decoy, 0666)
	os.WriteFile(filepath.Join(parent, "outside.json"), decoy, 0666)

	// the same routes over recording buckets
	buckets, err := storage.NewAPI(ctx, cfg)
	if err != nil {
		t.Fatal(err)
	}
	ucfg, err := tconfig.ReadConfig(cfg.UploadConfig)
	if err != nil {
		t.Fatal(err)
	}
	var names []rt.M
	absRoot, _ := filepath.Abs(root)
	wrap := func(label string, b storage.BucketHandle, bucket string) storage.BucketHandle {
		return &c18RecBucket{b, label, filepath.Join(absRoot, bucket), &names}
	}
	upload := wrap("upload", buckets.Upload, cfg.UploadBucket)
	merge := wrap("merge", buckets.Merge, cfg.MergedBucket)
	chartB := wrap("chart", buckets.Chart, cfg.ChartDataBucket)
	fsys := fsys(cfg.DevMode)
	render := func(w http.ResponseWriter, tmpl string, page any) error {
		return content.Template(w, fsys, tmpl, page, http.StatusOK)
	}
	mux := http.NewServeMux()
	mux.Handle("/", handleRoot(render, fsys, chartB, xslog.Default()))
	mux.Handle("/upload/", handleUpload(ucfg, upload))
	mux.Handle("/charts/", handleCharts(render, chartB))
	mux.Handle("/data/", handleData(render, merge))

	repl := strings.NewReplacer("{charted}", cfg.ChartDataBucket, "{merged}", cfg.MergedBucket, "{uploaded}", cfg.UploadBucket)
	serve := func(h http.Handler, method, target string, body []byte) (code int, resp string, perr any) {
		rec := httptest.NewRecorder()
		func() {
			defer func() { perr = recover() }()
			var rd io.Reader
			if body != nil {
				rd = bytes.NewReader(body)
			}
			req := httptest.NewRequest(method, target, rd)
			h.ServeHTTP(rec, req)
		}()
		return rec.Code, rec.Body.String(), perr
	}
	n := 0
	for i, rq := range in.Requests {
		target := repl.Replace(rq.Target)
		var body []byte
		if rq.Body64 != "" {
			body, _ = base64.StdEncoding.DecodeString(rq.Body64)
		}
		names = nil
		code, resp, perr := serve(mux, rq.Method, target, body)
		if perr != nil && strings.Contains(fmt.Sprint(perr), "invalid NewRequest") {
			rt.Out(rt.M{"kind": "skipped", "i": i, "target": target, "why": fmt.Sprint(perr)})
			continue
		}
		logged := names
		names = nil
		rcode, rresp, rperr := serve(real, rq.Method, target, body)
		n++
		for _, nm := range logged {
			nm["kind"], nm["svc"], nm["i"], nm["req"] = "name", "telemetrygodev", i, rq.Method+" "+target
			rt.Out(nm)
		}
		out := rt.M{"kind": "req", "i": i, "method": rq.Method, "target": target, "status": code, "real_status": rcode,
			"names": len(logged), "decoy_served": strings.Contains(rresp, "1999-09-09") || strings.Contains(rresp, "424242"),
			"replica_decoy_served": strings.Contains(resp, "1999-09-09") || strings.Contains(resp, "424242")}
		if perr != nil {
			out["panic"] = fmt.Sprint(perr)
		}
		if rperr != nil {
			out["real_panic"] = fmt.Sprint(rperr)
		}
		rt.Out(out)
	}
	rt.Out(rt.M{"kind": "summary", "requests": n, "root": absRoot,
		"buckets": rt.M{"upload": cfg.UploadBucket, "merge": cfg.MergedBucket, "chart": cfg.ChartDataBucket}})
}
