//go:build verif

package main

// X01: the real handler chain built by newHandler (mux, handlers, middleware in
// the order main.go composes them, embedded content file system) over FS
// buckets below a private storage root.
//
//   TestVerifX01Routes    put / delete objects in the chart and merged buckets
//                         (as the worker does) and GET pages; reports what each
//                         page shows.  Deciding is left to checks/x01.py and
//                         spec/WebRoutes*.tla.
//   TestVerifX01Pipeline  histories of requests whose handler (the upload
//                         handler, driven through a request body the harness
//                         owns) returns, panics, stalls or is fed an oversize
//                         body; reports status, log records, bytes pulled.
//   TestVerifX01Raw       hostile request targets over a real TCP connection.

import (
	"bufio"
	"bytes"
	"context"
	"encoding/json"
	"fmt"
	"io"
	"io/fs"
	stdslog "log/slog"
	"net"
	"net/http"
	"net/http/httptest"
	"net/url"
	"os"
	"path"
	"path/filepath"
	"regexp"
	"sort"
	"strings"
	"sync"
	"testing"
	"time"

	xslog "golang.org/x/exp/slog"
	"golang.org/x/telemetry/godev/internal/config"
	rt "golang.org/x/telemetry/internal/verifrt"
)

// ------------------------------------------------------------- log capture

type x01Sink struct {
	mu   sync.Mutex
	recs []rt.M
}

type x01Cap struct {
	sink  *x01Sink
	attrs []xslog.Attr
}

func (h *x01Cap) Enabled(context.Context, xslog.Level) bool { return true }
func (h *x01Cap) Handle(_ context.Context, r xslog.Record) error {
	m := rt.M{"msg": r.Message, "level": r.Level.String()}
	for _, a := range h.attrs {
		m[a.Key] = a.Value.Any()
	}
	r.Attrs(func(a xslog.Attr) bool {
		if a.Key != "duration" {
			m[a.Key] = a.Value.Any()
		}
		return true
	})
	h.sink.mu.Lock()
	h.sink.recs = append(h.sink.recs, m)
	h.sink.mu.Unlock()
	return nil
}
func (h *x01Cap) WithAttrs(as []xslog.Attr) xslog.Handler {
	return &x01Cap{sink: h.sink, attrs: append(append([]xslog.Attr{}, h.attrs...), as...)}
}
func (h *x01Cap) WithGroup(string) xslog.Handler { return h }

func (s *x01Sink) take() []rt.M {
	s.mu.Lock()
	defer s.mu.Unlock()
	out := s.recs
	s.recs = nil
	return out
}

func (s *x01Sink) count() int {
	s.mu.Lock()
	defer s.mu.Unlock()
	return len(s.recs)
}

func (s *x01Sink) settle() {
	last, stable := -1, 0
	for i := 0; i < 400; i++ {
		n := s.count()
		if n == last {
			stable++
			if stable >= 8 {
				return
			}
		} else {
			stable = 0
		}
		last = n
		time.Sleep(4 * time.Millisecond)
	}
}

func x01Quiet() func() {
	stdslog.SetDefault(stdslog.New(stdslog.NewTextHandler(io.Discard, nil)))
	devnull, _ := os.OpenFile(os.DevNull, os.O_WRONLY, 0)
	real := os.Stdout
	if devnull != nil {
		os.Stdout = devnull
	}
	return func() { os.Stdout = real }
}

func x01Snapshot(dir string) map[string]string {
	out := map[string]string{}
	filepath.WalkDir(dir, func(p string, d fs.DirEntry, err error) error {
		if err != nil || d.IsDir() {
			return nil
		}
		rel, _ := filepath.Rel(dir, p)
		data, _ := os.ReadFile(p)
		out[filepath.ToSlash(rel)] = string(data)
		return nil
	})
	return out
}

func x01Same(a, b map[string]string) bool {
	if len(a) != len(b) {
		return false
	}
	for k, v := range a {
		if w, ok := b[k]; !ok || w != v {
			return false
		}
	}
	return true
}

type x01Server struct {
	cfg     *config.Config
	root    string
	parent  string
	handler http.Handler
}

func x01NewServer(t *testing.T, cfgJSON []byte, limit int64, timeout time.Duration) *x01Server {
	parent, err := os.MkdirTemp(os.Getenv("X01_TMP"), "x01-")
	if err != nil {
		t.Fatal(err)
	}
	t.Cleanup(func() { os.RemoveAll(parent) })
	root := filepath.Join(parent, "root")
	os.MkdirAll(root, 0777)
	cfgfile := filepath.Join(parent, "config.json")
	if err := os.WriteFile(cfgfile, cfgJSON, 0666); err != nil {
		t.Fatal(err)
	}
	cfg := config.NewConfig()
	cfg.LocalStorage = root
	cfg.ProjectID = ""
	cfg.UploadConfig = cfgfile
	if limit > 0 {
		cfg.MaxRequestBytes = limit
	}
	if timeout > 0 {
		cfg.RequestTimeout = timeout
	}
	h := newHandler(context.Background(), cfg)
	for _, b := range []string{cfg.ChartDataBucket, cfg.MergedBucket, cfg.UploadBucket} {
		os.MkdirAll(filepath.Join(root, b), 0777)
	}
	return &x01Server{cfg: cfg, root: root, parent: parent, handler: h}
}

func (s *x01Server) bucketDir(b string) string {
	switch b {
	case "chart":
		return filepath.Join(s.root, s.cfg.ChartDataBucket)
	case "merged":
		return filepath.Join(s.root, s.cfg.MergedBucket)
	case "upload":
		return filepath.Join(s.root, s.cfg.UploadBucket)
	case "root":
		return s.root
	}
	return filepath.Join(s.root, b)
}

// ------------------------------------------------------------------ routes

var (
	x01H1     = regexp.MustCompile(`(?s)<h1>(.*?)</h1>`)
	x01H2     = regexp.MustCompile(`(?s)<h2>(.*?)</h2>`)
	x01Href   = regexp.MustCompile(`<li><a href="([^"]*)">`)
	x01PageJS = regexp.MustCompile(`(?s)window\.Page = (.*?);\s*</script>`)
)

type x01Op struct {
	Op      string `json:"op"` // put | del | get | clear
	Bucket  string `json:"bucket"`
	Name    string `json:"name"`
	Content string `json:"content"`
	Method  string `json:"method"`
	Target  string `json:"target"` // request target as sent (escaped)
	ID      int    `json:"id"`
}

func x01Get(s *x01Server, method, target string) rt.M {
	out := rt.M{}
	req, err := http.ReadRequest(bufio.NewReader(strings.NewReader(method + " " + target + " HTTP/1.1\r\nHost: site.invalid\r\n\r\n")))
	if err != nil {
		out["badrequest"] = err.Error()
		return out
	}
	before := x01Snapshot(s.root)
	rec := httptest.NewRecorder()
	done := make(chan any, 1)
	go func() {
		defer func() { done <- recover() }()
		s.handler.ServeHTTP(rec, req)
	}()
	select {
	case p := <-done:
		if p != nil {
			out["panic"] = fmt.Sprint(p)
		}
	case <-time.After(60 * time.Second):
		out["hang"] = true
		return out
	}
	after := x01Snapshot(s.root)
	body := rec.Body.String()
	out["status"] = rec.Code
	out["changed"] = !x01Same(before, after)
	out["loc"] = rec.Header().Get("Location")
	out["ctype"] = rec.Header().Get("Content-Type")
	if m := x01H1.FindStringSubmatch(body); m != nil {
		out["h1"] = strings.TrimSpace(m[1])
	}
	if m := x01H2.FindStringSubmatch(body); m != nil {
		out["h2"] = strings.TrimSpace(m[1])
	}
	hrefs := []string{}
	for _, m := range x01Href.FindAllStringSubmatch(body, -1) {
		hrefs = append(hrefs, m[1])
	}
	sort.Strings(hrefs)
	out["hrefs"] = hrefs
	if m := x01PageJS.FindStringSubmatch(body); m != nil {
		var page any
		if err := json.Unmarshal([]byte(m[1]), &page); err == nil {
			out["page"] = page
		} else {
			out["page_err"] = err.Error()
		}
	}
	out["has_cfgmark"] = strings.Contains(body, "x01.example/marker-program")
	out["has_privacy"] = strings.Contains(body, "Privacy Policy")
	out["decoy"] = strings.Contains(body, "DECOY")
	if len(body) < 200 {
		out["body"] = body
	}
	return out
}

func x01Apply(s *x01Server, op x01Op) rt.M {
	switch op.Op {
	case "put":
		p := filepath.Join(s.bucketDir(op.Bucket), filepath.FromSlash(op.Name))
		os.MkdirAll(filepath.Dir(p), 0777)
		if err := os.WriteFile(p, []byte(op.Content), 0666); err != nil {
			return rt.M{"err": err.Error()}
		}
	case "del":
		os.Remove(filepath.Join(s.bucketDir(op.Bucket), filepath.FromSlash(op.Name)))
	case "clear":
		for _, b := range []string{"chart", "merged", "upload"} {
			ents, _ := os.ReadDir(s.bucketDir(b))
			for _, e := range ents {
				os.RemoveAll(filepath.Join(s.bucketDir(b), e.Name()))
			}
		}
	case "get":
		return x01Get(s, op.Method, op.Target)
	}
	return nil
}

func TestVerifX01Routes(t *testing.T) {
	defer rt.Flush()
	var in struct {
		Config json.RawMessage `json:"config"`
		Runs   []struct {
			ID  int     `json:"id"`
			Ops []x01Op `json:"ops"`
		} `json:"runs"`
	}
	if err := rt.In(&in); err != nil {
		t.Skip(err)
	}
	defer x01Quiet()()
	xslog.SetDefault(xslog.New(xslog.NewTextHandler(io.Discard, nil)))
	s := x01NewServer(t, in.Config, 0, 0)
	// decoys: chart-shaped objects outside the chart bucket
	os.WriteFile(filepath.Join(s.root, "DECOY-root.json"), []byte(`{"DateRange":["DECOY","DECOY"],"Programs":[],"NumReports":990001}`), 0666)
	os.WriteFile(filepath.Join(s.parent, "DECOY-parent.json"), []byte(`{"DateRange":["DECOY","DECOY"],"Programs":[],"NumReports":990002}`), 0666)
	n := 0
	for _, run := range in.Runs {
		x01Apply(s, x01Op{Op: "clear"})
		for i, op := range run.Ops {
			r := x01Apply(s, op)
			if op.Op == "get" {
				r["kind"] = "get"
				r["run"] = run.ID
				r["i"] = i
				r["id"] = op.ID
				rt.Out(r)
				n++
				if r["hang"] == true {
					rt.Out(rt.M{"kind": "summary", "n": n, "aborted": "hang"})
					return
				}
			} else if r != nil {
				t.Fatalf("run %d op %d: %v", run.ID, i, r)
			}
		}
	}
	rt.Out(rt.M{"kind": "summary", "n": n, "chart_bucket": s.cfg.ChartDataBucket, "merged_bucket": s.cfg.MergedBucket, "merged_uri": "?"})
}

// ---------------------------------------------------------------- pipeline

type x01Body struct {
	data    []byte
	pos     int
	mode    string // "" | panic | stall | stallpanic
	stalled chan struct{}
	release chan struct{}
	once    sync.Once
	mu      sync.Mutex
	pulled  int
	reads   int
	resumed bool
}

func (b *x01Body) Read(p []byte) (int, error) {
	b.mu.Lock()
	b.reads++
	b.mu.Unlock()
	switch b.mode {
	case "panic":
		panic("x01: body read panics")
	case "stall", "stallpanic":
		b.once.Do(func() { close(b.stalled) })
		<-b.release
		b.mu.Lock()
		b.resumed = true
		b.mu.Unlock()
		if b.mode == "stallpanic" {
			panic("x01: late body read panic")
		}
	}
	if b.pos >= len(b.data) {
		return 0, io.EOF
	}
	n := copy(p, b.data[b.pos:])
	b.pos += n
	b.mu.Lock()
	b.pulled += n
	b.mu.Unlock()
	return n, nil
}
func (b *x01Body) Close() error { return nil }

type x01Writer struct {
	mu   sync.Mutex
	h    http.Header
	code int
	body bytes.Buffer
}

func (w *x01Writer) Header() http.Header { return w.h }
func (w *x01Writer) WriteHeader(c int) {
	w.mu.Lock()
	defer w.mu.Unlock()
	if w.code == 0 {
		w.code = c
	}
}
func (w *x01Writer) Write(p []byte) (int, error) {
	w.mu.Lock()
	defer w.mu.Unlock()
	if w.code == 0 {
		w.code = 200
	}
	return w.body.Write(p)
}

func x01Report(x float64, total int) []byte {
	core := fmt.Sprintf(`{"Week":"2024-01-01","LastWeek":"2023-12-25","X":%g,"Programs":null,"Config":"v0.0.1"}`, x)
	if total > len(core) {
		return append(bytes.Repeat([]byte(" "), total-len(core)), core...)
	}
	return []byte(core)
}

func TestVerifX01Pipeline(t *testing.T) {
	defer rt.Flush()
	var in struct {
		Config    json.RawMessage `json:"config"`
		Limit     int64           `json:"limit"`
		TimeoutMs int             `json:"timeout_ms"`
		Histories []struct {
			ID    int      `json:"id"`
			Steps []string `json:"steps"`
		} `json:"histories"`
	}
	if err := rt.In(&in); err != nil {
		t.Skip(err)
	}
	defer x01Quiet()()
	sink := &x01Sink{}
	xslog.SetDefault(xslog.New(&x01Cap{sink: sink}))
	fast := x01NewServer(t, in.Config, in.Limit, 10*time.Minute)
	slow := x01NewServer(t, in.Config, in.Limit, time.Duration(in.TimeoutMs)*time.Millisecond)
	nreq := 0
	for _, hist := range in.Histories {
		s := fast
		for _, c := range hist.Steps {
			if c == "stall" || c == "stallpanic" {
				s = slow
			}
		}
		for i, cls := range hist.Steps {
			nreq++
			x := 0.001 + float64(nreq%900)/1000
			method, target := "POST", fmt.Sprintf("/upload/2024-01-01/%d.json", nreq)
			b := &x01Body{stalled: make(chan struct{}), release: make(chan struct{})}
			switch cls {
			case "get":
				method, target = "GET", "/privacy"
			case "ok200":
				b.data = x01Report(x, 0)
			case "ok400":
				b.data = []byte(`{"Week": 12, this is not JSON`)
			case "exact":
				b.data = x01Report(x, int(in.Limit))
			case "over1":
				b.data = x01Report(x, int(in.Limit)+1)
			case "over":
				b.data = x01Report(x, 3*int(in.Limit)+17)
			case "panic":
				b.mode = "panic"
			case "stall":
				b.mode = "stall"
				b.data = x01Report(x, 0)
			case "stallpanic":
				b.mode = "stallpanic"
			default:
				t.Fatalf("unknown class %q", cls)
			}
			req := httptest.NewRequest(method, "http://site.invalid"+target, nil)
			req.RequestURI = target
			if method == "POST" {
				req.Body = b
				req.ContentLength = -1
			}
			sink.take()
			w := &x01Writer{h: http.Header{}}
			done := make(chan any, 1)
			go func() {
				defer func() { done <- recover() }()
				s.handler.ServeHTTP(w, req)
			}()
			out := rt.M{"kind": "pipe", "hist": hist.ID, "i": i, "cls": cls, "size": len(b.data)}
			var p any
			late, hang, got := false, false, false
			stalls := b.mode == "stall" || b.mode == "stallpanic"
			if stalls {
				select {
				case p = <-done:
					got = true
				case <-b.stalled:
					select {
					case p = <-done:
						got = true
					case <-time.After(5 * time.Second):
						late = true
					}
				case <-time.After(20 * time.Second):
					hang = true
				}
				close(b.release)
			}
			if !got && !hang {
				select {
				case p = <-done:
				case <-time.After(20 * time.Second):
					hang = true
				}
			}
			if hang {
				out["hang"] = true
				rt.Out(out)
				rt.Out(rt.M{"kind": "summary", "n": nreq, "aborted": "hang"})
				return
			}
			if stalls {
				// let the released handler goroutine run to its end
				for k := 0; k < 500; k++ {
					b.mu.Lock()
					r := b.resumed
					b.mu.Unlock()
					if r {
						break
					}
					time.Sleep(time.Millisecond)
				}
			}
			if stalls {
				sink.settle()
			}
			w.mu.Lock()
			code, body := w.code, w.body.String()
			w.mu.Unlock()
			escaped := p != nil
			status := code
			if code == 0 {
				status = 200
				if escaped {
					status = 0
				}
			}
			src := "handler"
			switch {
			case strings.Contains(body, "request timed out"):
				src = "timeout"
			case strings.TrimSpace(body) == http.StatusText(500):
				src = "panic500"
			}
			out["status"], out["src"], out["escaped"], out["late"] = status, src, escaped, late
			b.mu.Lock()
			out["pulled"] = b.pulled
			b.mu.Unlock()
			ls := []rt.M{}
			for _, l := range sink.take() {
				msg, _ := l["msg"].(string)
				if !strings.HasPrefix(msg, "request ") {
					continue
				}
				m := "end"
				if msg == "request start" {
					m = "start"
				}
				st := 0
				if x, ok := l["status"].(int64); ok {
					st = int(x)
				}
				lv := strings.ToLower(fmt.Sprint(l["level"]))
				ls = append(ls, rt.M{"msg": m, "status": st, "level": lv, "text": msg, "method": l["method"], "uri": l["uri"]})
			}
			out["logs"] = ls
			out["method"], out["target"] = method, target
			out["body"] = strings.TrimSpace(body)
			if len(body) > 120 {
				out["body"] = body[:120]
			}
			rt.Out(out)
		}
	}
	rt.Out(rt.M{"kind": "summary", "n": nreq, "limit": in.Limit})
}

// -------------------------------------------------------------------- raw

func x01LocSafe(loc string) bool {
	if loc == "" {
		return true
	}
	s := strings.TrimFunc(loc, func(r rune) bool { return r <= 0x20 })
	s = strings.NewReplacer("\t", "", "\n", "", "\r", "").Replace(s)
	s = strings.ReplaceAll(s, "\\", "/")
	if strings.HasPrefix(s, "//") {
		return false
	}
	for i, c := range s {
		switch {
		case c == ':':
			return i == 0
		case c >= 'a' && c <= 'z', c >= 'A' && c <= 'Z':
		case i > 0 && (c >= '0' && c <= '9' || c == '+' || c == '-' || c == '.'):
		default:
			return true
		}
	}
	return true
}

// x01Why names, for reports only, why a target cannot name a content file at all.
func x01Why(target string) string {
	u, err := url.ParseRequestURI(target)
	if err != nil {
		return ""
	}
	c := path.Clean(strings.TrimPrefix(u.Path, "/"))
	switch {
	case !fs.ValidPath(c):
		return "invalid-path"
	case strings.ContainsRune(c, 0):
		return "nul-byte"
	}
	return ""
}

func TestVerifX01Raw(t *testing.T) {
	defer rt.Flush()
	var in struct {
		Config  json.RawMessage `json:"config"`
		Targets []struct {
			ID     int    `json:"id"`
			Method string `json:"method"`
			Target string `json:"target"`
			Class  string `json:"class"`
		} `json:"targets"`
	}
	if err := rt.In(&in); err != nil {
		t.Skip(err)
	}
	defer x01Quiet()()
	xslog.SetDefault(xslog.New(xslog.NewTextHandler(io.Discard, nil)))
	s := x01NewServer(t, in.Config, 0, 0)
	os.WriteFile(filepath.Join(s.root, "DECOY-root.json"), []byte(`{"DateRange":["DECOY","DECOY"],"Programs":[],"NumReports":990001}`), 0666)
	ts := httptest.NewServer(s.handler)
	defer ts.Close()
	addr := strings.TrimPrefix(ts.URL, "http://")
	n := 0
	for _, tg := range in.Targets {
		c, err := net.DialTimeout("tcp", addr, 5*time.Second)
		if err != nil {
			t.Fatal(err)
		}
		c.SetDeadline(time.Now().Add(30 * time.Second))
		fmt.Fprintf(c, "%s %s HTTP/1.1\r\nHost: site.invalid\r\nConnection: close\r\n\r\n", tg.Method, tg.Target)
		resp, err := http.ReadResponse(bufio.NewReader(c), nil)
		if err != nil {
			rt.Out(rt.M{"kind": "obs", "cls": "hostile", "class": tg.Class, "shape": tg.ID, "via": "tcp", "path": tg.Method + " " + tg.Target,
				"safe": rt.M{"status": 0, "leaked": false, "locsafe": true, "broken": false}, "loc": "", "panic": "", "k": "noresponse:" + err.Error()})
			c.Close()
			n++
			continue
		}
		body, _ := io.ReadAll(io.LimitReader(resp.Body, 1<<20))
		resp.Body.Close()
		c.Close()
		loc := resp.Header.Get("Location")
		rt.Out(rt.M{"kind": "obs", "cls": "hostile", "class": tg.Class, "shape": tg.ID, "via": "tcp", "path": tg.Method + " " + tg.Target,
			"safe": rt.M{"status": resp.StatusCode, "leaked": bytes.Contains(body, []byte("DECOY")), "locsafe": x01LocSafe(loc), "broken": false},
			"loc":  loc, "panic": "", "k": fmt.Sprint(resp.StatusCode), "why": x01Why(tg.Target)})
		n++
	}
	rt.Out(rt.M{"kind": "summary", "n": n})
}
