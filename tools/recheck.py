#!/usr/bin/env python3
"""tools/recheck.py <seeded-id> [PROP] [tier]: re-run a property's check against an archived seeded change
(private copy of /repo + seeded/<id>/patch.diff) and update meta.json (the previous result moves to earlier_checks)."""
import json, os, shutil, subprocess, sys, tempfile
V = '/verif'
sid = sys.argv[1]
prop = sys.argv[2] if len(sys.argv) > 2 else sid.split('-')[0]
tier = sys.argv[3] if len(sys.argv) > 3 else 'quick'
mp = os.path.join(V, 'seeded', sid, 'meta.json')
m = json.load(open(mp))
d = tempfile.mkdtemp(prefix='seedrepo-')
try:
    subprocess.run('rsync -a --exclude .git /repo/ %s/' % d, shell=True, check=True)
    subprocess.run('patch -p1 -s < %s' % os.path.join(V, 'seeded', sid, 'patch.diff'), shell=True, check=True, cwd=d)
    env = dict(os.environ, VERIF_REPO=d, VERIF_EVIDENCE_DIR=os.path.join(d, '_ev'))
    p = subprocess.run(['timeout', '3000', './vcheck', prop, '--tier', tier], cwd=V, env=env, stdout=subprocess.PIPE, stderr=subprocess.STDOUT, text=True)
    lines = [l[:400] for l in p.stdout.splitlines() if l.startswith(('VIOLATION', 'KNOWN', '  ', 'INFRA')) or 'evidence written' in l][:12]
    c = m.setdefault('confirmed', {})
    if 'check' in c:
        c.setdefault('earlier_checks', []).append(c['check'])
    c['check'] = {'tier': tier, 'rc': p.returncode, 'lines': lines, 'by': prop}
    json.dump(m, open(mp, 'w'), indent=1)
    print(sid, prop, 'rc=%d' % p.returncode, lines[1][:200] if len(lines) > 1 else '')
finally:
    shutil.rmtree(d, ignore_errors=True)
