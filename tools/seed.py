#!/usr/bin/env python3
"""tools/seed.py <worktree> <mutant-dir-name> <PROP> [tier]
Confirms a seeded change written by a sub-agent (applies, builds, suite green, demo fails with / passes without),
runs the property's check against a private copy with the patch applied, and archives everything under /verif/seeded/."""
import json, os, shutil, subprocess, sys, tempfile, time
wt, mid, prop = sys.argv[1], sys.argv[2], sys.argv[3]
tier = sys.argv[4] if len(sys.argv) > 4 else 'quick'
env = dict(os.environ, GOFLAGS='-mod=mod', GOPROXY='off', GOSUMDB='off', GOTOOLCHAIN='local')
md = os.path.join(wt, 'mutants', mid)
meta = json.load(open(os.path.join(md, 'meta.json')))
def sh(cmd, cwd, timeout=1500):
    p = subprocess.run(cmd, shell=True, cwd=cwd, env=env, stdout=subprocess.PIPE, stderr=subprocess.STDOUT, text=True, timeout=timeout)
    return p.returncode, p.stdout
d = tempfile.mkdtemp(prefix='seedrepo-')
res = {}
try:
    subprocess.run(['rsync', '-a', '--exclude', '.git', '--exclude', 'mutants', '/repo/', d + '/'], check=True)
    subprocess.run(['git', 'init', '-q'], cwd=d); 
    rc, out = sh('git apply --whitespace=nowarn %s' % os.path.join(md, 'patch.diff'), d)
    res['applies'] = rc == 0
    if rc != 0:
        print('PATCH DOES NOT APPLY\n', out); sys.exit(1)
    rc, out = sh('go build ./... && (cd godev && go build ./...)', d); res['builds'] = rc == 0
    rc, out = sh('go test -count=1 ./... 2>&1 | tail -40', d); res['suite_root'] = ('FAIL' not in out)
    rc2, out2 = sh('cd godev && go test -count=1 ./... 2>&1 | tail -30', d); res['suite_godev'] = ('FAIL' not in out2)
    if not res['suite_root']: print(out[-1500:])
    # demo with the patch
    demo_cmd = meta.get('demo_cmd', '')
    readme = ''
    for fn in os.listdir(os.path.join(md, 'demo')):
        if fn.lower().startswith('readme'):
            readme = open(os.path.join(md, 'demo', fn)).read()
    print('README:', readme.strip()[:400]); print('demo_cmd:', demo_cmd)
    res['readme'] = readme.strip()[:600]
    # copy demo go files next to where README says: heuristic = a path mentioned in the README / demo_cmd
    import re
    target = None
    cands = set()
    for txt in (readme, demo_cmd):
        for m in re.finditer(r'(?:\./)?((?:godev/)?(?:internal|cmd|counter|crashmonitor|config)(?:/[\w.-]+)*)', txt):
            q = m.group(1).rstrip('/')
            while q and not os.path.isdir(os.path.join(d, q)):
                q = q.rsplit('/', 1)[0] if '/' in q else ''
            if q:
                cands.add(q)
    if cands:
        target = max(cands, key=len)
    if target is None and ('go test .' in demo_cmd or 'package telemetry' in readme):
        target = '.'
    res['demo_target'] = target
    per_file = {}
    if target is not None:
        for fn in os.listdir(os.path.join(md, 'demo')):
            if fn.endswith('.go'):
                src = open(os.path.join(md, 'demo', fn)).read()
                mpk = re.search(r'^package (\w+)', src, re.M)
                pk = (mpk.group(1) if mpk else '').replace('_test', '')
                tdir = target
                for c in sorted(cands, key=len, reverse=True):
                    if os.path.basename(c) == pk:
                        tdir = c
                        break
                per_file[fn] = tdir
                shutil.copy(os.path.join(md, 'demo', fn), os.path.join(d, tdir, fn))
        runpat = '|'.join(re.findall(r'func (Test\w+)', ''.join(open(os.path.join(md, 'demo', fn)).read() for fn in os.listdir(os.path.join(md, 'demo')) if fn.endswith('.go'))))
        moddir = 'godev' if target.startswith('godev/') else '.'
        pkgs = sorted({'./' + (t[len('godev/'):] if t.startswith('godev/') else t) for t in per_file.values()} or {'./' + target})
        cmd = "cd %s && go test -count=1 -run '%s' %s 2>&1 | tail -15" % (moddir, runpat, ' '.join(pkgs))
        rc, out = sh(cmd, d, timeout=600); res['demo_fails_with_patch'] = ('FAIL' in out or 'panic' in out or rc != 0) and 'ok  ' not in out.split('\n')[-2:][0]
        print('WITH PATCH:', out[-600:])
        sh('git apply -R --whitespace=nowarn %s' % os.path.join(md, 'patch.diff'), d)
        rc, out = sh(cmd, d, timeout=600); res['demo_passes_without_patch'] = 'ok  ' in out and 'FAIL' not in out
        print('WITHOUT PATCH:', out[-300:])
        sh('git apply --whitespace=nowarn %s' % os.path.join(md, 'patch.diff'), d)
        for fn, tdir in per_file.items():
            os.remove(os.path.join(d, tdir, fn))
    # run the check against the patched copy
    shutil.rmtree(os.path.join(d, '.git'), ignore_errors=True)
    t = time.time()
    ev = os.path.join(d, '_ev')
    p = subprocess.run(['./vcheck', prop, '--tier', tier], cwd='/verif', env=dict(os.environ, VERIF_REPO=d, VERIF_EVIDENCE_DIR=ev), stdout=subprocess.PIPE, stderr=subprocess.STDOUT, text=True, timeout=3600)
    lines = [l for l in p.stdout.split('\n') if l.startswith('VIOLATION') or l.startswith('  ') or l.startswith('KNOWN') or 'INFRA' in l]
    res['check'] = {'prop': prop, 'tier': tier, 'rc': p.returncode, 'wall_s': round(time.time() - t, 1), 'lines': [l[:300] for l in lines[:8]],
                    'divergences': p.stdout.count('MODEL-DIVERGENCE')}
    print('CHECK rc=%d' % p.returncode); print('\n'.join(l[:260] for l in lines[:6]))
finally:
    shutil.rmtree(d, ignore_errors=True)
rnd = 'r9' if '/wt9-' in wt else 'r2' if '/wt2-' in wt else ('r3' if '/wt3-' in wt else ('r2' if '/wt4-' in wt else ('r5' if '/wt5-' in wt else ('r6' if '/wt6-' in wt else ('r7' if '/wt7-' in wt else ('r8' if '/wt8-' in wt else ''))))))
if rnd == 'r3' and prop in ('C05', 'C16'):
    rnd = ''
out_dir = os.path.join('/verif/seeded', '%s-%s%s' % (prop, rnd, mid))
if os.path.isdir(out_dir):
    old = json.load(open(os.path.join(out_dir, 'meta.json'))) if os.path.exists(os.path.join(out_dir, 'meta.json')) else {}
    res['earlier_checks'] = old.get('confirmed', {}).get('earlier_checks', []) + ([old['confirmed']['check']] if 'confirmed' in old and 'check' in old['confirmed'] else [])
    shutil.rmtree(out_dir)
os.makedirs(out_dir)
shutil.copy(os.path.join(md, 'patch.diff'), out_dir)
shutil.copytree(os.path.join(md, 'demo'), os.path.join(out_dir, 'demo'))
meta['confirmed'] = res
meta['property'] = prop
json.dump(meta, open(os.path.join(out_dir, 'meta.json'), 'w'), indent=1)
print(json.dumps({k: v for k, v in res.items() if k not in ('readme', 'check')}))
