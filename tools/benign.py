#!/usr/bin/env python3
"""tools/benign.py <dir-with-benign-subdirs> [PROP-bN ...] [--tier quick] [--par 3]

False-alarm test.  Each <PROP>-bN/ holds patch.diff + meta.json: a behaviour-
preserving change to golang/telemetry written by an independent agent.  For
each one: private copy of /repo, apply, build, run the repository's suites,
run ./vcheck PROP against the copy.  rc 0 = silent (right), rc 1 = FALSE ALARM
(unless inspection shows the change does break the property), rc 2 = the
harness could not run on the changed code (fragility, not an alarm).
Results are archived under /verif/benign/<PROP>-bN/ (patch.diff, meta.json with
"check": {...}).
"""
import concurrent.futures
import json
import os
import shutil
import subprocess
import sys
import tempfile

VERIF = os.path.dirname(os.path.dirname(os.path.abspath(__file__)))
ENV = dict(os.environ, GOFLAGS='-mod=mod', GOPROXY='off', GOSUMDB='off', GOTOOLCHAIN='local')


def sh(cmd, cwd, timeout=1800, env=None):
    p = subprocess.run(cmd, cwd=cwd, shell=True, stdout=subprocess.PIPE, stderr=subprocess.STDOUT, text=True, timeout=timeout, env=env or ENV)
    return p.returncode, p.stdout


def one(src, name, tier, suites):
    prop = name.split('-')[0]
    d = tempfile.mkdtemp(prefix='benrepo-')
    res = {'name': name, 'prop': prop}
    try:
        sh('rsync -a --exclude .git --exclude benign --exclude mutants /repo/ %s/' % d, '/')
        rc, out = sh('patch -p1 -s < %s' % os.path.join(src, name, 'patch.diff'), d)
        res['applies'] = rc == 0
        if rc != 0:
            res['error'] = out[-500:]
            return res
        rc, out = sh('go build ./... && cd godev && go build ./...', d)
        res['builds'] = rc == 0
        if rc != 0:
            res['error'] = out[-800:]
            return res
        if suites:
            rc1, o1 = sh('go test -count=1 ./... 2>&1 | grep -v "^ok\\|no test files" | head -30', d, timeout=2400)
            rc2, o2 = sh('cd godev && go test -count=1 ./... 2>&1 | grep -v "^ok\\|no test files" | head -30', d, timeout=2400)
            res['suite_root'] = 'FAIL' not in o1
            res['suite_godev'] = 'FAIL' not in o2
            if not (res['suite_root'] and res['suite_godev']):
                res['suite_out'] = (o1 + o2)[-1500:]
        env = dict(ENV, VERIF_REPO=d, VERIF_EVIDENCE_DIR=os.path.join(d, '_ev'))
        rc, out = sh('timeout 3000 ./vcheck %s --tier %s' % (prop, tier), VERIF, timeout=3100, env=env)
        lines = [l for l in out.splitlines() if l.startswith(('VIOLATION', 'KNOWN', '  ', 'INFRA')) or 'evidence written' in l or 'MODEL-DIV' in l]
        res['check'] = {'tier': tier, 'rc': rc, 'lines': [l[:400] for l in lines[:12]]}
        if rc == 2:
            res['check']['tail'] = out[-1500:]
        return res
    finally:
        shutil.rmtree(d, ignore_errors=True)


def main():
    args = sys.argv[1:]
    tier, par, suites = 'quick', 3, True
    if '--tier' in args:
        i = args.index('--tier'); tier = args[i + 1]; del args[i:i + 2]
    if '--par' in args:
        i = args.index('--par'); par = int(args[i + 1]); del args[i:i + 2]
    if '--nosuite' in args:
        args.remove('--nosuite'); suites = False
    src = args[0]
    names = args[1:] or sorted(n for n in os.listdir(src) if os.path.exists(os.path.join(src, n, 'patch.diff')))
    with concurrent.futures.ThreadPoolExecutor(par) as ex:
        futs = {ex.submit(one, src, n, tier, suites): n for n in names}
        for f in concurrent.futures.as_completed(futs):
            n = futs[f]
            try:
                r = f.result()
            except Exception as e:  # noqa: BLE001
                r = {'name': n, 'error': repr(e)}
            dst = os.path.join(VERIF, 'benign', n)
            os.makedirs(dst, exist_ok=True)
            if os.path.abspath(src) != os.path.join(VERIF, 'benign'):
                shutil.copy(os.path.join(src, n, 'patch.diff'), dst)
            meta = {}
            mp = os.path.join(src, n, 'meta.json')
            if os.path.exists(mp):
                try:
                    meta = json.load(open(mp))
                except Exception:  # noqa: BLE001
                    meta = {'raw': open(mp).read()[:2000]}
            prev = {}
            if os.path.exists(os.path.join(dst, 'meta.json')):
                try:
                    prev = json.load(open(os.path.join(dst, 'meta.json'))).get('confirmed', {})
                except Exception:  # noqa: BLE001
                    prev = {}
            meta['confirmed'] = {k: v for k, v in r.items() if k not in ('name',)}
            for k in ('suite_root', 'suite_godev'):
                if meta['confirmed'].get(k) is None and k in prev:
                    meta['confirmed'][k] = prev[k]
            if 'check' in prev:
                meta['confirmed']['earlier_checks'] = prev.get('earlier_checks', []) + [{kk: vv for kk, vv in prev['check'].items() if kk != 'tail'}]
            json.dump(meta, open(os.path.join(dst, 'meta.json'), 'w'), indent=1)
            c = r.get('check', {})
            print('%-10s applies=%s builds=%s suites=%s/%s rc=%s' % (n, r.get('applies'), r.get('builds'), r.get('suite_root'), r.get('suite_godev'), c.get('rc')), flush=True)
            for l in c.get('lines', [])[:4]:
                if not l.startswith('[') or c.get('rc'):
                    print('     ', l[:300], flush=True)
            if r.get('error'):
                print('     ERROR', r['error'][-400:], flush=True)


if __name__ == '__main__':
    main()
