import json,sys
sys.path.insert(0,'/verif')
from vlib import core
ctx=core.Ctx('DBG')
ctx.inject('internal/upload', also=('c08_verif_test.go',)); ctx.instrument('-files','internal/upload')
run=json.loads(sys.argv[1])
recs,rc,out=ctx.run_harness('./internal/upload','TestVerifC08',inp={'runs':[run]})
def fs(d): return {k:(v['st'][0]+('C' if v.get('complete') else 'i')+str(v.get('by',''))+str(v.get('files','')) if v['st']=='file' else '-') for k,v in d.items()}
for r in recs:
    if r['kind']=='obs':
        print(r['i'],r['t'],r.get('victim',''),r.get('op',''),r.get('arg',''),'| count',r['count'],'ready',fs(r['ready']),'local',fs(r['localr']),'up',fs(r['uploaded']),'lock',r['lock'],'acks',len(r['acks']),'posts',[(q['w'],q['reply']) for q in r['posts']])
    else:
        print('RESULT',r['status'],r.get('fault'),r['localdir'])
