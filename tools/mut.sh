#!/bin/bash
# usage: tools/mut.sh <prop> <file-in-repo> <python-regex-old> <new> [tier]
# applies an edit to a private copy of /repo, runs the check against it (VERIF_REPO), removes the copy
prop=$1; file=$2; old=$3; new=$4; tier=${5:-quick}
d=$(mktemp -d /tmp/mutrepo-XXXXXX)
rsync -a --exclude .git /repo/ $d/
cd $d && python3 - "$file" "$old" "$new" <<'PY'
import sys,re
p,old,new=sys.argv[1:4]
s=open(p).read()
s2,n=re.subn(old,lambda m:new,s,count=1,flags=re.S)
if n==0: print("MUTANT DID NOT APPLY"); sys.exit(3)
open(p,'w').write(s2)
PY
if [ $? -eq 3 ]; then rm -rf $d; exit 3; fi
(cd $d && GOFLAGS=-mod=mod GOPROXY=off go build ./... 2>&1 | head -5)
cd /verif && VERIF_REPO=$d VERIF_EVIDENCE_DIR=$d/evidence ./vcheck $prop --tier $tier 2>&1 | grep -E "^VIOLATION|^  |^KNOWN|^INFRA|evidence written|MODEL-DIV" | cut -c1-220 | head -14
echo "rc=${PIPESTATUS[0]}"
rm -rf $d
