#!/bin/bash
# tools/allseeds.sh <seed>... : every quick check on the unchanged tree with each seed (flake hunt); evidence goes to a scratch dir
cd "$(dirname "$0")/.."
ev=$(mktemp -d)
for sd in "$@"; do
for p in C01 C02 C03 C04 C05 C06 C07 C08 C09 C10 C11 C12 C13 C14 C15 C16 C17 C18 C19 E2E X01 X02 X03 X04; do
  out=$(VERIF_SEED=$sd VERIF_EVIDENCE_DIR=$ev timeout 1200 ./vcheck $p --tier quick 2>&1)
  rc=$?
  echo "seed=$sd $p rc=$rc $(echo "$out" | grep -E 'evidence written' | sed 's/.*written: //' | cut -c1-120)"
  if [ $rc -ne 0 ]; then echo "$out" | grep -E -A12 "^VIOLATION|INFRA" | cut -c1-400 | head -40; fi
done
done
rm -rf "$ev"
echo ALLDONE
