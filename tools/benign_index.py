#!/usr/bin/env python3
"""Regenerates benign/INDEX.md from benign/*/meta.json."""
import glob, json, os
rows = []
for f in sorted(glob.glob('/verif/benign/*/meta.json')):
    m = json.load(open(f))
    c = m.get('confirmed', {})
    ck = c.get('check', {})
    rc = ck.get('rc')
    verdict = {0: 'silent (right)', 1: 'ALARM', 2: 'harness could not run (exit 2, no alarm)'}.get(rc, str(rc))
    hist = ''
    if any(e.get('rc') not in (0, None) for e in c.get('earlier_checks', [])) and rc == 0:
        hist = ' (exit %s before the harness was made independent of the code shape)' % ','.join(str(e.get('rc')) for e in c.get('earlier_checks', []))
    rows.append('| %s | %s | %s | %s%s |' % (os.path.basename(os.path.dirname(f)), m.get('kind', ''), str(m.get('summary', ''))[:260].replace('|', '/').replace('\n', ' '), verdict, hist))
open('/verif/benign/INDEX.md', 'w').write(
    '# Behaviour-preserving changes written by independent sub-agents (false-alarm test)\n\n'
    'Each agent saw only property texts and a scratch worktree and wrote changes that preserve the property\n'
    '(refactorings, data-structure switches, different syscalls/atomics counts, reworded logs and errors).\n'
    '`tools/benign.py` applies each to a private copy, runs both suites and the property\'s quick check.\n\n'
    '| id | kind | change | check |\n|---|---|---|---|\n' + '\n'.join(rows) + '\n')
print(len(rows), 'rows')
