#!/usr/bin/env python3
"""Regenerates seeded/INDEX.md from seeded/*/meta.json."""
import glob, json, os
rows = []
for f in sorted(glob.glob('/verif/seeded/*/meta.json')):
    m = json.load(open(f))
    c = m.get('confirmed', {})
    ck = c.get('check', {})
    conf = all(c.get(k) for k in ('applies', 'builds', 'suite_godev', 'demo_fails_with_patch', 'demo_passes_without_patch'))
    suite = 'green' if c.get('suite_root') else 'root suite had a failure under load (flaky TestStart/TestRun_Concurrent, also on the unpatched tree)'
    caught = 'not generated: outside the property\'s quantifier (meta.json scope_note)' if m.get('scope_note') and ck.get('rc') != 1 else 'CAUGHT (quick)' if ck.get('rc') == 1 and ck.get('tier') == 'quick' else ('CAUGHT (thorough)' if ck.get('rc') == 1 else 'missed by %s' % ck.get('tier'))
    own = os.path.basename(os.path.dirname(f)).split('-')[0]
    if ck.get('by') and ck.get('by') != own and ck.get('rc') == 1:
        caught += ' by %s (the property whose statement covers it; %s itself stays silent)' % (ck['by'], own)
    first = ''
    for l in ck.get('lines', []):
        if l.startswith('  '):
            first = l.strip()[:160]
            break
    earlier = c.get('earlier_checks', [])
    hist = ''
    if earlier and any(e.get('rc') == 0 for e in earlier) and ck.get('rc') == 1:
        hist = ' (missed before the check was strengthened)'
    rows.append('| %s | %s | %s | %s | %s%s | %s |' % (os.path.basename(os.path.dirname(f)), m.get('summary', '')[:150].replace('|', '/'),
                                                  m.get('needs', '')[:140].replace('|', '/'), 'confirmed' if conf else 'NOT CONFIRMED',
                                                  caught, hist, first.replace('|', '/')))
open('/verif/seeded/INDEX.md', 'w').write(
    '# Seeded changes written by independent sub-agents (they saw only the property text and a scratch worktree)\n\n'
    'Each was confirmed in a private copy of /repo (patch applies, builds, both suites green, demonstration fails with / passes without the patch)\n'
    'and then the property\'s check was run against the patched copy (`tools/seed.py`).\n\n'
    '| id | change | needs | confirmation | check | first violation line |\n|---|---|---|---|---|---|\n' + '\n'.join(rows) + '\n')
print(len(rows), 'rows')
