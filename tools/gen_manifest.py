#!/usr/bin/env python3
"""Regenerates /verif/MANIFEST.json from the table below."""
import json
import os

VERIF = os.path.dirname(os.path.dirname(os.path.abspath(__file__)))
props = [json.loads(l) for l in open(os.path.join(VERIF, 'properties.jsonl'))]

# id -> dict(text, note, technique, design_ref, engine)
CLAIMED = {
    'C09': dict(
        text='Calendar.tla states the span arithmetic from the property text; TLC enumerates every (day, week-end byte) vector of the explored day '
             'windows (thorough: every day 1970-2037) and the real counterSpan is replayed on each at four times of day; random instants/contents observed '
             'on the real code are validated by TLC against the same operators (CalendarTrace); CalendarRot.tla (rotate/inc/upload behaviours, invariants and '
             'action properties checked exhaustively by TLC) is replayed step by step into a private counter file and the real uploader, comparing the decoded '
             'telemetry directory with the model state after every step.',
        note='Trusted: Go time package for day-number <-> civil date; the independent v1 decoder in harness/verifrt; one process with explicit rotate calls '
             '(the AfterFunc timer is not exercised); bounded horizon (16 days) for behaviours.',
        technique='TLA+ spec (Calendar/CalendarVec/CalendarRot/CalendarTrace) + TLC exhaustive enumeration and simulation; model->code replay and code->model trace validation',
        design_ref='DESIGN.md §4 C09', engine='calendar'),
}

CLAIMED['C03'] = dict(
    text='Counter.tla models the counter protocol of internal/counter at the granularity of its shared-memory operations (one action per atomic operation / '
         'mutex acquisition: register, Add, releaseReader, releaseLock, add, lookup/newCounter1 with growth, invalidateCounters, rotate1; bit-exact state word). '
         'TLC checks UpperBound/NoDeadlock/TypeOK exhaustively per scenario family (first open, rotation, growth) and produces, in the same run, shortest witness '
         'schedules into 21 named race/branch windows and to every property the design still violates. Those schedules, TLC -simulate walks and random schedules '
         'are executed on the real package (AST-instrumented copy, cooperative scheduler, use-after-unmap made a deterministic fault); every observed real state is '
         'judged by TLC against the clauses of the property (CounterObs.tla) and every recorded trace must be a behaviour of Counter.tla (CounterTrace.tla).',
    note='Bounds: <= 3 adders + 1 rotator, <= 3 counters, amounts of 1 (saturation only in the model). Trusted: the instrumenter (sync/atomic and file.mu are the '
         'only interleaving points), the scheduler, mprotect emulation of munmap, Go memory model (sequentially consistent atomics). A TLC counter-example alone is '
         'never a violation; only real executions are.',
    technique='TLA+ protocol spec + TLC exhaustive/simulate; witness-schedule replay into instrumented real code; TLC trace validation and TLC evaluation of the property on observed states',
    design_ref='DESIGN.md §4 C03', engine='counter-protocol')
CLAIMED['C04'] = dict(
    text='CounterFile.tla models mappedFile.lookup/newCounter/extend and Counter.add across processes at the granularity of every atomic access to mapped memory '
         'and every Stat/WriteAt/reopen, with Kill(p) enabled everywhere. TLC checks WellFormed/UniqueNames/ValuesExact and monotonicity exhaustively for 2 (thorough: 3) '
         'processes with same/colliding/distinct names and produces witness schedules into 12 race/kill windows. Schedules (with kills) are executed on emulated processes '
         '(independent file values over one count file) under the scheduler; after every step the file bytes are decoded by an independent decoder, TLC judges the clauses on '
         'every observed file state (CounterFileObs.tla) and validates each trace against the model (CounterFileTrace.tla).',
    note='Processes are emulated in one address space (kernel page-cache coherence trusted); all names have one length (K = 3 records per page); <= 3 processes, one Add each; '
         'the 10-remap-tries failure is not reached. Liveness (survivors finish) is checked on the model only (thorough).',
    technique='TLA+ protocol spec + TLC exhaustive/simulate with kills; replay into instrumented real code; independent decoder projection; TLC trace validation',
    design_ref='DESIGN.md §4 C04', engine='counter-file')

NOT_YET = 'check not built yet in this session (see DESIGN.md §8 build order); will be claimed when its TLA+ module and conformance harness exist'

checks = []
na = []
for p in props:
    pid = p['id']
    if pid in CLAIMED:
        c = CLAIMED[pid]
        checks.append({
            'property_id': pid,
            'quick_cmd': './vcheck %s --tier quick' % pid,
            'thorough_cmd': './vcheck %s --tier thorough' % pid,
            'evidence_file': 'evidence/%s.json' % pid,
            'replay_cmd_template': './vcheck %s --replay {path}' % pid,
            'engine': c.get('engine', 'vcheck'),
            'level_claimed': {'category': c.get('category', 'model_checking'), 'text': c['text'], 'design_ref': c['design_ref']},
            'level_note': c['note'],
            'technique': c['technique'],
        })
    else:
        na.append({'property_id': pid, 'reason': NOT_YET})

manifest = {
    'version': 1,
    'setup_cmd': './vcheck setup',
    'hooks': {
        'guard': 'verif',
        'enable': 'no hooks are committed in /repo: every check copies /repo\'s working tree to a scratch directory, injects harness files that carry '
                  '`//go:build verif` (and, for the scheduler-driven checks, rewrites the copy with harness/instrument) and runs `go test -tags verif` there',
        'baseline_off_cmd': 'cd /repo && go test -vet=off -count=1 ./... && cd godev && go test -vet=off -count=1 ./...',
        'source_commits': [],
        'add_only': True,
    },
    'engines': [
        {'name': 'vcheck', 'path': 'vcheck', 'serves_properties': sorted(CLAIMED), 'kind_free_text':
         'python driver: TLC (exhaustive / simulate / trace validation) + Go harness in a scratch copy of /repo'},
    ],
    'checks': checks,
    'not_applicable': na,
    'notes': 'All checks decide with TLA+ specifications under spec/ checked by TLC and bound to the code by replay / trace validation; see DESIGN.md.',
}
with open(os.path.join(VERIF, 'MANIFEST.json'), 'w') as f:
    json.dump(manifest, f, indent=1)
print('claimed', len(checks), 'not applicable', len(na))
