#!/usr/bin/env python3
"""Regenerates /verif/MANIFEST.json from the table below."""
import json
import os

VERIF = os.path.dirname(os.path.dirname(os.path.abspath(__file__)))
props = [json.loads(l) for l in open(os.path.join(VERIF, 'properties.jsonl'))]

# id -> dict(text, note, technique, design_ref, engine)
CLAIMED = {
    'C09': dict(
        text='Calendar.tla states the span arithmetic from the property text; TLC enumerates every (day, week-end byte) vector of the explored day '
             'windows (thorough: every day 1970-2037) and the real counterSpan is replayed on each at four times of day; random instants/contents observed '
             'on the real code are validated by TLC against the same operators (CalendarTrace); CalendarRot.tla (rotate/inc/upload behaviours, invariants and '
             'action properties checked exhaustively by TLC) is replayed step by step into a private counter file and the real uploader, comparing the decoded '
             'telemetry directory with the model state after every step. Whole rotations are also run under a clock that passes midnight UTC between two readings (the name must carry the recorded begin date).',
        note='Trusted: Go time package for day-number <-> civil date; the independent v1 decoder in harness/verifrt; one process with explicit rotate calls '
             '(the AfterFunc timer is not exercised); bounded horizon (16 days) for behaviours.',
        technique='TLA+ spec (Calendar/CalendarVec/CalendarRot/CalendarTrace) + TLC exhaustive enumeration and simulation; model->code replay and code->model trace validation',
        design_ref='DESIGN.md §4 C09', engine='calendar'),
}

CLAIMED['C03'] = dict(
    text='Counter.tla models the counter protocol of internal/counter at the granularity of its shared-memory operations (one action per atomic operation / '
         'mutex acquisition: register, Add, releaseReader, releaseLock, add, lookup/newCounter1 with growth, invalidateCounters, rotate1; bit-exact state word). '
         'TLC checks UpperBound/NoDeadlock/TypeOK exhaustively per scenario family (first open, rotation, growth) and produces, in the same run, shortest witness '
         'schedules into 21 named race/branch windows and to every property the design still violates. Those schedules, TLC -simulate walks and random schedules '
         'are executed on the real package (AST-instrumented copy, cooperative scheduler, use-after-unmap made a deterministic fault); every observed real state is '
         'judged by TLC against the clauses of the property (CounterObs.tla) and every recorded trace must be a behaviour of Counter.tla (CounterTrace.tla).',
    note='Bounds: <= 3 adders + 1 rotator, <= 3 counters, amounts of 1 (saturation only in the model). Trusted: the instrumenter (sync/atomic and file.mu are the '
         'only interleaving points), the scheduler, mprotect emulation of munmap, Go memory model (sequentially consistent atomics). A TLC counter-example alone is '
         'never a violation; only real executions are.',
    technique='TLA+ protocol spec + TLC exhaustive/simulate; witness-schedule replay into instrumented real code; TLC trace validation and TLC evaluation of the property on observed states',
    design_ref='DESIGN.md §4 C03', engine='counter-protocol')
CLAIMED['C04'] = dict(
    text='CounterFile.tla models mappedFile.lookup/newCounter/extend and Counter.add across processes at the granularity of every atomic access to mapped memory '
         'and every Stat/WriteAt/reopen, with Kill(p) enabled everywhere. TLC checks WellFormed/UniqueNames/ValuesExact and monotonicity exhaustively for 2 (thorough: 3) '
         'processes with same/colliding/distinct names and produces witness schedules into 12 race/kill windows. Schedules (with kills) are executed on emulated processes '
         '(independent file values over one count file) under the scheduler; after every step the file bytes are decoded by an independent decoder, TLC judges the clauses on '
         'every observed file state (CounterFileObs.tla) and validates each trace against the model (CounterFileTrace.tla).',
    note='Processes are emulated in one address space (kernel page-cache coherence trusted); all names have one length (K = 3 records per page); <= 3 processes, one Add each; '
         'the 10-remap-tries failure is not reached. Liveness (survivors finish) is checked on the model only (thorough).',
    technique='TLA+ protocol spec + TLC exhaustive/simulate with kills; replay into instrumented real code; independent decoder projection; TLC trace validation',
    design_ref='DESIGN.md §4 C04', engine='counter-file')

def _c(text, note, technique, ref, engine):
    return dict(text=text, note=note, technique=technique, design_ref=ref, engine=engine)

CLAIMED['C01'] = _c(
    'Approval.tla states the configuration semantics (Expand of chart:{buckets}, build approval, counter/stack approval against the rate and X, per-build sums, UploadReport) from the property text. '
    'TLC checks nine sanity theorems on every enumerated vector (names incl. prefixes/suffixes/near-misses, rates x X x sample rate, builds, sums, shared counter/stack names) and a history machine for leftover reports; '
    'every vector is replayed through the real upload.Run (file module proxy for the config, chosen X via crypto/rand.Reader, harness-owned server) and request bodies, local and upload reports are compared as (build, name, value) triples; '
    'random configurations/file sets observed on the real code are decided by TLC (ApprovalTrace). Random cases include pairs of different builds whose joined text is the same because a separator falls elsewhere (one approved, one not, same week).',
    'Rates and X are multiples of 1/8 (vectors) or 1/1024 (random) so float64 is exact; configs listing a name twice are outside the domain; weekly sums < 2^31; stack frames avoid the ditto form (C15).',
    'TLA+ relational spec + TLC enumeration; vector replay into the real uploader; TLC validation of observed (input, output) records', 'DESIGN.md §4 C01', 'approval')
CLAIMED['C02'] = _c(
    'ModeFile/ConsentOps/Consent.tla: mode-file classes, gating relations (Uploadable, Sendable) and a state machine over mode file, clock, count files, reports and requests; TLC checks every clause as an action property on the decision '
    'table of one run and on histories of runs/mode changes; table vectors and -simulate behaviours are replayed into the real upload.Run / counter API / SetModeAsOf with a SHA-256 directory snapshot and the server log compared '
    'after each step, and random concrete scenarios over 2019-2037 are judged by TLC (ConsentTrace).',
    'UTC day granularity; mode constant within a run; well-formed report names; server answers 200; stricter-than-model behaviour (uploading less) is a divergence warning, not a violation.',
    'TLA+ state machine + TLC exhaustive/simulate; behaviour replay into real code with directory snapshots; TLC trace validation', 'DESIGN.md §4 C02', 'consent')
CLAIMED['C06'] = _c(
    'FileFormat.tla/FileFormatParse.tla define the abstract v1 file, WellFormed, ParseResult and corruption classes; TLC enumerates well-formed files and 76 single corruptions (pairs in thorough) with the expected verdict and checks five sanity '
    'invariants; every vector is concretized to bytes and fed to the real counter.Parse/ReadFile (exact metadata and name->value maps for well-formed files, termination and no panic for all); random, mutated and spliced byte strings are '
    'abstracted by an independent byte walk and decided by TLC (FileFormatParseTrace).',
    'No coverage-guided fuzzing; well-formed is the spec\'s strict notion; hang detection by a 2 s goroutine timeout.',
    'TLA+ relational spec + TLC enumeration of structural classes; vector replay into Parse; TLC validation of abstracted random inputs', 'DESIGN.md §4 C06', 'fileformat')
CLAIMED['C07'] = _c(
    'Uploader.tla models uploader.Run at the granularity of its file-system/HTTP calls (findWork, reports with create-then-write, deletes, upload with lock/marker) for several uploaders, re-runs, late-arriving count files and kills. '
    'TLC checks OneLocalReport, ReadyMatchesLocal, DeleteOnlyAfterReport, ReportStable exhaustively and produces witness schedules into 13 race/kill windows; schedules, simulate walks and random schedules are executed on the real '
    'instrumented uploader under the scheduler; TLC judges the C07 clauses on every observed directory state (UploaderObs) and validates each trace against the model (UploaderTrace). Families include one whose week has files that are not neighbours in directory order, and a week whose files are all empty (no report, files must stay).',
    '<= 3 uploaders, <= 2 weeks, <= 3 count files; config handed to the uploader directly; per-build grouping and sums are C01; calendar boundaries are C09; an active and an unreadable count file are present in a subset of runs and must stay untouched.',
    'TLA+ protocol spec + TLC exhaustive/simulate with kills; replay into instrumented real code; TLC trace validation and property evaluation on observed states', 'DESIGN.md §4 C07', 'uploader')
CLAIMED['C08'] = _c(
    'Same model and machinery as C07 with the delivery clauses: OneBodyPerWeek, NoResendAfterRecorded, MarkerOnlyAfterAck, AtMostOneAck, ServerErrorKeeps/ClientErrorDiscards (ReplyHandled on observed states) checked exhaustively by TLC '
    'for all four server replies, re-runs and kills anywhere, EventuallyOnce under weak fairness; planned replies and kills are replayed on the real uploader against a harness-owned server.',
    'A lost reply is modelled as no answer; the lock of a killed uploader is never removed (the model shows the week then stays undelivered, which the property allows).',
    'TLA+ protocol spec + TLC exhaustive/simulate/liveness; replay into instrumented real code with planned server replies; TLC trace validation', 'DESIGN.md §4 C08', 'uploader')
CLAIMED['C10'] = _c(
    'FileFormat.tla gives HeaderLen, Place (with PlaceRel/least-fit), the FNV-1a hash on 16-bit limbs and the layout invariants; FileFormatOps.tla is a state machine of create/add/reopen by two library writers and the independent writer '
    'with LayoutOK/Clauses/Exact/Monotone checked by TLC; place/hash/header vectors go into the real place/hash/mappedHeader, simulate walks are replayed on real files decoded after every step by the independent decoder, and random '
    'operation runs are validated by TLC (FileFormatOpsTrace, FileFormatPlaceTrace). Single chains of 530-2100 colliding names over several pages are written by two library writers and judged by the independent decoder.',
    'Sequential operations (races are C04); a placement that satisfies the layout relation but differs from the documented allocator is only a divergence warning.',
    'TLA+ spec + TLC enumeration/simulate; replay into real code with an independent decoder/writer; TLC trace validation', 'DESIGN.md §4 C10', 'fileformat')
CLAIMED['C11'] = _c(
    'Approval.tla adds ServerAccepts and the viewer operators; TLC checks ServerAcceptsUploader, ViewerAgreesWithUploader and single-field-perturbation rejection on every vector; each vector goes through the three real deciders '
    '(uploader, the real upload handler chain, the viewer\'s newCounterFile/summary) and all verdicts are decided by TLC (ApprovalTrace).',
    'X != 0; the viewer\'s verdict is compared ignoring rates; charts page out of scope.',
    'TLA+ relational spec + TLC; differential replay through three real deciders; TLC validation', 'DESIGN.md §4 C11', 'approval')
CLAIMED['C12'] = _c(
    'Server.tla: field-wise validity (week, config semver, X, programs via the config semantics), Decision, object key and a state machine over the bucket with StoreIff/RoundTrip/RejectChangesNothing/Never5xx checked by TLC; '
    'all request vectors deviating from a valid one in <= 2 (thorough 3) fields plus garbage are replayed through the real handler chain over FS buckets with the whole parent tree snapshotted, simulate histories are replayed, and '
    'random requests are abstracted and decided by TLC (ServerTrace).',
    'In-process handler chain; a body is one JSON value; "unspecified" field classes accept either outcome but never a 5xx or partial effect.',
    'TLA+ spec + TLC enumeration/simulate; replay into the real handler chain; TLC trace validation', 'DESIGN.md §4 C12', 'server')
CLAIMED['C13'] = _c(
    'Worker.tla/WorkerChart.tla: buckets, Merge in any listing order, Chart as a function of the set of reports (ChartFold = ChartOf), MissingDayNotFound, checked exhaustively by TLC; simulate walks are replayed on the real handleMerge/'
    'handleChart over FS buckets (incl. merged lines around 64 KiB) and random scenarios are decided by TLC (WorkerTrace); chart output must be byte-identical under permuted merge order.',
    'FS bucket only; stored objects are valid reports; merged lines up to ~100 KiB.',
    'TLA+ state machine + TLC exhaustive/simulate; replay into real handlers; TLC trace validation', 'DESIGN.md §4 C13', 'worker')
CLAIMED['C14'] = _c(
    'CrashParse.tla: abstract traceback lines, a declarative reading (Expected/Allowed/NonInterference) and an independent one-pass automaton whose agreement TLC checks on every report of the transition cover and of bounded sequences; '
    'every dumped report is concretized several times with different filler text and run through the real telemetryCounterName; real crashes of a re-executed helper (panic, nil deref, inlining, recursion to depth 400, goroutines) '
    'are compared with runtime.Callers of the same process; all records are decided by TLC (CrashParseTrace).',
    'Symbolization is the Go runtime\'s; "16 frames" is decided as 16 program counters.',
    'TLA+ spec + TLC enumeration; multi-concretization replay; differential oracle on real crashes; TLC validation', 'DESIGN.md §4 C14', 'crashparse')
CLAIMED['C15'] = _c(
    'StackName.tla: character-level Encode/Decode/Truncate with RoundTrip, Bounded, Identity, injectivity theorems checked by TLC on all short strings / frame sequences; generated call chains over a package library (dotted paths, methods, '
    'generics, no-dot symbols) are driven into the real StackCounter.Inc and EncodeStack/DecodeStack, and every record (name, expansion, cache behaviour, file value) is decided by TLC (StackNameTrace).',
    'The uncompressed rendering uses runtime.CallersFrames (trusted); known finding F18 (generic instantiations share a name).',
    'TLA+ spec + TLC enumeration; replay through generated real call stacks; TLC validation', 'DESIGN.md §4 C15', 'stackname')
CLAIMED['C17'] = _c(
    'ChartConfig*.tla: the documented syntax as a fold over abstract lines, Render/Parse round trip, MinOfMins/Required generation and PadOK, with six sanity theorems checked by TLC on all short line sequences and record sets; '
    'every vector is concretized and parsed by the real chartconfig.Parse, generate/padVersions are run with versionsForTesting, random texts are lexed independently and decided by TLC (ChartConfigTrace).',
    'Valid record = documented syntax (values non-empty, no #, braces only in counter); extra listed versions are not judged.',
    'TLA+ spec + TLC enumeration; replay into Parse/generate/padVersions; TLC validation', 'DESIGN.md §4 C17', 'chartconfig')
CLAIMED['C18'] = _c(
    'Storage.tla: buckets as maps with Write/Read/List, ResultFromHistory, Confined, NoConflicts and frame properties checked exhaustively by TLC; simulate walks are replayed on real FSBuckets under six name alphabets comparing every '
    'result and the complete file tree, random histories are validated by TLC (StorageTrace), and the names the upload/merge/chart services construct for hostile inputs are checked to stay inside their bucket. Objects are written in three chunkings (halves; short head + long body + one byte; many 7-byte writes), with no Write call, and by Copy.',
    'FS backend, ASCII ordinary names; names conflicting by path prefix are excluded.',
    'TLA+ state machine + TLC exhaustive/simulate; replay into the real bucket; TLC trace validation', 'DESIGN.md §4 C18', 'storage')
CLAIMED['C19'] = _c(
    'GotelemetryOps/Gotelemetry.tla: directory entries with real name strings, CleanStep/ModeStep and the clauses CleanRemovesData, CleanNothingElse, ModeOnlyMode, NoOpWhenSame, Records checked by TLC over a family of initial '
    'directories x mode-file classes x command sequences; (directory, command) pairs, simulate behaviours and random directories are executed with the real gotelemetry binary built from the scratch tree (HOME/XDG redirected) and each '
    'command is judged by TLC (GotelemetryTrace).',
    'Empty directories / symlinks with data-file names are excluded; the current date is the real UTC date.',
    'TLA+ state machine + TLC exhaustive/simulate; replay with the real binary; TLC trace validation', 'DESIGN.md §4 C19', 'gotelemetry')

CLAIMED['C16'] = _c(
    'SidecarDecision.tla gives the Launch decision table (child-marker value x ReportCrashes x Upload x mode x token x local dir) and the clauses OnlyIfCalledFor, UploaderNeedsToken, NeverRecursive, OffIsInert, TokenOncePer24h; '
    'Sidecar.tla is the start-up protocol of a process tree with the upload-token race at Stat/Remove/OpenFile(O_EXCL) granularity, with NoGrandchild, NoChildWhenOff, ChildOnlyIfNeeded, AtMostOneAcquire checked exhaustively by TLC for 2-3 '
    '(thorough 4-5) starters and Termination under fairness. Every concretizable table row is replayed with real processes (a logging application calling telemetry.Start, a process-start log that also records children and grandchildren, '
    'directory snapshots) and judged by TLC (SidecarRows); witness schedules into 35 race windows, simulate walks and an exhaustive DFS of all interleavings of the instrumented real acquireUploadToken are validated step by step (SidecarTrace). Token-race rows also vary Config.UploadStartTime of every starter (the 24 hours are real time).',
    'Only the "only if" direction is a violation (a sidecar that is not launched is a divergence warning); 96 rows with an unusable local dir and a token are model-only; O_EXCL atomicity is the kernel\'s; with a stale token present several '
    'starters may acquire it (outside the property).',
    'TLA+ decision table + protocol spec + TLC exhaustive/liveness; real-process replay of table rows; scheduler replay and exhaustive DFS of the token race; TLC trace validation', 'DESIGN.md §4 C16, §10.7', 'sidecar')

CLAIMED['C05'] = _c(
    'Faults.tla is relational over the call sequences RECORDED from the current tree (open, first Add, growth, rotation, Read, files removed while in use, upload.Run in modes on/local/none): TLC enumerates every single and pairwise fault plan '
    '(call x errno) with the outcome class the documented failure semantics predict and checks eight sanity theorems; each plan is replayed through the fault hook on the instrumented real packages (no escaped panic, no memory fault, step '
    'budget, predicted park/persist class, other counters unchanged as read by the independent decoder) and decided by TLC (FaultsTrace). Corrupt.tla enumerates the damage classes of a counter file at rest (header, truncation, limit, heads, '
    'name lengths, links incl. cycles) with the expected class; each file is written and opened/incremented by the real code under a hang/panic/fault guard and judged by TLC (CorruptTrace). A scenario in which a second process grows the file through one hash bucket (re-map inside newCounter) is part of the fault-plan product.',
    'Single and pairwise faults over four errnos; one goroutine; the exec of `go mod download` is not a fault point; class mismatches that do not endanger safety are divergence warnings; known finding F23 (a corrupt limit of 0 / below linked '
    'records is accepted and later records overwrite existing ones).',
    'TLA+ relational specs over recorded call sequences and corruption classes + TLC enumeration; fault-plan / corrupt-file replay into instrumented real code; TLC validation', 'DESIGN.md §4 C05, §10.7', 'faults')

NOT_YET = 'check not built yet in this session (see DESIGN.md §8 build order); will be claimed when its TLA+ module and conformance harness exist'

checks = []
na = []
for p in props:
    pid = p['id']
    if pid in CLAIMED:
        c = CLAIMED[pid]
        checks.append({
            'property_id': pid,
            'quick_cmd': './vcheck %s --tier quick' % pid,
            'thorough_cmd': './vcheck %s --tier thorough' % pid,
            'evidence_file': 'evidence/%s.json' % pid,
            'replay_cmd_template': './vcheck %s --replay {path}' % pid,
            'engine': c.get('engine', 'vcheck'),
            'level_claimed': {'category': c.get('category', 'model_checking'), 'text': c['text'], 'design_ref': c['design_ref']},
            'level_note': c['note'],
            'technique': c['technique'],
        })
    else:
        na.append({'property_id': pid, 'reason': NOT_YET})

manifest = {
    'version': 1,
    'setup_cmd': './vcheck setup',
    'hooks': {
        'guard': 'verif',
        'enable': 'no hooks are committed in /repo: every check copies /repo\'s working tree to a scratch directory, injects harness files that carry '
                  '`//go:build verif` (and, for the scheduler-driven checks, rewrites the copy with harness/instrument) and runs `go test -tags verif` there',
        'baseline_off_cmd': 'cd /repo && go test -vet=off -count=1 ./... && cd godev && go test -vet=off -count=1 ./...',
        'source_commits': [],
        'add_only': True,
    },
    'engines': [
        {'name': 'vcheck', 'path': 'vcheck', 'serves_properties': sorted(CLAIMED), 'kind_free_text':
         'python driver: TLC (exhaustive / simulate / trace validation) + Go harness in a scratch copy of /repo'},
        {'name': 'e2e', 'path': 'vcheck E2E', 'serves_properties': ['C01', 'C02', 'C07', 'C09', 'C11', 'C12', 'C13'], 'kind_free_text':
         'extra engine, not tied to one property: spec/Telemetry.tla composes Calendar, ModeFile/ConsentOps, Approval and WorkerChart into the whole pipeline '
         '(Inc, Tick, SetMode, RunUploader, Merge, Chart) with EndToEnd / NothingInModeOff / LocalReportsComplete / MergeFaithful / ChartCounts checked exhaustively by TLC; '
         'simulate and witness behaviours are replayed through the real counter package, uploader, upload endpoint and worker (./vcheck E2E --tier quick|thorough, evidence/E2E.json)'},
        {'name': 'x01-web-layer', 'path': 'vcheck X01', 'serves_properties': ['C12', 'C18'], 'kind_free_text':
         'extension engine (specification grown beyond the listed properties): spec/WebContent*.tla, WebPipeline*.tla, WebRoutes*.tla — path resolution and confinement of the '
         'content server, error mapping, the middleware chain as composition of outcome transformers (OrderMatters), routing/index choice of telemetrygodev; vectors replayed, '
         'observations validated by TLC (spec/README-X01.md, evidence/X01.json)'},
        {'name': 'x02-config-distribution', 'path': 'vcheck X02', 'serves_properties': ['C01', 'C17'], 'kind_free_text':
         'extension engine: spec/ConfigDist*.tla — chart config -> generated upload config -> lookups (acceptance, version window, validation, still-valid test), '
         'configstore.Download as a state machine over a file proxy, unionfs; replayed through Parse/generate/NewConfig and real `go mod download` (spec/README-X02.md, evidence/X02.json)'},
        {'name': 'x03-counter-api', 'path': 'vcheck X03', 'serves_properties': ['C03', 'C15'], 'kind_free_text':
         'extension engine: spec/CtrApi*.tla — the public counter API above the mapped file: stack counters under every schedule (one Counter per stack, exactly-once), '
         'Read/ReadStack/ReadFile, Open lifecycle, flag counters, countertest; witness schedules replayed on the instrumented code, histories in fresh child processes (spec/README-X03.md, evidence/X03.json)'},
        {'name': 'x04-worker-pipeline', 'path': 'vcheck X04', 'serves_properties': ['C13', 'C18'], 'kind_free_text':
         'extension engine: spec/WorkerPipe*.tla — the worker services (copy, merge, chart) as one state machine over the source, upload, merged and chart buckets: '
         'copy exactness, merge snapshots and idempotence, charts derived from merged snapshots only (stale merges give stale charts), request validation of parseDateRange, '
         'failing requests change nothing; simulate behaviours replayed into the real handlers with the bucket tree compared after every request, random histories validated by TLC '
         '(spec/README-X04.md, evidence/X04.json)'},
    ],
    'checks': checks,
    'not_applicable': na,
    'notes': 'All checks decide with TLA+ specifications under spec/ checked by TLC and bound to the code by replay / trace validation; see DESIGN.md.',
}
with open(os.path.join(VERIF, 'MANIFEST.json'), 'w') as f:
    json.dump(manifest, f, indent=1)
print('claimed', len(checks), 'not applicable', len(na))
