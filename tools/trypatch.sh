#!/bin/bash
# usage: tools/trypatch.sh <patch.diff> <PROP> [tier]   -- run a check against a private copy of /repo with the patch applied
set -e
P=$(readlink -f "$1"); PROP=$2; TIER=${3:-quick}
D=$(mktemp -d /tmp/tryrepo-XXXXXX)
trap 'rm -rf "$D"' EXIT
rsync -a --exclude .git /repo/ "$D/"
(cd "$D" && patch -p1 -s < "$P")
cd /verif
VERIF_REPO="$D" VERIF_EVIDENCE_DIR="$D/_ev" timeout 3000 ./vcheck "$PROP" --tier "$TIER" 2>&1 | grep -E "^VIOLATION|^KNOWN|^  |INFRA|evidence written" | cut -c1-400 | head -12
echo "rc=${PIPESTATUS[0]}"
