#!/usr/bin/env python3
"""Debug helper: run TLC on a module+cfg in a temp dir, print summary and a compact counter-example."""
import os, sys, subprocess, tempfile, shutil, re
sys.path.insert(0, os.path.dirname(os.path.dirname(os.path.abspath(__file__))))
from vlib import tlaval
def main():
    mod, cfg = sys.argv[1], sys.argv[2]
    extra = sys.argv[3:]
    d = tempfile.mkdtemp(prefix='tlcdbg-')
    try:
        for fn in os.listdir('/verif/spec'):
            shutil.copy('/verif/spec/' + fn, d)
        for f in (mod, cfg):
            if os.path.exists(f): shutil.copy(f, d)
        env = dict(os.environ, TMPDIR=d, JAVA_TOOL_OPTIONS='-Djava.io.tmpdir=' + d)
        p = subprocess.run(['tlc', '-workers', '16', '-metadir', d + '/meta', '-config', os.path.basename(cfg)] + extra + [os.path.basename(mod)],
                           cwd=d, env=env, stdout=subprocess.PIPE, stderr=subprocess.STDOUT, text=True)
        out = p.stdout
        for ln in out.split('\n'):
            if re.search(r'Error|violated|states generated|depth of|Finished in|Warning', ln): print(ln)
        tr = tlaval.read_trace_from_output(out)
        prev = None
        for i, (a, st) in enumerate(tr):
            if prev is None:
                print('S0', {k: v for k, v in st.items() if k in ('st','ptr','cur','open','head','nxt')})
            else:
                ch = {}
                for k, v in st.items():
                    if v != prev.get(k):
                        if k == 'stk':
                            for t, fr in v.items():
                                if fr != prev['stk'].get(t):
                                    ch['stk.' + t] = '|'.join('%s(%s,s=%s,m=%s)' % (x['pc'], x['c'] if x['c']!='none' else x['it'], x['s'], x['m']) for x in fr) or 'DONE'
                        else:
                            ch[k] = v
                print('S%d' % i, ch)
            prev = st
        if p.returncode not in (0,) and not tr:
            print(out[-3000:])
    finally:
        shutil.rmtree(d, ignore_errors=True)
main()
