import json,sys,subprocess,os,tempfile,shutil
sys.path.insert(0,'/verif')
# run a single C04 run on a scratch copy and print the trace
from vlib import core
ctx=core.Ctx('DBG')
ctx.inject('internal/counter', also=('c03_verif_test.go','c04_verif_test.go')); ctx.instrument('-files','internal/counter')
run=json.loads(sys.argv[1])
recs,rc,out=ctx.run_harness('./internal/counter','TestVerifC04',inp={'runs':[run]})
for r in recs:
    if r['kind']=='obs':
        print(r['i'],r['t'],r.get('victim',''),(r.get('label','')[:70]),r.get('op',''),'| size',r['size'],'lim',r['limit'],'head',r['head'],'rec',[(x['name'],x['len'],x['next'],x['val']) for x in r['rec']])
    else:
        print('RESULT',r['status'],r.get('pending'),r.get('fault'))
