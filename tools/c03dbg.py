import json,sys,os
sys.path.insert(0,'/verif')
from vlib import core
ctx=core.Ctx('C03')
ctx.replay='dbg'
ctx.inject('internal/counter'); ctx.instrument('internal/counter')
run=json.loads(sys.argv[1])
recs,rc,out=ctx.run_harness('./internal/counter','TestVerifC03',inp={'runs':[run]})
for r in recs:
    if r['kind']=='obs':
        print(r['i'],r['t'],r.get('label','')[:58],r.get('op','')[:12],'st',r['st'],'ptr',r['ptr'],'cur',r['cur'],'open',r['open'],'mu',r['mu'])
    else:
        print('RESULT',r['status'],r.get('fault'),r['st'],r['ptr'],r['cell1'])
