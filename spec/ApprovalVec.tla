----------------------------- MODULE ApprovalVec -----------------------------
(* model -> code for C01 / C11.  Every state is one input vector            *)
(* (configuration, expired counter files, X) of a structural class; the      *)
(* post-condition writes each vector with the outputs Approval.tla demands   *)
(* (reports per week, server verdict, viewer verdicts) to vectors.ndjson; the *)
(* harness concretizes them and runs the real uploader / server / viewer.    *)
(* The invariants are the spec-level sanity theorems of Approval.tla.        *)
EXTENDS ApprovalTok

CONSTANTS Family,     \* which structural class to enumerate
          Big         \* TRUE: the larger bounds of the thorough tier
VARIABLE vec

(* ---- families -------------------------------------------------------------------*)
V(fam, cfg, files, x) == [fam |-> fam, cfg |-> cfg, files |-> files, x |-> x]
NoRep == {}

NameSets(z) == {AllToks} \cup (IF Big THEN {CounterToks, StackToks} \cup {{t} : t \in AllToks} ELSE {})
NamesVecs(z) ==
    {V("names", Cfg({Prog(P1, {V1}, {E(e, D) : e \in ce}, {E(e, D) : e \in se})}, D), {File(1, B0, 1, ns)}, D \div 2) :
        ce \in UpTo2(CEntries), se \in (IF Big THEN UpTo2(SEntries) ELSE UpTo1(SEntries)), ns \in NameSets(0)}

Rates == {0, D \div 4, (3 * D) \div 4, D}
Xs    == {0, 1, D \div 4, D \div 2, (3 * D) \div 4, D - 1}
RatesVecs(z) ==
    {V("rates", Cfg({Prog(P1, {V1}, {E("c", r1), E("c:{a,b}", r2)}, {E("s", r3)})}, sm),
       {File(1, B0, 1, {"c", "c:a", "c:b", "d", "s\nf1\nf2", "s2\nf1"})}, x) :
        r1 \in Rates, r2 \in Rates, r3 \in (IF Big THEN Rates ELSE {D \div 4, D}),
        sm \in (IF Big THEN {0, D \div 2, D} ELSE {D \div 2, D}), x \in Xs}

(* the same name listed as a counter and as a stack, with different rates     *)
SharedVecs(z) ==
    {V("shared", Cfg({Prog(P1, {V1}, {E("s", r1), E("c", r2)}, {E("s", r3), E("c", r4)})}, D),
       {File(1, B0, 1, {"s", "c", "s\nf1\nf2", "c\nf1"})}, x) :
        r1 \in Rates, r2 \in {D \div 4, D}, r3 \in Rates, r4 \in {D \div 4, D}, x \in {1, D \div 2, D - 1}}

Programs == {P1, P2, "example.com/cmd/p3", "example.com/cmd/p", "example.com/cmd/p1/x"}
Versions == {V1, V2, "v1.2.0", "devel"}
GoVers   == {G1, "go1.20.3"}
Builds(z)   == {[program |-> p, version |-> v, gover |-> g, goos |-> o, goarch |-> a] :
               p \in Programs, v \in Versions, g \in GoVers, o \in {"linux", "plan9"}, a \in {"amd64", "386"}}
Dist(b, c) == (IF b.program = c.program THEN 0 ELSE 1) + (IF b.version = c.version THEN 0 ELSE 1) +
              (IF b.gover = c.gover THEN 0 ELSE 1) + (IF b.goos = c.goos THEN 0 ELSE 1) + (IF b.goarch = c.goarch THEN 0 ELSE 1)
NearBuilds(z) == {b \in Builds(0) : Dist(b, B0) <= 1 \/ Dist(b, B2) <= 1}
BuildsCfg(x) == Cfg({Prog(P1, {V1, V2}, {E("c", D), E("c:{a,b}", D)}, {E("s", D)}),
                     Prog(P2, {V2}, {E("d", D)}, {})}, D)
BuildToks == {"c", "c:a", "d", "s\nf1\nf2"}
BuildsVecs(z) ==
    {V("builds", BuildsCfg(0), {File(1, b, 1, BuildToks)} \cup extra, D \div 4) :
        b \in (IF Big THEN Builds(0) ELSE NearBuilds(0)), extra \in {{}, {File(2, B0, 1, BuildToks)}, {File(2, B2, 1, BuildToks)}}}

(* several files per build and week: sums                                     *)
Kinds(z) == {[id |-> i * 1000 + w * 100 + cv * 10 + sv, build |-> (IF i = 1 THEN B0 ELSE B2), week |-> w, expired |-> TRUE,
           counts |-> (IF cv = 0 THEN {} ELSE {[n |-> "c", v |-> cv]}) \cup (IF sv = 0 THEN {} ELSE {[n |-> "s\nf1\nf2", v |-> sv]})] :
            i \in {1, 2}, w \in {1, 2}, cv \in {0, 1, 5}, sv \in (IF Big THEN {0, 1, 5} ELSE {0, 5})}
Twice(k) == {k, [k EXCEPT !.id = k.id + 5000]}
SumsCfg == Cfg({Prog(P1, {V1}, {E("c", D)}, {E("s", D)}), Prog(P2, {V2}, {E("c", D)}, {})}, D)
FileSets(z) == {{a, b} : a, b \in Kinds(0)} \cup {Twice(k) : k \in Kinds(0)}
            \cup (IF Big THEN {Twice(a) \cup {b} : a, b \in Kinds(0)} \cup {{a, b, c} : a, b, c \in Kinds(0)} ELSE {})
SumsVecs(z) == {V("sums", SumsCfg, fs, D \div 2) : fs \in {fs \in FileSets(0) : \E f \in fs : f.counts # {}}}

(* C11: reports as the upload server sees them: approved ones and ones that   *)
(* differ from an approved one in a single field                              *)
SrvCfg == BuildsCfg(0)
CSets == {{}, {"c"}, {"c:a"}, {"d"}, {"c", "d"}, {"c:{a,b}"}, {"c:ab"}, {"c:"}, {"cc:a"}, {"s"}, {"c:b", "c:a"}, {"s\nf1\nf2"}, {"C:a"}}
SSets == {{}, {"s\nf1\nf2"}, {"s2\nf1"}, {"s \nf1"}, {"c\nf1"}, {"s\n"}, {"s"}, {"s\ng1", "s\nf1\nf2"}}
Entry(b, cs, ss) == [build |-> b, counters |-> cs, stacks |-> ss]
Entries(z) ==
    LET bs == IF Big THEN Builds(0) ELSE NearBuilds(0) IN
    {Entry(b, cs, {}) : b \in bs, cs \in CSets} \cup {Entry(b, {}, ss) : b \in bs, ss \in SSets}
    \cup {Entry(b, cs, ss) : b \in {B0, B2}, cs \in CSets, ss \in SSets}
BaseEntries == {Entry(B0, {"c", "c:b"}, {"s\nf1\nf2"}), Entry(B2, {"d"}, {})}
ServerVecs(z) == {[fam |-> "server", cfg |-> SrvCfg, rep |-> {e} \cup more] : e \in Entries(0), more \in {{}} \cup {{b} : b \in BaseEntries}}

(* Files that are still active (their end lies after the start of the run)    *)
(* next to expired ones: they are folded into no report.                       *)
Active(f) == [f EXCEPT !.expired = FALSE]
ActiveVecs(z) ==
    {V("active", SumsCfg, fs, D \div 2) : fs \in
        {{File(1, B0, 1, {"c", "s\nf1\nf2"}), Active(File(2, B0, 1, {"c", "d", "s\ng1"}))},      \* same build and "week": not added to the sum
         {Active(File(2, B0, 1, {"c", "s\nf1\nf2"}))},                                           \* nothing expired: nothing to report
         {File(1, B2, 1, {"c"}), Active(File(2, B0, 1, {"c", "s\nf1\nf2"}))},                     \* an active file of another approved build
         {File(1, B0, 1, {"c"}), File(3, B0, 2, {"c"}), Active(File(2, B0, 2, {"c"})), Active(File(4, B2, 3, {"c"}))}}}

(* Empty lists and empty strings: a configuration without programs, a program  *)
(* without versions / without counters, empty GOOS / GOARCH / GoVersion lists, *)
(* the empty string as a program path or version (metadata line without value) *)
ECfg(goos, goarch, gover, progs) == [goos |-> goos, goarch |-> goarch, gover |-> gover, sample |-> D, progs |-> progs]
EP(vs) == Prog(P1, vs, {E("c", D)}, {E("s", D)})
EmptyCfgs == {ECfg({"linux"}, {"amd64"}, {G1}, {}),
              ECfg({"linux"}, {"amd64"}, {G1}, {EP({})}),
              ECfg({"linux"}, {"amd64"}, {}, {EP({V1})}),
              ECfg({}, {"amd64"}, {G1}, {EP({V1})}),
              ECfg({"linux"}, {}, {G1}, {EP({V1})}),
              ECfg({"linux"}, {"amd64"}, {G1}, {Prog(P1, {V1}, {}, {})}),
              ECfg({"linux", ""}, {"amd64"}, {G1}, {EP({V1, ""}), Prog("", {V1}, {E("c", D)}, {})})}
EmptyBuilds == {B0, [B0 EXCEPT !.version = ""], [B0 EXCEPT !.program = ""], [B0 EXCEPT !.goos = ""], [B0 EXCEPT !.gover = ""]}
EmptyVecs(z) == {V("empty", c, {File(1, b, 1, {"c", "s\nf1\nf2"})}, D \div 2) : c \in EmptyCfgs, b \in EmptyBuilds}
EmptyServerVecs(z) ==
    {[fam |-> "server", cfg |-> c, rep |-> r] : c \in EmptyCfgs,
        r \in {{}} \cup {{[build |-> b, counters |-> cs, stacks |-> {}]} : b \in EmptyBuilds, cs \in {{}, {"c"}}}}

(* Blanks inside the bucket list of a collapsed entry.  The syntax is literal: *)
(* chart:{b1,b2} stands for chart: followed by each bucket exactly as written  *)
(* between the separators, so `e:{v, w}` lists `e:v` and `e: w` (with the     *)
(* blank), not `e:w`.  Local counters are named both ways.                     *)
BlankEntries == {"e:{v, w}", "e:{ v,w }", "e:{v,\tw}", "e:{v ,w}", "e:{v,w}"}
BlankToks == {"e:v", "e:w", "e: w", "e: v", "e:w ", "e:v ", "e:\tw", "e:v,w", "e:v, w", "e:"}
BlankVecs(z) == {V("blanks", Cfg({Prog(P1, {V1}, {E(e, D)}, {})}, D), {File(1, B0, 1, BlankToks)}, D \div 2) : e \in BlankEntries}

(* Nested program paths.  Package paths and counter names both contain "/":   *)
(* program P = example.com/tools lists counters and stacks named gopls/<name>, *)
(* program P/gopls is a different program of the same configuration.  The     *)
(* string "P/gopls/<name>" splits into (program, name) in two ways; approval   *)
(* is by the pair: what P lists as gopls/<name> says nothing about <name> of  *)
(* P/gopls (nor does a version "gopls/v1.2.0" of P list version v1.2.0 there). *)
PN  == "example.com/tools"
PNX == "example.com/tools/gopls"
BN   == [program |-> PN,  version |-> V1, gover |-> G1, goos |-> "linux", goarch |-> "amd64"]
BNX  == [program |-> PNX, version |-> V1, gover |-> G1, goos |-> "linux", goarch |-> "amd64"]
BNX2 == [program |-> PNX, version |-> "v1.2.0", gover |-> G1, goos |-> "linux", goarch |-> "amd64"]
NestedToks == {"editor:vim", "editor:emacs", "editor:", "editor", "c", "bug\nf1\nf2", "bug", "d",
               "gopls/editor:vim", "gopls/c", "gopls/bug\nf1", "/editor:vim", "tools/gopls/c"}
Inner == {[c |-> {}, s |-> {}],
          [c |-> {E("d", D)}, s |-> {}],
          [c |-> {E("d", D), E("editor:{vim}", D \div 4)}, s |-> {E("bug", D \div 4)}],
          [c |-> {E("gopls/c", D), E("c", D \div 4)}, s |-> {E("gopls/bug", D)}]}
NestedCfg(r, inner) ==
    Cfg({Prog(PN, {V1, "gopls/v1.2.0"}, {E("gopls/editor:{vim,emacs}", r), E("gopls/c", r), E("c", D)}, {E("gopls/bug", r)}),
         Prog(PNX, {V1}, inner.c, inner.s)}, D)
NestedVecs(z) ==
    {V("nested", NestedCfg(r, inner), fs, x) :
        r \in {D \div 4, D}, inner \in Inner, x \in {1, D \div 2},
        fs \in {{File(1, BNX, 1, NestedToks)},
                {File(1, BNX, 1, NestedToks), File(2, BN, 1, NestedToks)},
                {File(1, BNX2, 1, {"d", "editor:vim", "c"}), File(2, BN, 1, {"gopls/c", "c"})}}}
NestedServerVecs(z) ==
    {[fam |-> "server", cfg |-> NestedCfg(D, inner), rep |-> {Entry(b, cs, ss)} \cup more] :
        inner \in Inner, b \in {BNX, BNX2, BN},
        cs \in {{}, {"editor:vim"}, {"c"}, {"d"}, {"gopls/c"}, {"gopls/editor:emacs"}, {"editor"}},
        ss \in {{}, {"bug\nf1\nf2"}, {"gopls/bug\nf1"}},
        more \in {{}, {Entry(BN, {"gopls/c", "c"}, {"gopls/bug\nf1"})}}}

VecSet == CASE Family = "names"  -> NamesVecs(0)
            [] Family = "rates"  -> RatesVecs(0)
            [] Family = "shared" -> SharedVecs(0)
            [] Family = "builds" -> BuildsVecs(0)
            [] Family = "sums"   -> SumsVecs(0)
            [] Family = "server" -> ServerVecs(0)
            [] Family = "nested" -> NestedVecs(0) \cup NestedServerVecs(0)
            [] Family = "edge"   -> ActiveVecs(0) \cup EmptyVecs(0) \cup EmptyServerVecs(0)
            [] Family = "c11"    -> NamesVecs(0) \cup BuildsVecs(0) \cup ServerVecs(0) \cup NestedVecs(0) \cup NestedServerVecs(0)
                                    \cup ActiveVecs(0) \cup BlankVecs(0) \cup EmptyVecs(0) \cup EmptyServerVecs(0)
            [] Family = "c01"    -> NamesVecs(0) \cup RatesVecs(0) \cup SharedVecs(0) \cup BuildsVecs(0) \cup SumsVecs(0) \cup NestedVecs(0)
                                    \cup ActiveVecs(0) \cup BlankVecs(0) \cup EmptyVecs(0)
IsSrv(v) == v.fam = "server"
Vecs == {v \in VecSet : IF IsSrv(v) THEN ConfigOK(CCfg(v.cfg), D) ELSE InDomain(v)}

(* ---- expected outputs -------------------------------------------------------------*)
Weeks(v) == {f.week : f \in {f \in v.files : f.expired}}
CRep(rep) == {[build |-> e.build, counters |-> {NameOf[n] : n \in e.counters}, stacks |-> {NameOf[n] : n \in e.stacks}] : e \in rep}
SrvOut(v) == [fam |-> v.fam, cfg |-> v.cfg, rep |-> v.rep, d |-> D, accept |-> ServerAccepts(CCfg(v.cfg), CRep(v.rep))]
(* The harness makes the successive random draws of one uploader run return   *)
(* the values of XSeq in turn.  The uploader draws once per weekly report, so *)
(* with W weeks the reports of a run carry the first W values (in any order); *)
(* the second value lies half the range away from the first, so that rates    *)
(* fall between the two in both directions: a report filtered with one X but  *)
(* carrying another is not what UploadReport demands for the X it carries.     *)
AltX(x) == (x + D \div 2) % D
XSeq(x) == <<x, AltX(x)>>
(* Counter values are 64-bit; TLC's integers are not.  Sums are linear, so a   *)
(* vector of the sums family is also run with every value multiplied by       *)
(* 2^scale (the harness multiplies the demanded values as well).               *)
Scales == <<0, 20, 40, 58>>
ScaleOf(v) == IF v.fam = "sums" THEN Scales[((CHOOSE f \in v.files : \A g \in v.files : f.id >= g.id).id % 4) + 1] ELSE 0
Out(v) ==
    IF IsSrv(v) THEN SrvOut(v) ELSE
    LET cfg == CCfg(v.cfg)  files == CFiles(v.files) IN
    [fam |-> v.fam, cfg |-> v.cfg, files |-> v.files, x |-> v.x, d |-> D,
     xs |-> XSeq(v.x), scale |-> ScaleOf(v),
     weeks |-> {WeekOut(cfg, files, w, x) : w \in Weeks(v), x \in Rng(XSeq(v.x))},
     viewer |-> {[id |-> f.id,
                  setx |-> ViewerSetExcluded(cfg, f.build),
                  meta |-> FieldListed(cfg, f.build),
                  xnames |-> {TokOf(n) : n \in ViewerExcludedNames(cfg, f)}] : f \in files}]

(* ---- state space ----------------------------------------------------------------------*)
(* One state per vector.  The vectors are reached from NSlice initial "slice" *)
(* states only so that TLC's workers evaluate the theorems in parallel.       *)
NSlice == 64
VS == SetToSeq(Vecs)
IsVec == "cfg" \in DOMAIN vec
Init == vec \in {[slice |-> i] : i \in 0..(NSlice - 1)}
Next == /\ ~IsVec
        /\ \E k \in DOMAIN VS : k % NSlice = vec.slice /\ vec' = VS[k]

(* ---- sanity theorems of the semantics ------------------------------------------------*)
Thm(cfg, files, w, x) ==
    LET loc == LocalReport(files, w)
        u3  == Filter(Approved3, cfg, loc, x)
        u5  == Filter(Approved5, cfg, loc, x)
        z5  == Filter(Approved5, cfg, loc, 0)
        b5  == UploadBuilds(Approved5, cfg, files, w)
    IN
    (* UploadSubset *)
    /\ u5 \subseteq u3 /\ u3 \subseteq loc
    (* MonotoneInX: a larger X (equivalently a smaller rate) never adds data *)
    /\ \A y \in {0, x - 1, x \div 2} \cap (0..D) : y <= x => u3 \subseteq Filter(Approved3, cfg, loc, y)
    (* OwnProgramOnly: a datum is uploaded only on the strength of the entry of *)
    (* its own program, from the list (counters / stacks) of its own kind       *)
    /\ \A t \in u3 :
        /\ HasProgram(cfg, t.b.program)
        /\ IF IsStack(t.n) THEN \E s \in ProgOf(cfg, t.b.program).stacks : s.name = FirstLine(t.n) /\ x <= s.rate
           ELSE \E c \in ProgOf(cfg, t.b.program).counters : t.n \in Expand(c.name) /\ x <= c.rate
    (* ValuesAreSums: one datum per (build, name), at least every single file's value *)
    /\ \A t \in loc :
        /\ \A f \in WeekFiles(files, w) : f.build = t.b => \A c \in f.counts : c.n = t.n => c.v <= t.v
        /\ \A u \in loc : (u.b = t.b /\ u.n = t.n) => u = t
    /\ \A f \in WeekFiles(files, w) : \A c \in f.counts : \E t \in loc : t.b = f.build /\ t.n = c.n
    (* C11 ServerAcceptsUploader: the server accepts what the uploader must produce *)
    /\ ServerAccepts(cfg, ReportOf(u5, b5)) /\ ServerAccepts(cfg, ReportOf(z5, b5))
    (* C11 ViewerAgreesWithUploader: the viewer's verdict is the uploader's for the smallest X *)
    /\ \A f \in WeekFiles(files, w) :
          LET xn == ViewerExcludedNames(cfg, f)  sx == ViewerSetExcluded(cfg, f.build) IN
          \A c \in f.counts : (sx \/ c.n \in xn) <=> ~(\E t \in z5 : t.b = f.build /\ t.n = c.n)
Theorems == (IsVec /\ ~IsSrv(vec)) => LET cfg == CCfg(vec.cfg)  files == CFiles(vec.files) IN \A w \in Weeks(vec) : Thm(cfg, files, w, vec.x)
(* expansions are plain names carrying the chart prefix *)
(* C11: an accepted report stops being accepted when a single field of one of   *)
(* its entries is replaced by (or a name is added that is) something the        *)
(* configuration does not list; a rejected report has such an entry             *)
SrvAltBuilds(b) == {[b EXCEPT !.program = p] : p \in Programs} \cup {[b EXCEPT !.version = x] : x \in Versions}
                   \cup {[b EXCEPT !.gover = g] : g \in GoVers} \cup {[b EXCEPT !.goos = o] : o \in {"linux", "plan9"}}
                   \cup {[b EXCEPT !.goarch = a] : a \in {"amd64", "386"}}
ServerTheorems == (IsVec /\ IsSrv(vec)) => LET cfg == CCfg(vec.cfg)  rep == CRep(vec.rep) IN
    IF ServerAccepts(cfg, rep)
    THEN \A e \in rep :
           /\ \A b \in SrvAltBuilds(e.build) : ~Approved5(cfg, b) => ~ServerAccepts(cfg, (rep \ {e}) \cup {[e EXCEPT !.build = b]})
           /\ \A n \in CounterToks \cup StackToks :
                 /\ ~CounterListed(cfg, e.build.program, NameOf[n]) => ~ServerAccepts(cfg, (rep \ {e}) \cup {[e EXCEPT !.counters = @ \cup {NameOf[n]}]})
                 /\ ~StackListed(cfg, e.build.program, NameOf[n]) => ~ServerAccepts(cfg, (rep \ {e}) \cup {[e EXCEPT !.stacks = @ \cup {NameOf[n]}]})
    ELSE \E e \in rep : ~ServerAccepts(cfg, {e})
ExpandSane == IsVec => LET cfg == CCfg(vec.cfg) IN
    \A p \in cfg.progs : \A c \in p.counters : \A n \in Expand(c.name) :
        /\ ~IsCollapsed(n) /\ ~IsStack(n)
        /\ IsCollapsed(c.name) => (Len(n) > Len(Before(c.name, "{")) /\ SubSeq(n, 1, Len(Before(c.name, "{"))) = Before(c.name, "{"))
        /\ ~IsCollapsed(c.name) => n = c.name

Written == TLCGet("stats").distinct >= 0 /\ ndJsonSerialize("vectors.ndjson", SetToSeq({Out(VS[k]) : k \in DOMAIN VS}))
=============================================================================
