INIT Init
NEXT Next
INVARIANTS RedirectsEnd TargetsInUniverse ServedFilesExist PagesReachable MdWins
CHECK_DEADLOCK FALSE
