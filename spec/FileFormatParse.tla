-------------------------- MODULE FileFormatParse --------------------------
(* C06, model -> code: enumeration of counter files by structure.  A file is  *)
(* laid out by the allocator of FileFormat.tla (this module is the            *)
(* independent writer at the level of offsets) from a metadata block and a    *)
(* sequence of (name, value) items taken from small catalogues, and then      *)
(* optionally damaged by overriding header fields, links, lengths, the limit  *)
(* or the size.  Every state is one such file (`vec`, numeric facts only; `n` *)
(* of a record is its index in the name catalogue) with its corruption class  *)
(* `cls` and what reading it must give, `exp` (FileFormat!ParseResult; the    *)
(* expected names are given as catalogue indices whose expansion `name`        *)
(* states describe).  The harness writes the bytes and feeds them to the real  *)
(* decoder.                                                                    *)
EXTENDS FileFormat, SequencesExt, FiniteSetsExt, TLC
CONSTANTS NameCat,    \* Seq([id, pre, preDitto, lines, nlen, b])
          MetaCat,    \* Seq([len, lines: Seq([k, v, sep])])
          WFItems,    \* set of item sequences <<[n, v], ...>> for the well-formed family
          WFMetas,    \* metadata indices combined with every WFItems element
          MetaItems,  \* a few item sequences ...
          MetaAll,    \* ... combined with every well-formed metadata shape
          BadBases,   \* set of [mi, items] the corruptions are applied to
          Damage,     \* set of corruptions [t, i, x, pg] (pg: file size in pages, 0 = as laid out)
          PairBases   \* the bases that also get every pair of corruptions
VARIABLES vec, cls, exp

Huge == 1073741855                         \* 2^30 + 31: stands for any value far beyond the file (e.g. 0xffffffff)
NameOf(n) == [id |-> NameCat[n].id, pre |-> NameCat[n].pre, preDitto |-> NameCat[n].preDitto, lines |-> NameCat[n].lines]

RECURSIVE Lay(_, _, _, _, _, _)
Lay(h, items, i, limit, hd, acc) ==
    IF i > Len(items) THEN [limit |-> limit, hd |-> hd, recs |-> acc]
    ELSE LET nm  == NameCat[items[i].n]
             pl  == Place(h, limit, nm.nlen)
             old == IF nm.b \in DOMAIN hd THEN hd[nm.b] ELSE 0
             r   == [off |-> pl[1], nlen |-> nm.nlen, next |-> old, ok |-> TRUE, n |-> items[i].n, val |-> items[i].v, bucket |-> nm.b]
         IN  Lay(h, items, i + 1, pl[2], [x \in DOMAIN hd \cup {nm.b} |-> IF x = nm.b THEN pl[1] ELSE hd[x]], Append(acc, r))
HeadSeq(hd) == SortSeq(SetToSeq({[b |-> b, off |-> hd[b]] : b \in DOMAIN hd}), LAMBDA x, y : x.b < y.b)
(* the compact file: h0 is the header length the bytes are laid out with, hdrLen the value of the field *)
Base(mi, items) ==
    LET h == HeaderLen(MetaCat[mi].len)
        L == Lay(h, items, 1, 0, <<>>, <<>>)
    IN  [fam |-> "sound", mi |-> mi, h0 |-> h, size |-> Up(IF L.limit = 0 THEN 1 ELSE L.limit, Page), prefix |-> TRUE, hdrLen |-> h,
         limit |-> L.limit, heads |-> HeadSeq(L.hd), recs |-> L.recs]
(* the same file in the vocabulary of FileFormat.tla *)
Expand(c) == [size |-> c.size, prefix |-> c.prefix, hdrLen |-> c.hdrLen, metaLen |-> MetaCat[c.mi].len, meta |-> MetaCat[c.mi].lines,
              limit |-> c.limit, heads |-> c.heads,
              recs |-> [i \in DOMAIN c.recs |-> [off |-> c.recs[i].off, nlen |-> c.recs[i].nlen, next |-> c.recs[i].next, ok |-> c.recs[i].ok,
                                                 name |-> NameOf(c.recs[i].n), val |-> c.recs[i].val, bucket |-> c.recs[i].bucket]]]

(* ---- corruptions ----------------------------------------------------------- *)
HeadIdx(c, i) == CHOOSE k \in DOMAIN c.heads : c.heads[k].b = c.recs[i].bucket
Target(c, i, x) ==
    CASE x = "self"   -> c.recs[i].off
      [] x = "head"   -> c.heads[HeadIdx(c, i)].off
      [] x = "other"  -> IF \E j \in DOMAIN c.recs : c.recs[j].bucket # c.recs[i].bucket
                         THEN c.recs[CHOOSE j \in DOMAIN c.recs : c.recs[j].bucket # c.recs[i].bucket].off ELSE c.recs[i].off
      [] x = "zero"   -> 0
      [] x = "dead"   -> Huge
      [] x = "mid"    -> c.recs[i].off + 16
      [] x = "odd"    -> c.recs[i].off + 1
      [] x = "hdr"    -> 32
      [] x = "table"  -> c.h0 + 8
      [] x = "beyond" -> c.size + 64
      [] x = "edge"   -> c.size - 8
      [] x = "last16" -> c.size - 16
      \* the top of the uint32 range: -k stands for 2^32 - k (TLC integers are 32 bit signed; the harness writes the
      \* two's complement).  off+8, off+12, off+16 wrap around to the first bytes of the file for these.
      [] x = "top1"  -> -1  [] x = "top4"  -> -4  [] x = "top8" -> -8  [] x = "top9" -> -9
      [] x = "top12" -> -12 [] x = "top16" -> -16 [] x = "top17" -> -17
Applies(c, d) ==
    CASE d.t \in {"next", "nlen"} -> d.i \in DOMAIN c.recs
      [] d.t = "head"             -> d.i \in DOMAIN c.recs
      [] d.t = "swapheads"        -> Len(c.heads) >= 2
      [] d.t = "limit"            -> d.x \in {"beyond", "odd", "zero-empty", "reserved"} \/ Len(c.recs) > 0
      [] OTHER                    -> TRUE
Apply(c, d) ==
    CASE d.t = "size"   -> [c EXCEPT !.size = CASE d.x = "empty" -> 0 [] d.x = "short" -> 100 [] d.x = "pagem1" -> Page - 1
                                                 [] d.x = "odd" -> c.size + 100 [] d.x = "more" -> c.size + Page]
      [] d.t = "prefix" -> [c EXCEPT !.prefix = FALSE]
      [] d.t = "hdrlen" -> [c EXCEPT !.hdrLen = CASE d.x = "zero" -> 0 [] d.x = "five" -> 5 [] d.x = "thirtyone" -> 31
                                                   [] d.x = "plus1" -> c.h0 + 1 [] d.x = "plus32" -> c.h0 + 32
                                                   [] d.x = "minus32" -> IF c.h0 > 32 THEN c.h0 - 32 ELSE 64
                                                   [] d.x = "page" -> Page [] d.x = "pageplus" -> Page + 32
                                                   [] d.x = "size" -> c.size [] d.x = "huge" -> Huge]
      [] d.t = "limit"  -> [c EXCEPT !.limit = CASE d.x = "zero" -> 0 [] d.x = "zero-empty" -> 0
                                                  [] d.x = "intable" -> c.h0 + 64
                                                  [] d.x = "low" -> c.limit - Unit [] d.x = "odd" -> c.limit + 1
                                                  [] d.x = "beyond" -> c.size + Unit [] d.x = "huge" -> Huge
                                                  \* space reserved above the last record (a writer that died before linking): still well-formed
                                                  \* the exact, unrounded end of the last record (a writer that does not round): well-formed
                                                  [] d.x = "exact" -> c.recs[Len(c.recs)].off + RecHdr + c.recs[Len(c.recs)].nlen
                                                  [] d.x = "reserved" -> (IF c.limit = 0 THEN Up(FirstRec(c.h0), Unit) ELSE c.limit) + 2 * Unit]
      [] d.t = "next"   -> [c EXCEPT !.recs[d.i].next = Target(c, d.i, d.x)]
      [] d.t = "head"   -> [c EXCEPT !.heads[HeadIdx(c, d.i)].off = Target(c, d.i, d.x)]
      [] d.t = "nlen"   -> LET nl == CASE d.x = "zero" -> 0 [] d.x = "over" -> MaxName + 1
                                         [] d.x = "beyond" -> c.size [] d.x = "max24" -> 16777215
                                         [] d.x = "tofileend" -> c.size - c.recs[d.i].off - RecHdr          \* the name ends with the file
                                         [] d.x = "tofileend1" -> c.size - c.recs[d.i].off - RecHdr + 1     \* one byte too many
                           IN [c EXCEPT !.recs[d.i].nlen = nl,
                                        !.recs[d.i].ok = (nl >= 1 /\ c.recs[d.i].off + RecHdr + nl <= c.size)]
      [] d.t = "swapheads" -> [c EXCEPT !.heads[1].b = c.heads[2].b, !.heads[2].b = c.heads[1].b]
      [] d.t = "none"   -> c
Sized(c, d) == IF d.pg = 0 THEN c ELSE [c EXCEPT !.size = d.pg * Page]     \* the file is d.pg pages long (unused pages: zeros)
Hurt(c) == [c EXCEPT !.fam = "damaged"]
Fitting(c) == {d \in Damage : Applies(c, d)}
Damaged  == UNION {{Sized(Apply(Hurt(Base(bb.mi, bb.items)), d), d) : d \in Fitting(Base(bb.mi, bb.items))} : bb \in BadBases}
Twice(c) == UNION {{Apply(Apply(c, d1), d2) : d2 \in {d \in Fitting(Apply(c, d1)) : d.t # d1.t /\ d.pg = 0}} : d1 \in {d \in Fitting(c) : d.pg = 0}}
Damaged2 == UNION {Twice(Hurt(Base(bb.mi, bb.items))) : bb \in PairBases}
Sound == {Base(mi, it) : mi \in WFMetas, it \in WFItems} \cup {Base(mi, it) : mi \in MetaAll, it \in MetaItems}

(* expectation in compact form: names as catalogue indices *)
ExpOf(c) == LET f == Expand(c)  e == ParseResult(f) IN
            IF e.kind = "any" THEN [kind |-> "any", meta |-> {}, counts |-> {}]
            ELSE [kind |-> "ok", meta |-> e.meta, counts |-> {<<c.recs[i].n, c.recs[i].val>> : i \in {i \in DOMAIN c.recs : HasRec(f, c.recs[i].off) /\ RecAt(f, c.recs[i].off) \in Linked(f)}}]
NameVecs == {[name |-> n, dec |-> DecodeName(NameOf(n)), scope |-> NameInScope(NameOf(n)), ditto |-> HasDitto(NameOf(n))] : n \in DOMAIN NameCat}

Judged == cls = ClassOf(Expand(vec)) /\ exp = ExpOf(vec)
Init == \/ vec \in Sound /\ Judged                \* (disjuncts: TLC enumerates each family once)
        \/ vec \in Damaged /\ Judged
        \/ vec \in Damaged2 /\ Judged
        \/ /\ vec \in NameVecs
           /\ cls = "name" /\ exp = [kind |-> "name", meta |-> {}, counts |-> {}]
Next == UNCHANGED <<vec, cls, exp>>

(* ---- sanity theorems checked on every vector ------------------------------- *)
IsFile == cls # "name"
(* what the independent writer lays out is well-formed, and damage is noticed *)
SoundWF   == (IsFile /\ vec.fam = "sound" /\ InScope(Expand(vec))) => (cls = "wellformed" /\ exp.kind = "ok")
ClassSane == IsFile => ((cls = "wellformed") <=> (exp.kind = "ok"))
(* every linked record of a well-formed file is reported exactly once *)
ExpSane   == (IsFile /\ exp.kind = "ok") =>
                /\ Cardinality(exp.counts) = Cardinality(Linked(Expand(vec)))
                /\ Cardinality(exp.counts) <= Len(vec.recs)
                /\ \A p, q \in exp.counts : p[1] = q[1] => p = q
(* the walk is total: bounded by the number of records, whatever the links are *)
WalkTotal == IsFile => \A i \in DOMAIN Expand(vec).heads : Len(Chain(Expand(vec), i)) <= Len(vec.recs) + 2
(* expansion: idempotent, and it undoes the documented compression *)
NameSane  == ~IsFile => LET n == NameOf(vec.name) IN
                /\ DecodeLines(DecodeLines(n.lines)) = DecodeLines(n.lines)
                /\ (\A i \in DOMAIN n.lines : vec.dec.lines[i].p >= 1) => DecodeLines(EncodeLines(vec.dec.lines)) = vec.dec.lines
                /\ (\A i \in DOMAIN n.lines : n.lines[i].p >= 1) => DecodeLines(EncodeLines(n.lines)) = n.lines
                /\ ~vec.ditto => vec.dec.lines = n.lines
=============================================================================
