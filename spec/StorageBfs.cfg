SPECIFICATION SpecBfs
CONSTRAINT Bounded
INVARIANTS ResultFromHistory Confined NoConflicts
PROPERTIES OtherBucketsUntouched OnlyWritesChange OnlyTargetChanges
CHECK_DEADLOCK FALSE
CONSTANTS
 Buckets = {"u", "u2"}
 Names <- QuickNames
 Datas = {"d0", "d1"}
 Prefixes <- QuickPrefixes
 MaxOps = 3
 Styles = {"write", "nowrite"}
 EmptyData = "d0"
 CopyOn = FALSE
 CopyMiss = {}
 Handles = {1}
