SPECIFICATION Spec
INVARIANTS AllGood
CHECK_DEADLOCK FALSE
