------------------------------ MODULE Storage ------------------------------
(* C18 -- storage buckets of the upload / merge / chart services.            *)
(*                                                                           *)
(* A bucket is a map from object names to byte strings.  An object name is   *)
(* a non-empty sequence of "ordinary" components (no ".", "..", no slash, no *)
(* empty component); a component is a sequence of characters; the name as a  *)
(* string is the components joined by "/".  Written from the property text   *)
(* and the BucketHandle / ObjectHandle documentation:                        *)
(*   - writing an object and reading it back returns the same bytes (the     *)
(*     latest write wins),                                                   *)
(*   - reading an absent object reports not-exist,                           *)
(*   - listing with a prefix returns exactly the stored names whose *string* *)
(*     starts with the prefix (a prefix may end in the middle of a           *)
(*     component),                                                           *)
(*   - an object of bucket b named n lives at <root>/b/n and nowhere else:   *)
(*     buckets under one root do not see each other's objects.               *)
(* The state machine keeps the map; the history variable `hist` keeps the    *)
(* writes in order, and the results are specified a second time from the     *)
(* history alone (ResultFromHistory), which TLC cross-checks against the     *)
(* map semantics in every reachable state.                                   *)
EXTENDS Integers, Sequences, FiniteSets, TLC

CONSTANTS Buckets,     \* set of bucket identifiers (strings)
          Names,       \* set of object names: Seq(Seq(char))
          Datas,       \* set of data identifiers
          Prefixes,    \* set of listing prefixes: Seq(char)
          MaxOps,      \* bound on the length of a behaviour (exhaustive runs)
          Styles,      \* the ways a caller can write an object (see WriteStyles)
          EmptyData,   \* the data identifier that stands for the empty byte string
          CopyOn,      \* whether behaviours contain Copy operations
          CopyMiss,    \* names tried as ABSENT copy sources (stored objects are always tried)
          Handles      \* bucket handles an operation can go through (see `h` below)

VARIABLES objs,        \* [Buckets -> [some subset of Names -> Datas]]
          res,         \* result of the last operation
          last,        \* the last operation (for replay)
          hist,        \* sequence of the writes done so far
          via          \* the handle the last operation went through

vars == <<objs, res, last, hist, via>>

(* ---- names as strings --------------------------------------------------- *)
RECURSIVE Join(_)
Join(n) == IF Len(n) = 0 THEN <<>>
           ELSE IF Len(n) = 1 THEN n[1]
           ELSE n[1] \o <<"/">> \o Join(Tail(n))
NameStr(n) == Join(n)

IsPrefix(p, s) == Len(p) <= Len(s) /\ SubSeq(s, 1, Len(p)) = p

(* component-wise proper prefix: n would have to be a directory for m *)
ProperPathPrefix(n, m) == Len(n) < Len(m) /\ SubSeq(m, 1, Len(n)) = n
Conflict(n, m) == ProperPathPrefix(n, m) \/ ProperPathPrefix(m, n)

Ordinary(n) == /\ Len(n) >= 1
               /\ \A i \in 1..Len(n) :
                     /\ Len(n[i]) >= 1
                     /\ n[i] # <<".">> /\ n[i] # <<".", ".">>
                     /\ \A k \in 1..Len(n[i]) : n[i][k] # "/"

(* where the object lives: the path below the storage root, as components *)
PathOf(b, n) == <<b>> \o n
(* Resolving an ordinary name never leaves the bucket directory *)
RECURSIVE Depths(_, _)
Depths(p, d) == IF p = <<>> THEN <<>>
                ELSE LET d2 == IF Head(p) = <<".", ".">> THEN d - 1
                               ELSE IF Head(p) = <<".">> THEN d ELSE d + 1
                     IN <<d2>> \o Depths(Tail(p), d2)
Inside(n) == LET ds == Depths(n, 0) IN /\ Len(ds) >= 1
                                       /\ \A i \in 1..Len(ds) : ds[i] >= (IF i = Len(ds) THEN 1 ELSE 0)

(* Names that are NOT ordinary: a service that builds an object name from     *)
(* request text may hand the bucket anything.  The file-system backend joins *)
(* the name to the bucket directory and resolves it lexically: an empty      *)
(* component (a leading or doubled slash) and "." stay where they are, ".."  *)
(* goes up one level (not above the file-system root), anything else goes    *)
(* down.  `base` is the bucket directory (components from the root).  The    *)
(* clause "every object name the services construct resolves inside its      *)
(* bucket's directory" is ResolvesInside(bucket directory, name).            *)
RECURSIVE Resolve(_, _)
Resolve(p, st) == IF p = <<>> THEN st
                  ELSE LET c == Head(p) IN
                       Resolve(Tail(p), IF c = <<>> \/ c = <<".">> THEN st
                                        ELSE IF c = <<".", ".">> THEN (IF st = <<>> THEN st ELSE SubSeq(st, 1, Len(st) - 1))
                                        ELSE Append(st, c))
ResolvesInside(base, n) == LET r == Resolve(base \o n, <<>>) IN
                             /\ Len(r) > Len(base)
                             /\ SubSeq(r, 1, Len(base)) = base

Put(f, k, v) == [x \in (DOMAIN f) \cup {k} |-> IF x = k THEN v ELSE f[x]]
Stored(b) == DOMAIN objs[b]

(* a name can be used in bucket b now: the file-system backend cannot hold  *)
(* both n and n/m (documented limit; such name sets are outside the         *)
(* property's "ordinary" names)                                             *)
Usable(b, n) == \A m \in Stored(b) : ~Conflict(n, m)

(* results: a read gives NotExist or Found(data); `res` wraps the result of   *)
(* the last operation in one record shape (kind, ok, data, names)            *)
NotExist == [ok |-> FALSE, data |-> ""]
Found(d) == [ok |-> TRUE, data |-> d]
Res(kind, ok, data, names) == [kind |-> kind, ok |-> ok, data |-> data, names |-> names]
NoSrc == [b |-> "", name |-> <<>>]
Op(op, b, n, d, p, s) == [op |-> op, b |-> b, name |-> n, data |-> d, prefix |-> p, style |-> s, src |-> NoSrc]
OpCopy(b, n, d, sb, sn) == [op |-> "copy", b |-> b, name |-> n, data |-> d, prefix |-> <<>>, style |-> "",
                            src |-> [b |-> sb, name |-> sn]]

(* How the bytes reach the object is not the property's business: an object  *)
(* exists, with exactly the bytes written, as soon as its writer is closed,  *)
(* whether the caller                                                        *)
(*   "write"   called Write (one or more times, possibly with no bytes),     *)
(*   "nowrite" opened the writer and closed it without any Write call (what  *)
(*             an encoder loop over zero items or io.Copy from an empty      *)
(*             source does) -- possible for the empty byte string only --,   *)
(*   "copy"    copied another object with storage.Copy.                      *)
(* In particular an EMPTY object is an object: it reads back as zero bytes,  *)
(* not as not-exist, is listed, and replaces what was there before.          *)
WriteStyles == {"write", "nowrite", "copy", "uneven", "tiny"}   \* uneven/tiny: other chunkings of the same bytes (short head + long body + 1 byte; many 7-byte writes + the rest)
StyleOK(s, d) == s \in WriteStyles /\ (s = "nowrite" => d = EmptyData)

(* ---- pure result functions (also used by the trace module) -------------- *)
ReadResult(o, b, n) == IF n \in DOMAIN o[b] THEN Found(o[b][n]) ELSE NotExist
ListResult(o, b, p) == {n \in DOMAIN o[b] : IsPrefix(p, NameStr(n))}
WriteEffect(o, b, n, d) == [o EXCEPT ![b] = Put(@, n, d)]
(* Copy(dst, src): the destination becomes an object of its own holding the  *)
(* bytes the source holds NOW; the two objects stay independent afterwards   *)
(* (the map stores values, not references).  An absent source is an error    *)
(* and leaves the destination as it was.                                     *)
CopyOK(o, sb, sn) == sn \in DOMAIN o[sb]
CopyEffect(o, b, n, sb, sn) == IF CopyOK(o, sb, sn) THEN WriteEffect(o, b, n, o[sb][sn]) ELSE o

Init == /\ objs = [b \in Buckets |-> <<>>]
        /\ res = Res("init", TRUE, "", {})
        /\ last = Op("init", "", <<>>, "", <<>>, "")
        /\ hist = <<>>
        /\ via = 1

Write(b, n, d, s) == /\ Usable(b, n)
                     /\ StyleOK(s, d)
                     /\ objs' = WriteEffect(objs, b, n, d)
                     /\ res' = Res("write", TRUE, "", {})
                     /\ last' = Op("write", b, n, d, <<>>, s)
                     /\ hist' = Append(hist, [b |-> b, name |-> n, data |-> d])
                     /\ via' \in Handles

Read(b, n) == /\ Usable(b, n)
              /\ res' = Res("read", ReadResult(objs, b, n).ok, ReadResult(objs, b, n).data, {})
              /\ last' = Op("read", b, n, "", <<>>, "")
              /\ via' \in Handles
              /\ UNCHANGED <<objs, hist>>

List(b, p) == /\ res' = Res("list", TRUE, "", ListResult(objs, b, p))
              /\ last' = Op("list", b, <<>>, "", p, "")
              /\ via' \in Handles
              /\ UNCHANGED <<objs, hist>>

(* copy within one bucket or across two; never an object onto itself *)
Copy(b, n, sb, sn) ==
    /\ CopyOn
    /\ <<b, n>> # <<sb, sn>>
    /\ Usable(b, n) /\ Usable(sb, sn)
    /\ objs' = CopyEffect(objs, b, n, sb, sn)
    /\ res' = Res("copy", CopyOK(objs, sb, sn), "", {})
    /\ last' = OpCopy(b, n, IF CopyOK(objs, sb, sn) THEN objs[sb][sn] ELSE "", sb, sn)
    /\ hist' = IF CopyOK(objs, sb, sn) THEN Append(hist, [b |-> b, name |-> n, data |-> objs[sb][sn]]) ELSE hist
    /\ via' \in Handles
(* sources explored: every stored object, and the names of CopyMiss (absent or not) *)
Copies == \E b \in Buckets, n \in Names, sb \in Buckets : \E sn \in Stored(sb) \cup CopyMiss : Copy(b, n, sb, sn)

Step == \/ \E b \in Buckets, n \in Names, d \in Datas, s \in Styles : Write(b, n, d, s)
        \/ \E b \in Buckets, n \in Names : Read(b, n)
        \/ \E b \in Buckets, p \in Prefixes : List(b, p)
        \/ Copies
(* via: which handle of the bucket(s) the caller uses.  Several handles can  *)
(* be open on one bucket (the upload server and the worker each open their   *)
(* own; a restarted process opens a new one): a bucket is its directory, not *)
(* the handle, so nothing but `via` itself depends on the choice.            *)
(* (the choice `via' \in Handles` is made inside every action, so that Next   *)
(* stays a disjunction of small actions)                                     *)
Next == Step

Spec == Init /\ [][Next]_vars

Bounded == Len(hist) <= MaxOps   \* state constraint of the exhaustive runs
(* Exhaustive exploration: a read or a list does not change the map, so the  *)
(* operations after it lead to the same states as from its predecessor; the  *)
(* exhaustive runs therefore treat read / list states (and failed copies)    *)
(* as leaves.                                                                *)
NextBfs == /\ last.op \notin {"read", "list"} /\ ~(last.op = "copy" /\ ~res.ok)
           /\ \/ /\ Len(hist) < MaxOps
                 /\ \/ \E b \in Buckets, n \in Names, d \in Datas, s \in Styles : Write(b, n, d, s)
                    \/ Copies
              \/ \E b \in Buckets, n \in Names : Read(b, n)
              \/ \E b \in Buckets, p \in Prefixes : List(b, p)
SpecBfs == Init /\ [][NextBfs]_vars

(* ---- the property, stated on the history alone --------------------------- *)
WritesTo(b, n) == {i \in 1..Len(hist) : hist[i].b = b /\ hist[i].name = n}
LatestWrite(b, n) == LET W == WritesTo(b, n) IN hist[CHOOSE i \in W : \A j \in W : j <= i]
EverWritten(b) == {hist[i].name : i \in {j \in 1..Len(hist) : hist[j].b = b}}

ResultFromHistory ==
    CASE last.op = "read" ->
            IF WritesTo(last.b, last.name) = {} THEN ~res.ok
            ELSE res.ok /\ res.data = LatestWrite(last.b, last.name).data
      [] last.op = "list" ->
            res.names = {n \in EverWritten(last.b) : IsPrefix(last.prefix, NameStr(n))}
      [] last.op = "copy" ->
            (* before the copy the history was `h`; the copy succeeds iff the   *)
            (* source had been written, and then counts as a write of the      *)
            (* source's latest bytes to the destination                        *)
            LET h == IF res.ok THEN SubSeq(hist, 1, Len(hist) - 1) ELSE hist
                W == {i \in 1..Len(h) : h[i].b = last.src.b /\ h[i].name = last.src.name}
            IN IF W = {} THEN ~res.ok
               ELSE /\ res.ok
                    /\ hist[Len(hist)] = [b |-> last.b, name |-> last.name,
                                          data |-> h[CHOOSE i \in W : \A j \in W : j <= i].data]
      [] OTHER -> TRUE

(* what is on disk: one file per stored object, at <root>/<bucket>/<name>,   *)
(* different objects in different files, each inside its bucket's directory  *)
Disk == UNION {{PathOf(b, n) : n \in Stored(b)} : b \in Buckets}
(* the directories below the storage root: one per bucket, and those the     *)
(* stored objects need -- a read, a listing or a failed copy leaves none     *)
DiskDirs == {<<b>> : b \in Buckets} \cup
            UNION {UNION {{SubSeq(PathOf(b, n), 1, k) : k \in 1..Len(n)} : n \in Stored(b)} : b \in Buckets}
Confined == /\ \A b \in Buckets : \A n \in Stored(b) : Ordinary(n) /\ Inside(n)
            /\ \A b1, b2 \in Buckets : \A n1 \in Stored(b1), n2 \in Stored(b2) :
                   PathOf(b1, n1) = PathOf(b2, n2) => (b1 = b2 /\ n1 = n2)
            /\ \A p \in Disk : Inside(Tail(p)) /\ Head(p) \in Buckets
NoConflicts == \A b \in Buckets : \A n, m \in Stored(b) : ~Conflict(n, m)
(* buckets are independent: a write touches one bucket only *)
OtherBucketsUntouched == [][\A b \in Buckets : (last'.op \in {"write", "copy"} /\ last'.b # b) => objs'[b] = objs[b]]_vars
OnlyWritesChange == [][last'.op \notin {"write", "copy"} => objs' = objs]_vars
(* a write or copy changes at most the one object it names -- in particular  *)
(* overwriting an object never changes one that was copied from or to it     *)
OnlyTargetChanges == [][\A b \in Buckets : \A n \in Stored(b) :
                          (last'.op \in {"write", "copy"} /\ <<b, n>> # <<last'.b, last'.name>>)
                             => (n \in DOMAIN objs'[b] /\ objs'[b][n] = objs[b][n])]_vars
=============================================================================
