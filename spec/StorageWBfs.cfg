SPECIFICATION WSpec
CONSTRAINT WBounded
INVARIANTS LastClosedWins NoTwoWritersOnOneName Confined NoConflicts WResultFromHistory
PROPERTIES OnlyFirstCloseStores CloseStoresOwnObject
CHECK_DEADLOCK FALSE
CONSTANTS
 Buckets = {"u"}
 Names <- TwoNames
 Datas = {"d0", "d1"}
 Prefixes <- TwoPrefixes
 MaxOps = 2
 Styles = {"write"}
 EmptyData = "d0"
 CopyOn = FALSE
 CopyMiss = {}
 Handles = {1}
 Writers = {"w1", "w2"}
