---- MODULE TelemetrySmall ----
(* A small fixed instance of Telemetry.tla for runs by hand:                *)
(*     tlc -config TelemetrySmall.cfg TelemetrySmall.tla                    *)
(* (checks/e2e.py generates its MC modules per run from the same universe:  *)
(* programs alpha / beta, counters ok, ch:{a,b}, stack st, rates n/8).      *)
EXTENDS Telemetry
MCBuilds == {"A1", "U1"}
MCBuildRec == ("A1" :> [program |-> "example.com/e2e/alpha", version |-> "v1.0.0", gover |-> "go1.21.0", goos |-> "linux", goarch |-> "amd64"]) @@ ("U1" :> [program |-> "example.com/e2e/alpha", version |-> "v9.9.9", gover |-> "go1.21.0", goos |-> "linux", goarch |-> "amd64"])
MCNames == {"ok", "ch:a"}
MCChars == ("ok" :> <<"o", "k">>) @@ ("ch:a" :> <<"c", "h", ":", "a">>)
MCCarry == ("ok" :> <<"ok", "ok">>) @@ ("ch:a" :> <<"ch", "a">>)
MCCfg == [goos |-> {"linux", "plan9"}, goarch |-> {"amd64", "riscv64"}, gover |-> {"go1.21.0", "go1.22.3"}, sample |-> 6, progs |-> {[name |-> "example.com/e2e/alpha", versions |-> {"v1.0.0", "v1.1.0"}, counters |-> {[name |-> <<"o", "k">>, rate |-> 8], [name |-> <<"c", "h", ":", "{", "a", ",", "b", "}">>, rate |-> 4]}, stacks |-> {[name |-> <<"s", "t">>, rate |-> 6]}],
   [name |-> "example.com/e2e/beta", versions |-> {"v2.0.0"}, counters |-> {[name |-> <<"o", "k">>, rate |-> 8], [name |-> <<"c", "h", ":", "{", "a", "}">>, rate |-> 8]}, stacks |-> {}]}]
MCChartDesc == {[p |-> "example.com/e2e/alpha", c |-> "Version", bk |-> {<<"v1.0.0", "v1.0.0">>, <<"v1.1.0", "v1.1.0">>}],
   [p |-> "example.com/e2e/alpha", c |-> "GOOS", bk |-> {<<"linux", "linux">>, <<"plan9", "plan9">>}],
   [p |-> "example.com/e2e/alpha", c |-> "GOARCH", bk |-> {<<"amd64", "amd64">>, <<"riscv64", "riscv64">>}],
   [p |-> "example.com/e2e/alpha", c |-> "GoVersion", bk |-> {<<"go1.21.0", "go1.21">>, <<"go1.22.3", "go1.22">>}],
   [p |-> "example.com/e2e/alpha", c |-> "ok", bk |-> {<<"ok", "ok">>}],
   [p |-> "example.com/e2e/alpha", c |-> "ch", bk |-> {<<"a", "a">>, <<"b", "b">>}],
   [p |-> "example.com/e2e/beta", c |-> "Version", bk |-> {<<"v2.0.0", "v2.0.0">>}],
   [p |-> "example.com/e2e/beta", c |-> "GOOS", bk |-> {<<"linux", "linux">>, <<"plan9", "plan9">>}],
   [p |-> "example.com/e2e/beta", c |-> "GOARCH", bk |-> {<<"amd64", "amd64">>, <<"riscv64", "riscv64">>}],
   [p |-> "example.com/e2e/beta", c |-> "GoVersion", bk |-> {<<"go1.21.0", "go1.21">>, <<"go1.22.3", "go1.22">>}],
   [p |-> "example.com/e2e/beta", c |-> "ok", bk |-> {<<"ok", "ok">>}],
   [p |-> "example.com/e2e/beta", c |-> "ch", bk |-> {<<"a", "a">>}]}
MCInitModes == {Absent, Text("on", 19367, FALSE)}

====
