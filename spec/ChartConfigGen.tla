--------------------------- MODULE ChartConfigGen ---------------------------
(* Enumeration of inputs of the upload-config generator (C17, model -> code) *)
(* Every sequence of at most MaxRecs abstract chart records                  *)
(*    <<program, counter expression, depth, minimum-version rank>>           *)
(* over NProgs programs (toolchain programs cmd/..., whose versions are Go   *)
(* versions, and module programs with semantic versions), with the output    *)
(* the specification demands:                                                *)
(*    present[p]   the program is listed                                     *)
(*    minv[p]      smallest minimum among its records (0: all versions)      *)
(*    req[p]       the known versions that must be listed (ranks)            *)
(*    nctr[p][c]   how often expression c is listed as a counter             *)
(*    nstk[p][c]   how often as a stack (with its depth)                     *)
EXTENDS ChartConfig, TLC
CONSTANTS MaxRecs,
          Ctrs,        \* counter expression tokens, 1..n
          Depths,      \* depth values, containing 0
          Mins,        \* minimum-version ranks a record may carry (0: none)
          NProgs,      \* programs 1..NProgs
          ToolProgs,   \* those that are toolchain programs (cmd/...): versions are Go versions
          Known1, Known2   \* known version ranks: Go versions / versions of the module programs

Progs == 1..NProgs
Known(p) == IF p \in ToolProgs THEN Known1 ELSE Known2
RecSpace == [prog : Progs, ctr : Ctrs, depth : Depths, min : Mins]

VARIABLES recs, present, minv, req, nctr, nstk
vars == <<recs, present, minv, req, nctr, nstk>>

Init == /\ recs \in UNION {[1..n -> RecSpace] : n \in 1..MaxRecs}
        /\ present = [p \in Progs |-> p \in ProgsOf(recs)]
        /\ minv = [p \in Progs |-> IF p \in ProgsOf(recs) THEN MinOfMins(recs, p) ELSE -1]
        /\ req = [p \in Progs |-> IF p \in ProgsOf(recs) THEN Required(recs, p, Known(p)) ELSE {}]
        /\ nctr = [p \in Progs |-> [c \in Ctrs |-> NCounter(recs, p, c)]]
        /\ nstk = [p \in Progs |-> [c \in Ctrs |-> Cardinality({i \in 1..Len(recs) : recs[i].prog = p /\ recs[i].ctr = c /\ recs[i].depth > 0})]]
Next == UNCHANGED vars
Spec == Init /\ [][Next]_vars

(* ---- sanity theorems ---- *)
(* computing the minimum record by record gives the same result, whatever the order *)
Perms(n) == {f \in [1..n -> 1..n] : \A i, j \in 1..n : i # j => f[i] # f[j]}
OrderIndependent ==
    \A f \in Perms(Len(recs)) :
        LET rs == [i \in 1..Len(recs) |-> recs[f[i]]] IN
        \A p \in ProgsOf(recs) : /\ MinFold(rs, p, 1, -1) = minv[p]
                                 /\ Required(rs, p, Known(p)) = req[p]
(* every record is listed exactly once, in exactly one of the two lists *)
EachListedOnce ==
    \A p \in Progs : LET S == {i \in 1..Len(recs) : recs[i].prog = p} IN
        Cardinality(S) = (LET RECURSIVE Sum(_)
                              Sum(T) == IF T = {} THEN 0 ELSE LET c == CHOOSE x \in T : TRUE IN nctr[p][c] + nstk[p][c] + Sum(T \ {c})
                          IN Sum(Ctrs))
(* adding records can only widen the version list *)
PrefixMonotone ==
    \A n \in 1..Len(recs) : \A p \in ProgsOf(SubSeq(recs, 1, n)) :
        Required(SubSeq(recs, 1, n), p, Known(p)) \subseteq req[p]
(* programs do not influence each other: the output for p is that of p's records alone *)
Isolated ==
    \A p \in ProgsOf(recs) :
        LET mine == SelectSeq(recs, LAMBDA r : r.prog = p) IN
        /\ MinOfMins(mine, p) = minv[p]
        /\ \A c \in Ctrs : NCounter(mine, p, c) = nctr[p][c]
(* a record's own minimum version is always listed when it is known *)
OwnMinListed == \A i \in 1..Len(recs) : (recs[i].min \in Known(recs[i].prog)) => recs[i].min \in req[recs[i].prog]
=============================================================================
