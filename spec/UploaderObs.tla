----------------------------- MODULE UploaderObs -----------------------------
(* Clauses of properties C07 and C08 evaluated by TLC on every OBSERVED state *)
(* of the telemetry directory and the upload server's log.                    *)
EXTENDS Integers, Sequences, FiniteSets, Json, TLC

Trace == ndJsonDeserialize("c08obs.ndjson")
VARIABLE l
Init == l = 1
Next == l < Len(Trace) /\ l' = l + 1
Spec == Init /\ [][Next]_l
ToSet(s) == {s[i] : i \in DOMAIN s}
Weeks(x) == DOMAIN x.ready
NormO(b) == IF b.complete THEN <<b.by, ToSet(b.files)>> ELSE <<"incomplete">>

(* C08: the server never acknowledges two different bodies for one week *)
OneBodyPerWeekAt(x) == \A i, j \in DOMAIN x.acks : x.acks[i].w = x.acks[j].w => NormO(x.acks[i].body) = NormO(x.acks[j].body)
(* C08: a report that was acknowledged and recorded as uploaded is never sent again *)
NoResendAt(x) == \A i \in DOMAIN x.posts : ~x.posts[i].after
(* C08: the uploaded marker exists only for acknowledged weeks *)
MarkerOnlyAfterAckAt(x) == \A w \in Weeks(x) : x.uploaded[w].st = "file" => \E i \in DOMAIN x.acks : ToString(x.acks[i].w) = w
(* C07: files that have not ended or cannot be read are byte-for-byte untouched *)
UntouchedAt(x) == x.untouched
(* C07: crash-free quiescence => exactly one complete local report per week over exactly that week's files, files gone *)
OneLocalReportAt(x) == (x.quiet /\ x.nokill) =>
     \A w \in Weeks(x) : (x.early[w] # <<>>) =>
                         /\ x.localr[w].st = "file" /\ x.localr[w].complete
                         /\ ToSet(x.early[w]) \subseteq ToSet(x.localr[w].files) /\ ToSet(x.localr[w].files) \subseteq ToSet(x.filesof[w])
                         /\ ToSet(x.early[w]) \cap ToSet(x.count) = {}
(* C07: a count file disappears only when a report for its week exists *)
DeleteOnlyAfterReportAt(i) == (i > 1 /\ Trace[i].run = Trace[i - 1].run) =>
     \A w \in Weeks(Trace[i]) : \A f \in ToSet(Trace[i].filesof[w]) :
        (f \in ToSet(Trace[i - 1].count) /\ f \notin ToSet(Trace[i].count)) =>
           (Trace[i - 1].localr[w].st = "file" \/ Trace[i - 1].ready[w].st = "file" \/ Trace[i - 1].uploaded[w].st = "file")
(* C07: a complete local report never changes (no second or different report for a week) *)
ReportStableAt(i) == (i > 1 /\ Trace[i].run = Trace[i - 1].run) =>
     \A w \in Weeks(Trace[i]) : (Trace[i - 1].localr[w].st = "file" /\ Trace[i - 1].localr[w].complete) => Trace[i].localr[w] = Trace[i - 1].localr[w]

(* C08: what the uploader does with the reply.  When an uploader gives the    *)
(* lock of a week back, the last request it made while holding it decides:    *)
(* server error / no answer => the report is still in place; client error =>  *)
(* the report is gone and the week is not marked uploaded; success => marked. *)
LockStart(i, w) == CHOOSE k \in Trace[i].first..(i - 1) : ~Trace[k].lock[w] /\ \A m \in (k + 1)..(i - 1) : Trace[m].lock[w]
ReplyHandledAt(i) == (i > 1 /\ Trace[i].run = Trace[i - 1].run /\ Trace[i].t # "kill" /\ Trace[i].t # "init") =>
     \A w \in Weeks(Trace[i]) :
        (Trace[i - 1].lock[w] /\ ~Trace[i].lock[w] /\ \E k \in Trace[i].first..(i - 1) : ~Trace[k].lock[w]) =>
           LET k == LockStart(i, w)
               mine == {n \in (Len(Trace[k].posts) + 1)..Len(Trace[i].posts) : ToString(Trace[i].posts[n].w) = w /\ Trace[i].posts[n].by = Trace[i].t}
           IN mine # {} =>
                LET last == Trace[i].posts[CHOOSE n \in mine : \A m \in mine : m <= n] IN
                  /\ last.reply \in {"5xx", "none"} => Trace[i].ready[w].st = Trace[k].ready[w].st   \* left in place (only its creator may still be writing it)
                  \* discarded: the report that was posted is gone (a racing creator that passed its existence checks before
                  \* the report was made may have created the file anew in the meantime: then it is another file)
                  /\ last.reply = "4xx" => ((Trace[i].ready[w].st = "absent" \/ Trace[i].ready[w] # Trace[k].ready[w]) /\ Trace[i].uploaded[w] = Trace[k].uploaded[w])
                  /\ last.reply = "200" => Trace[i].uploaded[w].st = "file"

(* C07: the report made ready for upload is the week's one report, never a second or different one *)
ReadyMatchesLocalAt(x) == \A w \in Weeks(x) : (x.localr[w].st = "file" /\ x.localr[w].complete /\ x.ready[w].st = "file" /\ x.ready[w].complete)
                             => ToSet(x.ready[w].files) = ToSet(x.localr[w].files)
(* C08: an uploader that was not killed gives its lock back whatever the server answered (or did not), *)
(* so that the report is left in place "for a later run" and not for nobody                           *)
NoLockLeftAt(x) == (x.quiet /\ x.nokill) => \A w \in Weeks(x) : ~x.lock[w]
(* C08: a report left in place is offered again by the next run ("for a later run"): with a single uploader *)
(* and no kill, whatever is still ready when all runs are over was posted by the last run                   *)
LeftoverRetriedAt(x) == (x.quiet /\ x.nokill /\ x.nuploaders = 1) =>
     \A w \in Weeks(x) : x.ready[w].st = "file" =>
         \E i \in DOMAIN x.posts : ToString(x.posts[i].w) = w /\ x.posts[i].n = x.maxruns
(* C07: per-program-build values are the sums over exactly the files of that build (harness-side decoding of the report) *)
RepOK(r) == (r.st = "file" /\ r.complete) => r.buildsok
PerBuildSumsAt(x) == \A w \in Weeks(x) : RepOK(x.localr[w]) /\ RepOK(x.ready[w]) /\ RepOK(x.uploaded[w])
Bad == {<<i, "PerBuildSums">> : i \in {j \in 1..Len(Trace) : ~PerBuildSumsAt(Trace[j])}} \cup
       {<<i, "LeftoverRetried">> : i \in {j \in 1..Len(Trace) : ~LeftoverRetriedAt(Trace[j])}} \cup
       {<<i, "NoLockLeft">> : i \in {j \in 1..Len(Trace) : ~NoLockLeftAt(Trace[j])}} \cup
       {<<i, "ReadyMatchesLocal">> : i \in {j \in 1..Len(Trace) : ~ReadyMatchesLocalAt(Trace[j])}} \cup
       {<<i, "ReplyHandled">> : i \in {j \in 1..Len(Trace) : ~ReplyHandledAt(j)}} \cup
       {<<i, "OneBodyPerWeek">> : i \in {j \in 1..Len(Trace) : ~OneBodyPerWeekAt(Trace[j])}}
       \cup {<<i, "NoResendAfterRecorded">> : i \in {j \in 1..Len(Trace) : ~NoResendAt(Trace[j])}}
       \cup {<<i, "MarkerOnlyAfterAck">> : i \in {j \in 1..Len(Trace) : ~MarkerOnlyAfterAckAt(Trace[j])}}
       \cup {<<i, "Untouched">> : i \in {j \in 1..Len(Trace) : ~UntouchedAt(Trace[j])}}
       \cup {<<i, "OneLocalReport">> : i \in {j \in 1..Len(Trace) : ~OneLocalReportAt(Trace[j])}}
       \cup {<<i, "DeleteOnlyAfterReport">> : i \in {j \in 1..Len(Trace) : ~DeleteOnlyAfterReportAt(j)}}
       \cup {<<i, "ReportStable">> : i \in {j \in 1..Len(Trace) : ~ReportStableAt(j)}}
ASSUME PrintT(<<"C08BAD", Bad>>)
AllGood == /\ OneBodyPerWeekAt(Trace[l]) /\ NoResendAt(Trace[l]) /\ MarkerOnlyAfterAckAt(Trace[l]) /\ UntouchedAt(Trace[l])
           /\ OneLocalReportAt(Trace[l]) /\ DeleteOnlyAfterReportAt(l) /\ ReportStableAt(l) /\ ReplyHandledAt(l) /\ ReadyMatchesLocalAt(Trace[l]) /\ NoLockLeftAt(Trace[l]) /\ LeftoverRetriedAt(Trace[l]) /\ PerBuildSumsAt(Trace[l])
=============================================================================
