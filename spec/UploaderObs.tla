----------------------------- MODULE UploaderObs -----------------------------
(* Clauses of properties C07 and C08 evaluated by TLC on every OBSERVED state *)
(* of the telemetry directory and the upload server's log.                    *)
EXTENDS Integers, Sequences, FiniteSets, Json, TLC

Trace == ndJsonDeserialize("c08obs.ndjson")
VARIABLE l
Init == l = 1
Next == l < Len(Trace) /\ l' = l + 1
Spec == Init /\ [][Next]_l
ToSet(s) == {s[i] : i \in DOMAIN s}
Weeks(x) == DOMAIN x.ready
NormO(b) == IF b.complete THEN <<b.by, ToSet(b.files)>> ELSE <<"incomplete">>

(* C08: the server never acknowledges two different bodies for one week *)
OneBodyPerWeekAt(x) == \A i, j \in DOMAIN x.acks : x.acks[i].w = x.acks[j].w => NormO(x.acks[i].body) = NormO(x.acks[j].body)
(* C08: a report that was acknowledged and recorded as uploaded is never sent again *)
NoResendAt(x) == \A i \in DOMAIN x.posts : ~x.posts[i].after
(* C08: the uploaded marker exists only for acknowledged weeks *)
MarkerOnlyAfterAckAt(x) == \A w \in Weeks(x) : x.uploaded[w].st = "file" => \E i \in DOMAIN x.acks : ToString(x.acks[i].w) = w
(* C07: files that have not ended or cannot be read are byte-for-byte untouched *)
UntouchedAt(x) == x.untouched
(* C07: crash-free quiescence => exactly one complete local report per week over exactly that week's files, files gone *)
OneLocalReportAt(x) == (x.quiet /\ x.nokill) =>
     \A w \in Weeks(x) : /\ x.localr[w].st = "file" /\ x.localr[w].complete
                         /\ ToSet(x.localr[w].files) = ToSet(x.filesof[w])
                         /\ ToSet(x.filesof[w]) \cap ToSet(x.count) = {}
(* C07: a count file disappears only when a report for its week exists *)
DeleteOnlyAfterReportAt(i) == (i > 1 /\ Trace[i].run = Trace[i - 1].run) =>
     \A w \in Weeks(Trace[i]) : \A f \in ToSet(Trace[i].filesof[w]) :
        (f \in ToSet(Trace[i - 1].count) /\ f \notin ToSet(Trace[i].count)) =>
           (Trace[i - 1].localr[w].st = "file" \/ Trace[i - 1].ready[w].st = "file" \/ Trace[i - 1].uploaded[w].st = "file")
(* C07: a complete local report never changes (no second or different report for a week) *)
ReportStableAt(i) == (i > 1 /\ Trace[i].run = Trace[i - 1].run) =>
     \A w \in Weeks(Trace[i]) : (Trace[i - 1].localr[w].st = "file" /\ Trace[i - 1].localr[w].complete) => Trace[i].localr[w] = Trace[i - 1].localr[w]

Bad == {<<i, "OneBodyPerWeek">> : i \in {j \in 1..Len(Trace) : ~OneBodyPerWeekAt(Trace[j])}}
       \cup {<<i, "NoResendAfterRecorded">> : i \in {j \in 1..Len(Trace) : ~NoResendAt(Trace[j])}}
       \cup {<<i, "MarkerOnlyAfterAck">> : i \in {j \in 1..Len(Trace) : ~MarkerOnlyAfterAckAt(Trace[j])}}
       \cup {<<i, "Untouched">> : i \in {j \in 1..Len(Trace) : ~UntouchedAt(Trace[j])}}
       \cup {<<i, "OneLocalReport">> : i \in {j \in 1..Len(Trace) : ~OneLocalReportAt(Trace[j])}}
       \cup {<<i, "DeleteOnlyAfterReport">> : i \in {j \in 1..Len(Trace) : ~DeleteOnlyAfterReportAt(j)}}
       \cup {<<i, "ReportStable">> : i \in {j \in 1..Len(Trace) : ~ReportStableAt(j)}}
ASSUME PrintT(<<"C08BAD", Bad>>)
AllGood == /\ OneBodyPerWeekAt(Trace[l]) /\ NoResendAt(Trace[l]) /\ MarkerOnlyAfterAckAt(Trace[l]) /\ UntouchedAt(Trace[l])
           /\ OneLocalReportAt(Trace[l]) /\ DeleteOnlyAfterReportAt(l) /\ ReportStableAt(l)
=============================================================================
