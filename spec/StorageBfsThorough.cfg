SPECIFICATION SpecBfs
CONSTRAINT Bounded
INVARIANTS ResultFromHistory Confined NoConflicts
PROPERTIES OtherBucketsUntouched OnlyWritesChange
CHECK_DEADLOCK FALSE
CONSTANTS
 Buckets = {"u", "u2"}
 Names <- SmallNames
 Datas = {"d0", "d1"}
 Prefixes <- SmallPrefixes
 MaxOps = 4
 Styles = {"write", "nowrite"}
 EmptyData = "d0"
 CopyOn = FALSE
 CopyMiss = {}
 Handles = {1}
