---------------------------- MODULE ConsentSmall ----------------------------
(* A small fixed instance of Consent.tla that can be checked by hand:        *)
(*   tlc -config ConsentSmall.cfg ConsentSmall.tla                           *)
(* (checks/c02.py generates its instances, with more values, the same way).  *)
EXTENDS Consent
B0 == 18250
F(p, b, e) == [p |-> p, b |-> b, e |-> e]
MCModeFiles == {Absent, Unreadable, Text("on", NoDate, FALSE), Text("on", B0 + 2, FALSE), Text("on", BadDate, FALSE),
                Text("off", NoDate, TRUE), Text("local", B0, FALSE), Text("ON", NoDate, FALSE), Text("", NoDate, FALSE)}
MCInitFiles == { {}, {F("pA", B0 + 1, B0 + 8)}, {F("pA", B0 + 3, B0 + 8), F("pB", B0 + 2, B0 + 8)} }
MCInitReports == {[local |-> {}, ready |-> {}, uploaded |-> {}], [local |-> {}, ready |-> {B0 + 8, B0 + 15}, uploaded |-> {}]}
MCStarts == {<<B0 + 8, 0>>, <<B0 + 8, 1>>, <<B0 + 29, 0>>, <<B0 + 29, 1>>}
MCClock == {<<B0 + 9, 0>>, <<B0 + 30, 1>>}
=============================================================================
