INIT Init
NEXT Next
INVARIANTS ChainSane
CHECK_DEADLOCK FALSE
CONSTANT MaxChain = 4
