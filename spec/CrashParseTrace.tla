--------------------------- MODULE CrashParseTrace ---------------------------
(* code -> model: observations of the real telemetryCounterName.  One JSON   *)
(* object per line:                                                          *)
(*   lines : the report abstracted line by line as [s, paren, sig, pc]       *)
(*           (by construction for generated reports, by the harness' own     *)
(*           classifier for mutated genuine tracebacks and random bytes)     *)
(*   obs   : one observed outcome per concretization of that abstract report *)
(*           kind  "err" | "nogo" | "name" | "panic" | "hang" | "other"      *)
(*           frames  the name read back as <<[v |-> value id, trap, unk]>> *)
(*   vid   : per line, the id of the PC value written on it (0: none)        *)
(*           lenok  the name is at most 4096 bytes                           *)
(*           text   a digest of the name string                              *)
(*           entry  "function" or "monitor" (see CrashParse!Entries)           *)
(*           pathpc this concretization has " pc=" inside a file path (the   *)
(*                  harness adds a control rendering that differs in those   *)
(*                  four bytes only)                                         *)
(* TLC decides every record with CrashParse!Allowed / NonInterference and    *)
(* collects the unexplained ones (with a class used for the signature).      *)
EXTENDS CrashParse, Json
Trace == ndJsonDeserialize("c14obs.ndjson")
VARIABLES l, bad
MaxPerClass == 40                            \* unexplained records kept per class

Lines(r) == [i \in 1..Len(r.lines) |-> L(r.lines[i][1], r.lines[i][2], r.lines[i][3], r.lines[i][4])]
Matches(h, vid, o) == LET x == Expected(h) IN o.kind = x.kind /\ SameFrames(o, x.frames, vid)

Explained(r) == LET h == Lines(r) IN
                /\ \A k \in 1..Len(r.obs) : Allowed(h, r.vid, r.obs[k])
                /\ NonInterference(r.obs)

Class(r) == LET h == Lines(r)  n == Len(r.obs) IN
   IF \E k \in 1..n : r.obs[k].kind \in {"panic", "hang"}
      THEN (CHOOSE k \in 1..n : r.obs[k].kind \in {"panic", "hang"})   \* index; kind read in python
   ELSE IF /\ \E k \in 1..n : r.obs[k].entry = "monitor"
           /\ LET f == SelectSeq(r.obs, LAMBDA o : o.entry = "function") IN
              (\A k \in 1..Len(f) : Allowed(h, r.vid, f[k])) /\ NonInterference(f)
      THEN -9         \* only the monitor process (fed through a pipe, padded texts) disagrees
   ELSE IF /\ ~WellFormed(h) /\ ~WellFormed(AsText(h)) /\ WellFormed(AsSym(AsText(h)))
           /\ \A k \in 1..n : r.obs[k].kind \in {"err", "nogo", "name", "other"}
           /\ \E k \in 1..n : ~Allowed(h, r.vid, r.obs[k])
      THEN -10        \* a symbol line without "(" (location line kept) changes the name
   ELSE IF /\ ~WellFormed(h) /\ WellFormed(AsText(h))
           /\ \A k \in 1..n : r.obs[k].kind \in {"err", "nogo", "name", "other"}
      THEN -8         \* a later "sentinel ..." line changes the result
   ELSE IF \E k \in 1..n : r.obs[k].kind \notin {"err", "nogo", "name"}
      THEN (CHOOSE k \in 1..n : r.obs[k].kind \notin {"err", "nogo", "name"})
   ELSE IF \E k \in 1..n : ~r.obs[k].lenok THEN -1
   ELSE IF /\ WellFormed(h)
           /\ \E i \in 1..Len(h) : h[i].pc = "okpath"
           /\ \A k \in 1..n : Matches(h, r.vid, r.obs[k]) \/ Matches(AsF17(h), r.vid, r.obs[k])
      THEN -2                                         \* exactly the F17 behaviour
   ELSE IF /\ WellFormed(h)
           /\ EndIdx(h) <= Len(h) /\ h[EndIdx(h)].s = "elided"
           /\ \A k \in 1..n : r.obs[k].kind = "err"
      THEN -6                                         \* a deep stack (elision line) is refused
   ELSE IF /\ \A k \in 1..n : Allowed(h, r.vid, r.obs[k])
           /\ NonInterference(SelectSeq(r.obs, LAMBDA o : ~o.pathpc))
      THEN -7         \* names differ only between renderings with / without " pc=" in a path
   ELSE IF \A k \in 1..n : Allowed(h, r.vid, r.obs[k]) THEN -3   \* only non-interference fails
   ELSE IF WellFormed(h) THEN -4                      \* wrong outcome for a genuine-format report
   ELSE -5                                            \* a frame that is no PC of the block / too many

Init == l = 1 /\ bad = {}
Next == \/ /\ l <= Len(Trace)
           /\ l' = l + 1
           /\ bad' = IF Explained(Trace[l]) THEN bad
                     ELSE LET c == Class(Trace[l]) IN
                          IF Cardinality({b \in bad : b[2] = c}) >= MaxPerClass THEN bad
                          ELSE bad \cup {<<l, c>>}
        \/ /\ l = Len(Trace) + 1            \* the verdict, read by checks/c14.py
           /\ PrintT(<<"C14BAD", Len(Trace), bad>>)
           /\ l' = l + 1 /\ UNCHANGED bad
=============================================================================
