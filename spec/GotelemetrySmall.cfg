SPECIFICATION Spec
INVARIANTS TypeOK CleanedStaysClean
PROPERTIES CleanRemovesData CleanNothingElse CleanKeepsNonEmptyDirs ModeOnlyMode NoOpWhenSame Records NoCommandCreatesData AfterModeCmdItReads CleanIdempotent EnvShowsTheFile RefusedChangesNothing
CHECK_DEADLOCK FALSE
CONSTANTS
  Trees <- MCTrees
  ModeFiles <- MCModeFiles
  Today = 20000
  MaxCmds = 3
  BadCmds = {"clean all", "purge"}
