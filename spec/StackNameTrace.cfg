INIT Init
NEXT Next
CHECK_DEADLOCK FALSE
CONSTANTS
 MaxLen = 4096
