---------------------------- MODULE WorkerChart ----------------------------
(* Pure operators of property C13: what a chart over a collection of        *)
(* reports must contain.  Written from the property text and the worker's   *)
(* documentation, not from the code:                                        *)
(*                                                                          *)
(*   - a report is identified by its ID (the X value);                      *)
(*   - a report *carries* the triples <<program, chart, bucket>>: the       *)
(*     special charts Version / GOOS / GOARCH / GoVersion of each of its    *)
(*     program reports and one <<program, chart, bucket>> per counter       *)
(*     "chart:bucket";                                                      *)
(*   - the configuration lists, per program, charts; each chart has a set   *)
(*     of buckets, every bucket is drawn under a *key* (the bucket itself,  *)
(*     or for GoVersion the major.minor it belongs to);                     *)
(*   - the value of a key is the number of DISTINCT report IDs that carry   *)
(*     a configured bucket of that key; NumReports is the number of         *)
(*     reports read.                                                        *)
(*   - the data points of a chart are listed in the documented total order *)
(*     of its keys (program versions: semver precedence, ties and non-      *)
(*     versions lexically; Go versions: by version; everything else:        *)
(*     lexically); the configuration abstraction carries that order as a    *)
(*     rank per key, so the listing is a function of the configuration and  *)
(*     never of storage or map iteration order.                             *)
EXTENDS Integers, Sequences, FiniteSets, TLC, SequencesExt

(* A chart descriptor is [p |-> program, c |-> chart, bk |-> set of <<bucket, key, rank>>] *)
(* rank: position of the key in the documented order of the chart's keys    *)
Keys(ch) == {pr[2] : pr \in ch.bk}
Rank(ch, k) == (CHOOSE pr \in ch.bk : pr[2] = k)[3]

(* the order in which the keys of a chart are listed: declaratively, key k  *)
(* stands at position 1 + number of keys of smaller rank                    *)
OrderOf(ch) == [i \in 1..Cardinality(Keys(ch)) |->
                   CHOOSE k \in Keys(ch) : Cardinality({k2 \in Keys(ch) : Rank(ch, k2) < Rank(ch, k)}) = i - 1]
(* ... and operationally, by sorting whatever order the keys come in        *)
SortedKeys(ch) == SortSeq(SetToSeq(Keys(ch)), LAMBDA a, b : Rank(ch, a) < Rank(ch, b))
PCs(charts) == {<<ch.p, ch.c>> : ch \in charts}
(* the listing order of every chart: a function of the configuration alone *)
ListingOrder(charts) == [pc \in PCs(charts) |-> OrderOf(CHOOSE ch \in charts : ch.p = pc[1] /\ ch.c = pc[2])]
SortedOrder(charts) == [pc \in PCs(charts) |-> SortedKeys(CHOOSE ch \in charts : ch.p = pc[1] /\ ch.c = pc[2])]

(* report shape r: [id |-> ..., carries |-> set of <<p, c, b>>] (other fields ignored) *)
Carries(r, ch, key) == \E pr \in ch.bk : pr[2] = key /\ <<ch.p, ch.c, pr[1]>> \in r.carries

(* ---- declarative definition: a function of the SET of reports ---------- *)
Count(rs, ch, key) == Cardinality({r.id : r \in {x \in rs : Carries(x, ch, key)}})

Triples(charts) == UNION {{<<ch.p, ch.c, k>> : k \in Keys(ch)} : ch \in charts}
ChOf(charts, t) == CHOOSE ch \in charts : ch.p = t[1] /\ ch.c = t[2]

ChartOf(rs, n, charts) ==
    [num |-> n, val |-> [t \in Triples(charts) |-> Count(rs, ChOf(charts, t), t[3])]]

(* ---- operational definition: fold over the LINES in reading order ------ *)
(* grouping by program / chart / bucket / report ID, a later line with the  *)
(* same ID overwrites the earlier one (so an ID is present once)            *)
RECURSIVE GroupFold(_, _, _)
GroupFold(lines, g, all) ==
    IF lines = <<>> THEN g
    ELSE LET r == Head(lines) IN
         GroupFold(Tail(lines), [t \in all |-> IF t \in r.carries THEN g[t] \cup {r.id} ELSE g[t]], all)

AllCarried(lines) == UNION {lines[i].carries : i \in 1..Len(lines)}

ChartFold(lines, charts) ==
    LET all == AllCarried(lines) \cup UNION {{<<ch.p, ch.c, pr[1]>> : pr \in ch.bk} : ch \in charts}
        g == GroupFold(lines, [t \in all |-> {}], all)
        part(ch, key) == Cardinality(UNION {g[<<ch.p, ch.c, pr[1]>>] : pr \in {q \in ch.bk : q[2] = key}})
    IN [num |-> Len(lines), val |-> [t \in Triples(charts) |-> part(ChOf(charts, t), t[3])]]

(* no two descriptors for the same (program, chart): the domain of the check *)
(* and the ranks of a chart order its keys totally                          *)
WellFormed(charts) == /\ \A a, b \in charts : (a.p = b.p /\ a.c = b.c) => a = b
                      /\ \A ch \in charts : \A x, y \in ch.bk : (x[2] = y[2]) <=> (x[3] = y[3])
=============================================================================
