---------------------------- MODULE WorkerChart ----------------------------
(* Pure operators of property C13: what a chart over a collection of        *)
(* reports must contain.  Written from the property text and the worker's   *)
(* documentation, not from the code:                                        *)
(*                                                                          *)
(*   - a report is identified by its ID (the X value);                      *)
(*   - a report *carries* the triples <<program, chart, bucket>>: the       *)
(*     special charts Version / GOOS / GOARCH / GoVersion of each of its    *)
(*     program reports and one <<program, chart, bucket>> per counter       *)
(*     "chart:bucket";                                                      *)
(*   - the configuration lists, per program, charts; each chart has a set   *)
(*     of buckets, every bucket is drawn under a *key* (the bucket itself,  *)
(*     or for GoVersion the major.minor it belongs to);                     *)
(*   - the value of a key is the number of DISTINCT report IDs that carry   *)
(*     a configured bucket of that key; NumReports is the number of         *)
(*     reports read.                                                        *)
EXTENDS Integers, Sequences, FiniteSets

(* A chart descriptor is [p |-> program, c |-> chart, bk |-> set of <<bucket, key>>] *)
Keys(ch) == {pr[2] : pr \in ch.bk}

(* report shape r: [id |-> ..., carries |-> set of <<p, c, b>>] (other fields ignored) *)
Carries(r, ch, key) == \E pr \in ch.bk : pr[2] = key /\ <<ch.p, ch.c, pr[1]>> \in r.carries

(* ---- declarative definition: a function of the SET of reports ---------- *)
Count(rs, ch, key) == Cardinality({r.id : r \in {x \in rs : Carries(x, ch, key)}})

Triples(charts) == UNION {{<<ch.p, ch.c, k>> : k \in Keys(ch)} : ch \in charts}
ChOf(charts, t) == CHOOSE ch \in charts : ch.p = t[1] /\ ch.c = t[2]

ChartOf(rs, n, charts) ==
    [num |-> n, val |-> [t \in Triples(charts) |-> Count(rs, ChOf(charts, t), t[3])]]

(* ---- operational definition: fold over the LINES in reading order ------ *)
(* grouping by program / chart / bucket / report ID, a later line with the  *)
(* same ID overwrites the earlier one (so an ID is present once)            *)
RECURSIVE GroupFold(_, _, _)
GroupFold(lines, g, all) ==
    IF lines = <<>> THEN g
    ELSE LET r == Head(lines) IN
         GroupFold(Tail(lines), [t \in all |-> IF t \in r.carries THEN g[t] \cup {r.id} ELSE g[t]], all)

AllCarried(lines) == UNION {lines[i].carries : i \in 1..Len(lines)}

ChartFold(lines, charts) ==
    LET all == AllCarried(lines) \cup UNION {{<<ch.p, ch.c, pr[1]>> : pr \in ch.bk} : ch \in charts}
        g == GroupFold(lines, [t \in all |-> {}], all)
        part(ch, key) == Cardinality(UNION {g[<<ch.p, ch.c, pr[1]>>] : pr \in {q \in ch.bk : q[2] = key}})
    IN [num |-> Len(lines), val |-> [t \in Triples(charts) |-> part(ChOf(charts, t), t[3])]]

(* no two descriptors for the same (program, chart): the domain of the check *)
WellFormed(charts) == \A a, b \in charts : (a.p = b.p /\ a.c = b.c) => a = b
=============================================================================
