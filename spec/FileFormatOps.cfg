SPECIFICATION Spec
INVARIANTS LayoutOK Clauses Exact
PROPERTY Monotone
VIEW View
CHECK_DEADLOCK FALSE
CONSTANTS
 Names <- MCNames
 MetaLens <- MCMetaLens
 Actors <- MCActors
 Incs <- MCIncs
 MaxOps <- MCMaxOps
