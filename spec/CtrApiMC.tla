---- MODULE CtrApiMC ----
(* A stand-alone instance of CtrApi.tla (the "mixed" scenario family of      *)
(* checks/x03.py, which generates one such module per family and run):       *)
(* one goroutine calls StackCounter.Inc from two call sites, another         *)
(* increments a private plain counter twice, a third performs the first Open. *)
EXTENDS CtrApi
MCStackTasks == {"a1"}
MCProg == ("a1" :> <<<<1, 1>>, <<2, 1>>>>)
MCPlainTasks == {"p1"}
MCPlainIdx == ("p1" :> 1)
MCNAdds == ("p1" :> 2)
MCRot == {"r1"}
MCTick == {}
MCObs == {}
MCNObs == <<>>
====
