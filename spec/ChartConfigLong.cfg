SPECIFICATION Spec
INVARIANTS RoundTrip MarkOK
CHECK_DEADLOCK FALSE
