------------------------------- MODULE CtrApi -------------------------------
(***************************************************************************)
(* X03 -- the public counter API layer above the mapped file:              *)
(* counter.New/NewStack/Inc/Add/Open/OpenAndRotate/CountFlags,             *)
(* internal/counter.StackCounter, Read/ReadStack/ReadFile and              *)
(* counter/countertest.                                                    *)
(*                                                                         *)
(* GUARANTEES a user of this layer relies on (written from the package     *)
(* documentation, the doc comments and the evident intent; G-numbers are   *)
(* quoted in every violation the check reports):                           *)
(*                                                                         *)
(* G1  STACK IDENTITY.  "Inc ... computes the caller's stack and looks up  *)
(*     the corresponding counter.  It then increments that counter,        *)
(*     creating it if necessary."  For EVERY history of Inc / Names /      *)
(*     Counters calls from any number of goroutines, under every schedule  *)
(*     and concurrently with the file being opened or rotated: the stack   *)
(*     counter knows exactly one Counter per distinct call stack (the      *)
(*     program counters up to the configured depth) from which an Inc has  *)
(*     got that far -- never two for one stack, never one for two stacks,  *)
(*     never one for a stack that was not seen; entries are only ever      *)
(*     appended; Names()[i] is the name of Counters()[i]; a snapshot is a  *)
(*     prefix of every later one.  (CtrApi!NoDup, KnownAreBegun,           *)
(*     DoneAreKnown, PrefixMonotone, SnapIsPrefix; CtrApiObs judges the    *)
(*     same clauses on the real state.)                                    *)
(*                                                                         *)
(* G2  EXACTLY ONCE THROUGH THE STACK LAYER.  At every instant and for     *)
(*     every stack s:  completed Incs(s) <= persisted(s, all files) +      *)
(*     pending(s) <= begun Incs(s); once all calls have returned and a     *)
(*     file is open nothing is pending, so the values of all the stack     *)
(*     counter's counters, summed over the files of the spans involved,    *)
(*     equal the number of Inc calls; no increment ever touches a mapping  *)
(*     that was closed by a rotation.  (Bounds, Quiescent, PtrLive)        *)
(*                                                                         *)
(* G3  READS ARE FAITHFUL.  At rest, Read(c) is the value an independent   *)
(*     reader of the current counter file finds under c's name if a file   *)
(*     is open, and the pending in-memory amount of that Counter if none   *)
(*     is; ReadStack is that for every counter the stack counter knows,    *)
(*     keyed by the decoded name; a read changes no count; under           *)
(*     concurrency a read never reports more than has been begun.          *)
(*     ReadFile(name) returns, for a file written by ANOTHER process, the  *)
(*     plain counters and the stack counters (names containing a newline,  *)
(*     decoded) as two disjoint maps with exactly the stored values.       *)
(*     (CtrApiLife!ReadSpec, CtrApiFile!View)                              *)
(*                                                                         *)
(* G4  LIFECYCLE.  "Open also persists any counters already created in     *)
(*     the current process": whatever was incremented before Open -- any   *)
(*     number of Counter objects, also several with one name, stack        *)
(*     counters, flag counters -- is in the file exactly once after Open;  *)
(*     later increments go to the file; Open is idempotent; Open and       *)
(*     OpenAndRotate in one process panic; "If the telemetry mode is off,  *)
(*     Open is a no-op": no counter file appears and counts stay readable  *)
(*     in memory; Add(0) does nothing, Add(n<0) panics and changes         *)
(*     nothing; after the close function (called when all increments are   *)
(*     done) another process reads exactly the totals and close is         *)
(*     idempotent.  (CtrApiLife: Conservation, OffWritesNothing, ...)      *)
(*                                                                         *)
(* G5  FLAG COUNTERS.  "CountFlags creates a counter for every flag that   *)
(*     is set and increments the counter.  The name of the counter is the  *)
(*     concatenation of prefix and the flag name": for every flag set,     *)
(*     the increments caused by CountFlags(prefix, fs) are exactly one on  *)
(*     prefix+name for each flag that was SET (however often), none for    *)
(*     defined-but-unset flags, none anywhere else;                        *)
(*     CountCommandLineFlags does this for flag.CommandLine with the       *)
(*     prefix <base of build-info path>/flag: , or flag: without a path.   *)
(*     (CtrApiLife!CountFlagsEffect)                                       *)
(*                                                                         *)
(* THIS MODULE is the concurrent part (G1, G2): one StackCounter, private  *)
(* plain Counters of other goroutines, first open / weekly rotation, and   *)
(* observers calling Names()/Counters().  Per-counter increments are       *)
(* ABSTRACTED TO ONE ATOMIC STEP (AddCore): the state-word protocol below  *)
(* it is Counter.tla (C03).  What stays visible is what this layer adds:   *)
(*   - StackCounter.mu and the stacks list,                                *)
(*   - the file's lock-free registration list (file.register), which is    *)
(*     what "Open persists counters already created" and every rotation    *)
(*     rely on to find the counters,                                       *)
(*   - the rotation steps: current.Store (end of rotate1's locked          *)
(*     section), the deferred check, the two traversals of                 *)
(*     invalidateCounters, close of the previous mapping.                  *)
(* One action = one scheduling step of the real code under the             *)
(* verification scheduler with exactly these operations visible.           *)
(*                                                                         *)
(* Counter ids: the StackCounter's counters are 1..NS where the id is a    *)
(* function of the call stack TRUNCATED to Depth frames (Key below); the   *)
(* private plain counters are NS+1 .. NS+NP.  Files are named by span.     *)
(***************************************************************************)
EXTENDS Integers, Sequences, FiniteSets, TLC

CONSTANTS NLeaf, NVia,   \* call sites: leaf function 1..NLeaf called through 1..NVia
          Depth,         \* depth of the stack counter: 0, 1 or 2 frames are compared
          StackTasks,    \* goroutines calling StackCounter.Inc
          Prog,          \* StackTasks -> sequence of calls <<leaf, via>>
          PlainTasks,    \* goroutines incrementing a private plain Counter
          PlainIdx,      \* PlainTasks -> 1..NP
          NAdds,         \* PlainTasks -> number of Inc calls
          Rotators,      \* each calls file.rotate1 once (first open, rotation, or nothing to do)
          Tickers,       \* each moves the clock into span 2 (one step)
          Observers,     \* goroutines calling Names() / Counters()
          NObs,          \* Observers -> number of calls
          InitOpen       \* TRUE: the file of span 1 is open at the start

Tasks == StackTasks \cup PlainTasks \cup Rotators \cup Tickers \cup Observers
NP == Cardinality(PlainTasks)
NS == IF Depth = 0 THEN 1 ELSE IF Depth = 1 THEN NLeaf ELSE NLeaf * NVia
NC == NS + NP
Ctrs == 1..NC
(* G1: the counter is a function of the program counters up to Depth *)
Key(call) == IF Depth = 0 THEN 1 ELSE IF Depth = 1 THEN call[1] ELSE (call[1] - 1) * NVia + call[2]
PlainCtr(t) == NS + PlainIdx[t]
NIL == 0
END == -1
NOPTR == -1      \* hp: havePtr clear
NILPTR == 0      \* hp: havePtr set, pointer nil (no file was open at the lookup)

VARIABLES stacks,   \* the StackCounter's list: counter ids in creation order
          smu,      \* holder of StackCounter.mu, or "none"
          nxt, head,\* file.counters: the registration list
          cur,      \* span of file.current (0 = nil)
          fspan,    \* span recorded in the file struct
          clock,    \* span the clock is in
          hp,       \* per counter: NOPTR, NILPTR, or the span of the file its pointer refers to
          mem,      \* per counter: pending in-memory amount
          disk,     \* span -> counter -> persisted value
          closed,   \* spans whose mapping was closed by a rotation
          pc, k, loc,
          begun, done,    \* history: calls begun / returned, per counter
          snap            \* per observer: its last result
shared == <<stacks, smu, nxt, head, cur, fspan, clock, hp, mem, disk, closed>>
vars == <<shared, pc, k, loc, begun, done, snap>>

Range(s) == {s[i] : i \in DOMAIN s}
IsPrefix(a, b) == Len(a) <= Len(b) /\ \A i \in 1..Len(a) : a[i] = b[i]
Loc0 == [c |-> 0, h |-> 0, w |-> FALSE, it |-> 0, prev |-> 0]

Init ==
  /\ stacks = <<>> /\ smu = "none"
  /\ nxt = [c \in Ctrs |-> NIL] /\ head = NIL
  /\ cur = IF InitOpen THEN 1 ELSE 0
  /\ fspan = IF InitOpen THEN 1 ELSE 0
  /\ clock = 1
  /\ hp = [c \in Ctrs |-> NOPTR] /\ mem = [c \in Ctrs |-> 0]
  /\ disk = [f \in 1..2 |-> [c \in Ctrs |-> 0]]
  /\ closed = {}
  /\ pc = [t \in Tasks |-> "start"] /\ k = [t \in Tasks |-> 0] /\ loc = [t \in Tasks |-> Loc0]
  /\ begun = [c \in Ctrs |-> 0] /\ done = [c \in Ctrs |-> 0]
  /\ snap = [t \in Observers |-> <<>>]

(* ---- the per-counter increment, abstracted to one step (Counter.tla below it) ---- *)
(* result: <<hp', mem', disk'>> for counter c *)
AddHp(c) == IF hp[c] = NOPTR THEN (IF cur # 0 THEN cur ELSE NILPTR) ELSE hp[c]
AddMem(c) == IF hp[c] >= 1 THEN mem[c]
             ELSE IF hp[c] = NILPTR THEN mem[c] + 1
             ELSE IF cur # 0 THEN 0 ELSE mem[c] + 1
AddDisk(c) == IF hp[c] >= 1 THEN [disk EXCEPT ![hp[c]][c] = @ + 1]
              ELSE IF hp[c] = NOPTR /\ cur # 0 THEN [disk EXCEPT ![cur][c] = @ + mem[c] + 1]
              ELSE disk
(* Counter.refresh as one step: a counter without a pointer and with a pending amount looks itself up *)
NeedsRefresh(c) == hp[c] = NOPTR /\ mem[c] > 0
RefHp(c) == IF NeedsRefresh(c) THEN (IF cur # 0 THEN cur ELSE NILPTR) ELSE hp[c]
RefMem(c) == IF NeedsRefresh(c) /\ cur # 0 THEN 0 ELSE mem[c]
RefDisk(c) == IF NeedsRefresh(c) /\ cur # 0 THEN [disk EXCEPT ![cur][c] = @ + mem[c]] ELSE disk

U(v) == UNCHANGED v

(* what a task does when one Inc call has returned: the next call begins (it runs up to its first *)
(* visible operation) or the task ends *)
NextCall(t, c) ==
  IF t \in StackTasks
  THEN IF k[t] < Len(Prog[t])
       THEN /\ k' = [k EXCEPT ![t] = @ + 1]
            /\ pc' = [pc EXCEPT ![t] = "SI_lock"]
            /\ begun' = [begun EXCEPT ![Key(Prog[t][k[t] + 1])] = @ + 1]
       ELSE /\ pc' = [pc EXCEPT ![t] = "done"] /\ U(<<k, begun>>)
  ELSE IF k[t] < NAdds[t]
       THEN /\ k' = [k EXCEPT ![t] = @ + 1]
            /\ pc' = [pc EXCEPT ![t] = "RG_nl"]
            /\ begun' = [begun EXCEPT ![c] = @ + 1]
       ELSE /\ pc' = [pc EXCEPT ![t] = "done"] /\ U(<<k, begun>>)

(* registration finished: the increment itself, return (the deferred Unlock of StackCounter.Inc), next call *)
Finish(t) == LET c == loc[t].c IN
  /\ hp' = [hp EXCEPT ![c] = AddHp(c)]
  /\ mem' = [mem EXCEPT ![c] = AddMem(c)]
  /\ disk' = AddDisk(c)
  /\ done' = [done EXCEPT ![c] = @ + 1]
  /\ smu' = IF t \in StackTasks THEN "none" ELSE smu
  /\ loc' = [loc EXCEPT ![t] = [@ EXCEPT !.w = FALSE]]
  /\ NextCall(t, c)

(* ---- first step of every task: local code up to its first visible operation ---- *)
TStart(t) ==
  /\ pc[t] = "start"
  /\ IF t \in StackTasks
     THEN /\ IF Len(Prog[t]) > 0
             THEN /\ pc' = [pc EXCEPT ![t] = "SI_lock"] /\ k' = [k EXCEPT ![t] = 1]
                  /\ begun' = [begun EXCEPT ![Key(Prog[t][1])] = @ + 1]
             ELSE /\ pc' = [pc EXCEPT ![t] = "done"] /\ U(<<k, begun>>)
          /\ U(<<shared, loc, done, snap>>)
     ELSE IF t \in PlainTasks
     THEN /\ IF NAdds[t] > 0
             THEN /\ pc' = [pc EXCEPT ![t] = "RG_nl"] /\ k' = [k EXCEPT ![t] = 1]
                  /\ begun' = [begun EXCEPT ![PlainCtr(t)] = @ + 1]
                  /\ loc' = [loc EXCEPT ![t] = [Loc0 EXCEPT !.c = PlainCtr(t)]]
             ELSE /\ pc' = [pc EXCEPT ![t] = "done"] /\ U(<<k, begun, loc>>)
          /\ U(<<shared, done, snap>>)
     ELSE IF t \in Rotators
     THEN (* rotate1: mu.Lock ... current.Store ... Unlock is one step (nobody else holds file.mu at a  *)
          (* visible operation); the task stops in front of the deferred current.Load                  *)
          /\ loc' = [loc EXCEPT ![t] = [Loc0 EXCEPT !.prev = cur]]
          /\ IF fspan = clock THEN U(<<cur, fspan>>) ELSE cur' = clock /\ fspan' = clock
          /\ pc' = [pc EXCEPT ![t] = "RO_defcur"]
          /\ U(<<stacks, smu, nxt, head, clock, hp, mem, disk, closed, k, begun, done, snap>>)
     ELSE IF t \in Tickers
     THEN /\ clock' = 2 /\ pc' = [pc EXCEPT ![t] = "done"]
          /\ U(<<stacks, smu, nxt, head, cur, fspan, hp, mem, disk, closed, k, loc, begun, done, snap>>)
     ELSE /\ IF NObs[t] > 0 THEN pc' = [pc EXCEPT ![t] = "OB_lock"] /\ k' = [k EXCEPT ![t] = 1]
                            ELSE pc' = [pc EXCEPT ![t] = "done"] /\ U(k)
          /\ U(<<shared, loc, begun, done, snap>>)

(* ---- StackCounter.Inc: c.mu.Lock(); find or create; ctr.Inc() runs up to register's first load ---- *)
SIlock(t) == LET c == Key(Prog[t][k[t]]) IN
  /\ pc[t] = "SI_lock" /\ smu = "none"
  /\ smu' = t
  /\ stacks' = IF c \in Range(stacks) THEN stacks ELSE Append(stacks, c)
  /\ loc' = [loc EXCEPT ![t] = [Loc0 EXCEPT !.c = c]]
  /\ pc' = [pc EXCEPT ![t] = "RG_nl"]
  /\ U(<<nxt, head, cur, fspan, clock, hp, mem, disk, closed, k, begun, done, snap>>)

(* ---- file.register (the lock-free list insertion) ---- *)
NextOf(h) == IF h = NIL THEN END ELSE h
RGnl(t) ==                                 \* c.next.Load() in the loop condition
  /\ pc[t] = "RG_nl"
  /\ IF nxt[loc[t].c] # NIL
     THEN /\ Finish(t) /\ U(<<stacks, nxt, head, cur, fspan, clock, closed, snap>>)
     ELSE /\ pc' = [pc EXCEPT ![t] = "RG_hl"] /\ U(<<shared, k, loc, begun, done, snap>>)
RGhl(t) ==                                 \* f.counters.Load()
  /\ pc[t] = "RG_hl"
  /\ loc' = [loc EXCEPT ![t] = [@ EXCEPT !.h = head]]
  /\ pc' = [pc EXCEPT ![t] = IF loc[t].w THEN "RG_nst" ELSE "RG_ncas"]
  /\ U(<<shared, k, begun, done, snap>>)
RGncas(t) == LET c == loc[t].c IN          \* c.next.CompareAndSwap(nil, next)
  /\ pc[t] = "RG_ncas"
  /\ IF nxt[c] = NIL
     THEN /\ nxt' = [nxt EXCEPT ![c] = NextOf(loc[t].h)]
          /\ loc' = [loc EXCEPT ![t] = [@ EXCEPT !.w = TRUE]]
          /\ pc' = [pc EXCEPT ![t] = "RG_hcas"]
     ELSE /\ U(<<nxt, loc>>) /\ pc' = [pc EXCEPT ![t] = "RG_nl"]
  /\ U(<<stacks, smu, head, cur, fspan, clock, hp, mem, disk, closed, k, begun, done, snap>>)
RGnst(t) ==                                \* c.next.Store(next)
  /\ pc[t] = "RG_nst"
  /\ nxt' = [nxt EXCEPT ![loc[t].c] = NextOf(loc[t].h)]
  /\ pc' = [pc EXCEPT ![t] = "RG_hcas"]
  /\ U(<<stacks, smu, head, cur, fspan, clock, hp, mem, disk, closed, k, loc, begun, done, snap>>)
RGhcas(t) ==                               \* f.counters.CompareAndSwap(head, c)
  /\ pc[t] = "RG_hcas"
  /\ IF head = loc[t].h
     THEN /\ head' = loc[t].c /\ Finish(t) /\ U(<<stacks, nxt, cur, fspan, clock, closed, snap>>)
     ELSE /\ pc' = [pc EXCEPT ![t] = "RG_hl"] /\ U(<<shared, k, loc, begun, done, snap>>)

(* ---- rotate1's deferred function and file.invalidateCounters ---- *)
Close(f) == closed' = IF f = 0 THEN closed ELSE closed \cup {f}
ROdefcur(t) ==                             \* if next := f.current.Load(); next != previous
  /\ pc[t] = "RO_defcur"
  /\ pc' = [pc EXCEPT ![t] = IF cur # loc[t].prev THEN "IV_head" ELSE "done"]
  /\ U(<<shared, k, loc, begun, done, snap>>)
IVhead(t) ==                               \* f.counters.Load(); invalidate the first counter
  /\ pc[t] = "IV_head"
  /\ IF head = NIL
     THEN /\ Close(loc[t].prev) /\ pc' = [pc EXCEPT ![t] = "done"] /\ U(<<hp, loc>>)
     ELSE /\ loc' = [loc EXCEPT ![t] = [@ EXCEPT !.h = head, !.it = head]]
          /\ hp' = [hp EXCEPT ![head] = NOPTR]
          /\ pc' = [pc EXCEPT ![t] = "IV_next1"] /\ U(closed)
  /\ U(<<stacks, smu, nxt, head, cur, fspan, clock, mem, disk, k, begun, done, snap>>)
IVnext1(t) == LET nx == nxt[loc[t].it] IN  \* c.next.Load() of the first loop; invalidate the next, or start refreshing
  /\ pc[t] = "IV_next1"
  /\ IF nx = END
     THEN LET c == loc[t].h IN
          /\ loc' = [loc EXCEPT ![t] = [@ EXCEPT !.it = c]]
          /\ hp' = [hp EXCEPT ![c] = RefHp(c)] /\ mem' = [mem EXCEPT ![c] = RefMem(c)] /\ disk' = RefDisk(c)
          /\ pc' = [pc EXCEPT ![t] = "IV_next2"]
     ELSE /\ loc' = [loc EXCEPT ![t] = [@ EXCEPT !.it = nx]]
          /\ hp' = [hp EXCEPT ![nx] = NOPTR] /\ U(<<mem, disk>>)
          /\ U(pc)
  /\ U(<<stacks, smu, nxt, head, cur, fspan, clock, closed, k, begun, done, snap>>)
IVnext2(t) == LET nx == nxt[loc[t].it] IN  \* c.next.Load() of the second loop; refresh the next, or close and return
  /\ pc[t] = "IV_next2"
  /\ IF nx = END
     THEN /\ Close(loc[t].prev) /\ pc' = [pc EXCEPT ![t] = "done"] /\ U(<<hp, mem, disk, loc>>)
     ELSE /\ loc' = [loc EXCEPT ![t] = [@ EXCEPT !.it = nx]]
          /\ hp' = [hp EXCEPT ![nx] = RefHp(nx)] /\ mem' = [mem EXCEPT ![nx] = RefMem(nx)] /\ disk' = RefDisk(nx)
          /\ U(<<pc, closed>>)
  /\ U(<<stacks, smu, nxt, head, cur, fspan, clock, k, begun, done, snap>>)

(* ---- Names() / Counters(): lock, copy, unlock in one step ---- *)
OBlock(t) ==
  /\ pc[t] = "OB_lock" /\ smu = "none"
  /\ snap' = [snap EXCEPT ![t] = stacks]
  /\ IF k[t] < NObs[t] THEN k' = [k EXCEPT ![t] = @ + 1] /\ U(pc)
                       ELSE pc' = [pc EXCEPT ![t] = "done"] /\ U(k)
  /\ U(<<shared, loc, begun, done>>)

Step(t) == \/ TStart(t) \/ SIlock(t) \/ RGnl(t) \/ RGhl(t) \/ RGncas(t) \/ RGnst(t) \/ RGhcas(t)
           \/ ROdefcur(t) \/ IVhead(t) \/ IVnext1(t) \/ IVnext2(t) \/ OBlock(t)
Next == \E t \in Tasks : Step(t)
Spec == Init /\ [][Next]_vars

(* ------------------------------------------------------------ properties *)
AllDone == \A t \in Tasks : pc[t] = "done"
Persisted(c) == disk[1][c] + disk[2][c]
StackIds == 1..NS

TypeOK == /\ Range(stacks) \subseteq StackIds /\ cur \in 0..2 /\ closed \subseteq 1..2
          /\ \A c \in Ctrs : hp[c] \in -1..2 /\ mem[c] >= 0 /\ nxt[c] \in {NIL, END} \cup Ctrs
(* G1 *)
NoDup == \A i, j \in 1..Len(stacks) : i # j => stacks[i] # stacks[j]
KnownAreBegun == \A c \in Range(stacks) : begun[c] > 0
DoneAreKnown == \A c \in StackIds : done[c] > 0 => c \in Range(stacks)
SnapIsPrefix == \A t \in Observers : IsPrefix(snap[t], stacks)
PrefixMonotone == [][IsPrefix(stacks, stacks')]_vars
(* G2 *)
Bounds == \A c \in Ctrs : done[c] <= Persisted(c) + mem[c] /\ Persisted(c) + mem[c] <= begun[c]
Quiescent == AllDone => \A c \in Ctrs : /\ Persisted(c) + mem[c] = begun[c]
                                        /\ (cur # 0 => mem[c] = 0)
                                        /\ (cur = 0 => Persisted(c) = 0)
PtrLive == \A c \in Ctrs : hp[c] >= 1 => hp[c] \notin closed
(* the list: every counter an increment has completed on is reachable from the head *)
RECURSIVE Reach(_, _)
Reach(c, n) == IF c \in {NIL, END} \/ n = 0 THEN {} ELSE {c} \cup Reach(nxt[c], n - 1)
Listed == Reach(head, NC + 1)
DoneAreListed == \A c \in Ctrs : done[c] > 0 => c \in Listed
NoDeadlock == AllDone \/ \E t \in Tasks : ENABLED Step(t)

(* ---- named windows: the counter-example to ~W is the shortest schedule into W ---- *)
At(t, p) == pc[t] = p
InTraversal(t) == pc[t] \in {"IV_head", "IV_next1", "IV_next2"}
W_ListRace == \E t, u \in Tasks : t # u /\ At(t, "RG_hcas") /\ At(u, "RG_hcas") /\ head # loc[t].h
W_HalfRegisteredInTraversal == \E t \in Tasks, r \in Rotators : At(t, "RG_hcas") /\ InTraversal(r)
W_LockContention == \E t, u \in StackTasks : t # u /\ smu = t /\ At(u, "SI_lock")
W_ObserverBlocked == \E t \in StackTasks, o \in Observers : smu = t /\ At(o, "OB_lock")
W_NewStackInTraversal == \E t \in StackTasks, r \in Rotators : At(t, "SI_lock") /\ InTraversal(r)
                           /\ Key(Prog[t][k[t]]) \notin Range(stacks)
W_IncIntoOldFile == \E t \in Tasks : At(t, "RG_nl") /\ hp[loc[t].c] >= 1 /\ hp[loc[t].c] # cur
W_PendingAtOpen == \E r \in Rotators : At(r, "start") /\ cur = 0 /\ \E c \in Ctrs : mem[c] > 0
W_NilPtrFileOpen == cur # 0 /\ \E c \in Ctrs : hp[c] = NILPTR
W_IncWhileNilPtrFileOpen == cur # 0 /\ \E t \in Tasks : At(t, "RG_nl") /\ hp[loc[t].c] = NILPTR /\ nxt[loc[t].c] # NIL
W_TwoTraversals == \E r, q \in Rotators : r # q /\ InTraversal(r) /\ InTraversal(q)
W_RefreshFlushes == \E r \in Rotators : At(r, "IV_next2") /\ nxt[loc[r].it] # END /\ NeedsRefresh(nxt[loc[r].it]) /\ cur # 0
W_CloseWithLateCounter == \E r \in Rotators : InTraversal(r) /\ loc[r].prev # 0 /\ \E c \in Ctrs : c \in Listed /\ c \notin Reach(loc[r].h, NC + 1) /\ loc[r].h # 0
W_SameStackTwoTasks == \E t, u \in StackTasks : t # u /\ At(t, "SI_lock") /\ At(u, "SI_lock")
                          /\ Key(Prog[t][k[t]]) = Key(Prog[u][k[u]]) /\ Key(Prog[t][k[t]]) \notin Range(stacks)
=============================================================================
