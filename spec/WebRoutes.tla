------------------------------ MODULE WebRoutes ------------------------------
(***************************************************************************)
(* X01 (extension engine) -- routing of godev/cmd/telemetrygodev for the   *)
(* non-upload handlers, over the chart bucket (written by the worker:      *)
(* "<date>.json" for one day, "<start>_<end>.json" for a span) and the     *)
(* bucket of merged reports ("<date>.json").                               *)
(*                                                                         *)
(* G5 Every answer is a function of the current bucket contents and the    *)
(*    request alone (the server keeps no state of its own):                *)
(*    - "/" shows the charts of ONE chart object: "Prefer aggregate charts *)
(*      to daily charts, but consider the latest available date" -- the    *)
(*      object with the latest end date, an aggregate one if there is an   *)
(*      aggregate ending that day; "No data." exactly when the bucket      *)
(*      holds no chart object.                                             *)
(*    - "/charts/" lists exactly the chart objects of the bucket, other    *)
(*      objects are not listed; "/charts/<name>" shows exactly the object  *)
(*      "<name>.json" OF THE CHART BUCKET and is 404 when the bucket has   *)
(*      no such object -- whatever <name> is, nothing outside the chart    *)
(*      bucket is ever shown.                                              *)
(*    - "/data/" lists exactly the merged days.                            *)
(*    - "/config" shows the upload configuration the server validates      *)
(*      with.                                                              *)
(*    - "/upload/" answers anything but POST with 405 and stores nothing.  *)
(*    - every other path is answered by the content server (WebContent).   *)
(*    - reading never changes a bucket.                                    *)
(***************************************************************************)
EXTENDS Integers, Sequences, FiniteSets, TLC

(* chart objects: [t |-> "daily", s |-> d, e |-> d] | [t |-> "agg", s, e] (s < e) | [t |-> "junk", s |-> 0, e |-> 0] *)
IsChart(o) == o.t \in {"daily", "agg"}
Charts(bucket) == {o \in bucket : IsChart(o)}
MaxOf(S) == CHOOSE x \in S : \A y \in S : y <= x

(* "/" *)
IndexChoices(bucket) ==
    LET J == Charts(bucket) IN
    IF J = {} THEN {}
    ELSE LET latest == MaxOf({o.e : o \in J})
             C == {o \in J : o.e = latest}
             A == {o \in C : o.t = "agg"}
         IN IF A # {} THEN A ELSE C

(* the answer demanded for a request; req.k:                                  *)
(*  index | charts | chart (req.o: the object named) | alien (a name that      *)
(*  spells a way out of the chart bucket towards an existing object elsewhere) *)
(*  | data | config | upload (req.m: a method other than POST) | page | nopage *)
Answer(chart, merged, req) ==
    CASE req.k = "index" -> IF Charts(chart) = {} THEN [status |-> 200, what |-> "nodata", objs |-> {}]
                            ELSE [status |-> 200, what |-> "chartof", objs |-> IndexChoices(chart)]
      [] req.k = "charts" -> [status |-> 200, what |-> "list", objs |-> Charts(chart)]
      [] req.k = "chart" -> IF req.o \in chart /\ IsChart(req.o) THEN [status |-> 200, what |-> "chartof", objs |-> {req.o}]
                            ELSE [status |-> 404, what |-> "none", objs |-> {}]
      [] req.k = "alien" -> [status |-> 404, what |-> "none", objs |-> {}]
      [] req.k = "data" -> [status |-> 200, what |-> "list", objs |-> Charts(merged)]
      [] req.k = "config" -> [status |-> 200, what |-> "config", objs |-> {}]
      [] req.k = "upload" -> [status |-> 405, what |-> "none", objs |-> {}]
      [] req.k = "page" -> [status |-> 200, what |-> "page", objs |-> {}]
      [] req.k = "nopage" -> [status |-> 404, what |-> "none", objs |-> {}]

(* does an observation agree?  obs.objs: the objects the page shows *)
AgreesR(want, obs) ==
    /\ obs.status = want.status
    /\ obs.what = want.what
    /\ IF want.what = "chartof" THEN Cardinality(obs.objs) = 1 /\ obs.objs \subseteq want.objs
       ELSE obs.objs = want.objs
    /\ ~obs.changed                       \* no bucket was modified

(* ------------------------- small universe ------------------------------- *)
CONSTANT Days                 \* e.g. 1..3
Daily(d) == [t |-> "daily", s |-> d, e |-> d]
Agg(s, e) == [t |-> "agg", s |-> s, e |-> e]
Junk == [t |-> "junk", s |-> 0, e |-> 0]
ChartUniverse == {Daily(d) : d \in Days} \cup {o \in {Agg(s, e) : s \in Days, e \in Days} : o.s < o.e} \cup {Junk}
MergedUniverse == {Daily(d) : d \in Days} \cup {Junk}
Methods == {"GET", "PUT", "DELETE", "HEAD"}
R(k, o, m) == [k |-> k, o |-> o, m |-> m]
Reqs == {R(k, Junk, "GET") : k \in {"index", "charts", "data", "config", "page", "nopage"}}
          \cup {R("chart", o, "GET") : o \in ChartUniverse}
          \cup {R("alien", o, "GET") : o \in MergedUniverse \ {Junk}}
          \cup {R("upload", Junk, m) : m \in Methods}

(* the latest day is always represented on the index page *)
IndexShowsLatest(chart) ==
    Charts(chart) # {} => \A c \in IndexChoices(chart) : \A o \in Charts(chart) : o.e <= c.e
IndexPrefersAggregate(chart) ==
    \A c \in IndexChoices(chart) : c.t = "daily" => ~\E o \in Charts(chart) : o.t = "agg" /\ o.e = c.e
=============================================================================
