------------------------------ MODULE StorageW ------------------------------
(* C18 -- writer lifetimes.  Storage.tla treats "write an object" as one     *)
(* step; a caller really does NewWriter, some Writes, Close -- and the       *)
(* service handlers close every writer twice (explicitly and in a defer).    *)
(* Several writers can be open at the same time in one process (two requests *)
(* in flight).  This module splits the write into its steps so that TLC      *)
(* interleaves the writers:                                                  *)
(*   WOpen(w, b, n, d)  open writer w for object n of bucket b; it is going  *)
(*                      to write the bytes d                                 *)
(*   WWrite(w)          write the next half of d                             *)
(*   WClose(w)          first Close: from now on the object holds exactly d  *)
(*   WCloseAgain(w)     any later Close of the same writer: whatever it      *)
(*                      returns, it changes nothing -- not the object, not   *)
(*                      any other writer, open now or opened later           *)
(* What a reader sees of an object while a writer is open on it is not       *)
(* specified, and neither is the result of two writers open on the SAME      *)
(* object: the other operations (Storage!Step) run only while no writer is   *)
(* open, and two open writers never share a name.                            *)
EXTENDS Storage

CONSTANTS Writers          \* writer identifiers
VARIABLES ws,              \* [Writers -> writer state]
          wlast            \* the last writer action (for replay); op "step" for the others
wvars == <<objs, res, last, hist, via, ws, wlast>>

Idle == [st |-> "idle", b |-> "", name |-> <<>>, data |-> "", nw |-> 0]
OpenWriters == {w \in Writers : ws[w].st = "open"}
WOp(op, w) == [op |-> op, w |-> w, b |-> ws[w].b, name |-> ws[w].name, data |-> ws[w].data]

WInit == Init /\ ws = [w \in Writers |-> Idle] /\ wlast = [op |-> "init", w |-> "", b |-> "", name |-> <<>>, data |-> ""]

WOpen(w, b, n, d) ==
    /\ ws[w].st = "idle"
    /\ Usable(b, n)
    /\ \A v \in OpenWriters : ~(ws[v].b = b /\ (ws[v].name = n \/ Conflict(ws[v].name, n)))
    /\ ws' = [ws EXCEPT ![w] = [st |-> "open", b |-> b, name |-> n, data |-> d, nw |-> 0]]
    /\ wlast' = [op |-> "wopen", w |-> w, b |-> b, name |-> n, data |-> d]
    /\ via' \in Handles
    /\ UNCHANGED <<objs, res, last, hist>>

(* the bytes go out in two Writes (two empty ones, or none at all, for the empty string) *)
WWrite(w) ==
    /\ ws[w].st = "open" /\ ws[w].nw < 2
    /\ ws' = [ws EXCEPT ![w].nw = @ + 1]
    /\ wlast' = WOp("wwrite", w)
    /\ UNCHANGED <<objs, res, last, hist, via>>

WClose(w) ==
    /\ ws[w].st = "open"
    /\ ws[w].nw = 2 \/ (ws[w].nw = 0 /\ ws[w].data = EmptyData)
    /\ objs' = WriteEffect(objs, ws[w].b, ws[w].name, ws[w].data)
    /\ hist' = Append(hist, [b |-> ws[w].b, name |-> ws[w].name, data |-> ws[w].data])
    /\ ws' = [ws EXCEPT ![w].st = "closed"]
    /\ wlast' = WOp("wclose", w)
    /\ UNCHANGED <<res, last, via>>

WCloseAgain(w) ==
    /\ ws[w].st = "closed"
    /\ wlast' = WOp("wcloseagain", w)
    /\ UNCHANGED <<objs, res, last, hist, via, ws>>

(* the caller drops a closed writer; the identifier can be used again *)
WForget(w) ==
    /\ ws[w].st = "closed"
    /\ ws' = [ws EXCEPT ![w] = Idle]
    /\ wlast' = [op |-> "wforget", w |-> w, b |-> "", name |-> <<>>, data |-> ""]
    /\ UNCHANGED <<objs, res, last, hist, via>>

WStep == /\ OpenWriters = {}
         /\ \/ \E b \in Buckets, n \in Names : Read(b, n)
            \/ \E b \in Buckets, p \in Prefixes : List(b, p)
         /\ wlast' = [op |-> "step", w |-> "", b |-> "", name |-> <<>>, data |-> ""]
         /\ UNCHANGED ws

WNext == \/ \E w \in Writers, b \in Buckets, n \in Names, d \in Datas : WOpen(w, b, n, d)
         \/ \E w \in Writers : WWrite(w)
         \/ \E w \in Writers : WClose(w)
         \/ \E w \in Writers : WCloseAgain(w)
         \/ \E w \in Writers : WForget(w)
         \/ WStep
WSpec == WInit /\ [][WNext]_wvars
WBounded == Len(hist) <= MaxOps

(* ---- the property ----------------------------------------------------------- *)
(* an object holds the bytes of the LAST writer closed on it -- however the  *)
(* lifetimes of the writers were interleaved                                 *)
LastClosedWins == \A b \in Buckets : \A n \in Stored(b) :
                     WritesTo(b, n) # {} /\ objs[b][n] = LatestWrite(b, n).data
(* closing again, and forgetting, change no object; a write step changes none either *)
OnlyFirstCloseStores == [][wlast'.op \in {"wopen", "wwrite", "wcloseagain", "wforget", "step"} => objs' = objs]_wvars
(* a Close stores exactly the object of its own writer *)
CloseStoresOwnObject == [][wlast'.op = "wclose" =>
                              \A b \in Buckets : \A n \in Stored(b) :
                                  <<b, n>> # <<wlast'.b, wlast'.name>> => (n \in DOMAIN objs'[b] /\ objs'[b][n] = objs[b][n])]_wvars
(* a read or list between writer lifetimes answers from the closed writers alone *)
WResultFromHistory == wlast.op = "step" => ResultFromHistory
NoTwoWritersOnOneName == \A v, w \in OpenWriters : (v # w /\ ws[v].b = ws[w].b) => ws[v].name # ws[w].name
=============================================================================
