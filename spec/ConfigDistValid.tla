--------------------------- MODULE ConfigDistValid ---------------------------
(* X02, guarantee G3 (second half), model -> code: every chart record by     *)
(* field classes, alone and next to a few fixed neighbours, with what        *)
(* generation must do with the list: succeed, or fail blaming the FIRST      *)
(* incoherent record and describing ALL of its problems                      *)
(* ("ValidateChartConfig checks that a ChartConfig is complete and coherent, *)
(*  returning an error describing all problems encountered, or nil").        *)
EXTENDS ConfigDist, TLC
CONSTANTS DepthVals,       \* depth classes, e.g. {-1, 0, 3}
          Neighbours       \* a few fixed records placed before / after the enumerated one

FieldSpace == [title : BOOLEAN, nissue : 0..2, prog : {"none", "tool", "mod"}, counter : BOOLEAN,
               type : {"none", "partition", "stack"}, depth : DepthVals, ver : {"none", "semver", "gover", "junk"}]

VARIABLES fs, err, blamed, probs
vars == <<fs, err, blamed, probs>>
Init == /\ fs \in {<<f>> : f \in FieldSpace}
                  \cup {<<g, f>> : g \in Neighbours, f \in FieldSpace}
                  \cup {<<f, g>> : g \in Neighbours, f \in FieldSpace}
        /\ blamed = FirstInvalid(fs)
        /\ err = (blamed # 0)
        /\ probs = IF blamed = 0 THEN {} ELSE Problems(fs[blamed])
Next == UNCHANGED vars
Spec == Init /\ [][Next]_vars

(* ---- theorems about the requirement list itself ---- *)
AllKinds == {"title", "issue", "program", "counter", "type", "negdepth", "depthtype", "version"}
(* every requirement can be the only one violated, and all can fail together *)
ASSUME \A x \in AllKinds : \E f \in FieldSpace : Problems(f) = {x}
ASSUME \E f \in FieldSpace : Cardinality(Problems(f)) >= 7
(* a complete record is valid whatever its optional fields are *)
CompleteIsValid == \A i \in DOMAIN fs :
    LET f == fs[i] IN
    (f.title /\ f.nissue > 0 /\ f.prog # "none" /\ f.counter /\ f.type # "none" /\ f.depth = 0 /\ f.ver = "none") => Valid(f)
(* a depth is acceptable exactly on stack charts *)
DepthOnlyOnStacks == \A i \in DOMAIN fs : (fs[i].depth > 0 /\ Valid(fs[i])) => fs[i].type = "stack"
(* the kind of version goes with the kind of program *)
VersionKind == \A i \in DOMAIN fs : (Valid(fs[i]) /\ fs[i].ver # "none") =>
    (fs[i].prog = "tool" <=> fs[i].ver = "gover")
BlameIsFirst == err => (~Valid(fs[blamed]) /\ \A j \in 1..(blamed - 1) : Valid(fs[j]))
=============================================================================
