CONSTANTS ND = 3
          NI = 3
          MaxLen = 0
INIT TInit
NEXT TNext
INVARIANT AllExplained
POSTCONDITION Accepted
CHECK_DEADLOCK FALSE
