---------------------------- MODULE WebContentErr ----------------------------
(* X01, model -> code for G3: every (kind of handler result, status code).  *)
EXTENDS WebContent
CONSTANT Codes
VARIABLES res, code, resp
Init == res \in Results /\ code \in Codes /\ resp = ErrResponse(res, code)
Next == UNCHANGED <<res, code, resp>>
(* a 500 never carries the error's own text; an annotated error keeps its code *)
ErrSane == /\ resp.status = 500 => resp.body \in {"generic", "handler"}
           /\ res = "annotated" => resp.status = code
           /\ res = "plain" => resp.status = 500
=============================================================================
