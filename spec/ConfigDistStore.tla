--------------------------- MODULE ConfigDistStore ---------------------------
(* X02, guarantee G5: distribution of the upload configuration as the Go     *)
(* module golang.org/x/telemetry/config through a module proxy               *)
(* (internal/configstore).  "Download fetches the requested telemetry        *)
(* UploadConfig using go mod download ...  The second result is the          *)
(* canonical version of the requested configuration."  "Programs that upload *)
(* collected counters download the latest config."                           *)
(*                                                                           *)
(* State: what the proxy serves.  Versions are 1..NV in ascending order,     *)
(* Releases of them are release versions (the others are pre-releases).      *)
(* Every version is published at most once, with a content class:            *)
(*    "ok"       config.json holds a configuration (identified by the        *)
(*               version that published it)                                  *)
(*    "badjson"  config.json is not JSON            "badtype"  JSON of the   *)
(*    "nofile"   the module has no config.json                 wrong shape   *)
(* A request is an exact version, "latest", "" (= latest), a well-formed     *)
(* version that was never published, or a string that is no version at all.  *)
EXTENDS Integers, Sequences, FiniteSets, TLC
CONSTANTS NV, Releases, Contents, MaxOps

Vers == 1..NV
Unpub == "unpub"
Published(pub) == {v \in Vers : pub[v] # Unpub}
Max(S) == CHOOSE x \in S : \A y \in S : y <= x

(* "latest": the newest release; a pre-release only when there is no release *)
Latest(pub) == LET P == Published(pub) R == P \cap Releases IN
               IF R # {} THEN Max(R) ELSE IF P # {} THEN Max(P) ELSE 0

Requests == [k : {"exact"}, v : Vers] \cup [k : {"latest", "empty", "unknown", "garbage"}, v : {0}]
Resolve(pub, req) == CASE req.k = "exact" -> IF req.v \in Published(pub) THEN req.v ELSE 0
                       [] req.k \in {"latest", "empty"} -> Latest(pub)
                       [] OTHER -> 0
Err == [ok |-> FALSE, ver |-> 0, cfg |-> 0]
(* an error and NO configuration unless the resolved version holds one *)
Result(pub, req) == LET t == Resolve(pub, req) IN
                    IF t # 0 /\ pub[t] = "ok" THEN [ok |-> TRUE, ver |-> t, cfg |-> t] ELSE Err

VARIABLES pub, last, calls, n
vars == <<pub, last, calls, n>>
NoOp == [op |-> "init", v |-> 0, c |-> "", req |-> [k |-> "", v |-> 0], res |-> Err]

Init == /\ pub = [v \in Vers |-> Unpub]
        /\ last = NoOp /\ calls = 0 /\ n = 0
Publish(v, c) == /\ n < MaxOps /\ pub[v] = Unpub
                 /\ pub' = [pub EXCEPT ![v] = c]
                 /\ last' = [NoOp EXCEPT !.op = "publish", !.v = v, !.c = c]
                 /\ n' = n + 1 /\ UNCHANGED calls
Download(req) == /\ n < MaxOps
                 /\ last' = [NoOp EXCEPT !.op = "download", !.req = req, !.res = Result(pub, req)]
                 /\ calls' = calls + 1 /\ n' = n + 1 /\ UNCHANGED pub
Next == \/ \E v \in Vers, c \in Contents : Publish(v, c)
        \/ \E req \in Requests : Download(req)
Spec == Init /\ [][Next]_vars

(* ---- what a user relies on, checked over all histories ---- *)
OnlyPublished == last.res.ok => pub[last.res.ver] = "ok" /\ last.res.cfg = last.res.ver
ExactIsExact == (last.res.ok /\ last.req.k = "exact") => last.res.ver = last.req.v
LatestIsNewest == (last.res.ok /\ last.req.k \in {"latest", "empty"}) =>
    /\ \A v \in Published(pub) \cap Releases : v <= last.res.ver
    /\ last.res.ver \notin Releases => Published(pub) \cap Releases = {}
NeverPartial == ~last.res.ok => last.res.cfg = 0 /\ last.res.ver = 0
(* a broken newest release is reported, not silently replaced by an older one *)
NoSilentFallback == (last.op = "download" /\ last.req.k \in {"latest", "empty"} /\ Latest(pub) # 0 /\ pub[Latest(pub)] # "ok") => ~last.res.ok
Immutable == [][\A v \in Vers : pub[v] # Unpub => pub'[v] = pub[v]]_vars
CountedOnce == [][(calls' = calls + 1) <=> (last'.op = "download" /\ n' = n + 1)]_vars
=============================================================================
