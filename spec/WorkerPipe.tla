----------------------------- MODULE WorkerPipe -----------------------------
(* X04 - the worker pipeline of godev/cmd/worker over the storage buckets.   *)
(* Written from the doc comments of godev/cmd/worker/main.go (handleCopy:    *)
(* "copies uploaded reports from prod bucket to dev buckets"; handleTasks:   *)
(* "merge reports", "daily chart: data exclusively from the specific date;   *)
(* weekly chart: 7 days of data concluding on the date"; parseDateRange:     *)
(* "start or end key should be empty when date key is being used", "end date *)
(* is earlier than start"; readMergedReports: "merge file not found" is a    *)
(* 404) and of godev/internal/storage (bucket = named objects, a writer      *)
(* replaces the object).                                                     *)
(*                                                                           *)
(* State: flat sets of integer tuples (so that observations of the real      *)
(* buckets can be given to TLC as JSON arrays).  Days are 1..ND (consecutive *)
(* calendar days), report ids 1..NI, byte variants 1 (written by an          *)
(* uploader) / 2 (the bytes of the source bucket).                           *)
EXTENDS Integers, FiniteSets, Sequences, TLC

CONSTANTS ND, NI, MaxLen
Dates == 1..ND
Ids == 1..NI
U == 1
S == 2

VARIABLES st, last, n
vars == <<st, last, n>>
(* st.src : set of <<d,i>>       objects of the source (prod) upload bucket  *)
(* st.up  : set of <<d,i,v>>     objects of the destination upload bucket    *)
(* st.mg  : set of d             merged objects present                      *)
(* st.mgc : set of <<d,i>>       reports inside the merged object of day d   *)
(* st.chp : set of <<s,e>>       chart objects present (named by the range)  *)
(* st.chc : set of <<s,e,d,i>>   reports the chart object was derived from   *)

Ranges == {r \in Dates \X Dates : r[1] <= r[2]}
BadForms == {"date+start", "date+end", "baddate", "badstart", "badend", "nostart", "noend", "none"}

UpIds(s, d) == {x[2] : x \in {y \in s.up : y[1] = d}}

(* -------- the effect of one request, as the documentation demands -------- *)
Upload(s, d, i) ==
    [s EXCEPT !.up = {x \in @ : ~(x[1] = d /\ x[2] = i)} \cup {<<d, i, U>>}]
CopyEff(s, a, b) ==
    LET moved == {p \in s.src : p[1] \in a..b} IN
    [s EXCEPT !.up = {x \in @ : <<x[1], x[2]>> \notin moved} \cup {<<p[1], p[2], S>> : p \in moved}]
MergeEff(s, d) ==
    [s EXCEPT !.mg = @ \cup {d},
              !.mgc = {p \in @ : p[1] # d} \cup {<<d, i>> : i \in UpIds(s, d)}]
ChartReady(s, a, b) == \A d \in a..b : d \in s.mg
ChartEff(s, a, b) ==
    [s EXCEPT !.chp = @ \cup {<<a, b>>},
              !.chc = {c \in @ : ~(c[1] = a /\ c[2] = b)}
                      \cup {<<a, b, p[1], p[2]>> : p \in {q \in s.mgc : q[1] \in a..b}}]

(* a request: op, form ("ok" = well formed; "rev" = end<start; else a bad   *)
(* form), a, b.  Answer: <<new state, "ok" | "4xx">>                        *)
Apply(s, rq) ==
    CASE rq.op = "upload" -> <<Upload(s, rq.a, rq.b), "ok">>
      [] rq.form # "ok" -> <<s, "4xx">>
      [] rq.op = "copy" -> <<CopyEff(s, rq.a, rq.b), "ok">>
      [] rq.op = "merge" -> <<MergeEff(s, rq.a), "ok">>
      [] rq.op = "chart" -> IF ChartReady(s, rq.a, rq.b) THEN <<ChartEff(s, rq.a, rq.b), "ok">>
                            ELSE <<s, "4xx">>

Requests ==
    {[op |-> "upload", form |-> "ok", a |-> d, b |-> i] : d \in Dates, i \in Ids}
    \cup {[op |-> o, form |-> "ok", a |-> r[1], b |-> r[2]] : o \in {"copy", "chart"}, r \in Ranges}
    \cup {[op |-> o, form |-> "rev", a |-> r[2], b |-> r[1]] : o \in {"copy", "chart"}, r \in {q \in Ranges : q[1] < q[2]}}
    \cup {[op |-> o, form |-> f, a |-> 1, b |-> 1] : o \in {"copy", "chart"}, f \in BadForms}
    \cup {[op |-> "merge", form |-> "ok", a |-> d, b |-> d] : d \in Dates}
    \cup {[op |-> "merge", form |-> f, a |-> 1, b |-> 1] : f \in {"baddate", "none"}}

Empty(src) == [src |-> src, up |-> {}, mg |-> {}, mgc |-> {}, chp |-> {}, chc |-> {}]
NoReq == [rq |-> [op |-> "init", form |-> "ok", a |-> 0, b |-> 0], code |-> "ok"]

Init == /\ \E src \in SUBSET (Dates \X Ids) : st = Empty(src)
        /\ last = NoReq
        /\ n = 0
Next == /\ n < MaxLen
        /\ \E rq \in Requests :
              LET r == Apply(st, rq) IN
              /\ st' = r[1]
              /\ last' = [rq |-> rq, code |-> r[2]]
        /\ n' = n + 1
Spec == Init /\ [][Next]_vars

(* ------------- the guarantees, stated independently of Apply ------------- *)
TypeOK ==
    /\ st.src \subseteq Dates \X Ids
    /\ st.up \subseteq Dates \X Ids \X {U, S}
    /\ \A x, y \in st.up : (x[1] = y[1] /\ x[2] = y[2]) => x = y     \* one object per name
    /\ st.mg \subseteq Dates /\ st.mgc \subseteq Dates \X Ids
    /\ st.chp \subseteq Ranges
(* nothing is ever deleted: a merged object only holds reports that are in  *)
(* the upload bucket; a chart exists only over days whose merge exists, and *)
(* only holds merged... reports of ITS days that were uploaded              *)
Provenance ==
    /\ \A p \in st.mgc : p[1] \in st.mg /\ p[2] \in UpIds(st, p[1])
    /\ \A r \in st.chp : \A d \in r[1]..r[2] : d \in st.mg
    /\ \A c \in st.chc : /\ <<c[1], c[2]>> \in st.chp
                         /\ c[3] \in c[1]..c[2]
                         /\ c[4] \in UpIds(st, c[3])
    /\ \A x \in st.up : x[3] = S => <<x[1], x[2]>> \in st.src
(* every request is idempotent on the state it produced                     *)
Idempotent == \A rq \in Requests : LET s1 == Apply(st, rq)[1] IN Apply(s1, rq)[1] = s1

Others(f) == \A g \in {"src", "up", "mg", "mgc", "chp", "chc"} \ f : st'[g] = st[g]
G1 == (last'.rq.op = "copy" /\ last'.code = "ok") =>
        LET a == last'.rq.a  b == last'.rq.b IN
        /\ \A p \in st.src : p[1] \in a..b => <<p[1], p[2], S>> \in st'.up       \* byte for byte
        /\ \A x \in st.up : (<<x[1], x[2]>> \notin st.src \/ x[1] \notin a..b) => x \in st'.up
        /\ \A x \in st'.up : x \in st.up \/ (x[3] = S /\ x[1] \in a..b /\ <<x[1], x[2]>> \in st.src)
        /\ Others({"up"})
G2 == (last'.rq.op = "merge" /\ last'.code = "ok") =>
        LET d == last'.rq.a IN
        /\ d \in st'.mg /\ st'.mg \ {d} = st.mg \ {d}
        /\ \A i \in Ids : <<d, i>> \in st'.mgc <=> i \in UpIds(st, d)       \* as of the time of the merge
        /\ \A p \in Dates \X Ids : p[1] # d => (p \in st'.mgc <=> p \in st.mgc)
        /\ Others({"mg", "mgc"})
G3 == (last'.rq.op = "chart" /\ last'.code = "ok") =>
        LET a == last'.rq.a  b == last'.rq.b IN
        /\ \A d \in a..b : d \in st.mg
        /\ st'.chp = st.chp \cup {<<a, b>>}                                  \* exactly one object, named by the range
        /\ \A d \in Dates, i \in Ids : <<a, b, d, i>> \in st'.chc <=> (d \in a..b /\ <<d, i>> \in st.mgc)
        /\ \A c \in st.chc \cup st'.chc : <<c[1], c[2]>> # <<a, b>> => (c \in st.chc <=> c \in st'.chc)
        /\ Others({"chp", "chc"})
G4 == (last'.code # "ok") => st' = st
G4b == (last'.rq.form # "ok") => last'.code = "4xx"
G3b == (last'.rq.op = "chart" /\ last'.rq.form = "ok" /\ ~ChartReady(st, last'.rq.a, last'.rq.b)) => last'.code = "4xx"
SrcConst == st'.src = st.src
Guarantees == [][G1 /\ G2 /\ G3 /\ G3b /\ G4 /\ G4b /\ SrcConst]_vars
(* stale merges give stale charts: reachable witness wanted (checked as a   *)
(* violated invariant in a separate sanity run, not here)                   *)
=============================================================================
