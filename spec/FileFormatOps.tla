--------------------------- MODULE FileFormatOps ---------------------------
(* C10: the counter file as writers change it.  One state = the content of    *)
(* the file (header length, size, allocation limit, bucket heads, records)    *)
(* after a sequence of operations create / add (first use of a name allocates *)
(* a record, later uses increment it) / reopen / open-and-use by a writer with  *)
(* DIFFERENT metadata (refused: no effect), performed by any of several        *)
(* writers (the library through one or two independent mappings, and the      *)
(* independent implementation of the layout).  The allocator is               *)
(* FileFormat!Place; the property is that every reachable file is             *)
(* WellFormed, that it holds exactly what was written, and that size and      *)
(* limit only grow.                                                           *)
EXTENDS FileFormat, SequencesExt, TLC
CONSTANTS Names,     \* set of [id, nlen, b]: name identity, byte length, hash bucket
          MetaLens,  \* metadata lengths a file may be created with
          Actors,    \* who performs an operation (does not influence the result)
          Incs,      \* increments
          MaxOps
VARIABLES metaLen, hdrLen, size, limit, heads, recs,   \* the file
          want,                                       \* ghost: name id -> total written
          nops, last
file == <<metaLen, hdrLen, size, limit, heads, recs>>
vars == <<metaLen, hdrLen, size, limit, heads, recs, want, nops, last>>

HeadOf(b) == IF b \in DOMAIN heads THEN heads[b] ELSE 0
NoOp == [op |-> "init", a |-> "-", id |-> 0, nlen |-> 0, b |-> 0, k |-> 0, m |-> 0]

Init == /\ metaLen = 0 /\ hdrLen = 0 /\ size = 0 /\ limit = 0 /\ heads = <<>> /\ recs = {}
        /\ want = <<>> /\ nops = 0 /\ last = NoOp

CreateEff(m) == /\ metaLen' = m /\ hdrLen' = HeaderLen(m) /\ size' = Page /\ limit' = 0
                /\ heads' = <<>> /\ recs' = {} /\ want' = <<>>

AddEff(nm, k) ==
    /\ want' = [x \in DOMAIN want \cup {nm.id} |-> IF x = nm.id THEN (IF x \in DOMAIN want THEN want[x] ELSE 0) + k ELSE want[x]]
    /\ IF \E r \in recs : r.id = nm.id
       THEN /\ recs' = {IF r.id = nm.id THEN [r EXCEPT !.val = @ + k] ELSE r : r \in recs}
            /\ UNCHANGED <<metaLen, hdrLen, size, limit, heads>>
       ELSE LET pl == Place(hdrLen, limit, nm.nlen) IN
            /\ recs' = recs \cup {[off |-> pl[1], nlen |-> nm.nlen, next |-> HeadOf(nm.b), id |-> nm.id, val |-> k, b |-> nm.b]}
            /\ heads' = [x \in DOMAIN heads \cup {nm.b} |-> IF x = nm.b THEN pl[1] ELSE heads[x]]
            /\ limit' = pl[2]
            /\ size' = IF pl[2] > size THEN Up(pl[2], Page) ELSE size     \* the file grows by whole pages
            /\ UNCHANGED <<metaLen, hdrLen>>

Create(m) == /\ hdrLen = 0 /\ CreateEff(m) /\ nops' = nops + 1
             /\ last' = [NoOp EXCEPT !.op = "create", !.m = m]
Add(a, nm, k) == /\ hdrLen # 0 /\ nops < MaxOps /\ AddEff(nm, k) /\ nops' = nops + 1
                 /\ last' = [op |-> "add", a |-> a, id |-> nm.id, nlen |-> nm.nlen, b |-> nm.b, k |-> k, m |-> 0]
Reopen(a) == /\ hdrLen # 0 /\ nops < MaxOps /\ last.op # "reopen" /\ UNCHANGED <<file, want>> /\ nops' = nops + 1
             /\ last' = [NoOp EXCEPT !.op = "reopen", !.a = a]
(* A writer whose metadata differs from the file's (another program that maps  *)
(* to the same file name; m = length of ITS metadata, same or different length *)
(* class) opens the file and then uses counter nm: the open is refused, the    *)
(* file -- header, metadata, table, records -- stays exactly as it is and the  *)
(* increments of that writer never reach it.  Holds for files of any size.     *)
Alien(m, nm) == /\ hdrLen # 0 /\ nops < MaxOps /\ UNCHANGED <<file, want>> /\ nops' = nops + 1
                /\ last' = [op |-> "alien", a |-> "alien", id |-> nm.id, nlen |-> nm.nlen, b |-> nm.b, k |-> 1, m |-> m]
Next == \/ \E m \in MetaLens : Create(m)
        \/ \E m \in MetaLens, nm \in Names : Alien(m, nm)
        \/ \E a \in Actors, nm \in Names, k \in Incs : Add(a, nm, k)
        \/ \E a \in Actors : Reopen(a)
Spec == Init /\ [][Next]_vars

(* the file in the vocabulary of FileFormat.tla *)
AsFile == [size |-> size, prefix |-> TRUE, hdrLen |-> hdrLen, metaLen |-> metaLen, meta |-> <<>>, limit |-> limit,
           heads |-> SetToSeq({[b |-> b, off |-> heads[b]] : b \in DOMAIN heads}),
           recs  |-> SetToSeq({[off |-> r.off, nlen |-> r.nlen, next |-> r.next, ok |-> TRUE, val |-> r.val, bucket |-> r.b,
                                name |-> [id |-> r.id, pre |-> r.id, preDitto |-> FALSE, lines |-> <<>>]] : r \in recs})]

LayoutOK == hdrLen # 0 => WellFormed(AsFile)
(* the individual clauses of the property, spelled out (implied by WellFormed; kept as a cross-check of it) *)
Clauses  == hdrLen # 0 =>
    /\ hdrLen % Unit = 0 /\ hdrLen >= MetaAt + metaLen
    /\ limit <= size /\ size % Page = 0
    /\ \A r \in recs : /\ r.off % Unit = 0
                       /\ r.off >= hdrLen + HashOff + 4 * NumHash          \* above header and table
                       /\ r.off + RecHdr + r.nlen <= limit                  \* below the limit
                       /\ \A x \in r.off..(r.off + RecHdr + r.nlen - 1) \cap {Page * p - 1 : p \in 1..(size \div Page)} : FALSE
                       /\ (r.off + RecHdr + r.nlen - 1) % Page < Page - Unit  \* not in the reserved page tail
    /\ \A r, s \in recs : r.off < s.off => r.off + RecHdr + r.nlen <= s.off
    /\ \A r \in recs : r.next = 0 \/ \E s \in recs : s.off = r.next /\ s.b = r.b
Exact    == hdrLen # 0 =>
    /\ \A r \in recs : r.id \in DOMAIN want /\ r.val = want[r.id]
    /\ \A x \in DOMAIN want : Cardinality({r \in recs : r.id = x}) = 1
    /\ Cardinality(Linked(AsFile)) = Cardinality(recs)                      \* every record is reachable
Monotone == [][(hdrLen # 0 /\ last'.op # "create") => /\ limit' >= limit /\ size' >= size /\ hdrLen' = hdrLen /\ metaLen' = metaLen
                             /\ \A r \in recs : \E s \in recs' : s.off = r.off /\ s.nlen = r.nlen /\ s.id = r.id /\ s.val >= r.val]_vars
View == <<file, nops>>
=============================================================================
