--------------------------- MODULE FileFormatOps ---------------------------
(* C10: the counter file as writers change it.  One state = the content of    *)
(* the file (header length, size, allocation limit, bucket heads, records)    *)
(* after a sequence of operations create / add (first use of a name allocates *)
(* a record, later uses increment it) / reopen / open-and-use by a writer with  *)
(* DIFFERENT metadata (refused: no effect), performed by any of several        *)
(* writers (the library through one or two independent mappings, and the      *)
(* independent implementation of the layout).  The allocator is               *)
(* FileFormat!Place; the property is that every reachable file is             *)
(* WellFormed, that it holds exactly what was written, and that size and      *)
(* limit only grow.                                                           *)
EXTENDS FileFormat, SequencesExt, TLC
CONSTANTS Names,     \* set of [id, nlen, b]: name identity, byte length, hash bucket
          MetaLens,  \* metadata lengths a file may be created with
          Actors,    \* who performs an operation ("indx": an independent writer that stores unrounded limits)
          Incs,      \* increments
          MaxOps
VARIABLES metaLen, hdrLen, size, limit, heads, recs,   \* the file
          want,                                       \* ghost: name id -> total written
          nops, last
file == <<metaLen, hdrLen, size, limit, heads, recs>>
vars == <<metaLen, hdrLen, size, limit, heads, recs, want, nops, last>>

NoOp == [op |-> "init", a |-> "-", id |-> 0, nlen |-> 0, b |-> 0, k |-> 0, m |-> 0, x |-> 0]

Init == /\ metaLen = 0 /\ hdrLen = 0 /\ size = 0 /\ limit = 0 /\ heads = <<>> /\ recs = {}
        /\ want = <<>> /\ nops = 0 /\ last = NoOp

CreateEff(m) == /\ metaLen' = m /\ hdrLen' = HeaderLen(m) /\ size' = Page /\ limit' = 0
                /\ heads' = <<>> /\ recs' = {} /\ want' = <<>>

(* the changing part of the file as a value, so that operations compose *)
Cur == [size |-> size, limit |-> limit, heads |-> heads, recs |-> recs, want |-> want]
Bump(w, id, k) == [x \in DOMAIN w \cup {id} |-> IF x = id THEN (IF x \in DOMAIN w THEN w[x] ELSE 0) + k ELSE w[x]]
Grown(sz, end) == IF end > sz THEN Up(end, Page) ELSE sz                 \* the file grows by whole pages
(* name nm is used (k more): an existing record is incremented, otherwise a record is allocated and put at the head of its bucket *)
(* exact: the writer stores the exact end of the record (offset of the byte after the name) as the new limit instead *)
(* of the end rounded to 32, as an independent implementation of the layout may                                      *)
AddFx(f, nm, k, exact) ==
    IF \E r \in f.recs : r.id = nm.id
    THEN [f EXCEPT !.recs = {IF r.id = nm.id THEN [r EXCEPT !.val = @ + k] ELSE r : r \in f.recs}, !.want = Bump(f.want, nm.id, k)]
    ELSE LET pl == Place(hdrLen, f.limit, nm.nlen)
             hd == IF nm.b \in DOMAIN f.heads THEN f.heads[nm.b] ELSE 0
         IN  [size  |-> Grown(f.size, pl[2]), limit |-> IF exact THEN pl[1] + RecHdr + nm.nlen ELSE pl[2],
              heads |-> [x \in DOMAIN f.heads \cup {nm.b} |-> IF x = nm.b THEN pl[1] ELSE f.heads[x]],
              recs  |-> f.recs \cup {[off |-> pl[1], nlen |-> nm.nlen, next |-> hd, id |-> nm.id, val |-> k, b |-> nm.b]},
              want  |-> Bump(f.want, nm.id, k)]
AddF(f, nm, k) == AddFx(f, nm, k, FALSE)
(* a writer that had already reserved and written its record for nm finds, when linking it, that nm has just been linked by *)
(* someone else: its own record stays unlinked (dead, below the limit), the increment goes to the linked record              *)
DeadF(f, nm, k) ==
    LET pl == Place(hdrLen, f.limit, nm.nlen) IN
    [f EXCEPT !.limit = pl[2], !.size = Grown(f.size, pl[2]),
              !.recs = {IF r.id = nm.id THEN [r EXCEPT !.val = @ + k] ELSE r : r \in f.recs}, !.want = Bump(f.want, nm.id, k)]
Becomes(g) == /\ size' = g.size /\ limit' = g.limit /\ heads' = g.heads /\ recs' = g.recs /\ want' = g.want
              /\ UNCHANGED <<metaLen, hdrLen>>
AddEff(nm, k) == Becomes(AddF(Cur, nm, k))
AddEffx(nm, k, exact) == Becomes(AddFx(Cur, nm, k, exact))

Create(m) == /\ hdrLen = 0 /\ CreateEff(m) /\ nops' = nops + 1
             /\ last' = [NoOp EXCEPT !.op = "create", !.m = m]
Add(a, nm, k) == /\ hdrLen # 0 /\ nops < MaxOps /\ AddEffx(nm, k, a = "indx") /\ nops' = nops + 1
                 /\ last' = [op |-> "add", a |-> a, id |-> nm.id, nlen |-> nm.nlen, b |-> nm.b, k |-> k, m |-> 0, x |-> 0]
Reopen(a) == /\ hdrLen # 0 /\ nops < MaxOps /\ last.op # "reopen" /\ UNCHANGED <<file, want>> /\ nops' = nops + 1
             /\ last' = [NoOp EXCEPT !.op = "reopen", !.a = a]
(* A writer whose metadata differs from the file's (another program that maps  *)
(* to the same file name; m = length of ITS metadata, same or different length *)
(* class) opens the file and then uses counter nm: the open is refused, the    *)
(* file -- header, metadata, table, records -- stays exactly as it is and the  *)
(* increments of that writer never reach it.  Holds for files of any size.     *)
Alien(m, nm) == /\ hdrLen # 0 /\ nops < MaxOps /\ UNCHANGED <<file, want>> /\ nops' = nops + 1
                /\ last' = [op |-> "alien", a |-> "alien", id |-> nm.id, nlen |-> nm.nlen, b |-> nm.b, k |-> 1, m |-> m, x |-> 0]
(* Two writers create a record at the same time: library writer a (with an up-to-date mapping) starts to allocate the  *)
(* new name nm, finds that the file must grow, and while it is doing that the independent writer adds the new name x  *)
(* (x = nm: the same name; or another name, e.g. of the same bucket).  Whatever the interleaving inside, the file must  *)
(* be the one obtained by x being added first and nm second; for x = nm writer a's own record stays unlinked.           *)
Race(a, nm, x, k) ==
    /\ hdrLen # 0 /\ nops < MaxOps
    /\ ~\E r \in recs : r.id = nm.id \/ r.id = x.id
    /\ Place(hdrLen, limit, nm.nlen)[2] > size                  \* a's first attempt needs a bigger file
    /\ Becomes(IF x.id = nm.id THEN DeadF(AddF(Cur, x, 1), nm, k) ELSE AddF(AddF(Cur, x, 1), nm, k))
    /\ nops' = nops + 1
    /\ last' = [op |-> "race", a |-> a, id |-> nm.id, nlen |-> nm.nlen, b |-> nm.b, k |-> k, m |-> 0, x |-> x.id]
Next == \/ \E m \in MetaLens : Create(m)
        \/ \E m \in MetaLens, nm \in Names : Alien(m, nm)
        \/ \E a \in Actors, nm \in Names, k \in Incs : Add(a, nm, k)
        \/ \E a \in Actors : Reopen(a)
        \/ \E a \in Actors \ {"ind", "indx"}, nm \in Names : \E x \in {y \in Names : y.b = nm.b} : Race(a, nm, x, 1)
Spec == Init /\ [][Next]_vars

(* the file in the vocabulary of FileFormat.tla *)
AsFile == [size |-> size, prefix |-> TRUE, hdrLen |-> hdrLen, metaLen |-> metaLen, meta |-> <<>>, limit |-> limit,
           heads |-> SetToSeq({[b |-> b, off |-> heads[b]] : b \in DOMAIN heads}),
           recs  |-> SetToSeq({[off |-> r.off, nlen |-> r.nlen, next |-> r.next, ok |-> TRUE, val |-> r.val, bucket |-> r.b,
                                name |-> [id |-> r.id, pre |-> r.id, preDitto |-> FALSE, lines |-> <<>>]] : r \in recs})]

LayoutOK == hdrLen # 0 => WellFormed(AsFile)
(* the individual clauses of the property, spelled out (implied by WellFormed; kept as a cross-check of it) *)
Clauses  == hdrLen # 0 =>
    /\ hdrLen % Unit = 0 /\ hdrLen >= MetaAt + metaLen
    /\ limit <= size /\ size % Page = 0
    /\ \A r \in recs : /\ r.off % Unit = 0
                       /\ r.off >= hdrLen + HashOff + 4 * NumHash          \* above header and table
                       /\ r.off + RecHdr + r.nlen <= limit                  \* below the limit
                       /\ \A x \in r.off..(r.off + RecHdr + r.nlen - 1) \cap {Page * p - 1 : p \in 1..(size \div Page)} : FALSE
                       /\ (r.off + RecHdr + r.nlen - 1) % Page < Page - Unit  \* not in the reserved page tail
    /\ \A r, s \in recs : r.off < s.off => r.off + RecHdr + r.nlen <= s.off
    /\ \A r \in recs : r.next = 0 \/ \E s \in recs : s.off = r.next /\ s.b = r.b
Exact    == hdrLen # 0 =>
    /\ \A r \in recs : r.id \in DOMAIN want /\ r.val = want[r.id]
    /\ \A x \in DOMAIN want : Cardinality({r \in recs : r.id = x}) = 1
    /\ Cardinality(Linked(AsFile)) = Cardinality(recs)                      \* every record is reachable
Monotone == [][(hdrLen # 0 /\ last'.op # "create") => /\ limit' >= limit /\ size' >= size /\ hdrLen' = hdrLen /\ metaLen' = metaLen
                             /\ \A r \in recs : \E s \in recs' : s.off = r.off /\ s.nlen = r.nlen /\ s.id = r.id /\ s.val >= r.val]_vars
(* named windows (their negations are checked in a separate run: the counter-example is the shortest way in) *)
EdgeFull == \E r, t \in recs : RecSize(r.nlen) + r.off = Page - Unit /\ t.off = Page      \* a record ends exactly where the reserved tail begins
EdgeBump == \E r, t \in recs : r.off + RecSize(r.nlen) + RecSize(t.nlen) = Page /\ t.off = Page   \* a record would have reached the page end
NoEdgeFull == ~EdgeFull
NoEdgeBump == ~EdgeBump
View == <<file, nops>>
=============================================================================
