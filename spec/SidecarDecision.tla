-------------------------- MODULE SidecarDecision --------------------------
(* C16, relational part: what one call of telemetry.Start may do, as a      *)
(* function of the configuration the property quantifies over.  Written     *)
(* from the property statement and the documentation of Start / Config /    *)
(* the GO_TELEMETRY_CHILD protocol, not from the code.                      *)
(*                                                                          *)
(*   marker   value of GO_TELEMETRY_CHILD in the calling process:           *)
(*            "unset" (or empty) = an application, "1" = the sidecar,       *)
(*            "2" = a descendant of a sidecar, "other" = anything else      *)
(*   crash    Config.ReportCrashes          upload   Config.Upload          *)
(*   mode     the consent mode ("local" is also the default when no mode    *)
(*            file exists)                                                   *)
(*   token    <telemetry dir>/local/upload.token: "absent", "fresh"         *)
(*            (younger than 24 h), "stale" (older) or "ghost" (a name that  *)
(*            looks absent but cannot be created: a dangling symlink, a     *)
(*            symlink loop)                                                  *)
(*   localOK  the local directory exists or can be created                  *)
EXTENDS Integers, FiniteSets, Sequences, TLC

Markers == {"unset", "1", "2", "other"}
Modes   == {"on", "local", "off"}
Tokens  == {"absent", "fresh", "stale", "ghost"}

Rows == [marker : Markers, crash : BOOLEAN, upload : BOOLEAN, mode : Modes, token : Tokens, localOK : BOOLEAN]

(* only an application with telemetry not off and a usable local directory  *)
(* may turn itself into the parent of a sidecar                             *)
Eligible(r) == r.marker = "unset" /\ r.mode # "off" /\ r.localOK

(* a lone starter gets the upload token iff it wants to upload and nobody   *)
(* took the token during the last 24 hours                                   *)
Acquires(r) == Eligible(r) /\ r.upload /\ r.token \in {"absent", "stale"}

(* the decision table *)
Launch(r) ==
  LET acq   == Acquires(r)
      child == Eligible(r) /\ (r.crash \/ acq)
      \* the counter database is opened by the application and by the sidecar
      opens == r.marker \in {"unset", "1"} /\ r.mode # "off" /\ r.localOK
  IN [ child    |-> child,                 \* a sidecar is launched
       upload   |-> child /\ acq,          \* ... and it is told to upload
       acquired |-> acq,                   \* the token file is (re)created
       wrote    |-> (IF opens THEN {"counters"} ELSE {}) \cup (IF acq THEN {"token"} ELSE {}),
       fatal    |-> r.marker = "other" ]   \* observation: Start refuses to run

(* ------------------------------------------------------------------------ *)
(* The clauses of the property, as predicates over an OUTCOME o of a row r. *)
(* An outcome is what was observed (or what Launch predicts):               *)
(*   o.sidecars   number of sidecars (processes born with marker "1")       *)
(*                launched by the starting process itself                    *)
(*   o.uploaders  how many of them were told to upload                       *)
(*   o.nested     number of sidecars launched by a sidecar or by any         *)
(*                descendant of one                                          *)
(*   o.unmarked   number of processes launched as a sidecar that do not find *)
(*                GO_TELEMETRY_CHILD=1 in their environment                   *)
(*   o.freshRemoved  a token that was fresh before is gone or replaced after  *)
(*   o.launched   number of processes of any kind launched, transitively     *)
(*   o.acquired   the starter created / replaced the token file              *)
(*   o.wrote      classes of files created, changed or removed               *)
(* and the circumstances e of the run that are not part of the row:         *)
(*   e.calls      Start is called this many times, one after the other (in  *)
(*                one process, or by as many processes started in sequence)  *)
(*   e.dbg        <telemetry dir>/debug is "absent", a "dir" (the user asks  *)
(*                for log files) or a "file"                                 *)
(*   e.leak       GO_TELEMETRY_CHILD_UPLOAD=1 is already in the environment  *)
(*                of the application (it asserts that an ancestor holds the  *)
(*                token)                                                     *)
(*   e.appCrash   the application crashes right after Start                  *)
(*   e.startFail  the start of the sidecar itself fails: "logdir" (the log   *)
(*                file debug/sidecar.log cannot be opened: it is a           *)
(*                directory), "dbgloop" (the debug directory cannot be       *)
(*                examined: a symlink loop), "noexe" (the executable cannot  *)
(*                be started: it was removed); "none" otherwise              *)
StartFails == {"none", "logdir", "dbgloop", "noexe"}
Extras == [calls : 1..3, dbg : {"absent", "dir", "file"}, leak : BOOLEAN, appCrash : BOOLEAN, startFail : StartFails]
DefaultExtras == [calls |-> 1, dbg |-> "absent", leak |-> FALSE, appCrash |-> FALSE, startFail |-> "none"]
Applicable(r, e) == /\ e.calls > 1 => r.marker \in {"unset", "2"}      \* a sidecar never returns from Start
                    /\ e.leak => r.marker = "unset"
                    /\ e.appCrash => r.marker = "unset" /\ r.crash
                    /\ e.startFail # "none" => r.marker = "unset" /\ ~e.leak /\ ~e.appCrash
                    /\ e.startFail = "logdir" => e.dbg = "dir"
                    /\ e.startFail = "dbgloop" => e.dbg = "absent"
OneFactor(e) == Cardinality({f \in DOMAIN e : e[f] # DefaultExtras[f]} \ (IF e.startFail = "logdir" THEN {"dbg"} ELSE {})) <= 1

(* "launches a child process only if the mode is not off and crash          *)
(*  reporting or an acquired upload token calls for one"                     *)
OnlyIfCalledFor(r, e, o) == o.sidecars > 0 => /\ r.mode # "off"
                                              /\ (r.crash \/ o.acquired)
(* an uploader sidecar needs the token (held by this starter or, if the     *)
(* environment says so, by an ancestor)                                      *)
UploaderNeedsToken(r, e, o) == o.uploaders > 0 => (o.acquired \/ e.leak)
(* "a process that is itself a telemetry child, or a descendant of one,     *)
(*  never launches another"                                                  *)
NeverRecursive(r, e, o) == /\ r.marker \in {"1", "2"} => o.sidecars = 0
                           /\ o.nested = 0
(* "1" marks the sidecar: the process an application launches as its        *)
(* sidecar sees GO_TELEMETRY_CHILD=1, whatever the application inherited    *)
(* (a marker that is set but empty is an application's)                      *)
ChildIsMarked(r, e, o) == o.unmarked = 0
(* "with mode off nothing is launched and nothing is written".  One thing is *)
(* tolerated and counted as an observation: a process that is already the   *)
(* sidecar and was told to upload opens the uploader's log file in a debug  *)
(* directory the user made to get log files (two documented conventions     *)
(* meet there: "mode off: write nothing" and "debug directory: write logs") *)
OffDebugAllowance(r, e) == IF e.dbg = "dir" /\ r.marker = "1" /\ r.upload THEN {"debuglog"} ELSE {}
OffIsInert(r, e, o) == r.mode = "off" => o.launched = 0 /\ o.wrote \subseteq OffDebugAllowance(r, e)
(* the token is handed out at most once per 24 h: a fresh token stands for  *)
(* an acquisition made within the last 24 hours, so with one present nobody *)
(* acquires it again.  (Whether a starter that does not ask for upload may  *)
(* take the token is not said by the property; the table says it does not,  *)
(* and a disagreement there is a divergence, not a violation.)              *)
TokenOncePer24h(r, e, o) == o.acquired => r.token # "fresh"
(* a token younger than 24 h is what keeps everybody else from uploading:   *)
(* no start removes or replaces it, whatever else goes wrong (if it were    *)
(* removed the next starter would acquire a second time within 24 hours     *)
(* with no stale token ever present)                                         *)
FreshTokenKept(r, e, o) == ~o.freshRemoved
(* ... also over several starts: with no stale token present, all the       *)
(* starts together get at most one uploader sidecar on the strength of a    *)
(* token of their own                                                        *)
AtMostOneUploader(r, e, o) == (r.token # "stale" /\ ~e.leak) => (IF r.token = "fresh" THEN 1 ELSE 0) + o.uploaders <= 1

Clauses == {"OnlyIfCalledFor", "UploaderNeedsToken", "NeverRecursive", "OffIsInert", "TokenOncePer24h", "AtMostOneUploader", "ChildIsMarked", "FreshTokenKept"}
Holds(c, r, e, o) == CASE c = "OnlyIfCalledFor"     -> OnlyIfCalledFor(r, e, o)
                       [] c = "UploaderNeedsToken"  -> UploaderNeedsToken(r, e, o)
                       [] c = "NeverRecursive"      -> NeverRecursive(r, e, o)
                       [] c = "OffIsInert"          -> OffIsInert(r, e, o)
                       [] c = "TokenOncePer24h"     -> TokenOncePer24h(r, e, o)
                       [] c = "AtMostOneUploader"   -> AtMostOneUploader(r, e, o)
                       [] c = "ChildIsMarked"       -> ChildIsMarked(r, e, o)
                       [] c = "FreshTokenKept"      -> FreshTokenKept(r, e, o)

(* the outcome the table predicts for ONE start, in the vocabulary of the   *)
(* clauses; a sidecar that uploads in mode "on" runs the go command once    *)
(* (config download), which is a launched process but not a sidecar          *)
Predicted1(r, e) ==
  LET d0 == Launch(r)
      \* a start that fails launches nobody; a token acquired for it stays where it is
      d == IF e.startFail = "none" THEN d0 ELSE [d0 EXCEPT !.child = FALSE, !.upload = FALSE]
      up == d.child /\ (d.upload \/ e.leak)
      goes == IF r.mode = "on" /\ (up \/ (r.marker = "1" /\ r.upload)) THEN 1 ELSE 0
      logs == e.dbg = "dir" /\ d.child       \* the parent opens debug/sidecar.log for the child
  IN [ sidecars  |-> IF d.child THEN 1 ELSE 0,
       uploaders |-> IF up THEN 1 ELSE 0,
       nested    |-> 0,
       unmarked  |-> 0,
       freshRemoved |-> FALSE,
       launched  |-> (IF d.child THEN 1 ELSE 0) + goes,
       acquired  |-> d.acquired,
       wrote     |-> d.wrote \cup (IF logs THEN {"debuglog"} ELSE {}) ]
(* what the next start finds *)
After(r) == [r EXCEPT !.token = IF Acquires(r) THEN "fresh" ELSE r.token]
Plus(a, b) == [ sidecars |-> a.sidecars + b.sidecars, uploaders |-> a.uploaders + b.uploaders, nested |-> a.nested + b.nested,
                unmarked |-> a.unmarked + b.unmarked, freshRemoved |-> a.freshRemoved \/ b.freshRemoved,
                launched |-> a.launched + b.launched, acquired |-> a.acquired \/ b.acquired, wrote |-> a.wrote \cup b.wrote ]
RECURSIVE PredictedN(_, _, _)
PredictedN(r, e, k) == IF k <= 1 THEN Predicted1(r, e) ELSE Plus(Predicted1(r, e), PredictedN(After(r), e, k - 1))
Predicted(r, e) == PredictedN(r, e, e.calls)

(* files outside the demanded classes that a run may (but need not) touch:  *)
(* an uploader that gets as far as looking for work creates the upload     *)
(* directory next to the local one and, if the user made a debug directory, *)
(* a log file in it; with a crash-reporting sidecar that is a race with the *)
(* end of the application, so it is not demanded                            *)
UploaderRuns(r, e) == Predicted(r, e).uploaders > 0 \/ (r.marker = "1" /\ r.upload)
MayWrite(r, e) == (IF UploaderRuns(r, e) /\ r.mode # "off" /\ r.localOK THEN {"uploaddir"} ELSE {})
                  \* whoever gets as far as trying to launch a sidecar, or runs an uploader, may open a log file
                  \cup (IF e.dbg = "dir" /\ (UploaderRuns(r, e) \/ (r.marker = "unset" /\ r.mode # "off")) THEN {"debuglog"} ELSE {})
(* exact agreement of an outcome with the table *)
Conforms(r, e, o) == LET p == Predicted(r, e) IN
                     /\ o.sidecars = p.sidecars /\ o.uploaders = p.uploaders
                     /\ o.nested = 0 /\ o.unmarked = 0 /\ ~o.freshRemoved /\ o.launched = p.launched
                     /\ o.acquired = p.acquired
                     /\ p.wrote \subseteq o.wrote
                     /\ o.wrote \subseteq p.wrote \cup MayWrite(r, e)
Fatal(r, e) == r.marker = "other" \/ e.appCrash

(* sanity theorems about the table itself (checked by TLC over all rows) *)
TableSatisfiesProperty == \A r \in Rows : \A e \in Extras : Applicable(r, e) => \A c \in Clauses : Holds(c, r, e, Predicted(r, e))
TableNotVacuous ==
  /\ \E r \in Rows : Launch(r).child /\ ~Launch(r).upload
  /\ \E r \in Rows : Launch(r).child /\ Launch(r).upload /\ ~r.crash
  /\ \E r \in Rows : r.upload /\ r.mode = "on" /\ r.marker = "unset" /\ r.localOK /\ ~Launch(r).child
  /\ \A r \in Rows : (r.marker = "unset" /\ r.mode # "off" /\ r.localOK /\ r.crash) => Launch(r).child
  /\ \E r \in Rows : \E e \in Extras : Applicable(r, e) /\ Predicted(r, e).sidecars = 3 /\ Predicted(r, e).uploaders = 1
  /\ \A r \in Rows : r.token = "ghost" => ~Launch(r).acquired
=============================================================================
