-------------------------- MODULE SidecarDecision --------------------------
(* C16, relational part: what one call of telemetry.Start may do, as a      *)
(* function of the configuration the property quantifies over.  Written     *)
(* from the property statement and the documentation of Start / Config /    *)
(* the GO_TELEMETRY_CHILD protocol, not from the code.                      *)
(*                                                                          *)
(*   marker   value of GO_TELEMETRY_CHILD in the calling process:           *)
(*            "unset" (or empty) = an application, "1" = the sidecar,       *)
(*            "2" = a descendant of a sidecar, "other" = anything else      *)
(*   crash    Config.ReportCrashes          upload   Config.Upload          *)
(*   mode     the consent mode ("local" is also the default when no mode    *)
(*            file exists)                                                   *)
(*   token    <telemetry dir>/local/upload.token: "absent", "fresh"         *)
(*            (younger than 24 h) or "stale" (older)                         *)
(*   localOK  the local directory exists or can be created                  *)
EXTENDS Integers, FiniteSets, Sequences, TLC

Markers == {"unset", "1", "2", "other"}
Modes   == {"on", "local", "off"}
Tokens  == {"absent", "fresh", "stale"}

Rows == [marker : Markers, crash : BOOLEAN, upload : BOOLEAN, mode : Modes, token : Tokens, localOK : BOOLEAN]

(* only an application with telemetry not off and a usable local directory  *)
(* may turn itself into the parent of a sidecar                             *)
Eligible(r) == r.marker = "unset" /\ r.mode # "off" /\ r.localOK

(* a lone starter gets the upload token iff it wants to upload and nobody   *)
(* took the token during the last 24 hours                                   *)
Acquires(r) == Eligible(r) /\ r.upload /\ r.token # "fresh"

(* the decision table *)
Launch(r) ==
  LET acq   == Acquires(r)
      child == Eligible(r) /\ (r.crash \/ acq)
      \* the counter database is opened by the application and by the sidecar
      opens == r.marker \in {"unset", "1"} /\ r.mode # "off" /\ r.localOK
  IN [ child    |-> child,                 \* a sidecar is launched
       upload   |-> child /\ acq,          \* ... and it is told to upload
       acquired |-> acq,                   \* the token file is (re)created
       wrote    |-> (IF opens THEN {"counters"} ELSE {}) \cup (IF acq THEN {"token"} ELSE {}),
       fatal    |-> r.marker = "other" ]   \* observation: Start refuses to run

(* ------------------------------------------------------------------------ *)
(* The clauses of the property, as predicates over an OUTCOME o of a row r. *)
(* An outcome is what was observed (or what Launch predicts):               *)
(*   o.sidecars   number of sidecars (processes born with marker "1")       *)
(*                launched by the starting process itself                    *)
(*   o.uploaders  how many of them were told to upload                       *)
(*   o.nested     number of sidecars launched by a sidecar or by any         *)
(*                descendant of one                                          *)
(*   o.launched   number of processes of any kind launched, transitively     *)
(*   o.acquired   the starter created / replaced the token file              *)
(*   o.wrote      classes of files created, changed or removed               *)

(* "launches a child process only if the mode is not off and crash          *)
(*  reporting or an acquired upload token calls for one"                     *)
OnlyIfCalledFor(r, o) == o.sidecars > 0 => /\ r.mode # "off"
                                           /\ (r.crash \/ o.acquired)
(* an uploader sidecar needs the token *)
UploaderNeedsToken(r, o) == o.uploaders > 0 => o.acquired
(* "a process that is itself a telemetry child, or a descendant of one,     *)
(*  never launches another"                                                  *)
NeverRecursive(r, o) == /\ r.marker \in {"1", "2"} => o.sidecars = 0
                        /\ o.nested = 0
(* "with mode off nothing is launched and nothing is written" *)
OffIsInert(r, o) == r.mode = "off" => o.launched = 0 /\ o.wrote = {}
(* the token is handed out at most once per 24 h: a fresh token stands for  *)
(* an acquisition made within the last 24 hours, so with one present nobody *)
(* acquires it again.  (Whether a starter that does not ask for upload may  *)
(* take the token is not said by the property; the table says it does not,  *)
(* and a disagreement there is a divergence, not a violation.)              *)
TokenOncePer24h(r, o) == o.acquired => r.token # "fresh"

Clauses == {"OnlyIfCalledFor", "UploaderNeedsToken", "NeverRecursive", "OffIsInert", "TokenOncePer24h"}
Holds(c, r, o) == CASE c = "OnlyIfCalledFor"    -> OnlyIfCalledFor(r, o)
                    [] c = "UploaderNeedsToken" -> UploaderNeedsToken(r, o)
                    [] c = "NeverRecursive"     -> NeverRecursive(r, o)
                    [] c = "OffIsInert"         -> OffIsInert(r, o)
                    [] c = "TokenOncePer24h"    -> TokenOncePer24h(r, o)

(* the outcome the table predicts, in the vocabulary of the clauses; a      *)
(* sidecar that uploads in mode "on" runs the go command once (config       *)
(* download), which is a launched process but not a sidecar                  *)
Predicted(r) ==
  LET d == Launch(r)
      goes == IF r.mode = "on" /\ ((d.child /\ d.upload) \/ (r.marker = "1" /\ r.upload)) THEN 1 ELSE 0
  IN [ sidecars  |-> IF d.child THEN 1 ELSE 0,
       uploaders |-> IF d.upload THEN 1 ELSE 0,
       nested    |-> 0,
       launched  |-> (IF d.child THEN 1 ELSE 0) + goes,
       acquired  |-> d.acquired,
       wrote     |-> d.wrote ]

(* files outside the modelled classes that a row may (but need not) touch:  *)
(* an uploader that gets as far as looking for work creates the upload     *)
(* directory next to the local one; with a crash-reporting sidecar that is *)
(* a race with the end of the application, so it is not demanded            *)
UploaderRuns(r) == Launch(r).upload \/ (r.marker = "1" /\ r.upload)
MayWrite(r) == IF UploaderRuns(r) /\ r.mode # "off" /\ r.localOK THEN {"uploaddir"} ELSE {}
(* exact agreement of an outcome with the table *)
Conforms(r, o) == /\ o.sidecars = Predicted(r).sidecars /\ o.uploaders = Predicted(r).uploaders
                  /\ o.nested = 0 /\ o.launched = Predicted(r).launched
                  /\ o.acquired = Predicted(r).acquired
                  /\ Predicted(r).wrote \subseteq o.wrote
                  /\ o.wrote \subseteq Predicted(r).wrote \cup MayWrite(r)

(* sanity theorems about the table itself (checked by TLC over all rows) *)
TableSatisfiesProperty == \A r \in Rows : \A c \in Clauses : Holds(c, r, Predicted(r))
TableNotVacuous ==
  /\ \E r \in Rows : Launch(r).child /\ ~Launch(r).upload
  /\ \E r \in Rows : Launch(r).child /\ Launch(r).upload /\ ~r.crash
  /\ \E r \in Rows : r.upload /\ r.mode = "on" /\ r.marker = "unset" /\ r.localOK /\ ~Launch(r).child
  /\ \A r \in Rows : (r.marker = "unset" /\ r.mode # "off" /\ r.localOK /\ r.crash) => Launch(r).child
=============================================================================
