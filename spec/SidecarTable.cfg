INIT Init
NEXT Next
INVARIANTS RowOK ChildNeedsApplication UploadImpliesChild OffWritesNothing MarkedWritesNoToken CrashAloneSuffices
CHECK_DEADLOCK FALSE
