INIT Init
NEXT Next
CONSTANT AllExtras = FALSE
INVARIANTS RowOK ChildNeedsApplication UploadImpliesChild OffWritesNothing MarkedWritesNoToken CrashAloneSuffices OneTokenPerSequence FailedStartLaunchesNobody
CHECK_DEADLOCK FALSE
