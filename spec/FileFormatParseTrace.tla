------------------------ MODULE FileFormatParseTrace ------------------------
(* C06, code -> model: the harness feeds byte strings (random, mutated and    *)
(* well-formed files) to the real decoder and logs, per input, the facts an   *)
(* independent walk of the bytes yields (`f`, an abstract file of             *)
(* FileFormat.tla; texts and values replaced by identifiers) and the observed *)
(* outcome (`out`).  TLC decides every line: `verdict` is "ok" iff the        *)
(* outcome is allowed by FileFormat!ParseResult, `cls` is the corruption      *)
(* class of the input, `agree` says whether the independent decoder's own     *)
(* notion of well-formedness (f.dv1) coincides with the specification's.      *)
(* All states are dumped and read back by the driver.                         *)
EXTENDS FileFormat, Json, TLC
Trace == ndJsonDeserialize("c06obs.ndjson")
VARIABLES l, verdict, cls, agree
Init == l = 0 /\ verdict = "-" /\ cls = "-" /\ agree = TRUE
Next == /\ l < Len(Trace)
        /\ l' = l + 1
        /\ LET r == Trace[l + 1] IN
           IF r.f.big                       \* too many records to abstract: only totality is decided
           THEN /\ cls' = "big" /\ agree' = TRUE
                /\ verdict' = IF r.out.kind \in {"panic", "hang"} THEN r.out.kind ELSE "ok"
           ELSE LET wf == WellFormed(r.f) IN
                /\ verdict' = VerdictW(r.f, r.out, wf)
                /\ cls' = CASE r.out.kind = "panic" -> PanicClassW(r.f, wf)
                             [] r.out.kind = "hang"  -> HangClassW(r.f, wf)
                             [] OTHER -> ClassOfW(r.f, wf)
                /\ agree' = (wf => r.f.dv1)      \* what the specification accepts the independent decoder accepts too
Accepted == TLCGet("stats").diameter = Len(Trace) + 1
=============================================================================
