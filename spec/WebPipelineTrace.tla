-------------------------- MODULE WebPipelineTrace --------------------------
(* X01, code -> model: what callers of real middleware chains observed      *)
(* (random orders, behaviours and body sizes, and histories on the chain    *)
(* newHandler builds); TLC decides each record with Expected.               *)
EXTENDS WebPipeline, Json
Trace == ndJsonDeserialize("x01pipe.ndjson")
VARIABLE bad
Ok(r) == Expected(r.ord, r.b, r.body) = r.obs
Init == bad = {i \in 1..Len(Trace) : ~Ok(Trace[i])}
Next == UNCHANGED bad
AllExplained == bad = {}
=============================================================================
