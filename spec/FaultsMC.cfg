SPECIFICATION Spec
INVARIANT Sane
CHECK_DEADLOCK FALSE
CONSTANTS
  Errnos <- MCErrnos
  PairErrnos <- MCPairErrnos
