INIT Init
NEXT Next
INVARIANT Sane
CHECK_DEADLOCK FALSE
CONSTANT Days = {1, 2}
