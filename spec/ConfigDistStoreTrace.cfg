INIT TInit
NEXT TNext
INVARIANTS WellFormed AllExplained
POSTCONDITION Accepted
CHECK_DEADLOCK FALSE
CONSTANTS
 NV = 5
 Releases = {1, 3, 5}
 Contents = {"ok", "badjson", "nofile", "badtype"}
 MaxOps = 0
