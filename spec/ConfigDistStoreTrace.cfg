INIT TInit
NEXT TNext
INVARIANT WellFormed
POSTCONDITION Accepted
CHECK_DEADLOCK FALSE
CONSTANTS
 NV = 5
 Releases = {1, 3, 5}
 Contents = {"ok", "badjson", "nofile", "badtype"}
 MaxOps = 0
