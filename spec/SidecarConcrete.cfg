INIT Init
NEXT Next
INVARIANT TypeOK
CHECK_DEADLOCK FALSE
