----------------------------- MODULE WebRoutesSM -----------------------------
(* X01: histories.  The worker puts and removes objects while the site is   *)
(* being read; every answer is the function Answer of the buckets as they   *)
(* are at that moment (the server caches nothing), and reading changes      *)
(* nothing.  Simulated walks are replayed step by step on the real handler. *)
EXTENDS WebRoutes
CONSTANT MaxSteps
VARIABLES chart, merged, last, n
vars == <<chart, merged, last, n>>
Op(op, bucket, o, rq, ans) == [op |-> op, bucket |-> bucket, o |-> o, req |-> rq, ans |-> ans]
NoReq == R("index", Junk, "GET")
NoAns == [status |-> 0, what |-> "none", objs |-> {}]
Init == chart = {} /\ merged = {} /\ n = 0 /\ last = Op("init", "", Junk, NoReq, NoAns)
Put == \/ \E o \in ChartUniverse \ chart : chart' = chart \cup {o} /\ merged' = merged /\ last' = Op("put", "chart", o, NoReq, NoAns)
       \/ \E o \in MergedUniverse \ merged : merged' = merged \cup {o} /\ chart' = chart /\ last' = Op("put", "merged", o, NoReq, NoAns)
Del == \/ \E o \in chart : chart' = chart \ {o} /\ merged' = merged /\ last' = Op("del", "chart", o, NoReq, NoAns)
       \/ \E o \in merged : merged' = merged \ {o} /\ chart' = chart /\ last' = Op("del", "merged", o, NoReq, NoAns)
Get == \E rq \in Reqs : /\ last' = Op("get", "", Junk, rq, Answer(chart, merged, rq))
                        /\ UNCHANGED <<chart, merged>>
Next == n < MaxSteps /\ n' = n + 1 /\ (Put \/ Del \/ Get)
Spec == Init /\ [][Next]_vars
ReadsChangeNothing == [][last'.op = "get" => (chart' = chart /\ merged' = merged)]_vars
AnswerIsCurrent == last.op = "get" => last.ans = Answer(chart, merged, last.req)
=============================================================================
