---------------------------- MODULE CalendarRot ----------------------------
(* One rotating process and an uploader, at the granularity of the calls the *)
(* harness can make: advance the clock, rotate, increment, run the uploader. *)
(* State is what an observer of the telemetry directory sees.                *)
EXTENDS Calendar, Sequences, FiniteSets, TLC
CONSTANTS Anchors,     \* set of base day numbers (concretization anchors)
          Horizon,     \* days after the anchor the clock may reach
          MaxInc,      \* bound on increments per behaviour
          MaxUp,       \* bound on uploader runs
          MaxSetW      \* bound on changes of the week-end setting (the `weekends` file rewritten)
Tods == {0, 1, 43200, 86399}
NoFile == [b |-> -1, e |-> -1]
(* the process could not open its file and has given up for good (file.err is  *)
(* sticky): a file of TODAY'S name exists with ANOTHER end recorded in it --  *)
(* the name carries only the begin date, so the week-end setting changed on a *)
(* day for which a file already exists.  openMapped refuses it ("header       *)
(* mismatch"): joining it would put increments into a file whose recorded end *)
(* is not the one this process rotates at, and counter and uploader would     *)
(* disagree about the week.                                                   *)
Failed == [b |-> -2, e |-> -2]

VARIABLES base, w, day, tod,
          cur,        \* span the process writes to (NoFile before the first rotate)
          disk,       \* function: span -> count, the count files present
          reports,    \* function: week (end day) -> reported total
          nInc, nUp, nSetW,
          last        \* label of the last action (for replay)
vars == <<base, w, day, tod, cur, disk, reports, nInc, nUp, nSetW, last>>

Now == day * DaySecs + tod
SpanAt(d) == [b |-> Begin(d), e |-> End(d, w)]

Init == /\ base \in Anchors
        /\ w \in 0..6
        /\ day = base /\ tod \in Tods
        /\ cur = NoFile
        /\ disk = <<>> /\ reports = <<>>
        /\ nInc = 0 /\ nUp = 0 /\ nSetW = 0
        /\ last = "init"

Put(f, k, v) == [x \in (DOMAIN f) \cup {k} |-> IF x = k THEN v ELSE f[x]]
Drop(f, ks) == [x \in (DOMAIN f) \ ks |-> f[x]]

Advance == /\ \E d2 \in day..(base + Horizon), t2 \in Tods :
                /\ (d2 > day \/ t2 > tod)
                /\ day' = d2 /\ tod' = t2
           /\ last' = "advance"
           /\ UNCHANGED <<base, w, cur, disk, reports, nInc, nUp, nSetW>>

(* the configured week-end day changes (the file is rewritten); files that  *)
(* exist keep the end they recorded, files opened later use the new setting *)
SetW == /\ nSetW < MaxSetW
        /\ \E w2 \in 0..6 : w2 # w /\ w' = w2
        /\ nSetW' = nSetW + 1
        /\ last' = "setw"
        /\ UNCHANGED <<base, day, tod, cur, disk, reports, nInc, nUp>>

(* rotate1: (re)open the file of the span that contains `now`, computed with *)
(* the setting configured now; nothing to do if that is the open file; refused *)
(* for good if today's file exists with another end (see Failed)               *)
Conflict == \E f \in DOMAIN disk : f.b = day /\ f.e # End(day, w)
Rotate == /\ cur' = IF cur = Failed THEN Failed
                    ELSE IF cur = SpanAt(day) THEN cur
                    ELSE IF Conflict THEN Failed
                    ELSE SpanAt(day)
          /\ disk' = IF cur' = Failed \/ cur' \in DOMAIN disk THEN disk ELSE Put(disk, cur', 0)
          /\ last' = "rotate"
          /\ UNCHANGED <<base, w, day, tod, reports, nInc, nUp, nSetW>>

(* an increment lands in the file the process has open (and is invisible if  *)
(* the uploader has already removed that file)                               *)
Inc == /\ cur # NoFile /\ nInc < MaxInc
       /\ disk' = IF cur \in DOMAIN disk THEN [disk EXCEPT ![cur] = @ + 1] ELSE disk
       /\ nInc' = nInc + 1
       /\ last' = "inc"
       /\ UNCHANGED <<base, w, day, tod, cur, reports, nUp, nSetW>>

(* an uploader run (mode local) that starts at `now`: every finished file is *)
(* folded into the report of the week named by its end day; a week whose     *)
(* files are all empty gets no report and keeps its files; a week that       *)
(* already has a report only loses its files.                                *)
RECURSIVE SumF(_, _)
SumF(fn, s) == IF s = {} THEN 0 ELSE LET x == CHOOSE y \in s : TRUE IN fn[x] + SumF(fn, s \ {x})

FinishedFiles == {f \in DOMAIN disk : Finished(f.e, Now)}
WeeksOf(fs) == {WeekOf(f.e) : f \in fs}
Upload == /\ nUp < MaxUp
          /\ LET fin == FinishedFiles
                 live(wk) == {f \in fin : WeekOf(f.e) = wk}
                 newWeeks == {wk \in WeeksOf(fin) : wk \notin DOMAIN reports /\ SumF(disk, live(wk)) > 0}
                 goneWeeks == newWeeks \cup {wk \in WeeksOf(fin) : wk \in DOMAIN reports}
             IN /\ reports' = [wk \in (DOMAIN reports) \cup newWeeks |->
                                 IF wk \in DOMAIN reports THEN reports[wk] ELSE SumF(disk, live(wk))]
                /\ disk' = Drop(disk, {f \in fin : WeekOf(f.e) \in goneWeeks})
          /\ nUp' = nUp + 1
          /\ last' = "upload"
          /\ UNCHANGED <<base, w, day, tod, cur, nInc, nSetW>>

Next == Advance \/ SetW \/ Rotate \/ Inc \/ Upload
Spec == Init /\ [][Next]_vars

(* ---- the property ---- *)
SpansOK == \A f \in (DOMAIN disk) \cup ({cur} \ {NoFile, Failed}) :
              /\ f.e - f.b \in 1..7
              /\ (nSetW = 0 => Wd(f.e) = w)
(* a newly opened file begins today and ends on the first later day that falls on the weekday configured NOW *)
RotateOpensToday == [][last' = "rotate" => cur' = Failed \/ (cur'.b = day /\ cur'.e > day /\ cur'.e - day \in 1..7 /\ Wd(cur'.e) = w
                                            /\ \A k \in 1..6 : day + k < cur'.e => Wd(day + k) # w)]_vars
(* increments land only in the file opened by the latest rotate *)
IncOnlyInCurrent == [][last' = "inc" =>
                        \A f \in DOMAIN disk : f # cur => (f \in DOMAIN disk' /\ disk'[f] = disk[f])]_vars
(* the uploader never touches an unfinished file and names weeks by the end day *)
UploadAgrees == [][last' = "upload" =>
                    /\ \A f \in DOMAIN disk : ~Finished(f.e, Now) => (f \in DOMAIN disk' /\ disk'[f] = disk[f])
                    /\ \A wk \in (DOMAIN reports') \ (DOMAIN reports) : \E f \in DOMAIN disk : f.e = wk]_vars
(* nothing is counted twice or invented *)
Conservation == SumF(disk, DOMAIN disk) + SumF(reports, DOMAIN reports) <= nInc
View == <<base, w, day, tod, cur, disk, reports, nInc, nUp, nSetW>>
=============================================================================
