---------------------------- MODULE ServerTrace ----------------------------
(* code -> model for C12: requests executed against the real handler chain,  *)
(* one JSON object per line.  Each record carries the request abstracted     *)
(* into the vocabulary of Server.tla (by the tokenizers of checks/c12.py,    *)
(* never by the code under test) and what was observed: status class, the    *)
(* bucket listing before and after as object keys, the keys whose object     *)
(* was created or changed, the keys whose object decodes to the report that  *)
(* was sent, the directories below the bucket directory, whether anything    *)
(* (file or directory) outside the bucket changed.  TLC carries the bucket   *)
(* of Server.tla along and decides every record with Decision.               *)
EXTENDS ServerMC
Trace == ndJsonDeserialize("c12obs.ndjson")
VARIABLES l,     \* next record
          bad    \* numbers of the records Server.tla does not explain
tvars == <<bucket, b0, last, status, stored, nreq, l, bad>>

(* JSON arrays arrive as sequences: turn the set-valued fields into sets *)
NormProg(p) == [p EXCEPT !.counters = ToSet(@), !.stacks = ToSet(@)]
NormReq(q) == [q EXCEPT !.programs = [i \in DOMAIN q.programs |-> NormProg(q.programs[i])]]

TKey(k) == [y |-> k.y, m |-> k.m, d |-> k.d, x |-> k.x]
Keys(s) == {TKey(s[i]) : i \in DOMAIN s}

IsReq(r) == r.op = "req"
Stores(r) == LET d == Decision(NormReq(r.req)) IN d = "store" \/ (d = "either" /\ r.status = "2xx")

ExplainedRec(r) ==
    LET q == NormReq(r.req)
        key == Key(q)
    IN /\ r.status \in {"2xx", "4xx"}                       \* Never5xx
       /\ ~r.outside                                        \* nothing outside the bucket
       /\ ~r.badnames                                       \* every object is named <date>/<number>.json
       /\ Keys(r.before) = DOMAIN bucket
       /\ {[y |-> r.dirs[i].y, m |-> r.dirs[i].m, d |-> r.dirs[i].d] : i \in DOMAIN r.dirs}
             = Dirs([k \in Keys(r.after) |-> "object"])            \* directories: those of the stored weeks, no other
       /\ IF Stores(r)
          THEN /\ r.status = "2xx"
               /\ InsideBucket(ObjectPath(q))
               /\ Keys(r.after) = (DOMAIN bucket) \cup {key}
               /\ Keys(r.touched) \subseteq {key}                 \* OnlyOneObject
               /\ key \notin DOMAIN bucket => key \in Keys(r.touched)
               /\ key \in Keys(r.matches)                      \* RoundTrip
          ELSE /\ r.status = "4xx"
               /\ Keys(r.after) = DOMAIN bucket
               /\ r.touched = <<>>

TInit == /\ l = 1 /\ bucket = <<>> /\ bad = <<>>
         /\ b0 = "trace" /\ last = [method |-> "none"] /\ status = "none" /\ stored = FALSE /\ nreq = 0

(* a record that is not explained is noted and the model bucket is re-synced *)
(* with the observed listing, so that every finding is reported on its own   *)
TNext == /\ l <= Len(Trace)
         /\ l' = l + 1
         /\ LET r == Trace[l] IN
              IF ~IsReq(r) THEN bucket' = <<>> /\ bad' = bad
              ELSE IF ExplainedRec(r)
                   THEN /\ bad' = bad
                        /\ bucket' = IF Stores(r) THEN Put(bucket, Key(NormReq(r.req)), "object") ELSE bucket
                   ELSE /\ bad' = Append(bad, l)
                        /\ bucket' = [k \in Keys(r.after) |-> "object"]
         /\ UNCHANGED <<b0, last, status, stored, nreq>>

Explained == l = Len(Trace) + 1 => bad = <<>>
Accepted == TLCGet("stats").diameter = Len(Trace) + 1
=============================================================================
