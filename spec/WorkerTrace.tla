---------------------------- MODULE WorkerTrace ----------------------------
(* code -> model for C13: observations of the REAL merge and chart handlers  *)
(* on randomly generated stored reports, abstracted by the driver into the   *)
(* vocabulary of WorkerChart (IDs, carried <<program, chart, bucket>>        *)
(* triples, chart descriptors), one JSON object per line.  TLC decides for   *)
(* every record whether it is what the specification demands; `bad` collects *)
(* the line numbers of the records it does not explain.                      *)
EXTENDS WorkerChart, Json, TLC, SequencesExt

Trace == ndJsonDeserialize("c13obs.ndjson")
Cfgs == JsonDeserialize("c13cfg.json")          \* sequence of configurations (sequences of descriptors)

Rng(s) == {s[i] : i \in 1..Len(s)}
Occ(s, x) == Cardinality({k \in 1..Len(s) : s[k] = x})

ChartsOf(k) == {[p |-> d.p, c |-> d.c, bk |-> Rng(d.bk)] : d \in Rng(Cfgs[k])}

(* merge: exactly one line per stored report (a line that equals no stored  *)
(* report of the day is recorded as -1)                                     *)
MergeExplained(r) ==
    /\ r.code = 200
    /\ Len(r.lines) = Len(r.stored)
    /\ \A x \in Rng(r.stored) \cup Rng(r.lines) : Occ(r.lines, x) = Occ(r.stored, x)

ChartExplained(r) ==
    IF r.missing THEN r.code = 404
    ELSE LET charts == ChartsOf(r.cfg)
             rs == {[id |-> x.id, carries |-> Rng(x.carries)] : x \in Rng(r.reps)}
         IN /\ r.code = 200
            /\ r.num = Len(r.reps)
            /\ \A v \in Rng(r.vals) :
                  \E ch \in charts : /\ ch.p = v[1] /\ ch.c = v[2] /\ v[3] \in Keys(ch)
                                     /\ v[4] = Count(rs, ch, v[3])
            /\ \A ch \in charts : \A k \in Keys(ch) :
                  Count(rs, ch, k) > 0 => \E v \in Rng(r.vals) : v[1] = ch.p /\ v[2] = ch.c /\ v[3] = k
            (* r.vals is in the order of the chart object: the data points of one *)
            (* chart follow the documented total order of its keys                 *)
            /\ \A i, j \in 1..Len(r.vals) :
                  (i < j /\ r.vals[i][1] = r.vals[j][1] /\ r.vals[i][2] = r.vals[j][2]) =>
                     \A ch \in charts : (ch.p = r.vals[i][1] /\ ch.c = r.vals[i][2]) =>
                        Rank(ch, r.vals[i][3]) < Rank(ch, r.vals[j][3])

Explained(r) == IF r.kind = "merge" THEN MergeExplained(r) ELSE ChartExplained(r)

VARIABLES l, bad
Init == l = 1 /\ bad = <<>>
Next == /\ l <= Len(Trace)
        /\ bad' = IF Explained(Trace[l]) THEN bad ELSE Append(bad, l)
        /\ l' = l + 1
AllExplained == (l = Len(Trace) + 1) => bad = <<>>
Accepted == TLCGet("stats").diameter = Len(Trace) + 1
=============================================================================
