---------------------------- MODULE ConsentOps ----------------------------
(* Property C02, constant level: the gating relations of the property, the  *)
(* effect of each action as a function on observable states, and the        *)
(* property's clauses as predicates over (action, state before, state       *)
(* after).  Consent.tla turns them into a state machine; ConsentTrace.tla   *)
(* evaluates the same operators on transitions observed on the real code.   *)
(* Written from the property text and the package documentation.            *)
EXTENDS ModeFile, Calendar, FiniteSets

(* an action: op, word a, padding p and time zone tz of a SetMode argument (tz = "" UTC, "east" / "west": the same instant *)
(* given in a zone far ahead of / behind UTC; it must not matter), two numbers, and whether the call succeeded                               *)
ActZ(op, a, p, tz, n1, n2, ok) == [op |-> op, a |-> a, p |-> p, tz |-> tz, n1 |-> n1, n2 |-> n2, ok |-> ok]
ActP(op, a, p, n1, n2, ok) == ActZ(op, a, p, "", n1, n2, ok)
Act(op, a, n1, n2, ok) == ActP(op, a, "", n1, n2, ok)

(* ---- time: instants are <<day, seconds of the day>> ----------------------- *)
MidnightBefore(e, d, t) == e < d \/ (e = d /\ t > 0)     \* 00:00 of day e is strictly before the instant
AgeOver21(wk, d, t) == d - wk > 21 \/ (d - wk = 21 /\ t > 0)
Later(p, q) == p[1] > q[1] \/ (p[1] = q[1] /\ p[2] > q[2])

(* ---- the gating relations of the property --------------------------------- *)
(* A count file is finished when its end lies before the start of the run;    *)
(* the data of week wk is the set of finished files that end on wk.           *)
FinishedFiles(fs, d, t) == {f \in fs : MidnightBefore(f.e, d, t)}
DataOf(fs, wk) == {f \in fs : f.e = wk}

(* "A week's data is made uploadable only if the week ended no more than 21   *)
(* days before the run, its X is not above a positive sample rate and, when   *)
(* an opt-in date is recorded, all of it was collected strictly after that    *)
(* date" (and, first sentence, only in mode on).                              *)
Uploadable(mf, data, wk, x, rate, d, t) ==
    /\ ExactlyOn(mf)
    /\ ~AgeOver21(wk, d, t)
    /\ (rate > 0 => x <= rate)
    /\ (OptIn(mf) # NoDate => \A f \in data : OptIn(mf) < f.b)

(* "an uploadable report is sent only if its week is not in the future and    *)
(* ends after the recorded opt-in date"                                       *)
Sendable(mf, wk, d) ==
    /\ ExactlyOn(mf)
    /\ wk <= d
    /\ (OptIn(mf) # NoDate => OptIn(mf) < wk)

(* ---- helpers and the effect of the actions -------------------------------- *)
Put(f, k, v) == [x \in (DOMAIN f) \cup {k} |-> IF x = k THEN v ELSE f[x]]
Restrict(f, ks) == [x \in ks |-> f[x]]

(* The observable state as a record, and the effect of each action as a       *)
(* function on such records (used by the actions below and, on states         *)
(* observed on the real code, by ConsentTrace.tla).                           *)
St(mf, it, d, t, fs, lo, re, up, rq, pr) ==
    [modeFile |-> mf, intent |-> it, day |-> d, tod |-> t, files |-> fs, local |-> lo, ready |-> re, uploaded |-> up, requests |-> rq,
     proc |-> pr]

(* One long-running counting process (think gopls): proc.st is "none" before it *)
(* has opened its counter file, "open" while it holds the file proc.f mapped,   *)
(* "disabled" once it has found the mode off at an open or a rotation.          *)
NoProcFile == [p |-> "", b |-> -1, e |-> -1]
NoProc == [st |-> "none", f |-> NoProcFile]

(* The mode that governs what the library may do: what the user set with the   *)
(* last accepted SetMode; when the file was last written by hand (or never),   *)
(* the file itself.  After a correct SetMode the two are the same; a library   *)
(* that writes something else than it was asked to is judged by what was asked. *)
Gov(s) == IF s.intent = NoIntent THEN s.modeFile ELSE s.intent

(* One run of the uploader (number runNo) starting at the state's instant,    *)
(* with X = x for every report it makes and a downloaded config whose         *)
(* SampleRate is rate; the server acknowledges every request.  A week whose   *)
(* finished count files hold no counter at all gets no report and keeps its   *)
(* files, unless a report of it is already uploaded or waiting to be sent     *)
(* (Listed).  Weeks with data that already have a report of any kind only     *)
(* lose their finished count files (the report exists; see C07).              *)
HasData(s, fs) == \E f \in fs : s.files[f] > 0
Listed(mf, wk) == ExactlyOn(mf) /\ (OptIn(mf) # NoDate => OptIn(mf) < wk)
RunStep(s, x, rate, runNo) ==
    LET fin == FinishedFiles(DOMAIN s.files, s.day, s.tod)
        weeks == {f.e : f \in fin}
        full == {wk \in weeks : HasData(s, DataOf(fin, wk))}
        gone == full \cup {wk \in weeks : wk \in s.uploaded \/ (wk \in s.ready /\ Listed(Gov(s), wk))}
        fresh == {wk \in full : wk \notin s.local \cup s.ready \cup s.uploaded}
        newReady == {wk \in fresh : Uploadable(Gov(s), DataOf(fin, wk), wk, x, rate, s.day, s.tod)}
        ready1 == s.ready \cup newReady
        toSend == {wk \in ready1 : Sendable(Gov(s), wk, s.day)}
        posted == toSend \ s.uploaded
    IN IF EffMode(Gov(s)) = "off" THEN s
       ELSE [s EXCEPT !.files = Restrict(s.files, (DOMAIN s.files) \ {f \in fin : f.e \in gone}),
                      !.local = s.local \cup fresh,
                      !.ready = ready1 \ toSend,
                      !.uploaded = s.uploaded \cup posted,
                      !.requests = s.requests \cup {[wk |-> wk, run |-> runNo] : wk \in posted}]

(* A run of program p (week-end setting w) that opens the counter API and     *)
(* increments one counter once.                                               *)
CollectStep(s, p, w) ==
    LET f == [p |-> p, b |-> Begin(s.day), e |-> End(s.day, w)] IN
    IF EffMode(Gov(s)) = "off" THEN s
    ELSE [s EXCEPT !.files = IF f \in DOMAIN s.files THEN [s.files EXCEPT ![f] = @ + 1] ELSE Put(s.files, f, 1)]

(* The long-running process p (week-end setting w) opens or rotates its counter *)
(* file - which is when the library consults the mode - and then increments its *)
(* counter once.  Once it has seen the mode off it creates no counter file and  *)
(* writes nothing any more, whatever is rotated or incremented later; otherwise *)
(* it counts in the file of the span that begins today.                         *)
Bump(fs, g) == IF g \in DOMAIN fs THEN [fs EXCEPT ![g] = @ + 1] ELSE fs
ProcRotateStep(s, p, w) ==
    LET f == [p |-> p, b |-> Begin(s.day), e |-> End(s.day, w)] IN
    IF s.proc.st = "disabled" THEN s
    ELSE IF EffMode(Gov(s)) = "off" THEN [s EXCEPT !.proc = [st |-> "disabled", f |-> NoProcFile]]
    ELSE IF s.proc.st = "open" /\ s.proc.f.b = f.b THEN [s EXCEPT !.files = Bump(s.files, s.proc.f)]     \* still the same span
    ELSE [s EXCEPT !.files = IF f \in DOMAIN s.files THEN Bump(s.files, f) ELSE Put(s.files, f, 1),
                   !.proc = [st |-> "open", f |-> f]]
(* An increment between rotations lands in the file the process holds (and is  *)
(* invisible if the uploader has removed that file meanwhile).                  *)
ProcIncStep(s) == IF s.proc.st = "open" THEN [s EXCEPT !.files = Bump(s.files, s.proc.f)] ELSE s

(* The library call SetMode(arg) as of day d, arg being the word m with padding *)
(* p: a valid mode is recorded with the date, an invalid one is rejected and    *)
(* leaves the file as it was; a padded valid mode is either rejected (acc =     *)
(* FALSE) or recorded as the mode without its padding.                          *)
SetStep(s, m, p, d, acc) ==
    IF m \in ValidModes /\ (p = "" \/ acc)
    THEN [s EXCEPT !.modeFile = Written(m, d), !.intent = Written(m, d)]
    ELSE s
SetAccepted(m, p, acc) == m \in ValidModes /\ (p = "" \/ acc)

(* ---- the property, clause by clause ----------------------------------------- *)
(* Each clause is an operator over (action, state before, state after) so that  *)
(* it can be evaluated on the model's transitions here and on transitions       *)
(* observed on the real code in ConsentTrace.tla.  A state is a record with     *)
(* fields modeFile, intent, day, tod, files (function [p, b, e] -> count), local, ready, *)
(* uploaded, requests.                                                                    *)
(* "A request is made to the upload server only when the mode recorded in the   *)
(* mode file is exactly on."                                                    *)
C_RequestOnlyWhenOn(a, s, t) == t.requests # s.requests => ExactlyOn(Gov(s))

(* the weeks made uploadable by a run: a ready report appears, or the report    *)
(* went all the way to the server within the run                                *)
MadeUploadable(s, t) == (t.ready \cup t.uploaded \cup {r.wk : r \in t.requests \ s.requests})
                          \ (s.ready \cup s.uploaded)
(* one condition of the sentence at a time, so that a verdict names it         *)
U_Cond(which, a, s, wk) ==
    LET data == {f \in DataOf(DOMAIN s.files, wk) : s.files[f] > 0} IN      \* the files that hold something
    CASE which = "data"  -> data # {}
      [] which = "age"   -> wk <= s.day /\ ~AgeOver21(wk, s.day, s.tod)    \* ended, and no more than 21 days before the run
      [] which = "rate"  -> (a.n2 > 0 => a.n1 <= a.n2)                     \* X not above a positive sample rate
      [] which = "optin" -> (OptIn(Gov(s)) # NoDate => \A f \in data : OptIn(Gov(s)) < f.b)
C_UploadableOnlyIfW(which, a, s, t) ==
    a.op = "run" => \A wk \in MadeUploadable(s, t) : U_Cond(which, a, s, wk)
C_UploadableOnlyIf(a, s, t) == \A which \in {"data", "age", "rate", "optin"} : C_UploadableOnlyIfW(which, a, s, t)

(* The X that counts is the X the posted report CARRIES (posted: the reports    *)
(* sent in this run as [wk, bx, lx], X in units of 2^-20, lx the X of the local  *)
(* report of that week or -1): for a week made uploadable in this run it is not  *)
(* above a positive sample rate (a.n2, in 1/1024), and it is the very X of the   *)
(* week's local report - one X per report, not one for the decision and another  *)
(* for the upload.                                                               *)
C_BodyXRate(a, s, t, posted) ==
    \A q \in posted : (q.wk \in MadeUploadable(s, t) /\ a.n2 > 0 /\ q.bx >= 0) => q.bx <= a.n2 * 1024
C_BodyXSame(a, s, t, posted) == \A q \in posted : (q.lx >= 0 /\ q.bx >= 0) => q.bx = q.lx

(* "an uploadable report is sent only if its week is not in the future and     *)
(* ends after the recorded opt-in date"                                        *)
S_Cond(which, s, wk) ==
    CASE which = "future" -> wk <= s.day
      [] which = "optin"  -> (OptIn(Gov(s)) # NoDate => OptIn(Gov(s)) < wk)
C_SentOnlyIfW(which, a, s, t) == \A r \in t.requests \ s.requests : S_Cond(which, s, r.wk)
C_SentOnlyIf(a, s, t) == \A which \in {"future", "optin"} : C_SentOnlyIfW(which, a, s, t)

(* "With mode off neither the counter API nor the uploader creates, changes or  *)
(* removes any counter file or report"                                          *)
C_OffChangesNothing(a, s, t) ==
    (ExactlyOff(Gov(s)) /\ (a.op \in {"run", "collect", "protate"} \/ (a.op = "pinc" /\ s.proc.st # "open"))) =>
        /\ t.files = s.files /\ t.local = s.local /\ t.ready = s.ready /\ t.uploaded = s.uploaded
        /\ t.requests = s.requests
(* (The library consults the mode when a process opens its counter file and at  *)
(* every rotation.  What a process that opened its file before the user turned  *)
(* telemetry off adds to that file until its next rotation is not decided here: *)
(* op "pinc" with the file still held.)  Once a process has seen the mode off   *)
(* it stays silent: nothing it rotates or increments later reaches the disk.    *)
C_DisabledStaysSilent(a, s, t) ==
    (a.op \in {"protate", "pinc"} /\ s.proc.st = "disabled" /\ ExactlyOff(Gov(s))) => t.files = s.files

(* "any other value or an unreadable mode file behaves as local (reports built, *)
(* nothing sent)": every finished week that has no report yet gets its local    *)
(* report, and no request is made.                                              *)
C_OtherBehavesLocal(a, s, t) ==
    (a.op = "run" /\ EffMode(Gov(s)) = "local") =>
        /\ t.requests = s.requests
        /\ \A f \in FinishedFiles(DOMAIN s.files, s.day, s.tod) :
              (s.files[f] > 0 /\ f.e \notin (s.local \cup s.ready \cup s.uploaded)) => f.e \in t.local

(* "setting a valid mode then reading it back yields the same mode and date     *)
(* while an invalid mode is rejected leaving the file unchanged"                *)
(* the date: the UTC date of the instant, in whatever zone the instant was      *)
(* given: the mode file's date is read back as 00:00 UTC of that day and        *)
(* counter files begin at 00:00 UTC, so a date taken from another calendar      *)
(* would move the opt-in instant by up to a day (and let data from before it    *)
(* be uploaded).  tz = "race": the harness saw midnight UTC pass during the     *)
(* call, either day is right.                                                   *)
DateOK(a, d) == IF a.tz = "race" THEN d \in {a.n1 - 1, a.n1} ELSE d = a.n1
C_SetGet(a, s, t) ==
    a.op = "set" =>
       LET accepted == a.ok /\ ReadBack(t.modeFile)[1] = a.a /\ DateOK(a, ReadBack(t.modeFile)[2])
           rejected == ~a.ok /\ t.modeFile = s.modeFile
       IN IF a.a \notin ValidModes THEN rejected
          ELSE IF a.p = "" THEN accepted
          ELSE accepted \/ rejected

=============================================================================
