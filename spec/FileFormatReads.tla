-------------------------- MODULE FileFormatReads --------------------------
(* C06, the process-lifetime dimension: one count-file PATH is read several   *)
(* times in one process while its owner keeps writing to it.  Counter files   *)
(* are updated in place through a mapping, so most changes do not change the  *)
(* file size.  Readers are the uploaders of successive upload runs in one     *)
(* process: reader r+1 is created after reader r.  The documentation of the   *)
(* reader says that ONE uploader avoids parsing a count file several times;   *)
(* nothing may survive from one uploader to the next.                         *)
(*   ver      the content of the file (version number; every change differs)  *)
(*   pages    its size                                                        *)
(*   seen[r]  the version reader r parsed first (0: none yet)                 *)
(* A read by r must return version seen[r] or the current one if r has parsed *)
(* the path before (its documented memo), and exactly the current one if not: *)
(* `allowed` in `last` is what the harness compares the real result with.     *)
EXTENDS Integers, FiniteSets, TLC
CONSTANTS NReaders,    \* how many uploaders may be created
          Kinds,       \* kinds of change between reads
          MaxOps
VARIABLES ver, pages, seen, cur, nops, last
vars == <<ver, pages, seen, cur, nops, last>>
Readers == 1..NReaders
NoOp == [op |-> "init", kind |-> "-", r |-> 0, how |-> "-", allowed |-> {}]
Init == /\ ver = 1 /\ pages = 1 /\ seen = [r \in Readers |-> 0] /\ cur = 1 /\ nops = 0 /\ last = NoOp
(* the owner of the file writes: an existing counter is incremented ("inc"), a *)
(* new counter is added inside the allocated pages ("new"), a new counter makes *)
(* the file grow by a page ("grow")                                            *)
Change(k) == /\ nops < MaxOps /\ last.op # "change"
             /\ ver' = ver + 1 /\ pages' = IF k = "grow" THEN pages + 1 ELSE pages
             /\ UNCHANGED <<seen, cur>> /\ nops' = nops + 1
             /\ last' = [NoOp EXCEPT !.op = "change", !.kind = k]
(* a later upload run in the same process: a new uploader *)
NewReader == /\ nops < MaxOps /\ cur < NReaders /\ cur' = cur + 1
             /\ UNCHANGED <<ver, pages, seen>> /\ nops' = nops + 1
             /\ last' = [NoOp EXCEPT !.op = "newreader", !.r = cur + 1]
(* reader r (any uploader created so far) reads the path: how = "parse" gets the *)
(* counters, how = "span" only looks at the expiry in the metadata             *)
Read(r, how) == /\ nops < MaxOps /\ r <= cur
                /\ seen' = [seen EXCEPT ![r] = IF @ = 0 THEN ver ELSE @]
                /\ UNCHANGED <<ver, pages, cur>> /\ nops' = nops + 1
                /\ last' = [op |-> "read", kind |-> "-", r |-> r, how |-> how,
                            allowed |-> IF seen[r] = 0 THEN {ver} ELSE {seen[r], ver}]
Next == \/ \E k \in Kinds : Change(k)
        \/ NewReader
        \/ \E r \in Readers, how \in {"parse", "span"} : Read(r, how)
Spec == Init /\ [][Next]_vars
(* faithfulness across the process lifetime *)
CurrentAllowed == last.op = "read" => ver \in last.allowed
FreshIsExact   == (last.op = "read" /\ Cardinality(last.allowed) = 2) => (seen[last.r] # 0 /\ seen[last.r] < ver)
NothingNewer   == \A r \in Readers : seen[r] <= ver /\ (r > cur => seen[r] = 0)
=============================================================================
