\* reference configuration: every report of at most MaxLen lines that extends a prefix
\* (quick: PrefixHdr/5, PrefixEmpty/3; thorough: PrefixHdr/6, PrefixTrap/8, PrefixEmpty/4)
SPECIFICATION Spec
INVARIANTS Agree RepIgnored SymTextOK CapOK EraseOK OnlyContribution TrapRule
PROPERTIES PostStable
CHECK_DEADLOCK FALSE
CONSTANTS
  MaxLen = 5
  Prefixes <- PrefixHdr
