SPECIFICATION Spec
INVARIANTS Agree CapOK EraseOK OnlyContribution TrapRule
PROPERTIES PostStable
CHECK_DEADLOCK FALSE
CONSTANTS
  MaxLen = 5
  Prefixes <- PrefixHdr
