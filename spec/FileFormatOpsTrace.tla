------------------------- MODULE FileFormatOpsTrace -------------------------
(* C10, code -> model: the harness runs operation sequences on real counter   *)
(* files (the replayed behaviours of FileFormatOps and random runs with       *)
(* random names of any content and length; one or two library writers and the *)
(* independent writer) and after every operation logs the operation and the   *)
(* file as an independent walk of the raw bytes sees it:                      *)
(*   {op, name:{id,nlen,b}, k, m,                                             *)
(*    obs:{metaLen,hdrLen,size,limit,heads:[{b,off}],recs:[{off,nlen,next,id,val,b}]}} *)
(* (b of a record = the bucket it hangs in; id = identity of its name bytes).  *)
(* The observed file becomes the state; TLC evaluates on every observed state  *)
(* the layout invariants of the property (LayoutOK, Clauses), that the file    *)
(* holds exactly what was written so far (Exact, against the ghost `want`      *)
(* maintained from the logged operations) and, on every step, that limit and   *)
(* size only grow and no record moves or changes (Monotone).  Where the        *)
(* records are placed is NOT prescribed here: any placement that respects the  *)
(* layout is accepted.  "create" starts a new file; "alien" = a writer with     *)
(* different metadata opened the file and used a counter: `want` is unchanged,  *)
(* so Exact demands that nothing of it reached the file, Monotone that the      *)
(* header and metadata length stayed, and the harness compares the metadata     *)
(* text itself.                                                                 *)
EXTENDS FileFormatOps, Json
Trace == ndJsonDeserialize("c10ops.ndjson")
VARIABLE l
tvars == <<vars, l>>
TInit == Init /\ l = 1
TNext == /\ l <= Len(Trace)
         /\ LET e == Trace[l]  o == Trace[l].obs IN
            /\ want' = CASE e.op = "create" -> <<>>
                          [] e.op = "add"    -> Bump(want, e.name.id, e.k)
                          [] e.op = "race"   -> Bump(Bump(want, e.xname.id, 1), e.name.id, e.k)   \* both writers' increments must be there
                          [] OTHER           -> want
            /\ metaLen' = o.metaLen /\ hdrLen' = o.hdrLen /\ size' = o.size /\ limit' = o.limit
            /\ heads' = [b \in {o.heads[i].b : i \in DOMAIN o.heads} |-> o.heads[CHOOSE i \in DOMAIN o.heads : o.heads[i].b = b].off]
            /\ recs' = {o.recs[i] : i \in DOMAIN o.recs}
            /\ last' = [NoOp EXCEPT !.op = e.op, !.m = e.m]
         /\ nops' = 0
         /\ l' = l + 1
TSpec == TInit /\ [][TNext]_tvars
Created  == hdrLen # 0 => metaLen = last.m \/ last.op # "create"     \* a new file carries the metadata it was created with
Accepted == TLCGet("stats").diameter = Len(Trace) + 1
=============================================================================
