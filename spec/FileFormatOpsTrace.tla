------------------------- MODULE FileFormatOpsTrace -------------------------
(* C10, code -> model: the harness runs random operation sequences on real    *)
(* counter files (random names of any content and length, one or two library  *)
(* writers and the independent writer) and after every operation logs the     *)
(* operation and the file as an independent walk of the raw bytes sees it:    *)
(*   {op, a, name:{id,nlen,b}, k, m,                                          *)
(*    obs:{metaLen,hdrLen,size,limit,heads:[{b,off}],recs:[{off,nlen,next,id,val,b}]}} *)
(* (b of a name = its bucket under the independent hash; id = its identity).  *)
(* TLC decides whether every logged step is a step of FileFormatOps with the  *)
(* observed file as its result, and evaluates the layout invariants on every  *)
(* observed file.  "create" starts a new file (several runs are concatenated). *)
EXTENDS FileFormatOps, Json
Trace == ndJsonDeserialize("c10ops.ndjson")
VARIABLE l
tvars == <<vars, l>>
TInit == Init /\ l = 1
Observed(o) == /\ metaLen' = o.metaLen /\ hdrLen' = o.hdrLen /\ size' = o.size /\ limit' = o.limit
               /\ DOMAIN heads' = {o.heads[i].b : i \in DOMAIN o.heads}
               /\ \A i \in DOMAIN o.heads : heads'[o.heads[i].b] = o.heads[i].off
               /\ recs' = {o.recs[i] : i \in DOMAIN o.recs}
TNext == /\ l <= Len(Trace)
         /\ LET e == Trace[l] IN
            /\ \/ e.op = "create" /\ CreateEff(e.m)
               \/ e.op = "add" /\ hdrLen # 0 /\ AddEff(e.name, e.k)
               \/ e.op = "reopen" /\ hdrLen # 0 /\ UNCHANGED <<file, want>>
            /\ Observed(e.obs)
            /\ last' = [NoOp EXCEPT !.op = e.op]
         /\ nops' = 0
         /\ l' = l + 1
TSpec == TInit /\ [][TNext]_tvars
Accepted == TLCGet("stats").diameter = Len(Trace) + 1
=============================================================================
