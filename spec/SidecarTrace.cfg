\* trace validation of recorded token races (c16trace.ndjson is supplied by checks/c16.py)
SPECIFICATION TSpec
CONSTANTS
 Starters = {"s1", "s2", "s3", "s4", "s5"}
 MarkerSet = {"unset"}
 CrashSet = {FALSE}
 UploadSet = {TRUE}
 ModeSet = {"on"}
 TokenSet = {"absent", "fresh", "stale", "ghost"}
 LocalSet = {TRUE}
 LeakSet = {FALSE}
 MaxFaults = 99
INVARIANTS Conform AtMostOneAcquire
CHECK_DEADLOCK TRUE
