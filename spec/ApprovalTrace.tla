---------------------------- MODULE ApprovalTrace ----------------------------
(* code -> model for C01 / C11: observations of the real uploader, upload    *)
(* server and viewer on random concrete inputs, abstracted into the          *)
(* vocabulary of Approval.tla (names as character sequences), one JSON object *)
(* per line.  TLC decides for each record whether the observed output is what *)
(* Approval.tla demands for the recorded input.                               *)
(*                                                                            *)
(* record kinds                                                               *)
(*   upload  cfg, files, w, x, sem ("c01" | "c11"), sent, progs, data         *)
(*           one week of one uploader run: was a report posted, which builds  *)
(*           does it name, which (build, name, value) triples does it carry   *)
(*   local   files, w, data        the unfiltered local.<week>.json           *)
(*   server  cfg, rep, ok          the upload handler's verdict on a report   *)
(*   viewer  cfg, file, setx, meta, xnames, labels   the viewer on one file   *)
(* Records are independent; they are reached from NSlice initial states so    *)
(* that the workers decide them in parallel.  Every record must be explained. *)
EXTENDS Approval, Json, TLC

CONSTANT D
Trace == ndJsonDeserialize("approval_obs.ndjson")

VARIABLE st
NSlice == 32
Init == st \in {[slice |-> i] : i \in 0..(NSlice - 1)}
Next == /\ "slice" \in DOMAIN st
        /\ \E k \in DOMAIN Trace : k % NSlice = st.slice /\ st' = [k |-> k]

(* ---- JSON -> Approval vocabulary ------------------------------------------------*)
Ents(a) == {[name |-> e.name, rate |-> e.rate] : e \in Rng(a)}
ToCfg(j) == [goos |-> Rng(j.goos), goarch |-> Rng(j.goarch), gover |-> Rng(j.gover), sample |-> j.sample,
             progs |-> {[name |-> p.name, versions |-> Rng(p.versions),
                         counters |-> Ents(p.counters), stacks |-> Ents(p.stacks)] : p \in Rng(j.progs)}]
ToFile(f) == [id |-> f.id, build |-> f.build, week |-> f.week, expired |-> f.expired, counts |-> {[n |-> c.n, v |-> c.v] : c \in Rng(f.counts)}]
ToFiles(a) == {ToFile(f) : f \in Rng(a)}
ToData(a) == {[b |-> t.b, n |-> t.n, v |-> t.v] : t \in Rng(a)}
ToRep(a) == {[build |-> p.build, counters |-> Rng(p.counters), stacks |-> Rng(p.stacks)] : p \in Rng(a)}

(* the generator must stay inside the domain of the semantics *)
InDom(r) == /\ ("cfg" \in DOMAIN r => ConfigOK(ToCfg(r.cfg), D))
            /\ ("files" \in DOMAIN r => FilesOK(ToFiles(r.files)))
            /\ ("file" \in DOMAIN r => FilesOK({ToFile(r.file)}))
            /\ (r.kind = "upload" => r.x \in 0..D)

ExplainedUpload(r) ==
    LET cfg == ToCfg(r.cfg)  files == ToFiles(r.files)  progs == Rng(r.progs)  data == ToData(r.data) IN
    IF r.sent
    THEN IF r.sem = "c01" THEN C01BodyOK(cfg, files, r.w, r.x, progs, data)
                          ELSE BodyOK(Approved5, cfg, files, r.w, r.x, progs, data)
    ELSE (* nothing was posted for this week: fine when the sampling rate may   *)
         (* have dropped the report or when there is nothing to send           *)
         \/ ~MustSend(cfg, r.x, D)
         \/ UploadReport5(cfg, files, r.w, r.x) = {}
         \/ (r.sem = "c01" /\ UploadReport3(cfg, files, r.w, r.x) = {})
ExplainedLocal(r) == ToData(r.data) = LocalReport(ToFiles(r.files), r.w)
ExplainedServer(r) == r.ok <=> ServerAccepts(ToCfg(r.cfg), ToRep(r.rep))
ExplainedViewer(r) ==
    LET cfg == ToCfg(r.cfg)  f == ToFile(r.file)  xn == ViewerExcludedNames(cfg, f) IN
    /\ r.setx <=> ViewerSetExcluded(cfg, f.build)
    /\ r.meta = FieldListed(cfg, f.build)
    /\ Rng(r.xnames) = xn                                        \* the Active flags
    /\ ~r.setx => Rng(r.labels) = {FirstLine(n) : n \in xn}     \* the summary sentence
Explained(r) == CASE r.kind = "upload" -> ExplainedUpload(r)
                  [] r.kind = "local"  -> ExplainedLocal(r)
                  [] r.kind = "server" -> ExplainedServer(r)
                  [] r.kind = "viewer" -> ExplainedViewer(r)

AllInDomain == "k" \in DOMAIN st => InDom(Trace[st.k])
AllExplained == "k" \in DOMAIN st => (InDom(Trace[st.k]) => Explained(Trace[st.k]))
Accepted == TLCGet("stats").distinct = NSlice + Len(Trace)
=============================================================================
