SPECIFICATION Spec
INVARIANT Sane
CHECK_DEADLOCK FALSE
