INIT Init
NEXT Next
POSTCONDITION Accepted
CHECK_DEADLOCK FALSE
CONSTANT NameOrder <- ABCD
