INIT Init
NEXT Next
INVARIANT AllExplained
POSTCONDITION Accepted
CHECK_DEADLOCK FALSE
CONSTANT NameOrder <- TraceOrder
