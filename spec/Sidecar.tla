------------------------------- MODULE Sidecar -------------------------------
(* C16, protocol part: processes that call telemetry.Start, at the grain of *)
(* the system calls other processes can observe (reading the mode file,     *)
(* opening the counter database, os.Stat / os.Remove / exclusive create of  *)
(* the upload token, fork+exec of the sidecar, the sidecar rewriting its    *)
(* marker and running the go command).  Several starters race for the       *)
(* upload token; every launched process runs the same program and           *)
(* dispatches on the marker it inherited.                                   *)
(*                                                                          *)
(* The properties are invariants over the process tree and the token file;  *)
(* for a single starter the quiescent outcome must be the row of the        *)
(* decision table (SidecarDecision.Launch).                                  *)
EXTENDS SidecarDecision

CONSTANTS Starters,      \* names of the processes started by the user
          MarkerSet,     \* what a starter finds in its environment: "unset", "empty" (set but empty), "1", "2", "other"
          LeakSet,       \* whether GO_TELEMETRY_CHILD_UPLOAD=1 is already in an application's environment
          CrashSet, UploadSet,   \* values of Config.ReportCrashes / Config.Upload of a starter
          ModeSet, TokenSet, LocalSet,  \* consent mode, initial token, local directory usable
          MaxFaults      \* how many failing system calls / killed starters a behaviour may contain
VARIABLES mode, initToken, localOK, cfg,   \* chosen initially, then fixed
          token,         \* the token file now
          local,         \* the local directory: "absent", "present", "unusable"
          wrote,         \* classes of files written so far
          procs,         \* process id (its lineage, a tuple) -> process record
          ev,            \* history of notable events (for race windows only)
          nf             \* failing system calls and kills so far
vars == <<mode, initToken, localOK, cfg, token, local, wrote, procs, ev, nf>>

Entry(m) == CASE m = "unset" -> "p_mode" [] m = "1" -> "c_setenv" [] m = "2" -> "done" [] OTHER -> "fatal"

(* The environment of a process is the list of NAME=value entries it was    *)
(* exec'ed with, in order; a child gets its parent's list plus what the      *)
(* parent adds.  Looking a name up -- getenv, and the de-duplication os/exec *)
(* applies to cmd.Env -- lets the LAST entry of that name win, so additions  *)
(* must come after the inherited entries to take effect.                     *)
CHILD == "GO_TELEMETRY_CHILD"
UPLOAD == "GO_TELEMETRY_CHILD_UPLOAD"
RECURSIVE Lookup(_, _)
Lookup(env, name) == IF env = <<>> THEN "unset"
                     ELSE IF env[Len(env)][1] = name THEN env[Len(env)][2]
                     ELSE Lookup(SubSeq(env, 1, Len(env) - 1), name)
ClassOf(v) == IF v \in {"unset", ""} THEN "unset" ELSE IF v \in {"1", "2"} THEN v ELSE "other"
SetEnv(env, name, v) == SelectSeq(env, LAMBDA x : x[1] # name) \o << <<name, v>> >>
EnvOfMarker(m) == CASE m = "unset" -> <<>> [] m = "empty" -> << <<CHILD, "">> >> [] m = "other" -> << <<CHILD, "3">> >>
                    [] OTHER -> << <<CHILD, m>> >>

NewProc(env, role, crash, upload) ==
  LET m == ClassOf(Lookup(env, CHILD)) IN
  [born |-> m, marker |-> m, env |-> env, role |-> role, crash |-> crash, upload |-> upload, upvar |-> Lookup(env, UPLOAD) = "1",
   pc |-> Entry(m), seen |-> "none", acq |-> FALSE]

Init == /\ mode \in ModeSet /\ initToken \in TokenSet /\ localOK \in LocalSet
        /\ cfg \in {c \in [Starters -> [marker : MarkerSet, crash : CrashSet, upload : UploadSet, leak : LeakSet]] :
                      \A s \in Starters : c[s].leak => c[s].marker \in {"unset", "empty"}}
        /\ token = initToken
        /\ local = IF ~localOK THEN "unusable" ELSE IF initToken = "absent" THEN "absent" ELSE "present"
        /\ wrote = {}
        /\ procs = [id \in {<<s>> : s \in Starters} |->
                      \* a starter that claims to be the sidecar is told to upload iff it is configured to
                      NewProc(EnvOfMarker(cfg[id[1]].marker)
                                \o (IF cfg[id[1]].leak \/ (cfg[id[1]].marker = "1" /\ cfg[id[1]].upload) THEN << <<UPLOAD, "1">> >> ELSE <<>>),
                              "app", cfg[id[1]].crash, cfg[id[1]].upload)]
        /\ ev = {} /\ nf = 0

Ids == DOMAIN procs
Set(p, f, v) == [procs EXCEPT ![p] = [@ EXCEPT ![f] = v]]
Fixed == UNCHANGED <<mode, initToken, localOK, cfg, nf>>
FixedButNf == UNCHANGED <<mode, initToken, localOK, cfg>>

(* where a parent goes once the token question is settled *)
AfterToken(p, acq) == IF procs[p].crash \/ acq THEN "p_spawn" ELSE "done"

(* ---- the application ("parent") ---------------------------------------- *)
PMode(p) == /\ procs[p].pc = "p_mode"
            /\ procs' = Set(p, "pc", IF mode = "off" THEN "done" ELSE "p_open")
            /\ UNCHANGED <<token, local, wrote, ev>> /\ Fixed
OpenCounters == /\ local' = IF local = "absent" THEN "present" ELSE local
                /\ wrote' = IF local' = "present" THEN wrote \cup {"counters"} ELSE wrote
POpen(p) == /\ procs[p].pc = "p_open"
            /\ OpenCounters
            /\ procs' = Set(p, "pc", "p_statlocal")
            /\ UNCHANGED <<token, ev>> /\ Fixed
PStatLocal(p) == /\ procs[p].pc = "p_statlocal"
                 /\ procs' = Set(p, "pc", IF local # "present" THEN "done"
                                          ELSE IF procs[p].upload THEN "t_stat" ELSE AfterToken(p, FALSE))
                 /\ UNCHANGED <<token, local, wrote, ev>> /\ Fixed
(* ---- the token: Stat, Remove if older than 24 h, exclusive create ------- *)
TStat(p) == /\ procs[p].pc = "t_stat"
            \* a ghost (dangling symlink) looks absent to Stat
            /\ procs' = [procs EXCEPT ![p] = [@ EXCEPT !.seen = IF token = "ghost" THEN "absent" ELSE token,
                                                       !.pc = CASE token = "fresh"  -> AfterToken(p, FALSE)
                                                                [] token = "stale"  -> "t_remove"
                                                                [] token \in {"absent", "ghost"} -> "t_create"]]
            /\ ev' = ev \cup (IF token = "fresh" /\ initToken # "fresh" THEN {"stat_new"} ELSE {})
            /\ UNCHANGED <<token, local, wrote>> /\ Fixed
TRemove(p) == /\ procs[p].pc = "t_remove"
              /\ token' = "absent"
              /\ wrote' = IF token # "absent" THEN wrote \cup {"token"} ELSE wrote
              /\ ev' = ev \cup (CASE token = "fresh" -> {"removed_new"} [] token = "absent" -> {"remove_missing"} [] OTHER -> {})
              /\ procs' = Set(p, "pc", "t_create")
              /\ UNCHANGED local /\ Fixed
TCreate(p) == /\ procs[p].pc = "t_create"
              /\ IF token = "absent"
                   THEN /\ token' = "fresh" /\ wrote' = wrote \cup {"token"} /\ ev' = ev
                        /\ procs' = [procs EXCEPT ![p] = [@ EXCEPT !.acq = TRUE, !.pc = AfterToken(p, TRUE)]]
                   ELSE /\ UNCHANGED <<token, wrote>> /\ ev' = ev \cup {"excl_lost"}
                        /\ procs' = Set(p, "pc", AfterToken(p, FALSE))
              /\ UNCHANGED local /\ Fixed
(* ---- fork+exec of the sidecar: marker "1", upload flag iff token held --- *)
PSpawn(p) == /\ procs[p].pc = "p_spawn"
             /\ LET c == Append(p, "c") IN
                procs' = [q \in Ids \cup {c} |->
                            \* the marker (and the upload flag) are appended AFTER the inherited environment
                            IF q = c THEN NewProc(procs[p].env \o << <<CHILD, "1">> >> \o (IF procs[p].acq THEN << <<UPLOAD, "1">> >> ELSE <<>>),
                                                  procs[p].role, procs[p].crash, procs[p].upload)
                            ELSE IF q = p THEN [procs[p] EXCEPT !.pc = "done"] ELSE procs[q]]
             /\ UNCHANGED <<token, local, wrote, ev>> /\ Fixed
(* the start of the sidecar fails (log file unopenable, exec fails): nobody *)
(* is launched, and the token -- acquired or somebody else's -- stays        *)
PSpawnFail(p) == /\ procs[p].pc = "p_spawn" /\ nf < MaxFaults
                 /\ procs' = Set(p, "pc", "done")
                 /\ ev' = ev \cup {"spawn_failed"}
                 /\ nf' = nf + 1 /\ UNCHANGED <<token, local, wrote>> /\ FixedButNf
(* ---- the sidecar ("child") --------------------------------------------- *)
(* the marker becomes "2" before anything else happens in the child *)
CSetenv(p) == /\ procs[p].pc = "c_setenv"
              /\ procs' = [procs EXCEPT ![p] = [@ EXCEPT !.marker = "2", !.env = SetEnv(@, CHILD, "2"), !.pc = "c_open"]]
              /\ UNCHANGED <<token, local, wrote, ev>> /\ Fixed
COpen(p) == /\ procs[p].pc = "c_open"
            /\ IF mode # "off" THEN OpenCounters ELSE UNCHANGED <<local, wrote>>
            \* the uploader downloads the upload configuration with the go command, only in mode on
            /\ procs' = Set(p, "pc", IF procs[p].upvar /\ mode = "on" THEN "c_go" ELSE "done")
            /\ UNCHANGED <<token, ev>> /\ Fixed
(* the go command is itself a telemetry application (uploading, crash       *)
(* reporting); it inherits the environment of the sidecar                    *)
CGo(p) == /\ procs[p].pc = "c_go"
          /\ LET g == Append(p, "g") IN
             procs' = [q \in Ids \cup {g} |->
                         IF q = g THEN NewProc(procs[p].env, "go", TRUE, TRUE)
                         ELSE IF q = p THEN [procs[p] EXCEPT !.pc = "done"] ELSE procs[q]]
          /\ UNCHANGED <<token, local, wrote, ev>> /\ Fixed

(* ---- failing system calls and kills (bounded by MaxFaults) ------------- *)
(* Stat fails with something other than "does not exist": give up           *)
TStatFail(p) == /\ procs[p].pc = "t_stat" /\ nf < MaxFaults
                /\ procs' = [procs EXCEPT ![p] = [@ EXCEPT !.seen = "error", !.pc = AfterToken(p, FALSE)]]
                /\ ev' = ev \cup {"stat_failed"}
                /\ nf' = nf + 1 /\ UNCHANGED <<token, local, wrote>> /\ FixedButNf
(* Remove fails: its result is ignored, the exclusive create decides *)
TRemoveFail(p) == /\ procs[p].pc = "t_remove" /\ nf < MaxFaults
                  /\ procs' = Set(p, "pc", "t_create")
                  /\ ev' = ev \cup {"remove_failed"}
                  /\ nf' = nf + 1 /\ UNCHANGED <<token, local, wrote>> /\ FixedButNf
(* the create fails for another reason than "exists": not acquired *)
TCreateFail(p) == /\ procs[p].pc = "t_create" /\ nf < MaxFaults
                  /\ procs' = Set(p, "pc", AfterToken(p, FALSE))
                  /\ ev' = ev \cup {"create_failed"}
                  /\ nf' = nf + 1 /\ UNCHANGED <<token, local, wrote>> /\ FixedButNf
(* a starter dies anywhere in the token protocol: it is never resumed *)
Kill(p) == /\ procs[p].pc \in {"t_stat", "t_remove", "t_create"} /\ nf < MaxFaults
           /\ procs' = Set(p, "pc", "killed")
           /\ ev' = ev \cup {CASE procs[p].pc = "t_stat" -> "kill_stat" [] procs[p].pc = "t_remove" -> "kill_remove" [] OTHER -> "kill_create"}
           /\ nf' = nf + 1 /\ UNCHANGED <<token, local, wrote>> /\ FixedButNf
FaultStep(p) == TStatFail(p) \/ TRemoveFail(p) \/ TCreateFail(p)

TokenStep(p) == TStat(p) \/ TRemove(p) \/ TCreate(p)
Step(p) == FaultStep(p) \/ Kill(p) \/ PSpawnFail(p) \/ PMode(p) \/ POpen(p) \/ PStatLocal(p) \/ TokenStep(p) \/ PSpawn(p) \/ CSetenv(p) \/ COpen(p) \/ CGo(p)
Next == \E p \in Ids : Step(p)
Spec == Init /\ [][Next]_vars
FairSpec == Spec /\ \A s \in Starters : WF_vars(\E p \in Ids : p[1] = s /\ Step(p))

(* ------------------------------------------------------------------------ *)
Parent(p) == SubSeq(p, 1, Len(p) - 1)
Ancestors(p) == {SubSeq(p, 1, k) : k \in 1..(Len(p) - 1)}
IsSidecar(p) == procs[p].born = "1" /\ Len(p) > 1
Acquirers == {p \in Ids : procs[p].acq}
Quiescent == \A p \in Ids : procs[p].pc \in {"done", "fatal", "killed"}

TypeOK == /\ token \in Tokens /\ local \in {"absent", "present", "unusable"} /\ wrote \subseteq {"counters", "token"}
          /\ \A p \in Ids : /\ procs[p].born \in Markers /\ procs[p].marker \in Markers
                            /\ procs[p].pc \in {"p_mode", "p_open", "p_statlocal", "t_stat", "t_remove", "t_create", "p_spawn",
                                                "c_setenv", "c_open", "c_go", "done", "fatal", "killed"}
                            /\ Len(p) <= 3

(* a sidecar is only ever launched by an application: neither its parent    *)
(* nor any ancestor of its parent carries (or was born with) a marker, and  *)
(* whatever runs below a sidecar is born with marker "2"                     *)
NoGrandchild == \A p \in Ids :
                  /\ IsSidecar(p) => \A a \in Ancestors(p) : procs[a].born = "unset"
                  /\ (\E a \in Ancestors(p) : procs[a].born # "unset") => procs[p].born = "2"
(* with mode off nothing is launched and nothing is written *)
NoChildWhenOff == mode = "off" => /\ \A p \in Ids : Len(p) = 1
                                  /\ wrote = {} /\ token = initToken
(* a sidecar exists only if crash reporting or an acquired token calls for it *)
ChildOnlyIfNeeded == \A p \in Ids : IsSidecar(p) =>
                       /\ mode # "off"
                       /\ (procs[Parent(p)].crash \/ procs[Parent(p)].acq)
                       /\ (procs[p].upvar => (procs[Parent(p)].acq \/ Lookup(procs[Parent(p)].env, UPLOAD) = "1"))
(* with no stale token present the token is acquired at most once within    *)
(* 24 hours; a fresh token stands for one acquisition already made           *)
AtMostOneAcquire == initToken # "stale" =>
                      (IF initToken = "fresh" THEN 1 ELSE 0) + Cardinality(Acquirers) <= 1
(* ... and then the holder's token stays in place *)
HolderKeepsToken == (initToken # "stale" /\ Acquirers # {}) => token = "fresh"
(* a fresh token is never removed or replaced, whatever fails *)
FreshTokenStays == initToken = "fresh" => token = "fresh"
(* only applications touch the token *)
OnlyApplicationsAcquire == \A p \in Acquirers : procs[p].born = "unset" /\ procs[p].upload
(* every process terminates (no kills, no blocking calls in this protocol) *)
Termination == <>[]Quiescent

(* for a single starter the quiescent outcome is the row of the table *)
(* the process the application launches as its sidecar finds GO_TELEMETRY_CHILD=1, *)
(* whatever the application itself inherited (unset, set but empty)              *)
IsLaunchedSidecar(p) == Len(p) > 1 /\ p[Len(p)] = "c"
SidecarSeesMarker == \A p \in Ids : IsLaunchedSidecar(p) => procs[p].born = "1"

RowOf(s) == [marker |-> ClassOf(Lookup(EnvOfMarker(cfg[s].marker), CHILD)), crash |-> cfg[s].crash, upload |-> cfg[s].upload,
             mode |-> mode, token |-> initToken, localOK |-> localOK]
OutcomeOf(s) ==
  LET mine == {p \in Ids : p[1] = s /\ Len(p) > 1} IN
  [ sidecars  |-> Cardinality({p \in mine : Len(p) = 2 /\ procs[p].born = "1"}),
    uploaders |-> Cardinality({p \in mine : Len(p) = 2 /\ procs[p].born = "1" /\ procs[p].upvar}),
    nested    |-> Cardinality({p \in mine : Len(p) > 2 /\ (procs[p].born = "1" \/ IsLaunchedSidecar(p))}),
    unmarked  |-> Cardinality({p \in mine : IsLaunchedSidecar(p) /\ procs[p].born # "1"}),
    freshRemoved |-> initToken = "fresh" /\ token # "fresh",
    launched  |-> Cardinality(mine),
    acquired  |-> procs[<<s>>].acq,
    wrote     |-> wrote ]
SequentialAgreesWithTable ==
  (Cardinality(Starters) = 1 /\ Quiescent /\ nf = 0) => \A s \in Starters : OutcomeOf(s) = Predicted(RowOf(s), [DefaultExtras EXCEPT !.leak = cfg[s].leak])
(* with no stale token present, two equal starters together do, in every    *)
(* interleaving, what two starts in sequence do according to the table       *)
PairAgreesWithTable ==
  (Starters = {"s1", "s2"} /\ Quiescent /\ nf = 0 /\ initToken # "stale" /\ cfg["s1"] = cfg["s2"]) =>
     \A s \in Starters : LET o == [x \in {"sidecars", "uploaders", "nested", "launched"} |->
                                      OutcomeOf("s1")[x] + OutcomeOf("s2")[x]]
                               q == Predicted(RowOf(s), [DefaultExtras EXCEPT !.calls = 2, !.leak = cfg[s].leak])
                           IN /\ \A x \in DOMAIN o : o[x] = q[x]
                              /\ (procs[<<"s1">>].acq \/ procs[<<"s2">>].acq) = q.acquired /\ wrote = q.wrote

(* ---- race windows (witness schedules are replayed on the real code) ---- *)
AtCreateSaw(x) == {p \in Ids : procs[p].pc = "t_create" /\ procs[p].seen = x}
W_BothSawAbsent == Cardinality(AtCreateSaw("absent")) >= 2
W_ThreeSawAbsent == Cardinality(AtCreateSaw("absent")) >= 3
W_BothSawStale == Cardinality({p \in Ids : procs[p].seen = "stale" /\ procs[p].pc \in {"t_remove", "t_create"}}) >= 2
W_ExclLost == "excl_lost" \in ev
W_RemovedNew == "removed_new" \in ev
W_RemoveMissing == "remove_missing" \in ev
W_StatSeesNew == "stat_new" \in ev
W_TwoAcquirers == Cardinality(Acquirers) >= 2
W_ThreeAcquirers == Cardinality(Acquirers) >= 3
W_HolderLostToken == Acquirers # {} /\ token = "absent"
W_TwoSidecars == Cardinality({p \in Ids : IsSidecar(p)}) >= 2
W_GoUnderSidecar == \E p \in Ids : procs[p].role = "go" /\ Len(p) = 3
W_StaleLoserAfterWinner == "excl_lost" \in ev /\ initToken = "stale"
(* windows of the failing-call / kill families: the fault happened and somebody else went on to the create *)
OthersAtCreate == \E p \in Ids : procs[p].pc = "t_create"
W_StatFailed == "stat_failed" \in ev /\ OthersAtCreate
W_RemoveFailed == "remove_failed" \in ev
W_CreateFailed == "create_failed" \in ev /\ OthersAtCreate
W_KilledBeforeRemove == "kill_remove" \in ev /\ OthersAtCreate
W_KilledBeforeCreate == "kill_create" \in ev /\ OthersAtCreate
W_KilledThenAcquired == (ev \cap {"kill_stat", "kill_remove", "kill_create"}) # {} /\ Acquirers # {}
W_SpawnFailed == "spawn_failed" \in ev /\ \E p \in Ids : procs[p].pc \in {"t_stat", "t_create"}
W_GhostCreateLost == initToken = "ghost" /\ "excl_lost" \in ev
=============================================================================
