----------------------------- MODULE StorageMC -----------------------------
(* Constants for the exhaustive and the simulation runs of Storage.tla.      *)
EXTENDS Storage
A == <<"a">>
B == <<"b">>
AB == <<"a", "b">>
Comps == {A, B, AB}

(* exhaustive runs: 8 names of depth <= 3, some of which conflict (a vs a/b, *)
(* ab vs ab/a/b: only one of each pair can be stored)                        *)
BfsNames == {<<A>>, <<AB>>, <<B, A>>, <<B, AB>>, <<A, B>>, <<B, B, A>>, <<B, B, B>>, <<AB, A, B>>}
SmallNames == {<<A>>, <<AB>>, <<B, A>>, <<B, AB>>, <<A, B>>, <<B, B, A>>}
QuickNames == {<<A>>, <<AB>>, <<B, A>>, <<A, B>>, <<B, B, A>>}
(* the runs with Copy: three names (a and a/b conflict), any of them may be   *)
(* tried as an absent source                                                 *)
TinyNames == {<<A>>, <<B, A>>, <<A, B>>}
(* simulation: absent copy sources are tried for these names *)
SimMiss == {<<A>>, <<B, AB>>, <<AB, A, B>>}

(* simulation: every name of depth <= 3 over the three components *)
SimNames == {<<x>> : x \in Comps} \cup {<<x, y>> : x, y \in Comps} \cup {<<x, y, z>> : x, y, z \in Comps}

AllPrefixes(N) == UNION {{SubSeq(NameStr(n), 1, k) : k \in 0..Len(NameStr(n))} : n \in N}
Misses == {<<"c">>, <<"b", "/", "c">>, <<"/">>, <<"a", "/", "/">>, <<"a", "b", "a">>}
BfsPrefixes == AllPrefixes(BfsNames) \cup Misses
SmallPrefixes == AllPrefixes(SmallNames) \cup Misses
QuickPrefixes == AllPrefixes(QuickNames) \cup Misses
TinyPrefixes == AllPrefixes(TinyNames) \cup {<<"c">>}
SimPrefixes == AllPrefixes(SimNames) \cup Misses \cup {NameStr(n) \o <<"/">> : n \in SimNames}

(* sanity of the vocabulary itself *)
ASSUME \A n \in SimNames \cup BfsNames : Ordinary(n) /\ Inside(n)
ASSUME ~Inside(<<<<".", ".">>, A>>) /\ ~Inside(<<A, <<".", ".">>, <<".", ".">>, B>>) /\ ~Ordinary(<<A, <<".", ".">>>>)
(* lexical resolution agrees with Inside on ordinary names, and decides the hostile shapes *)
DD == <<".", ".">>
Base == <<<<"r">>, <<"b", "k">>>>
ASSUME \A n \in SimNames \cup BfsNames : ResolvesInside(Base, n)
ASSUME /\ ~ResolvesInside(Base, <<DD, A>>)                        \* ../a
       /\ ~ResolvesInside(Base, <<DD, <<"o">>, A>>)               \* ../other/a : the neighbour bucket
       /\ ResolvesInside(Base, <<DD, <<"b", "k">>, A>>)           \* ../bk/a : back inside its own directory
       /\ ~ResolvesInside(Base, <<A, DD, DD, A>>)                 \* a/../../a
       /\ ~ResolvesInside(Base, <<A, <<>>, DD, DD, A>>)           \* a//../../a : an empty component is not a level
       /\ ResolvesInside(Base, <<<<>>, A, B>>)                    \* /a/b joined below the bucket
       /\ ~ResolvesInside(Base, <<A, DD>>) /\ ~ResolvesInside(Base, <<>>) /\ ~ResolvesInside(Base, <<<<".">>>>)
       /\ ~ResolvesInside(Base, <<DD, DD, DD, DD, A>>)            \* above the root
       /\ ResolvesInside(Base, <<<<".", ".", "\\", "a">>>>)       \* ..\a is one ordinary component here
ASSUME IsPrefix(<<"a">>, NameStr(<<AB, A>>)) /\ ~IsPrefix(<<"a", "/">>, NameStr(<<AB, A>>)) /\ IsPrefix(<<>>, NameStr(<<A>>))
ASSUME Conflict(<<A>>, <<A, B>>) /\ ~Conflict(<<A>>, <<AB>>) /\ ~Conflict(<<A, B>>, <<A, AB>>)
=============================================================================
