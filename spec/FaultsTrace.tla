----------------------------- MODULE FaultsTrace -----------------------------
(* code -> model for Faults.tla: every fault plan that was replayed on the     *)
(* instrumented real packages is one line of c05obs.ndjson                     *)
(*   [id, scn (index into Rec), plan: Seq(<<call index, errno>>),              *)
(*    fired: Seq([idx, step, kind, pc]), steps: Seq(observation of one step)]  *)
(* and TLC decides for every observed step whether it is what Faults.tla       *)
(* allows: the universal clauses of the property and the predicted class.      *)
EXTENDS Faults

Trace == ndJsonDeserialize("c05obs.ndjson")

PlanOf(c) == [j \in 1..Len(c.plan) |-> <<c.plan[j][1], c.plan[j][2]>>]

(* the run followed the recording: every fault whose position is known fired,   *)
(* at the recorded call                                                         *)
Conforms(c) ==
    LET s == c.scn  pl == PlanOf(c)  eff == Effective(s, pl) IN
    /\ \A i \in eff : \E j \in 1..Len(c.fired) : c.fired[j].idx = i
    /\ \A j \in 1..Len(c.fired) : c.fired[j].idx \in eff =>
          LET f == c.fired[j]  r == CallAt(s, f.idx) IN r.kind = f.kind /\ r.pc = f.pc /\ r.step = f.step

PrevParked(c, k) == k > 1 /\ c.steps[k - 1].parked
FiredUpTo(c, k) == \E j \in 1..Len(c.fired) : c.fired[j].step <= k
OddBefore(c, k) == \E j \in 1..k : Rec[c.scn].steps[j].odd
RmBefore(c, k)  == \E j \in 1..k : c.steps[j].op \in {"rmfile", "rmdir"}

(* the clauses that hold whatever fails *)
Universal(c, k) ==
    LET o == c.steps[k] IN
    (IF o.ret \notin {"ok", "skipped"} THEN {o.ret} ELSE {}) \cup
    (IF o.ret # "ok" THEN {} ELSE
       (IF o.others THEN {"other-counter-changed"} ELSE {}) \cup
       (IF o.parked /\ o.cur THEN {"parked-with-mapping"} ELSE {}) \cup
       (IF PrevParked(c, k) /\ ~o.parked /\ ~RotateLike(o.op) /\ o.op # "read" THEN {"unparked"} ELSE {}) \cup
       (IF o.dbl THEN {"double-unmap"} ELSE {}) \cup
       (IF o.op = "add" /\ PrevParked(c, k) /\ (o.dP # 0 \/ o.files) THEN {"parked-file-written"} ELSE {}) \cup
       (IF o.op = "add" /\ o.dP < 0 THEN {"persisted-decreased"} ELSE {}) \cup
       (IF o.op = "add" /\ o.dP + o.dE > o.n THEN {"count-invented"} ELSE {}) \cup
       (IF RotateLike(o.op) /\ ~o.parked /\ (~o.cur \/ ~o.today) THEN {"not-todays-file"} ELSE {}) \cup
       (IF o.op = "read" /\ ~FiredUpTo(c, k) /\ ~RmBefore(c, k) /\ ~OddBefore(c, k) /\ (o.rerr \/ o.rv # o.pv) THEN {"read-wrong"} ELSE {}))

(* the predicted class, where the documentation fixes one *)
Class(c, k, pr) ==
    LET o == c.steps[k]  p == pr[k] IN
    IF o.ret # "ok" THEN {} ELSE
       (IF p.park = "yes" /\ ~o.parked THEN {"not-parked"} ELSE {}) \cup
       (IF p.park = "no" /\ o.parked THEN {"parked-without-cause"} ELSE {}) \cup
       (IF p.mode = "persist" /\ ~(o.dP = o.n + o.pe /\ o.dE = 0 - o.pe) THEN {"not-persisted"} ELSE {}) \cup
       (IF p.mode = "memory" /\ ~(o.dP = 0 /\ o.dE >= 0 /\ o.dE <= o.n) THEN {"not-in-memory"} ELSE {})

UploadRules(c, k) ==
    LET o == c.steps[k] IN
    (IF o.ret \notin {"ok", "skipped"} THEN {o.ret} ELSE {}) \cup
    (IF o.ret = "ok" /\ Len(o.orphans) > 0 THEN {"count-file-deleted-without-report"} ELSE {}) \cup
    (IF o.ret = "ok" /\ Len(o.touched) > 0 THEN {"count-file-touched"} ELSE {})

BrokenAt(c) ==
    IF Rec[c.scn].family = "upload"
    THEN UNION {{<<k, r>> : r \in UploadRules(c, k)} : k \in 1..Len(c.steps)}
    ELSE LET pr   == Predict(c.scn, PlanOf(c))
             conf == Conforms(c)
         IN  UNION {{<<k, r>> : r \in Universal(c, k) \cup (IF conf THEN Class(c, k, pr) ELSE {})} : k \in 1..Len(c.steps)}

Bad      == UNION {{<<l, b[1], b[2]>> : b \in BrokenAt(Trace[l])} : l \in 1..Len(Trace)}
Diverged == {l \in 1..Len(Trace) : Rec[Trace[l].scn].family = "counter" /\ ~Conforms(Trace[l])}
ASSUME PrintT(<<"C05BAD", Bad>>)
ASSUME PrintT(<<"C05DIV", Diverged>>)

VARIABLE l
TInit == l = 1 /\ scn = 1 /\ fplan = <<>> /\ pred = <<>> /\ pm = NoMatcher
TNext == l < Len(Trace) /\ l' = l + 1 /\ UNCHANGED vars
TSpec == TInit /\ [][TNext]_<<l, vars>>
(* every observed case is a behaviour the specification allows *)
Explained == BrokenAt(Trace[l]) = {}
=============================================================================
