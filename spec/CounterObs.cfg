SPECIFICATION Spec
INVARIANTS UpperBound Quiescent Flushed PtrFresh Monotone
CHECK_DEADLOCK FALSE
