--------------------------- MODULE WebPipelineVec ---------------------------
(* X01, model -> code: every chain order (each subset of the four           *)
(* middlewares in each order) x handler behaviour x body class with the     *)
(* outcome WebPipeline.tla demands; plus every behaviour of marker chains   *)
(* up to length MaxChain for Chain's order of execution.  OrderMatters is   *)
(* checked on the specification itself.                                     *)
EXTENDS WebPipeline
CONSTANT MaxChain
VARIABLES kind, ord, b, body, exp, beh, events
vars == <<kind, ord, b, body, exp, beh, events>>

Canon(x, bd) == /\ x.act \in {"panic", "stallpanic", "writepanic", "stall", "silent"} => x.st = 200
                /\ ~x.reads => bd = "fits"
NoB == [act |-> "ok", st |-> 200, reads |-> FALSE]
Init == \/ /\ kind = "mw"
           /\ ord \in Orders /\ b \in Behaviours /\ body \in Bodies
           /\ Canon(b, body) /\ Specified(ord, b)
           /\ exp = Expected(ord, b, body)
           /\ beh = <<>> /\ events = <<>>
        \/ /\ kind = "chain"
           /\ beh \in ChainBehs(MaxChain)
           /\ events = ChainEvents(beh, 1)
           /\ ord = <<>> /\ b = NoB /\ body = "fits" /\ exp = Expected(<<>>, NoB, "fits")
Next == UNCHANGED vars
(* checked once, on the specification itself *)
ASSUME OrderMatters
(* a chain runs its handler exactly when nobody answered before it, and every *)
(* middleware that was entered is left, innermost first                       *)
ChainSane == kind = "chain" =>
    /\ (\E i \in 1..Len(events) : events[i] = 0) <=> (\A i \in 1..Len(beh) : beh[i] = "pass")
    /\ \A i \in 1..Len(events) : events[i] > 0 => events[Len(events) + 1 - i] = -events[i]
=============================================================================
