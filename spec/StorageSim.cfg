SPECIFICATION Spec
CHECK_DEADLOCK FALSE
CONSTANTS
 Buckets = {"u", "u2"}
 Names <- SimNames
 Datas = {"d0", "d1", "d2", "d3", "d4", "d5", "d6"}
 Prefixes <- SimPrefixes
 MaxOps = 0
 Styles = {"write", "nowrite", "copy", "uneven", "tiny"}
 EmptyData = "d0"
 CopyOn = TRUE
 CopyMiss <- SimMiss
 Handles = {1, 2}
