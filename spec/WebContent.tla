----------------------------- MODULE WebContent -----------------------------
(***************************************************************************)
(* X01 (extension engine) -- the content server of telemetry.go.dev        *)
(* (godev/internal/content) over a file system of pages.                   *)
(*                                                                         *)
(* What a user of the package relies on (package documentation, the doc    *)
(* comments of Server / Error / Status / handleErr, the expected outputs   *)
(* under godev/internal/content/testdata):                                 *)
(*                                                                         *)
(* G1 RESOLUTION IS A FUNCTION OF (file system, path).  "A request for a   *)
(*    path like /page will search the file system for page.md, page.html,  *)
(*    page/index.md and page/index.html and render HTML output for the     *)
(*    first file found."  A path with another extension names exactly that *)
(*    file, served verbatim.  The source of a page is never served: a      *)
(*    request that spells the .md/.html extension, or the "index" of a     *)
(*    directory, is answered 301 to the canonical path.  Nothing found =>  *)
(*    404.  A directory without index page is listed (testdata/noindex).   *)
(*    Every redirect chain ends after at most two hops, and the chain that *)
(*    starts at the spelled-out name of an existing page ends at a page.   *)
(*                                                                         *)
(* G2 CONFINEMENT.  For EVERY request path, however it is spelled (..,     *)
(*    //, %2e, %2f, backslashes, control characters), nothing outside the  *)
(*    roots of the served file system is ever read into a response, and a  *)
(*    redirect never leaves the site: its Location is a path on the same   *)
(*    host for every user agent (no scheme, no "//" or "/\" authority).    *)
(*                                                                         *)
(* G3 ERROR MAPPING.  A handler's result decides the status: nil keeps     *)
(*    what the handler wrote; content.Error(err, c) gives status c with    *)
(*    err's text; any other error gives 500; Status(w, c) gives c.  The    *)
(*    body of a 500 is the fixed generic text -- internal error text never *)
(*    reaches the client.  A request that merely fails to name a file is   *)
(*    the client's fault: 4xx, never 5xx.                                  *)
(*                                                                         *)
(* The operators below are written from that documentation.  Where it is   *)
(* silent the outcome is "any" (only G2 and the 5xx rule are demanded).    *)
(***************************************************************************)
EXTENDS Integers, Sequences, FiniteSets, TLC

(* ----------------------------------------------------------------------- *)
(* abstract request: what the documentation makes the answer depend on     *)
(*   ext   : extension of the last path element: none | md | html | other  *)
(*   index : the last element (without extension) is "index"               *)
(*   slash : the path ends in "/"                                          *)
(*   has   : which of the documented candidates exist for the path p       *)
(*           md = p.md, html = p.html, imd = p/index.md,                   *)
(*           ihtml = p/index.html, exact = p itself (none | file | dir)    *)
(* ----------------------------------------------------------------------- *)
Exts == {"none", "md", "html", "other"}
Exact == {"none", "file", "dir"}
HasSet == {h \in [md : BOOLEAN, html : BOOLEAN, imd : BOOLEAN, ihtml : BOOLEAN, exact : Exact] :
              (h.imd \/ h.ihtml) => h.exact = "dir"}
AbsReq == [ext : Exts, index : BOOLEAN, slash : BOOLEAN, has : HasSet]

Unspec == [k |-> "any", which |-> "", how |-> ""]
NotFound == [k |-> "notfound", which |-> "", how |-> ""]
Static == [k |-> "static", which |-> "exact", how |-> ""]
Page(w) == [k |-> "page", which |-> w, how |-> ""]
Redirect(h) == [k |-> "redirect", which |-> "", how |-> h]
Dir == [k |-> "dir", which |-> "", how |-> ""]

First(h) == IF h.md THEN "md" ELSE IF h.html THEN "html" ELSE IF h.imd THEN "imd" ELSE IF h.ihtml THEN "ihtml" ELSE ""

(* G1 *)
Outcome(x) ==
    LET h == x.has
        f == First(h)
    IN CASE x.ext \in {"md", "html"} -> IF x.slash THEN Unspec ELSE Redirect("ext")
         [] x.ext = "other" -> IF h.exact = "none" THEN NotFound
                               ELSE IF h.exact = "file" /\ ~x.slash THEN Static
                               ELSE Unspec
         [] x.ext = "none" ->
              IF f # ""
              THEN IF x.index
                   THEN IF f \in {"md", "html"} /\ ~x.slash THEN Redirect("index") ELSE Unspec
                   ELSE IF x.slash /\ f \in {"md", "html"} THEN Unspec      \* "/page/" : the documentation is silent
                   ELSE Page(f)
              ELSE IF h.exact = "file" THEN (IF x.index \/ x.slash THEN Unspec ELSE Static)
              ELSE IF h.exact = "dir" THEN (IF x.index THEN Unspec ELSE Dir)
              ELSE NotFound

(* does an observed answer agree with the demanded one?                      *)
(* obs.k: page | static | redirect | notfound | dirlist | dirslash | other    *)
Agrees(want, obs) ==
    CASE want.k = "any" -> TRUE
      [] want.k = "page" -> obs.k = "page" /\ obs.which = want.which
      [] want.k = "static" -> obs.k = "static"
      [] want.k = "redirect" -> obs.k = "redirect" /\ obs.how = want.how
      [] want.k = "notfound" -> obs.k = "notfound"
      [] want.k = "dir" -> obs.k \in {"dirlist", "dirslash"}

(* G2 + the status rule of G3, demanded of every answer whatsoever *)
SafeObs(o) == /\ ~o.leaked               \* no byte of a file outside the served roots
              /\ o.locsafe               \* Location (if any) stays on the site
              /\ (o.status >= 500 => o.broken)   \* 5xx only when an existing page cannot be rendered

(* ----------------------------------------------------------------------- *)
(* G3: result of a content.HandlerFunc -> response                         *)
(*   res: "nil" (handler wrote code c itself) | "annotated" (content.Error *)
(*   (err, c)) | "plain" (any other error) | "status" (content.Status(w,c)) *)
(* body: "handler" | "errtext" (the error's own text) | "generic" (the     *)
(* fixed text of a 500) | "statustext" (http.StatusText(c))                *)
(* ----------------------------------------------------------------------- *)
Results == {"nil", "annotated", "plain", "status"}
ErrResponse(res, c) ==
    CASE res = "nil" -> [status |-> c, body |-> "handler"]
      [] res = "plain" -> [status |-> 500, body |-> "generic"]
      [] res = "annotated" -> [status |-> c, body |-> IF c = 500 THEN "generic" ELSE "errtext"]
      [] res = "status" -> [status |-> c, body |-> IF c = 500 THEN "generic" ELSE "statustext"]

NoLeakOn500 == \A res \in Results, c \in 200..599 :
                  ErrResponse(res, c).status = 500 => ErrResponse(res, c).body \in {"generic", "handler"}

(* ----------------------------------------------------------------------- *)
(* concrete small file systems, for exhaustive enumeration                 *)
(* A path is a sequence of element names; Stem/Ext split a name.           *)
(* ----------------------------------------------------------------------- *)
Names == {"a", "index", "zz", "a.md", "a.html", "index.md", "index.html", "zz.html", "s.css", "zz.css"}
Stem == [n \in Names |->
           CASE n \in {"a", "a.md", "a.html"} -> "a"
             [] n \in {"index", "index.md", "index.html"} -> "index"
             [] n \in {"zz", "zz.html", "zz.css"} -> "zz"
             [] n = "s.css" -> "s"]
ExtOf == [n \in Names |->
           CASE n \in {"a", "index", "zz"} -> "none"
             [] n \in {"a.md", "index.md"} -> "md"
             [] n \in {"a.html", "index.html", "zz.html"} -> "html"
             [] n \in {"s.css", "zz.css"} -> "other"]
WithExt(stem, e) == CHOOSE n \in Names \cup {"-"} :
                       IF \E m \in Names : Stem[m] = stem /\ ExtOf[m] = e
                       THEN n \in Names /\ Stem[n] = stem /\ ExtOf[n] = e
                       ELSE n = "-"          \* no such name in the universe: cannot exist in any FS

(* the candidate files of the universe, numbered *)
Files == << <<"a.md">>, <<"a.html">>, <<"a">>, <<"a", "index.md">>, <<"a", "index.html">>, <<"a", "s.css">>,
            <<"index.md">>, <<"index.html">>, <<"s.css">> >>
NF == Len(Files)
(* a regular file "a" excludes a directory "a" *)
WellFormed(fs) == 3 \in fs => fs \cap {4, 5, 6} = {}
FSs == {fs \in SUBSET (1..NF) : WellFormed(fs)}

IsFile(fs, p) == \E i \in fs : Files[i] = p
IsDir(fs, p) == p = <<>> \/ \E i \in fs : Len(Files[i]) > Len(p) /\ SubSeq(Files[i], 1, Len(p)) = p
ExactOf(fs, p) == IF IsFile(fs, p) THEN "file" ELSE IF IsDir(fs, p) THEN "dir" ELSE "none"
Front(p) == SubSeq(p, 1, Len(p) - 1)
Last(p) == p[Len(p)]
Sibling(p, e) == Append(Front(p), WithExt(Stem[Last(p)], e))

(* requests of the universe: at most two elements, the first of two a plain name *)
Paths == {<<>>} \cup {<<n>> : n \in Names} \cup {<<d, n>> : d \in {"a", "zz", "index"}, n \in Names}
Requests == [segs : Paths, slash : BOOLEAN]

AbstractOf(fs, rq) ==
    LET p == rq.segs IN
    IF p = <<>>
    THEN [ext |-> "none", index |-> FALSE, slash |-> TRUE,
          has |-> [md |-> FALSE, html |-> FALSE, imd |-> IsFile(fs, <<"index.md">>), ihtml |-> IsFile(fs, <<"index.html">>), exact |-> "dir"]]
    ELSE [ext |-> ExtOf[Last(p)], index |-> Stem[Last(p)] = "index", slash |-> rq.slash,
          has |-> IF ExtOf[Last(p)] = "none"
                  THEN [md |-> IsFile(fs, Sibling(p, "md")), html |-> IsFile(fs, Sibling(p, "html")),
                        imd |-> IsFile(fs, Append(p, "index.md")), ihtml |-> IsFile(fs, Append(p, "index.html")),
                        exact |-> ExactOf(fs, p)]
                  ELSE [md |-> FALSE, html |-> FALSE, imd |-> FALSE, ihtml |-> FALSE, exact |-> ExactOf(fs, p)]]

(* the concrete answer: which file is rendered / where the redirect goes *)
FileOf(p, which) ==
    CASE which = "md" -> Sibling(p, "md") [] which = "html" -> Sibling(p, "html")
      [] which = "imd" -> Append(p, "index.md") [] which = "ihtml" -> Append(p, "index.html")
      [] which = "exact" -> p
RootFileOf(which) == IF which = "imd" THEN <<"index.md">> ELSE <<"index.html">>

Resolve(fs, rq) ==
    LET o == Outcome(AbstractOf(fs, rq))
        p == rq.segs
    IN CASE o.k \in {"page", "static"} -> [k |-> o.k, file |-> IF p = <<>> THEN RootFileOf(o.which) ELSE FileOf(p, o.which), to |-> <<>>]
         [] o.k = "redirect" -> [k |-> "redirect", file |-> <<>>,
                                 to |-> IF o.how = "ext" THEN Sibling(p, "none") ELSE Front(p)]
         [] OTHER -> [k |-> o.k, file |-> <<>>, to |-> <<>>]
=============================================================================
