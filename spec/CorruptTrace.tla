---------------------------- MODULE CorruptTrace ----------------------------
(* code -> model for Corrupt.tla: every corrupt file that was written to disk  *)
(* and opened by the real library is one line of c05corrupt.ndjson             *)
(*   [free (BOOLEAN), file: the damage classes, op, o: the observed outcome]   *)
(* and TLC decides whether the outcome is what Corrupt.tla allows.  Lines with *)
(* free = TRUE are randomly damaged files: only the clauses that hold for      *)
(* every damage are decided for them.                                          *)
EXTENDS Corrupt, Json

Trace == ndJsonDeserialize("c05corrupt.ndjson")

VerdictFree(o) ==
    IF Safety(o) # "ok" THEN Safety(o)
    ELSE IF o.open = "inconsistent" THEN "open-class"
    ELSE IF o.open = "parks" /\ ~o.untouched THEN "parked-file-written"
    ELSE IF o.open = "parks" /\ ~ModeAccepts("memory", o.mode) THEN "mode-class"
    ELSE "ok"
VerdictOf(x) == IF x.free THEN VerdictFree(x.o) ELSE Verdict(x.file, x.op, x.o)
(* what the lookup of the operation's name meets, for signatures *)
LookupOf(x) == IF x.free \/ x.op = "upload" \/ TooShort(x.file) \/ x.file.hdr # "ok" THEN "-" ELSE Lookup(x.file, x.op)[1]

WantOf(x) == IF x.free THEN (IF x.o.open = "parks" THEN "memory" ELSE "any") ELSE ExpectMode(x.file, x.op)
Bad == {<<i, VerdictOf(Trace[i]), LookupOf(Trace[i]), WantOf(Trace[i])>> : i \in {j \in 1..Len(Trace) : VerdictOf(Trace[j]) # "ok"}}
ASSUME PrintT(<<"C05CBAD", Bad>>)

VARIABLE l
TInit == l = 1 /\ file = Undamaged /\ op = "addE" /\ exp = Expected(Undamaged, "addE")
TNext == l < Len(Trace) /\ l' = l + 1 /\ UNCHANGED vars
TSpec == TInit /\ [][TNext]_<<l, vars>>
=============================================================================
