------------------------------ MODULE ServerMC ------------------------------
(* Constants of the C12 runs: an upload configuration, the structural        *)
(* classes of every request field, and the request sets built from them      *)
(* (all requests that deviate from a valid primary request in at most k      *)
(* of the nine fields method, week, config, X, programs, size, path, layout, LastWeek).  checks/c12.py concretizes every abstract request into bytes and *)
(* reads the configuration from the JSON file written below.                 *)
EXTENDS Server, Json

(* ---- upload configuration ------------------------------------------------- *)
GOPLS == "golang.org/x/tools/gopls"
CMDGO == "cmd/go"
MCGOOS == {"linux", "darwin"}
MCGOARCH == {"amd64", "arm64"}
MCGoVersion == {"go1.20", "go1.20.1"}
MCPrograms ==
    (GOPLS :> [versions |-> {"v0.10.1", "v0.11.0"},
               counters |-> {[prefix |-> "editor:", buckets |-> {"emacs", "vim", "vscode", "other"}],
                             [prefix |-> "gopls/completion/used", buckets |-> {}]},
               stacks |-> {"gopls/bug"}]) @@
    (CMDGO :> [versions |-> {"go1.20", "go1.20.1"},
               counters |-> {[prefix |-> "go/buildcache/miss:", buckets |-> {"0", "0.1", "1"}],
                             [prefix |-> "go/invocations", buckets |-> {}]},
               stacks |-> {}])
MCLimit == 102400      \* nominal; the harness pads relative to the server's real limit

ASSUME JsonSerialize("servercfg.json",
          [GOOS |-> MCGOOS, GOARCH |-> MCGOARCH, GoVersion |-> MCGoVersion,
           Programs |-> [p \in DOMAIN MCPrograms |->
                            [versions |-> MCPrograms[p].versions,
                             counters |-> MCPrograms[p].counters,
                             stacks |-> MCPrograms[p].stacks]]])

(* ---- weeks ---------------------------------------------------------------- *)
Iso(y, m, d) == [shape |-> "iso", y |-> y, m |-> m, d |-> d, path |-> <<"n">>]
IsoDates == {<<2023, 1, 1>>, <<2024, 2, 29>>, <<2023, 2, 29>>, <<2023, 2, 28>>, <<2023, 2, 30>>,
             <<2023, 4, 30>>, <<2023, 4, 31>>, <<2023, 6, 31>>, <<2023, 7, 31>>, <<2023, 12, 31>>,
             <<2023, 13, 1>>, <<2023, 0, 10>>, <<2023, 1, 0>>, <<2023, 1, 32>>, <<2023, 12, 32>>,
             <<1900, 2, 29>>, <<2000, 2, 29>>, <<2100, 2, 29>>, <<9999, 12, 31>>, <<1, 1, 1>>}
IsoWeeks == {Iso(t[1], t[2], t[3]) : t \in IsoDates}
            \cup {[Iso(2023, 1, 1) EXCEPT !.shape = "isoesc"], [Iso(2023, 2, 30) EXCEPT !.shape = "isoesc"]}
(* shapes that are not YYYY-MM-DD; the path is that of the text the harness  *)
(* sends for the shape (2023-01-01 written differently, or a path)           *)
OtherShape(s, p) == [shape |-> s, y |-> 2023, m |-> 1, d |-> 1, path |-> p]
OtherWeeks == {OtherShape("absent", <<>>), OtherShape("empty", <<>>),
               OtherShape("short", <<"n">>),          \* 2023-1-1
               OtherShape("slash", <<"n", "n", "n">>),\* 2023/01/01
               OtherShape("trailx", <<"n">>),         \* 2023-01-01x
               OtherShape("trailslash", <<"n", "e">>),\* 2023-01-01/
               OtherShape("trailpath", <<"n", "dd", "dd", "n">>),   \* 2023-01-01/../../x
               OtherShape("dotdot", <<"dd", "n">>),   \* ../x
               OtherShape("dotdot3", <<"dd", "dd", "dd", "n">>),
               OtherShape("dot", <<"d">>),
               OtherShape("abs", <<"e", "n", "n">>),  \* /tmp/x
               OtherShape("lead", <<"n">>),           \* " 2023-01-01"
               OtherShape("trailnl", <<"n">>),        \* "2023-01-01\n"
               OtherShape("nul", <<"n">>),            \* "2023-01-01\u0000"
               OtherShape("time", <<"n">>),           \* 2023-01-01T00:00:00Z
               OtherShape("five", <<"n">>),           \* 02023-01-01
               OtherShape("two", <<"n">>),            \* 23-01-01
               OtherShape("compact", <<"n">>),        \* 20230101
               OtherShape("dmy", <<"n">>),            \* 01-01-2023
               OtherShape("fullwidth", <<"n">>),      \* fullwidth digits
               OtherShape("word", <<"n">>),           \* "week"
               OtherShape("long", <<"n">>),           \* 5000 characters
               OtherShape("percent", <<"n">>)}        \* "%s%d%!v(MISSING)" (format verbs)
Weeks == IsoWeeks \cup OtherWeeks
PWeek == Iso(2023, 1, 1)

(* ---- configs -------------------------------------------------------------- *)
Cfg(v, nums, pre, build) == [v |-> v, nums |-> nums, pre |-> pre, build |-> build]
N3 == <<"num", "num", "num">>
PConfig == Cfg(TRUE, N3, "none", "none")
Configs == {PConfig, Cfg(TRUE, N3, "ok", "none"), Cfg(TRUE, N3, "none", "ok"), Cfg(TRUE, N3, "ok", "ok"),
            Cfg(FALSE, N3, "none", "none"), Cfg(FALSE, <<>>, "none", "none"), Cfg(TRUE, <<"empty">>, "none", "none"),
            Cfg(TRUE, <<"num", "num", "num", "num">>, "none", "none"),
            Cfg(TRUE, <<"lead0", "num", "num">>, "none", "none"), Cfg(TRUE, <<"num", "num", "lead0">>, "none", "none"),
            Cfg(TRUE, <<"bad", "num", "num">>, "none", "none"), Cfg(TRUE, <<"num", "empty", "num">>, "none", "none"),
            Cfg(TRUE, <<"num", "num", "empty">>, "none", "none"),
            Cfg(TRUE, N3, "empty", "none"), Cfg(TRUE, N3, "lead0", "none"), Cfg(TRUE, N3, "bad", "none"),
            Cfg(TRUE, N3, "none", "empty"), Cfg(TRUE, N3, "none", "bad"), Cfg(TRUE, N3, "ok", "bad"),
            Cfg(FALSE, <<"bad">>, "none", "none"),
            Cfg(TRUE, <<"num">>, "none", "none"), Cfg(TRUE, <<"num", "num">>, "none", "none")}

(* ---- X -------------------------------------------------------------------- *)
XC(kind, val, lit) == [kind |-> kind, val |-> val, lit |-> lit]
PX == XC("nonzero", "0.5", "0.5")
Xs == {PX, XC("nonzero", "0.5", "5e-1"), XC("nonzero", "0.25", "0.25"), XC("nonzero", "1e-07", "0.0000001"),
       XC("nonzero", "-1.0", "-1"), XC("nonzero", "1e+308", "1e308"), XC("nonzero", "1.0", "1"),
       XC("nonzero", "5e-324", "5e-324"), XC("nonzero", "123456789.0", "123456789"), XC("nonzero", "100.0", "1E+2"),
       XC("nonzero", "1.7976931348623157e+308", "1.7976931348623157e308"), XC("nonzero", "2.2250738585072014e-308", "2.2250738585072014e-308"),
       XC("nonzero", "0.12345678901234568", "0.1234567890123456789"), XC("nonzero", "1e+21", "1e21"),
       XC("nonzero", "1e+20", "100000000000000000000"), XC("nonzero", "1e-05", "0.00001"), XC("nonzero", "0.0001", "0.0001"),
       XC("nonzero", "-5e-324", "-5e-324"),
       XC("zero", "0", "0"), XC("zero", "0", "-0"), XC("zero", "0", "0.0"), XC("zero", "0", "0e10"), XC("zero", "0", "absent"),
       XC("overflow", "inf", "1e999"), XC("overflow", "-inf", "-1e999"), XC("underflow", "0", "1e-999")}

(* ---- programs ------------------------------------------------------------- *)
Prog(p, v, gv, os, arch, cs, ss) == [nil |-> FALSE, program |-> p, version |-> v, goversion |-> gv, goos |-> os,
                                     goarch |-> arch, counters |-> cs, stacks |-> ss]
NilProg == [nil |-> TRUE, program |-> "", version |-> "", goversion |-> "", goos |-> "", goarch |-> "", counters |-> {}, stacks |-> {}]
St(first, more) == [first |-> first, more |-> more]
OK1 == Prog(GOPLS, "v0.10.1", "go1.20", "linux", "amd64", {"editor:vim"}, {})
OKFull == Prog(GOPLS, "v0.11.0", "go1.20.1", "darwin", "arm64", {"editor:vim", "editor:emacs", "gopls/completion/used"},
               {St("gopls/bug", TRUE)})
OK2 == Prog(CMDGO, "go1.20", "go1.20.1", "linux", "arm64", {"go/invocations", "go/buildcache/miss:0.1"}, {})
OKBare == Prog(GOPLS, "v0.10.1", "go1.20", "darwin", "amd64", {}, {St("gopls/bug", FALSE)})
Bads == {[OKFull EXCEPT !.program = v] : v \in {"golang.org/x/tools/goplz", "", "Cmd/go", CMDGO}}
   \cup {[OKFull EXCEPT !.version = v] : v \in {"v0.12.0", "go1.20", "", "v0.11.0 "}}
   \cup {[OKFull EXCEPT !.goversion = v] : v \in {"go1.21", "", "go1.20.2", "1.20"}}
   \cup {[OKFull EXCEPT !.goos = v] : v \in {"plan9", "arm64", "", "Linux"}}
   \cup {[OKFull EXCEPT !.goarch = v] : v \in {"386", "darwin", "", "amd64 "}}
   \cup {[OKFull EXCEPT !.counters = @ \cup {v}] : v \in {"editor:helix", "editor:{emacs,vim,vscode,other}", "editor:", "editor",
                                                        "go/invocations", "gopls/bug", "Editor:vim", "editor:vim ", ""}}
   \cup {[OKFull EXCEPT !.stacks = @ \cup {v}] : v \in {St("gopls/bugs", TRUE), St("editor:vim", TRUE), St("", TRUE),
                                                      St("gopls/bug ", FALSE), St("gopls", TRUE)}}
   \cup {[OK2 EXCEPT !.stacks = {St("gopls/bug", TRUE)}], [OK2 EXCEPT !.counters = {"editor:vim"}],
         [OK2 EXCEPT !.version = "v0.10.1"]}
   \cup {Prog("", "", "", "", "", {}, {}),                          \* an empty program object {}
         Prog(GOPLS, "", "", "", "", {}, {}),                       \* only the program name
         Prog("", "v0.10.1", "go1.20", "linux", "amd64", {"editor:vim"}, {})}   \* everything but the program name
SomeBads == {[OKFull EXCEPT !.goos = "plan9"], [OKFull EXCEPT !.counters = @ \cup {"editor:helix"}],
             [OKFull EXCEPT !.stacks = @ \cup {St("gopls/bugs", TRUE)}]}
PL(pf, ps) == [pform |-> pf, programs |-> ps]
PProgs == PL("list", <<OK1>>)
ProgLists == {PL("absent", <<>>), PL("null", <<>>), PL("list", <<>>), PProgs, PL("list", <<OKFull>>), PL("list", <<OK2>>),
              PL("list", <<OKBare>>), PL("list", <<OK1, OK2>>), PL("list", <<OK1, OK1>>), PL("list", <<OKFull, OK2, OKBare>>)}
        \cup {PL("list", <<b>>) : b \in Bads}
        \cup {PL("list", <<OK1, b>>) : b \in SomeBads} \cup {PL("list", <<b, OK2>>) : b \in SomeBads}
        \cup {PL("list", [i \in 1..40 |-> OK1]),                                   \* many programs, all approved
              PL("list", [i \in 1..40 |-> IF i = 40 THEN [OKFull EXCEPT !.goos = "plan9"] ELSE OK1]),   \* ... the last one not
              PL("list", [i \in 1..40 |-> IF i = 17 THEN [OKFull EXCEPT !.counters = @ \cup {"editor:helix"}] ELSE OK2])}
        \cup {PL("list", <<NilProg>>), PL("list", <<OK1, NilProg>>), PL("list", <<NilProg, OK1>>),
              PL("list", <<NilProg, [OKFull EXCEPT !.goos = "plan9"]>>)}

(* ---- methods, sizes -------------------------------------------------------- *)
Methods == {"POST", "GET", "HEAD", "PUT", "DELETE", "PATCH", "OPTIONS", "post"}
(* body length classes: lenc names the class, len is its nominal length.     *)
(* pad says where the filler goes: inside the (unvalidated) LastWeek string  *)
(* or as blanks before the JSON value.  declared says whether the request    *)
(* announces its length (Content-Length) or not (chunked, length unknown).   *)
LenC(c, n, pad, decl) == [lenc |-> c, len |-> n, pad |-> pad, declared |-> decl]
PLen == LenC("small", 0, "none", TRUE)
Lens == {PLen, LenC("small", 0, "none", FALSE)}
        \cup {LenC("lim-1", MCLimit - 1, "lastweek", d) : d \in BOOLEAN}
        \cup {LenC("lim", MCLimit, p, d) : p \in {"lastweek", "lead"}, d \in BOOLEAN}
        \cup {LenC("lim+1", MCLimit + 1, p, d) : p \in {"lastweek", "lead"}, d \in BOOLEAN}
        \cup {LenC("3lim", 3 * MCLimit, "lastweek", d) : d \in BOOLEAN}

(* ---- things the decision must NOT depend on -------------------------------- *)
(* the request path below /upload/ (the object is named by the report, never *)
(* by the URL): "root" /upload/, "named" /upload/<a week>/<an X>.json,       *)
(* "dotdot" /upload/..%2F..%2Fx.json, "deep" /upload/a/b/c/d.json,           *)
(* "query" /upload/?Week=..%2Fx&X=9                                          *)
Paths == {"root", "named", "dotdot", "deep", "query"}
(* how the JSON text is laid out: "compact"; "pretty" (indented, CRLF line   *)
(* ends, blanks after colons); "reversed" (fields in reverse order); and the *)
(* loose layouts of Server.tla: a second JSON value and text after the       *)
(* report, an unknown field, the Week key twice (first a hostile one)        *)
Layouts == {"compact", "pretty", "reversed"} \cup LooseLayouts
(* the LastWeek field (never validated, part of the stored content): 0 "",   *)
(* 1 a date, 2 non-ASCII text with U+2028, 3 HTML/JSON special characters,   *)
(* 4 a path                                                                  *)
LastWeeks == 0..4

(* ---- requests -------------------------------------------------------------- *)
Mk(t) == [kind |-> "report", gshape |-> "-", method |-> t[1], week |-> t[2], config |-> t[3], x |-> t[4],
          pform |-> t[5].pform, programs |-> t[5].programs, lenc |-> t[6].lenc, len |-> t[6].len, pad |-> t[6].pad, declared |-> t[6].declared,
          path |-> t[7], layout |-> t[8], tag |-> t[9]]
Prim == <<"POST", PWeek, PConfig, PX, PProgs, PLen, "root", "compact", 0>>
Dom == <<Methods, Weeks, Configs, Xs, ProgLists, Lens, Paths, Layouts, LastWeeks>>
NF == 9
(* all requests that deviate from Prim in exactly the positions S *)
D(i, S) == IF i \in S THEN Dom[i] \ {Prim[i]} ELSE {Prim[i]}
Subsets(k) == {T \in SUBSET (1..NF) : Cardinality(T) <= k}
Reports(k) == UNION {{Mk(<<m, w, c, x, p, l, pa, la, lw>>) : m \in D(1, S), w \in D(2, S), c \in D(3, S), x \in D(4, S), p \in D(5, S), l \in D(6, S),
                                                           pa \in D(7, S), la \in D(8, S), lw \in D(9, S)} :
                        S \in Subsets(k)}

GShapes == {"empty", "nobody", "notjson", "binary", "form", "truncated", "truncated1", "unclosed-string", "wrongtype-week",
            "wrongtype-x", "wrongtype-config", "wrongtype-programs", "wrongtype-program", "wrongtype-counters", "wrongtype-counter",
            "counter-float", "counter-overflow", "array", "string", "number", "null", "emptyobj", "true", "deep"}
Garbage == {[kind |-> "garbage", gshape |-> g, method |-> m, week |-> PWeek, config |-> PConfig, x |-> PX,
             pform |-> "absent", programs |-> <<>>, lenc |-> l.lenc, len |-> l.len, pad |-> l.pad, declared |-> l.declared,
             path |-> "root", layout |-> "compact", tag |-> 0] :
               g \in GShapes, m \in {"POST", "GET", "PUT"},
               l \in {PLen, LenC("3lim", 3 * MCLimit, "garbage", TRUE), LenC("3lim", 3 * MCLimit, "garbage", FALSE)}}

(* request sets of the state-machine runs (ServerReq1, ServerReqSim); the     *)
(* large sets of the vector runs are enumerated lazily in ServerVec.tla      *)
ReqsK(k) == UNION {Reports(k), IF k = 1 THEN {g \in Garbage : g.method = "POST" /\ g.lenc = "small"} ELSE Garbage}
(* histories: requests whose outcome the property fixes *)
Decided(R) == {r \in R : Decision(r) # "either"}

(* ---- initial buckets ------------------------------------------------------- *)
PReq == Mk(Prim)
Pre1 == [Mk(Prim) EXCEPT !.tag = 1]                            \* same name as the primary request, other (longer) content
Pre2 == Mk(<<"POST", Iso(2024, 2, 29), PConfig, XC("nonzero", "0.25", "0.25"), PL("list", <<OK2>>), PLen, "root", "compact", 0>>)
MCInit == [empty |-> <<>>,
           prepop |-> (Key(Pre1) :> Content(Pre1)) @@ (Key(Pre2) :> Content(Pre2))]
(* the requests that build the initial buckets, for the harness *)
ASSUME JsonSerialize("serverinit.json", [empty |-> <<>>, prepop |-> <<Pre1, Pre2>>])

(* sanity of the classes themselves *)
ASSUME Decision(PReq) = "store" /\ Decision(Pre1) = "store" /\ Decision(Pre2) = "store"
ASSUME \A b \in Bads : ~ApprovedProgram(b)
ASSUME ApprovedProgram(OK1) /\ ApprovedProgram(OKFull) /\ ApprovedProgram(OK2) /\ ApprovedProgram(OKBare)
ASSUME WeekVerdict(Iso(2024, 2, 29)) = "valid" /\ WeekVerdict(Iso(2023, 2, 29)) = "invalid" /\ WeekVerdict(Iso(1900, 2, 29)) = "invalid"
       /\ WeekVerdict(Iso(2000, 2, 29)) = "valid" /\ WeekVerdict(Iso(2023, 4, 31)) = "invalid" /\ WeekVerdict(Iso(0, 1, 1)) = "unspecified"
ASSUME {w \in OtherWeeks : WeekVerdict(w) # "invalid"} = {}
ASSUME ~InsideBucket(<<"dd", "n", "n">>) /\ ~InsideBucket(<<"n", "dd", "dd", "n", "n">>) /\ ~InsideBucket(<<"e", "n", "n">>)
       /\ InsideBucket(<<"n", "n">>) /\ ~InsideBucket(<<"n", "dd">>) /\ InsideBucket(<<"n", "dd", "n", "n">>)
=============================================================================
