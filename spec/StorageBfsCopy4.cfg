SPECIFICATION SpecBfs
CONSTRAINT Bounded
INVARIANTS ResultFromHistory Confined NoConflicts
PROPERTIES OtherBucketsUntouched OnlyWritesChange OnlyTargetChanges
CHECK_DEADLOCK FALSE
CONSTANTS
 Buckets = {"u", "u2"}
 Names <- TinyNames
 Datas = {"d0", "d1"}
 Prefixes <- TinyPrefixes
 MaxOps = 4
 Styles = {"write"}
 EmptyData = "d0"
 CopyOn = TRUE
 CopyMiss <- TinyNames
 Handles = {1}
