--------------------------- MODULE WebRoutesTrace ---------------------------
(* X01, code -> model: pages of the real server over random bucket contents *)
(* (arbitrary dates as day numbers); TLC decides each with Answer/AgreesR.  *)
EXTENDS WebRoutes, Json
Trace == ndJsonDeserialize("x01routes.ndjson")
VARIABLE bad
SetOf(s) == {s[i] : i \in DOMAIN s}
Ok(r) == AgreesR(Answer(SetOf(r.chart), SetOf(r.merged), r.req),
                 [status |-> r.obs.status, what |-> r.obs.what, objs |-> SetOf(r.obs.objs), changed |-> r.obs.changed])
Init == bad = {i \in 1..Len(Trace) : ~Ok(Trace[i])}
Next == UNCHANGED bad
AllExplained == bad = {}
=============================================================================
