SPECIFICATION TSpec
CHECK_DEADLOCK FALSE
INVARIANTS O_Conform O_EndToEnd O_StoreIsApprovedSubset O_StoreValid O_MarkersMatchStore O_SendOnlyWithConsent O_NothingInModeOff O_LocalReportsComplete O_IncLands O_Quiet O_MergeFaithful O_ChartCounts
CONSTANTS
 Builds <- MCBuilds
 BuildRec <- MCBuildRec
 Names <- MCNames
 Chars <- MCChars
 Carry <- MCCarry
 Cfg <- MCCfg
 D = 8
 ChartDesc <- MCChartDesc
 InitModes <- MCInitModes
 Anchors = {19767}
 Horizon = 100000
 WeekEnds = {0, 1, 2, 3, 4, 5, 6}
 TickKinds = {"half", "day", "wkend", "week", "old"}
 SetModes = {"on", "off", "local"}
 Xs = {0, 2, 5, 7}
 MaxInc = 1000000
 MaxRun = 1000000
 MaxDown = 1000000
 MaxSet = 1000000
 MaxWork = 1000000
 Phased = FALSE
