----------------------------- MODULE StrayNames -----------------------------
(* Property C05, state of the telemetry directory: leftover files in local/    *)
(* whose names only look like reports.  In mode "on" the uploader takes every  *)
(* "*.json" that does not start with "local." for a report that is ready to be *)
(* uploaded, and derives the week from the last ten bytes of the name - so the  *)
(* LENGTH of the name relative to a date (10 bytes) and the SHAPE of its tail   *)
(* are what the code branches on.  Whatever the name, upload.Run returns (no    *)
(* panic escapes, on whichever goroutine), handles the real count files as      *)
(* always, and never removes a file it did not take for a report.               *)
EXTENDS Integers, FiniteSets, TLC

DateLen == 10
(* class |-> [len: bytes before ".json", json: ends in ".json", localp: starts with "local.", tail: what the last 10 bytes are, dir: a directory] *)
Classes == {"dotjson", "one", "space", "multibyte", "nine", "ten-text", "baddate", "future", "prefixed", "upper", "local-short", "dir-short"}
Shape(c) ==
    CASE c = "dotjson"     -> [len |-> 0,  json |-> TRUE,  localp |-> FALSE, tail |-> "short",   dir |-> FALSE]   \* ".json"
      [] c = "one"         -> [len |-> 1,  json |-> TRUE,  localp |-> FALSE, tail |-> "short",   dir |-> FALSE]   \* "x.json"
      [] c = "space"       -> [len |-> 1,  json |-> TRUE,  localp |-> FALSE, tail |-> "short",   dir |-> FALSE]   \* " .json"
      [] c = "multibyte"   -> [len |-> 6,  json |-> TRUE,  localp |-> FALSE, tail |-> "short",   dir |-> FALSE]   \* 4 letters, 6 bytes
      [] c = "nine"        -> [len |-> 9,  json |-> TRUE,  localp |-> FALSE, tail |-> "short",   dir |-> FALSE]   \* one byte less than a date
      [] c = "ten-text"    -> [len |-> 10, json |-> TRUE,  localp |-> FALSE, tail |-> "text",    dir |-> FALSE]   \* as long as a date, not a date
      [] c = "baddate"     -> [len |-> 10, json |-> TRUE,  localp |-> FALSE, tail |-> "baddate", dir |-> FALSE]   \* 2024-13-45
      [] c = "future"      -> [len |-> 10, json |-> TRUE,  localp |-> FALSE, tail |-> "future",  dir |-> FALSE]   \* a date after today
      [] c = "prefixed"    -> [len |-> 17, json |-> TRUE,  localp |-> FALSE, tail |-> "date",    dir |-> FALSE]   \* report-2024-01-01
      [] c = "upper"       -> [len |-> 1,  json |-> FALSE, localp |-> FALSE, tail |-> "short",   dir |-> FALSE]   \* X.JSON
      [] c = "local-short" -> [len |-> 7,  json |-> TRUE,  localp |-> TRUE,  tail |-> "short",   dir |-> FALSE]   \* local.x.json
      [] c = "dir-short"   -> [len |-> 1,  json |-> TRUE,  localp |-> FALSE, tail |-> "short",   dir |-> TRUE]    \* a directory y.json
Modes == {"on", "local"}

(* taken for a report that is ready for upload *)
TakenForReport(c, m) == m = "on" /\ Shape(c).json /\ ~Shape(c).localp
(* the name carries a week *)
HasWeek(c) == Shape(c).len >= DateLen /\ Shape(c).tail \in {"date", "future"}
(* what may happen to the stray file: a file taken for a report may be posted and then removed; nothing else is touched *)
MayBeRemoved(c, m) == TakenForReport(c, m) /\ ~Shape(c).dir

(* observed: o = [ret, others (count files mishandled), gone (the stray file is no longer there)] *)
Verdict(c, m, o) ==
    IF o.ret # "ok" THEN o.ret
    ELSE IF o.others THEN "count-file-mishandled"
    ELSE IF o.gone /\ ~MayBeRemoved(c, m) THEN "stray-file-removed"
    ELSE "ok"

VARIABLES cls, mode
vars == <<cls, mode>>
Init == cls \in Classes /\ mode \in Modes
Next == UNCHANGED vars
Spec == Init /\ [][Next]_vars

(* sanity: a name shorter than a date cannot carry a week, yet it is taken for a report; nothing is taken outside mode on *)
ShortHasNoWeek   == Shape(cls).len < DateLen => ~HasWeek(cls)
ShortIsStillTaken == \E c \in Classes : Shape(c).len < DateLen /\ TakenForReport(c, "on")
OnlyOnTakes      == TakenForReport(cls, mode) => mode = "on"
LocalNeverTaken  == Shape(cls).localp => ~TakenForReport(cls, mode)
Sane == ShortHasNoWeek /\ ShortIsStillTaken /\ OnlyOnTakes /\ LocalNeverTaken
=============================================================================
