----------------------------- MODULE SidecarRows -----------------------------
(* code -> model for the decision table of C16: one JSON object per executed *)
(* row (the abstract input the harness concretized, and the outcome          *)
(* abstracted from the process-start log and the directory snapshots).  TLC  *)
(* evaluates every clause of the property on every observed outcome, and     *)
(* separately whether the outcome is exactly what the table predicts.        *)
EXTENDS SidecarDecision, Json

Trace == ndJsonDeserialize("c16rows.ndjson")
VARIABLE l
Init == l = 1
Next == l < Len(Trace) /\ l' = l + 1
Spec == Init /\ [][Next]_l

SetOf(seq) == {seq[i] : i \in 1..Len(seq)}
RowAt(x) == [marker |-> x.marker, crash |-> x.crash, upload |-> x.upload, mode |-> x.mode, token |-> x.token, localOK |-> x.localOK]
ExtAt(x) == [calls |-> x.calls, dbg |-> x.dbg, leak |-> x.leak, appCrash |-> x.appCrash, startFail |-> x.startFail]
OutAt(x) == [sidecars |-> x.sidecars, uploaders |-> x.uploaders, nested |-> x.nested, unmarked |-> x.unmarked, freshRemoved |-> x.freshRemoved, launched |-> x.launched,
             acquired |-> x.acquired, wrote |-> SetOf(x.wrote)]
WellFormed(x) == RowAt(x) \in Rows /\ ExtAt(x) \in Extras /\ x.kind \in {"row", "seq", "race"}
(* kind "row": one process (calling Start x.calls times); "seq": x.calls      *)
(* processes one after the other; "race": several real processes started at  *)
(* once -- there the number of sidecars is not one start's, so only the      *)
(* clauses that speak about the whole group are evaluated as they stand      *)
ClauseAt(c, x) == IF x.kind = "race" /\ c = "NeverRecursive" THEN x.nested = 0
                  ELSE Holds(c, RowAt(x), ExtAt(x), OutAt(x))
AllClauseNames == Clauses
(* exact agreement with the table (a disagreement that falsifies no clause   *)
(* is a divergence of the model, not a violation)                            *)
ConformsAt(x) == IF x.kind = "race"
                 THEN /\ x.sidecars = x.uploaders /\ x.nested = 0
                      /\ x.uploaders = (CASE x.token \in {"fresh", "ghost"} -> 0 [] x.token = "absent" -> 1 [] OTHER -> x.uploaders)
                      /\ (x.token = "stale" => x.uploaders >= 1)
                 ELSE Conforms(RowAt(x), ExtAt(x), OutAt(x)) /\ x.fatal = Fatal(RowAt(x), ExtAt(x))

AllClauses == WellFormed(Trace[l]) /\ \A c \in AllClauseNames : ClauseAt(c, Trace[l])
Bad == UNION {{<<i, c>> : i \in {j \in 1..Len(Trace) : ~ClauseAt(c, Trace[j])}} : c \in AllClauseNames}
Diverged == {i \in 1..Len(Trace) : ~ConformsAt(Trace[i])}
ASSUME \A i \in 1..Len(Trace) : WellFormed(Trace[i])
ASSUME PrintT(<<"C16ROWS", Bad, Diverged>>)
=============================================================================
