----------------------------- MODULE SidecarRows -----------------------------
(* code -> model for the decision table of C16: one JSON object per executed *)
(* row (the abstract input the harness concretized, and the outcome          *)
(* abstracted from the process-start log and the directory snapshots).  TLC  *)
(* evaluates every clause of the property on every observed outcome, and     *)
(* separately whether the outcome is exactly what the table predicts.        *)
EXTENDS SidecarDecision, Json

Trace == ndJsonDeserialize("c16rows.ndjson")
VARIABLE l
Init == l = 1
Next == l < Len(Trace) /\ l' = l + 1
Spec == Init /\ [][Next]_l

SetOf(seq) == {seq[i] : i \in 1..Len(seq)}
RowAt(x) == [marker |-> x.marker, crash |-> x.crash, upload |-> x.upload, mode |-> x.mode, token |-> x.token, localOK |-> x.localOK]
OutAt(x) == [sidecars |-> x.sidecars, uploaders |-> x.uploaders, nested |-> x.nested, launched |-> x.launched,
             acquired |-> x.acquired, wrote |-> SetOf(x.wrote)]
WellFormed(x) == RowAt(x) \in Rows
(* several real processes started at once (kind "race"): with no stale token *)
(* present at most one of them gets an uploader sidecar                      *)
RaceAtMostOne(x) == (x.kind = "race" /\ x.token # "stale") => (IF x.token = "fresh" THEN 1 ELSE 0) + x.uploaders <= 1
ClauseAt(c, x) == IF c = "RaceAtMostOne" THEN RaceAtMostOne(x)
                  ELSE IF x.kind = "race" /\ c = "NeverRecursive" THEN x.nested = 0
                  ELSE Holds(c, RowAt(x), OutAt(x))
AllClauseNames == Clauses \cup {"RaceAtMostOne"}
(* exact agreement with the table (a disagreement that falsifies no clause   *)
(* is a divergence of the model, not a violation)                            *)
ConformsAt(x) == IF x.kind = "race"
                 THEN /\ x.sidecars = x.uploaders /\ x.nested = 0
                      /\ x.uploaders = (CASE x.token = "fresh" -> 0 [] x.token = "absent" -> 1 [] OTHER -> x.uploaders)
                      /\ (x.token = "stale" => x.uploaders >= 1)
                 ELSE Conforms(RowAt(x), OutAt(x)) /\ x.fatal = Launch(RowAt(x)).fatal

AllClauses == WellFormed(Trace[l]) /\ \A c \in AllClauseNames : ClauseAt(c, Trace[l])
Bad == UNION {{<<i, c>> : i \in {j \in 1..Len(Trace) : ~ClauseAt(c, Trace[j])}} : c \in AllClauseNames}
Diverged == {i \in 1..Len(Trace) : ~ConformsAt(Trace[i])}
ASSUME \A i \in 1..Len(Trace) : WellFormed(Trace[i])
ASSUME PrintT(<<"C16ROWS", Bad, Diverged>>)
=============================================================================
