----------------------------- MODULE SidecarRows -----------------------------
(* code -> model for the decision table of C16: one JSON object per executed *)
(* row (the abstract input the harness concretized, and the outcome          *)
(* abstracted from the process-start log and the directory snapshots).  TLC  *)
(* evaluates every clause of the property on every observed outcome, and     *)
(* separately whether the outcome is exactly what the table predicts.        *)
EXTENDS SidecarDecision, Json

Trace == ndJsonDeserialize("c16rows.ndjson")
VARIABLE l
Init == l = 1
Next == l < Len(Trace) /\ l' = l + 1
Spec == Init /\ [][Next]_l

SetOf(seq) == {seq[i] : i \in 1..Len(seq)}
RowAt(x) == [marker |-> x.marker, crash |-> x.crash, upload |-> x.upload, mode |-> x.mode, token |-> x.token, localOK |-> x.localOK]
OutAt(x) == [sidecars |-> x.sidecars, uploaders |-> x.uploaders, nested |-> x.nested, launched |-> x.launched,
             acquired |-> x.acquired, wrote |-> SetOf(x.wrote)]
WellFormed(x) == RowAt(x) \in Rows
ClauseAt(c, x) == Holds(c, RowAt(x), OutAt(x))
(* exact agreement with the table (a disagreement that falsifies no clause   *)
(* is a divergence of the model, not a violation)                            *)
ConformsAt(x) == OutAt(x) = Predicted(RowAt(x))

AllClauses == WellFormed(Trace[l]) /\ \A c \in Clauses : ClauseAt(c, Trace[l])
Bad == UNION {{<<i, c>> : i \in {j \in 1..Len(Trace) : ~ClauseAt(c, Trace[j])}} : c \in Clauses}
Diverged == {i \in 1..Len(Trace) : ~ConformsAt(Trace[i])}
ASSUME \A i \in 1..Len(Trace) : WellFormed(Trace[i])
ASSUME PrintT(<<"C16ROWS", Bad, Diverged>>)
=============================================================================
