\* Reference configuration of ApprovalHist (quick tier BFS).  Run through the MC
\* module MCApprovalHist generated by checks/c01.py (token tables).
SPECIFICATION Spec
INVARIANTS TypeOK PostedIsApprovedByItsBuilder
PROPERTIES NoResend LeftoverResent BuiltIsFrozen BuiltUnderPublished
CHECK_DEADLOCK FALSE
VIEW HView
CONSTANTS
  D = 8
  NameOf <- MCNameOf
  ValOf <- MCValOf
  WeekSet = {1}
  MaxRuns = 2
  MaxPub = 2
