SPECIFICATION TSpec
CHECK_DEADLOCK FALSE
