---------------------------- MODULE CalendarTimer ----------------------------
(* The rotation timer of a rotating process (counter.Open(true) / file.rotate). *)
(* rotate = rotate1 (open the file of the span that contains the clock) and,  *)
(* if that succeeded, arm a timer that calls rotate again.  The timer's delay *)
(* is computed from the WALL clock and has a one-minute minimum, so a timer   *)
(* may fire before the mocked/adjusted clock has reached the recorded end     *)
(* (EarlyFire): the protocol is only correct because every rotate that        *)
(* returns an expiry re-arms.  Time is in ticks; a day has DayTicks ticks.    *)
EXTENDS Integers, FiniteSets
CONSTANTS W,          \* week-end setting 0..6
          DayTicks,   \* clock ticks per day (>= 2)
          MaxNow,     \* horizon of the clock
          RearmAlways \* TRUE: the code as written; FALSE: re-arm only when the file changed (a seeded defect)

Wd(d) == (d + 4) % 7
Incr(d) == ((W - Wd(d) + 6) % 7) + 1
NoFile == [b |-> -1, e |-> -1]

VARIABLES now,        \* the clock, in ticks
          cur,        \* span (in days) of the open file
          pending     \* number of armed, not yet fired timers
vars == <<now, cur, pending>>
Day == now \div DayTicks
SpanNow == [b |-> Day, e |-> Day + Incr(Day)]

Init == now = 0 /\ cur = NoFile /\ pending = 0

(* rotate1 + arm *)
DoRotate == /\ cur' = SpanNow
            /\ pending' = IF RearmAlways \/ cur' # cur THEN pending + 1 ELSE pending
Open == cur = NoFile /\ DoRotate /\ UNCHANGED now
Fire == pending > 0 /\ now' = now /\ cur' = SpanNow
        /\ pending' = (pending - 1) + (IF RearmAlways \/ cur' # cur THEN 1 ELSE 0)
Tick == now < MaxNow /\ now' = now + 1 /\ UNCHANGED <<cur, pending>>
Next == Open \/ Fire \/ Tick
Spec == Init /\ [][Next]_vars /\ WF_vars(Fire) /\ WF_vars(Open)

(* an open file always has a timer that will look at it again *)
AlwaysArmed == cur # NoFile => pending > 0
(* exactly one: timers do not pile up *)
OneTimer == pending <= 1
(* once the recorded end is reached the next span's file is started *)
Expired == cur # NoFile /\ now >= cur.e * DayTicks
RotatesAfterEnd == Expired ~> ~Expired
(* the file the process writes to begins on a day the clock has been in and ends on the configured weekday *)
SpanSane == cur # NoFile => (cur.b <= Day /\ Wd(cur.e) = W /\ cur.e - cur.b \in 1..7)
=============================================================================
