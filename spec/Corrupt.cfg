SPECIFICATION Spec
INVARIANT Sane
CHECK_DEADLOCK FALSE
CONSTANTS
  MaxDamage = 2
  MaxDamageParse = 2
