--------------------------- MODULE ChartConfigLong ---------------------------
(* Line-length classes of the round trip (C17).  The documented syntax puts  *)
(* no bound on the length of a line: a description, a bucket list written on *)
(* one line, a comment, or one line of a bucket list written over several    *)
(* lines may be arbitrarily long, and the meaning of a text does not depend  *)
(* on how long its lines are.  This module enumerates three-record texts in  *)
(* which ONE line -- of each of these four kinds, in the first, middle or    *)
(* last record -- is marked to be rendered in each length class (just below  *)
(* / at / above 64 KiB, above 1 MiB); ParseLines never looks at the mark,    *)
(* so the records expected back are those of the short rendering.  The       *)
(* driver inflates the marked line to the class (long value, thousands of    *)
(* buckets, long comment) and feeds the text to the real Parse.              *)
EXTENDS ChartConfig, TLC

Kinds == {"description", "buckets", "comment", "cmid"}
Classes == {"64K-1", "64K", "64K+", "1M+"}
NRecs == 3

V(r, k, j) == <<r, k, j>>
Bs(r) == <<V(r, "b", 1), V(r, "b", 2), V(r, "b", 3)>>

RecOf(r) == [EmptyRec EXCEPT !.title = V(r, "title", 0), !.description = V(r, "description", 0),
                             !.program = V(r, "program", 0), !.issue = <<V(r, "issue", 1)>>,
                             !.counter = [pre |-> V(r, "counter", 0), bs |-> Bs(r)]]

(* the lines of record r; the bucket list on one line, or over three lines when multi *)
RecLines(r, multi) ==
    <<Line("field", "title", V(r, "title", 0), <<>>),
      Line("field", "description", V(r, "description", 0), <<>>),
      Line("blank", "", "", <<>>),
      Line("field", "issue", V(r, "issue", 1), <<>>)>>
    \o (IF multi
        THEN <<LineC("copen", "counter", V(r, "counter", 0), <<Bs(r)[1]>>, FALSE, TRUE),
               LineC("cmid", "", "", <<Bs(r)[2]>>, FALSE, TRUE),
               Line("cclose", "", "", <<Bs(r)[3]>>)>>
        ELSE <<Line("field", "counter", V(r, "counter", 0), Bs(r))>>)
    \o <<Line("field", "program", V(r, "program", 0), <<>>)>>

(* offset of the line of the given kind inside RecLines *)
Offset(kind) == CASE kind = "description" -> 2 [] kind = "comment" -> 3 [] kind = "buckets" -> 5 [] kind = "cmid" -> 6

RECURSIVE Doc(_, _, _)
Doc(r, pos, kind) == IF r > NRecs THEN <<>>
                     ELSE RecLines(r, r = pos /\ kind = "cmid")
                          \o (IF r = NRecs THEN <<>> ELSE <<Line("sep", "", "", <<>>)>>)
                          \o Doc(r + 1, pos, kind)
RECURSIVE LenBefore(_, _, _)
LenBefore(r, pos, kind) == IF r >= pos THEN 0
                           ELSE Len(RecLines(r, FALSE)) + 1 + LenBefore(r + 1, pos, kind)

VARIABLES pos, kind, cls, lines, longAt, want
vars == <<pos, kind, cls, lines, longAt, want>>
Init == /\ pos \in 1..NRecs /\ kind \in Kinds /\ cls \in Classes
        /\ lines = Doc(1, pos, kind)
        /\ longAt = LenBefore(1, pos, kind) + Offset(kind)
        /\ want = [r \in 1..NRecs |-> RecOf(r)]
Next == UNCHANGED vars
Spec == Init /\ [][Next]_vars

(* whatever the length class of the marked line, the text means its records *)
RoundTrip == ParseLines(lines) = [ok |-> TRUE, recs |-> want]
(* the mark sits on a line of the announced kind, inside record `pos` *)
MarkOK == LET ln == lines[longAt] IN
          /\ kind = "description" => (ln.k = "field" /\ ln.key = "description" /\ ln.val = V(pos, "description", 0))
          /\ kind = "comment" => ln.k = "blank"
          /\ kind = "buckets" => (ln.k = "field" /\ ln.key = "counter" /\ ln.val = V(pos, "counter", 0))
          /\ kind = "cmid" => (ln.k = "cmid" /\ ln.bs = <<Bs(pos)[2]>>)
=============================================================================
