---------------------------- MODULE StorageNames ----------------------------
(* C18, last clause: the object names the services hand to their buckets.    *)
(* A recording BucketHandle wrapped around the real FS buckets logs every    *)
(* Object(name) the upload / chart-page / data-page handlers of              *)
(* telemetrygodev and the merge / chart / copy handlers of the worker        *)
(* construct while they serve requests (hostile request paths and            *)
(* parameters included); one JSON object per line:                           *)
(*   base : the bucket's directory, name : the constructed object name       *)
(*   (both as sequences of components, a component a sequence of characters).*)
(* TLC decides ResolvesInside(base, name) of Storage.tla for each record and *)
(* notes the records for which it is false.                                  *)
EXTENDS Storage, Json
NameTrace == ndJsonDeserialize("c18names.ndjson")
VARIABLES l, bad
nvars == <<objs, res, last, hist, via, l, bad>>

NInit == /\ l = 1 /\ bad = <<>>
         /\ objs = <<>> /\ res = Res("init", TRUE, "", {}) /\ last = Op("init", "", <<>>, "", <<>>, "") /\ hist = <<>> /\ via = 1
NNext == /\ l <= Len(NameTrace)
         /\ l' = l + 1
         /\ bad' = IF ResolvesInside(NameTrace[l].base, NameTrace[l].name) THEN bad ELSE Append(bad, l)
         /\ UNCHANGED <<objs, res, last, hist, via>>

AllInside == l = Len(NameTrace) + 1 => bad = <<>>
Accepted == TLCGet("stats").diameter = Len(NameTrace) + 1
=============================================================================
