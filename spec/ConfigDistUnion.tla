--------------------------- MODULE ConfigDistUnion ---------------------------
(* X02, guarantee G6: internal/unionfs.  "A FS is an FS presenting the union *)
(* of the file systems in the slice.  If multiple file systems provide a     *)
(* particular file, Open uses the FS listed earlier in the slice."  FS also  *)
(* declares itself an fs.ReadDirFS, whose contract is "ReadDir reads the     *)
(* named directory and returns a list of directory entries sorted by         *)
(* filename".                                                                *)
(*                                                                           *)
(* A layer is a small tree: every top-level name is absent, a file, or a     *)
(* directory with a non-empty set of files in it.  A path is a sequence of   *)
(* names (<<>> is the root ".").                                             *)
(*   Open(path)     ok exactly when some layer provides path; the entry of   *)
(*                  the EARLIEST such layer (its index and kind)             *)
(*   ReadDir(path)  ok exactly when some layer has a directory there; the    *)
(*                  union of the names, each once, each with the layer and   *)
(*                  kind of the earliest layer listing it, sorted by name    *)
(* Paths that are a file in one layer and a directory in another are judged  *)
(* for Open only (what ReadDir does with them is not documented).            *)
EXTENDS ConfigDistUnionOps, TLC
CONSTANTS NL,          \* number of layers
          TopNames,    \* names at the top level
          KidNames     \* names inside a directory

Entries == {None, File} \cup {Dir(S) : S \in (SUBSET KidNames) \ {{}}}
LayerSpace == [TopNames -> Entries]

Paths == {<<>>} \cup {<<n>> : n \in TopNames} \cup {<<n, m>> : n \in TopNames, m \in KidNames}

(* ---- enumeration (model -> code): all layer stacks with expected results ---- *)
VARIABLES layers, open, readdir
vars == <<layers, open, readdir>>
Init == /\ layers \in [1..NL -> LayerSpace]
        /\ open = [p \in Paths |-> OpenRes(layers, p)]
        /\ readdir = [p \in Paths |-> ReadDirRes(layers, p)]
Next == UNCHANGED vars
Spec == Init /\ [][Next]_vars

(* ---- theorems of the union ---- *)
(* a directory lists a name exactly when the name can be opened below it *)
Coherent == \A p \in Paths : (Len(p) < 2 /\ readdir[p].ok /\ ~TypeConflict(layers, p)) =>
    \A n \in TopNames \cup KidNames :
        (\E k \in DOMAIN readdir[p].list : readdir[p].list[k].name = n) <=> OpenRes(layers, p \o <<n>>).ok
(* ... and the listed entry is the one Open yields *)
EntryIsOpen == \A p \in Paths : (Len(p) < 2 /\ readdir[p].ok /\ ~TypeConflict(layers, p)) =>
    \A k \in DOMAIN readdir[p].list :
        LET e == readdir[p].list[k] o == OpenRes(layers, p \o <<e.name>>) IN o.layer = e.layer /\ o.kind = e.kind
(* later layers never change what an earlier layer provides *)
Shadow == \A n \in 1..NL : \A p \in Paths :
    LET o == OpenRes(SubSeq(layers, 1, n), p) IN o.ok => open[p] = o
(* the union of the single-layer listings *)
UnionOfLayers == \A p \in Paths : readdir[p].ok =>
    {readdir[p].list[k].name : k \in DOMAIN readdir[p].list}
        = UNION {LET r == ReadDirRes(<<layers[i]>>, p) IN {r.list[k].name : k \in DOMAIN r.list} : i \in 1..NL}
SortedUnique == \A p \in Paths : \A k \in 1..(Len(readdir[p].list) - 1) :
    Rank(readdir[p].list[k].name) < Rank(readdir[p].list[k + 1].name)
(* stacking a layer on itself changes nothing but the index *)
Idempotent == \A p \in Paths :
    LET twice == [i \in 1..(2 * NL) |-> layers[((i - 1) % NL) + 1]] IN
        /\ OpenRes(twice, p) = open[p]
        /\ ReadDirRes(twice, p) = readdir[p]
=============================================================================
