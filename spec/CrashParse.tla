----------------------------- MODULE CrashParse -----------------------------
(* Property C14: what a crash report may contribute to a telemetry counter   *)
(* name.                                                                     *)
(*                                                                           *)
(* Written from the property text, the documentation of the crash monitor    *)
(* ("sentinel %x" is written first by the parent; the name is the crash      *)
(* prefix plus the stack of the first running goroutine, PCs only) and the   *)
(* Go runtime's GOTRACEBACK=system format:                                   *)
(*                                                                           *)
(*     goroutine N [gp=.. m=..] [STATUS]:                                    *)
(*     SYMBOL(ARGS)                           \ one entry = two lines        *)
(*     <tab>FILE:LINE [+0xOFF] [fp=.. sp=.. pc=0xPC]  /                      *)
(*     ...                                                                   *)
(*     [...N frames elided...]        (stacks deeper than 100 frames; more   *)
(*                                     entries follow it)                    *)
(*     (blank line | "created by ..." | end of text)                         *)
(*                                                                           *)
(* Entries printed without "pc=" are inlined calls: they belong to the next  *)
(* entry that has a PC (one physical frame).  A physical frame that follows  *)
(* the physical frame of runtime.sigpanic is a trap: its PC is the faulting  *)
(* instruction, not a return address (+1 for symbolisation).                 *)
(*                                                                           *)
(* A line is abstracted to the attributes this grammar gives meaning to:     *)
(*   s     structural role given by how the line begins                      *)
(*         "sent1"/"sent2" (sentinel line, two different non-zero values),   *)
(*         "sent0" (value 0), "sentbad" (no hex value), "run" (header of a   *)
(*         running goroutine), "other" (header of another goroutine),        *)
(*         "blank", "created", "elided" (the "...N frames elided..." line),  *)
(*         "text" (anything else), "amb" (the harness' classifier cannot     *)
(*         tell: the property is silent)                                     *)
(*   paren the line contains "(" : it can be read as SYMBOL(ARGS)            *)
(*   sig   SYMBOL is runtime.sigpanic                                        *)
(*   pc    "none" | "nonepath" (no pc field at the end of the line -- an     *)
(*         inlined call -- but a blank-delimited word pc=0xADDR inside the   *)
(*         file path) | "ok" (the line ends in one pc=0xHEX field)           *)
(*         | "okpath" (same, and " pc=" also occurs earlier, i.e. inside the *)
(*         file path) | "huge" (a 64-bit value that is no code address)      *)
(*         | "bad" (a pc= field that is not a 64-bit number)                 *)
(* Everything else (messages, arguments, paths, symbol names, registers,     *)
(* other goroutines) is not represented: that the outcome is a function of   *)
(* this abstraction IS the non-interference claim; the harness concretizes   *)
(* every abstract report with different filler texts and the real code must  *)
(* not tell them apart.                                                      *)
EXTENDS Integers, Sequences, FiniteSets, TLC

Cap == 16                                   \* at most 16 program counters

SentS == {"sent1", "sent2", "sent0", "sentbad"}
L(s, paren, sig, pc) == [s |-> s, paren |-> paren, sig |-> sig, pc |-> pc]
IsPC(l) == l.pc \in {"ok", "okpath"}

Min(S) == CHOOSE x \in S : \A y \in S : x <= y
Max(S) == CHOOSE x \in S : \A y \in S : x >= y
Take(s, n) == IF Len(s) <= n THEN s ELSE SubSeq(s, 1, n)

(* ------------------------------------------------------------------------ *)
(* Declarative reading of a report h (a sequence of abstract lines).         *)
(* ------------------------------------------------------------------------ *)
RunIdx(h) == {i \in 1..Len(h) : h[i].s = "run"}
Hdr(h) == IF RunIdx(h) = {} THEN 0 ELSE Min(RunIdx(h))       \* first running goroutine
EndAfter(h, hd) == LET E == {i \in (hd + 1)..Len(h) : h[i].s \in {"blank", "created", "elided"}}
                   IN IF E = {} THEN Len(h) + 1 ELSE Min(E)    \* first line after its block
                                                               \* (or after its printed top part)
EndIdx(h) == EndAfter(h, Hdr(h))

(* Entry j of the block is the pair of lines hd+2j-1 (symbol), hd+2j         *)
(* (location); the physical frames are the entries whose location has a PC;  *)
(* a physical frame is a trap iff the previous physical frame is sigpanic.   *)
PhysOf(h, hd) == {j \in 1..((EndAfter(h, hd) - 1 - hd) \div 2) : IsPC(h[hd + 2 * j])}
TrapOf(h, hd, P, j) == LET Q == {k \in P : k < j} IN Q # {} /\ h[hd + 2 * Max(Q) - 1].sig

(* A report in the genuine format: the sentinel first and once, then any     *)
(* text, then (possibly) a running goroutine whose block is a sequence of    *)
(* complete entries.  For these the property demands one exact outcome.      *)
(* When the runtime elides the middle of a deep stack, what follows the      *)
(* elision line cannot matter provided the cap is already reached (the       *)
(* runtime prints 50 entries first); otherwise the property is silent.       *)
WellFormed(h) ==
  /\ Len(h) >= 1
  /\ h[1].s \in {"sent1", "sent2"}
  /\ LET hd == Hdr(h) IN
     IF hd = 0
     THEN \A i \in 2..Len(h) : h[i].s \notin SentS \cup {"amb"}
     ELSE LET e == EndAfter(h, hd) IN
          /\ \A i \in 2..(e - 1) : h[i].s \notin SentS \cup {"amb"}
          /\ (e - 1 - hd) % 2 = 0
          /\ (e <= Len(h) /\ h[e].s = "elided") => Cardinality(PhysOf(h, hd)) >= Cap
          /\ \A i \in (hd + 1)..(e - 1) :
                /\ h[i].s = "text"
                /\ IF (i - hd) % 2 = 1 THEN h[i].paren
                                        ELSE h[i].pc \in {"none", "nonepath", "ok", "okpath"}

RECURSIVE FrameSeqOf(_, _, _, _)
FrameSeqOf(h, hd, P, R) == IF R = {} THEN <<>>
                           ELSE LET j == Min(R) IN
                                <<[i |-> hd + 2 * j, trap |-> TrapOf(h, hd, P, j)]>>
                                   \o FrameSeqOf(h, hd, P, R \ {j})
Frames(h) == LET hd == Hdr(h) IN
             IF hd = 0 THEN <<>> ELSE LET P == PhysOf(h, hd) IN FrameSeqOf(h, hd, P, P)

NoGo == [kind |-> "nogo", frames |-> <<>>]
Name(fr) == [kind |-> "name", frames |-> fr]
Expected(h) == LET fr == Frames(h) IN IF fr = <<>> THEN NoGo ELSE Name(Take(fr, Cap))

(* What the crash contributes: the sentinel, the PCs of the first running    *)
(* goroutine and the trap flags -- nothing else.                             *)
Contribution(h) == [sent |-> h[1].s, pcs |-> Frames(h)]

(* Where the property is silent (not in the genuine format) it still demands *)
(* an error, the fixed name, or at most Cap frames each coming from a PC     *)
(* line of the FIRST RUNNING GOROUTINE -- never anything else.  That         *)
(* goroutine's part of the report begins after its header and ends at the    *)
(* first blank line or "created by" line after it, whatever the pairing of   *)
(* the lines in between (odd pairing garbles the frames, it does not move    *)
(* the end): no line of a later goroutine may contribute.  Header lines the  *)
(* classifier cannot tell ("amb") before the first certain header are        *)
(* candidates too.                                                           *)
LibEnd(h, c) == LET E == {j \in (c + 1)..Len(h) : h[j].s \in {"blank", "created"}}
                IN IF E = {} THEN Len(h) + 1 ELSE Min(E)
Liberal(h) == LET R == {i \in 1..Len(h) : h[i].s = "run"}
                  first == IF R = {} THEN Len(h) + 1 ELSE Min(R)
                  C == (R \cap {first}) \cup {i \in 1..Len(h) : h[i].s = "amb" /\ i < first}
              IN {i \in 1..Len(h) : /\ h[i].pc \in {"ok", "okpath", "huge"}
                                    /\ \E c \in C : c < i /\ i < LibEnd(h, c)}

(* Entry points.  o.entry = "function": the name derivation applied to the    *)
(* text; "monitor": a monitor process that receives the text through its      *)
(* standard input (the sidecar's Child), whose recorded counter is read back: *)
(* crash/malformed is the error outcome, and "none" means it recorded nothing. *)
(* A text with fewer than two newlines (at most two lines) is no crash report *)
(* ("the only line is the sentinel"): the monitor may stay silent for it --   *)
(* and for nothing else, however long the text and wherever its bytes lie.    *)
Entries == {"function", "monitor"}
MaySaySilent(h, o) == o.entry = "monitor" /\ Len(h) <= 2

ShapeOK(o) == /\ o.kind \in {"err", "nogo", "name"}
              /\ o.entry \in Entries
              /\ o.lenok
              /\ o.kind # "name" => (o.frames = <<>> /\ ~o.cut)

(* Observed names are read back as sequences of [v |-> value id, trap, unk]; *)
(* vid[i] is the id of the (relocated) PC value written on line i; `unk`     *)
(* says that the name cannot show whether the trap adjustment was applied    *)
(* (a fault on the very first instruction of a function).  o.cut: the name   *)
(* did not fit the size limit and ends in the truncation marker; its         *)
(* complete frames are then a proper prefix of the expected ones.            *)
SameFrames(o, xfs, vid) ==
  LET ofs == o.frames IN
  /\ IF o.cut THEN Len(ofs) < Len(xfs) ELSE Len(ofs) = Len(xfs)
  /\ \A k \in 1..Len(ofs) : (ofs[k].v = vid[xfs[k].i]) /\ (ofs[k].unk \/ (ofs[k].trap = xfs[k].trap))

(* Repeated sentinel lines.  The parent writes its sentinel once, first; any  *)
(* later line "sentinel ..." (a line of a multi-line panic message, text      *)
(* between goroutines, inside or after the block) is ordinary text: the name  *)
(* may depend on the first sentinel only.  AsText reads the report that way.  *)
(* A report that is in the genuine format when read that way must give the    *)
(* name of that reading -- or an error, since the property lets any other     *)
(* text turn the result into an error -- and nothing else.                    *)
AsText(h) == [i \in 1..Len(h) |-> IF i > 1 /\ h[i].s \in SentS THEN L("text", FALSE, FALSE, "none") ELSE h[i]]

(* Symbol text.  The text of a symbol line (other than "is it sigpanic") is  *)
(* "other text": a report whose symbol-position lines of the first running   *)
(* goroutine lost their "(" (the name alone, the name followed by other text, *)
(* any paren-less text) but kept their location lines differs from the        *)
(* report AsSym(h) in symbol text only, so it must give that report's name or *)
(* an error -- never another name (a frame silently dropped).                 *)
AsSym(h) == LET hd == Hdr(h)  e == EndAfter(h, hd) IN
            [i \in 1..Len(h) |->
               IF hd > 0 /\ i > hd /\ i < e /\ (i - hd) % 2 = 1 /\ h[i].s = "text" /\ ~h[i].paren
               THEN L("text", TRUE, FALSE, h[i].pc) ELSE h[i]]

Allowed(h, vid, o) ==
  IF o.kind = "none" THEN MaySaySilent(h, o) /\ o.frames = <<>>
  ELSE
  /\ ShapeOK(o)
  /\ IF WellFormed(h)
     THEN LET x == Expected(h) IN o.kind = x.kind /\ SameFrames(o, x.frames, vid)
     ELSE IF WellFormed(AsText(h))
     THEN \/ o.kind = "err"
          \/ LET x == Expected(AsText(h)) IN o.kind = x.kind /\ SameFrames(o, x.frames, vid)
     ELSE IF WellFormed(AsSym(AsText(h)))
     THEN \/ o.kind = "err"
          \/ LET x == Expected(AsSym(AsText(h))) IN o.kind = x.kind /\ SameFrames(o, x.frames, vid)
     ELSE o.kind = "name" => LET lib == {vid[i] : i \in Liberal(h)} IN
                             /\ Len(o.frames) <= Cap
                             /\ \A k \in 1..Len(o.frames) : o.frames[k].v \in lib

(* Non-interference over concretizations of ONE abstract report: two         *)
(* results that are both names must be the same name.                        *)
NonInterference(obs) ==
  \A a, b \in 1..Len(obs) :
      (obs[a].kind = "name" /\ obs[b].kind = "name") =>
          (obs[a].frames = obs[b].frames /\ obs[a].text = obs[b].text)

(* The behaviour of defect F17 (a path containing " pc=" makes the entry     *)
(* look inlined), used only to give a found violation a narrow signature.    *)
AsF17(h) == [i \in 1..Len(h) |-> IF h[i].pc = "okpath" THEN [h[i] EXCEPT !.pc = "none"] ELSE h[i]]

(* ------------------------------------------------------------------------ *)
(* Operational reading: one pass over the lines.                             *)
(* ------------------------------------------------------------------------ *)
P0 == [phase |-> "pre", wf |-> TRUE, once |-> TRUE, sent |-> "none", sympos |-> TRUE,
       curSig |-> FALSE, lastSig |-> FALSE, pcs |-> <<>>]

\* wf: in the genuine format so far when later sentinel lines are read as text;
\* once: no such later sentinel line so far (before the end of the block)
StepT(p, l, i) ==
  IF p.phase = "pre" THEN
     LET q == IF i = 1
              THEN IF l.s \in {"sent1", "sent2"} THEN [p EXCEPT !.sent = l.s]
                                                 ELSE [p EXCEPT !.wf = FALSE]
              ELSE IF l.s = "amb" THEN [p EXCEPT !.wf = FALSE] ELSE p
     IN IF l.s = "run" THEN [q EXCEPT !.phase = "in", !.sympos = TRUE] ELSE q
  ELSE \* inside the block of the first running goroutine
     IF l.s \in {"blank", "created"}
     THEN [p EXCEPT !.phase = "post", !.wf = p.wf /\ p.sympos]
     ELSE IF l.s = "elided"
     THEN [p EXCEPT !.phase = "post", !.wf = p.wf /\ p.sympos /\ Len(p.pcs) >= Cap]
     ELSE IF l.s # "text" THEN [p EXCEPT !.wf = FALSE, !.sympos = ~p.sympos]
     ELSE IF p.sympos
          THEN [p EXCEPT !.sympos = FALSE, !.curSig = l.sig, !.wf = p.wf /\ l.paren]
          ELSE IF IsPC(l)
               THEN [p EXCEPT !.sympos = TRUE, !.lastSig = p.curSig,
                              !.pcs = Append(p.pcs, [i |-> i, trap |-> p.lastSig])]
               ELSE IF l.pc \in {"none", "nonepath"} THEN [p EXCEPT !.sympos = TRUE]
                    ELSE [p EXCEPT !.sympos = TRUE, !.wf = FALSE]

Step(p, l, i) ==
  IF p.phase = "post" THEN p
  ELSE IF i > 1 /\ l.s \in SentS
       THEN StepT([p EXCEPT !.once = FALSE], L("text", FALSE, FALSE, "none"), i)
       ELSE StepT(p, l, i)

RECURSIVE Run(_, _, _)
Run(p, h, i) == IF i > Len(h) THEN p ELSE Run(Step(p, h[i], i), h, i + 1)

AWellFormedT(p, n) == n >= 1 /\ p.wf /\ (p.phase = "in" => p.sympos)   \* of AsText(report)
AWellFormed(p, n) == AWellFormedT(p, n) /\ p.once                       \* of the report itself
AOut(p) == IF p.pcs = <<>> THEN NoGo ELSE Name(Take(p.pcs, Cap))
=============================================================================
