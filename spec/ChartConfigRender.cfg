SPECIFICATION Spec
INVARIANT RoundTrip
CHECK_DEADLOCK FALSE
CONSTANTS
  MaxRecs = 2
  SKeySets = {{}, {"title"}, {"title", "program"}}
  IssueCounts = {0, 2}
  CounterKinds = {"none", "braced3"}
  NumKinds = {"none", "zero", "val"}
  ErrKinds = {"none"}
  SepStyles = {"plain", "blanks", "extra"}
  MultiStyles = {"one", "split0", "split1", "lead"}
