INIT Init
NEXT Next
INVARIANT ShapeSane
CHECK_DEADLOCK FALSE
CONSTANT MaxLen = 3
