INIT Init
NEXT Next
INVARIANTS SoundWF ClassSane ExpSane WalkTotal NameSane
CHECK_DEADLOCK FALSE
CONSTANTS
 NameCat <- MCNameCat
 MetaCat <- MCMetaCat
 WFItems <- MCWFItems
 WFMetas <- MCWFMetas
 MetaItems <- MCMetaItems
 MetaAll <- MCMetaAll
 BadBases <- MCBadBases
 Damage <- MCDamage
 PairBases <- MCPairBases
