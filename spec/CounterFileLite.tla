-------------------------- MODULE CounterFileLite --------------------------
(* The clauses of C04 that do not depend on the record layout, evaluated by *)
(* TLC on observed states of files whose records have DIFFERENT sizes (the   *)
(* protocol model CounterFile.tla uses one record size): the independent     *)
(* decoder accepts the file at every instant; size, allocation limit and     *)
(* every value only grow; no value exceeds the increments begun; at          *)
(* quiescence every surviving process's increment is in the file.            *)
EXTENDS Integers, Sequences, Json, TLC
Trace == ndJsonDeserialize("c04lite.ndjson")
VARIABLE l
Init == l = 1
Next == l < Len(Trace) /\ l' = l + 1
Spec == Init /\ [][Next]_l

WellFormedAt(x) == x.problems = <<>>
MonotoneAt(i) == (i > 1 /\ Trace[i].run = Trace[i - 1].run) =>
                   /\ Trace[i].size >= Trace[i - 1].size /\ Trace[i].limit >= Trace[i - 1].limit
                   /\ \A n \in DOMAIN Trace[i - 1].vals : n \in DOMAIN Trace[i].vals /\ Trace[i].vals[n] >= Trace[i - 1].vals[n]
BoundedAt(x) == \A n \in DOMAIN x.vals : n \in DOMAIN x.begun => x.vals[n] <= x.begun[n]
QuiescentAt(x) == x.final => \A n \in DOMAIN x.survivors : n \in DOMAIN x.vals /\ x.vals[n] >= x.survivors[n]
Bad == {<<i, "WellFormed">> : i \in {j \in 1..Len(Trace) : ~WellFormedAt(Trace[j])}}
       \cup {<<i, "Monotone">> : i \in {j \in 1..Len(Trace) : ~MonotoneAt(j)}}
       \cup {<<i, "Bounded">> : i \in {j \in 1..Len(Trace) : ~BoundedAt(Trace[j])}}
       \cup {<<i, "Quiescent">> : i \in {j \in 1..Len(Trace) : ~QuiescentAt(Trace[j])}}
ASSUME PrintT(<<"C04LITE", Bad>>)
=============================================================================
