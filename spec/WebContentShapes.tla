-------------------------- MODULE WebContentShapes --------------------------
(* X01, model -> code for G2: every request path made of at most MaxLen     *)
(* elements of an alphabet of hostile spellings (parent and self references, *)
(* empty elements, a sibling of the served root, host-like names with and    *)
(* without a leading backslash) around an existing directory / page, with    *)
(* every suffix that triggers one of the server's redirects, plain and       *)
(* percent-encoded.  For all of them G2 and the 5xx rule are demanded; the   *)
(* class only names the shape in reports.                                    *)
EXTENDS WebContent
CONSTANT MaxLen
Alphabet == {"DIR", "PAGE", "..", ".", "", "secret", "evil.example", "\\evil.example"}
Sfx == {"", ".html", ".md", "/index", "/leak.css", "/"}
VARIABLES segs, sfx, enc, class
vars == <<segs, sfx, enc, class>>

RECURSIVE Depth(_, _)
Depth(s, i) == IF i = 0 THEN 0
               ELSE Depth(s, i - 1) + (IF s[i] = ".." THEN -1 ELSE IF s[i] \in {".", ""} THEN 0 ELSE 1)
Escapes(s) == \E i \in 1..Len(s) : Depth(s, i) < 0
Class(s) == IF Escapes(s) THEN "escape"
            ELSE IF s[1] = "" THEN "dblslash"
            ELSE IF s[1] = "\\evil.example" THEN "backslash"
            ELSE IF \E i \in 1..Len(s) : s[i] \in {"..", ".", ""} THEN "dots"
            ELSE "plain"
Init == /\ segs \in UNION {[1..k -> Alphabet] : k \in 1..MaxLen}
        /\ sfx \in Sfx
        /\ enc \in BOOLEAN
        /\ class = Class(segs)
Next == UNCHANGED vars
(* a shape that never climbs above the root and has no odd element is a plain path *)
ShapeSane == /\ class = "plain" => (~Escapes(segs) /\ \A i \in 1..Len(segs) : segs[i] \notin {"..", ".", ""})
             /\ class = "escape" => \E i \in 1..Len(segs) : segs[i] = ".."
=============================================================================
