------------------------- MODULE ChartConfigRender -------------------------
(* The round-trip half of C17 at the level of the specification: every      *)
(* small set of records, rendered in every combination of the rendering     *)
(* choices the documentation allows (field order, comments and blank lines, *)
(* separators with empty stretches around them, bucket lists on one line or *)
(* one bucket per line, numeric fields omitted or written as 0), means      *)
(* exactly those records again.  TLC checks  ParseLines(Render(rs)) = rs    *)
(* for all of them; every state is also a vector for the real Parse.        *)
EXTENDS ChartConfig, TLC
CONSTANTS MaxRecs,
          SKeySets,      \* sets of string keys a record may set
          IssueCounts,   \* numbers of issue lines
          CounterKinds,  \* subset of {"none", "plain", "braced1", "braced3"}
          NumKinds,      \* subset of {"none", "zero", "val"}  (the depth field)
          ErrKinds,      \* subset of {"none", "zero", "val"}  (the error field)
          SepStyles,     \* subset of {"plain", "blanks", "extra"}
          MultiStyles    \* subset of {"one", "split0", "split1", "lead"}

Orders == {"fwd", "rev"}
Comments == BOOLEAN

Shapes == {sh \in [s : SKeySets, ni : IssueCounts, c : CounterKinds, n : NumKinds, e : ErrKinds] :
              sh.s # {} \/ sh.ni > 0 \/ sh.c # "none" \/ sh.n # "none" \/ sh.e # "none"}

(* values are opaque: <<record number, key, index>> *)
V(r, k, j) == <<r, k, j>>
Buckets(r, sh) == IF sh.c = "braced3" THEN <<V(r, "b", 1), V(r, "b", 2), V(r, "b", 3)>>
                  ELSE IF sh.c = "braced1" THEN <<V(r, "b", 1)>> ELSE <<>>

(* the record a shape denotes *)
RecOf(r, sh) ==
    [k \in DOMAIN EmptyRec |->
        IF k \in StrKeys THEN (IF k \in sh.s THEN V(r, k, 0) ELSE "")
        ELSE IF k = "issue" THEN [j \in 1..sh.ni |-> V(r, "issue", j)]
        ELSE IF k = "counter" THEN (IF sh.c = "none" THEN NoCounter ELSE [pre |-> V(r, "counter", 0), bs |-> Buckets(r, sh)])
        ELSE IF k = "depth" THEN (IF sh.n = "val" THEN "7" ELSE "0")
        ELSE IF k = "error" THEN (IF sh.e = "val" THEN "7" ELSE "0")
        ELSE EmptyRec[k]]

Blank == Line("blank", "", "", <<>>)
Sep == Line("sep", "", "", <<>>)

RECURSIVE Flat(_)
Flat(groups) == IF groups = <<>> THEN <<>> ELSE Head(groups) \o Flat(Tail(groups))
Rev(s) == [i \in 1..Len(s) |-> s[Len(s) + 1 - i]]

CounterGroup(r, sh, multi, cm) ==
    LET pre == V(r, "counter", 0)  bs == Buckets(r, sh)
        gap == IF cm THEN <<Blank>> ELSE <<>> IN
    IF sh.c = "none" THEN <<>>
    ELSE IF sh.c = "plain" \/ sh.c = "braced1" \/ multi = "one" THEN <<Line("field", "counter", pre, bs)>>
    ELSE IF multi = "split0"      \* the style of the repository's own config.txt: "{" / one bucket per line / "}"
         THEN <<Line("copen", "counter", pre, <<>>)>> \o gap
              \o <<LineC("cmid", "", "", <<bs[1]>>, FALSE, TRUE), LineC("cmid", "", "", <<bs[2]>>, FALSE, TRUE), LineC("cmid", "", "", <<bs[3]>>, FALSE, FALSE)>>
              \o gap \o <<Line("cclose", "", "", <<>>)>>
    ELSE IF multi = "split1"      \* commas at the line ends
         THEN <<LineC("copen", "counter", pre, <<bs[1]>>, FALSE, TRUE), LineC("cmid", "", "", <<bs[2]>>, FALSE, TRUE)>> \o gap
              \o <<Line("cclose", "", "", <<bs[3]>>)>>
    ELSE                          \* commas at the line starts
         <<LineC("copen", "counter", pre, <<bs[1]>>, FALSE, FALSE), LineC("cmid", "", "", <<bs[2]>>, TRUE, FALSE)>> \o gap
         \o <<LineC("cclose", "", "", <<bs[3]>>, TRUE, FALSE)>>

SKeyOrder == <<"title", "description", "type", "program", "module", "version">>
RenderRec(r, sh, st) ==
    LET strs == SelectSeq(SKeyOrder, LAMBDA k : k \in sh.s)
        g1 == [i \in 1..Len(strs) |-> <<Line("field", strs[i], V(r, strs[i], 0), <<>>)>>]
        g2 == [j \in 1..sh.ni |-> <<Line("field", "issue", V(r, "issue", j), <<>>)>>]
        g3 == IF sh.c = "none" THEN <<>> ELSE <<CounterGroup(r, sh, st.multi, st.cm)>>
        g4 == IF sh.n = "none" THEN <<>> ELSE <<<<Line("field", "depth", IF sh.n = "val" THEN "7" ELSE "0", <<>>)>>>>
        g5 == IF sh.e = "none" THEN <<>> ELSE <<<<Line("field", "error", IF sh.e = "val" THEN "7" ELSE "0", <<>>)>>>>
        (* issues keep their relative order whatever the field order *)
        groups == IF st.order = "fwd" THEN g1 \o g2 \o g3 \o g4 \o g5 ELSE g5 \o g4 \o g3 \o g2 \o Rev(g1)
        spaced == IF st.cm THEN [i \in 1..Len(groups) |-> groups[i] \o <<Blank>>] ELSE groups
    IN Flat(spaced)

RECURSIVE RenderFrom(_, _, _)
RenderFrom(shs, st, r) ==
    IF r > Len(shs) THEN <<>>
    ELSE RenderRec(r, shs[r], st)
         \o (IF r = Len(shs) THEN <<>>
             ELSE IF st.sep = "plain" THEN <<Sep>>
             ELSE IF st.sep = "blanks" THEN <<Blank, Sep, Blank>>
             ELSE <<Sep, Blank, Sep>>)
         \o RenderFrom(shs, st, r + 1)
Render(shs, st) == (IF st.sep = "extra" THEN <<Sep>> ELSE <<>>)
                   \o RenderFrom(shs, st, 1)
                   \o (IF st.sep = "extra" THEN <<Sep, Sep>> ELSE IF st.sep = "blanks" THEN <<Blank>> ELSE <<>>)

VARIABLES shapes, style, lines, want
vars == <<shapes, style, lines, want>>
Init == /\ shapes \in UNION {[1..n -> Shapes] : n \in 0..MaxRecs}
        /\ style \in [order : Orders, sep : SepStyles, multi : MultiStyles, cm : Comments]
        /\ lines = Render(shapes, style)
        /\ want = [r \in 1..Len(shapes) |-> RecOf(r, shapes[r])]
Next == UNCHANGED vars
Spec == Init /\ [][Next]_vars

(* rendering and parsing back returns the same records *)
RoundTrip == ParseLines(lines) = [ok |-> TRUE, recs |-> want]
=============================================================================
