SPECIFICATION Spec
INVARIANTS Coherent EntryIsOpen Shadow UnionOfLayers SortedUnique Idempotent
CHECK_DEADLOCK FALSE
CONSTANTS
 NL = 2
 TopNames = {"a", "b"}
 KidNames = {"a", "c"}
 NameOrder <- ABCD
