---------------------------- MODULE CounterTrace ----------------------------
(* code -> model: a recorded execution of the real, instrumented             *)
(* internal/counter (one line per scheduling step, with the projection of    *)
(* the real shared state after the step) is a behaviour of Counter.tla iff    *)
(* TLC can follow it: every logged step is the visible step of the logged     *)
(* task, followed by that task's urgent internal steps, and the model's       *)
(* shared variables equal the projection.  Several runs of one scenario       *)
(* family are concatenated; a line with t = "init" resets the model.          *)
EXTENDS Counter, Json

Trace == ndJsonDeserialize("c03trace.ndjson")
VARIABLE l            \* index of the next line to consume

ToSet(s) == {s[i] : i \in DOMAIN s}
Matches(o) == /\ st = o.st /\ ptr = o.ptr /\ nxt = o.nxt /\ head = o.head /\ cur = o.cur
              /\ open = ToSet(o.open) /\ mu = o.mu
              /\ \A c \in Counters : cell[1][c] = o.cell1[c] /\ cell[2][c] = o.cell2[c] /\ cell[3][c] = o.cell3[c]
              /\ begun = o.begun
              /\ faults = ToSet(o.faulted)

TInit == Init /\ l = 2

Reset == /\ Settled /\ l <= Len(Trace) /\ Trace[l].t = "init"
         /\ st' = St0 /\ ptr' = Ptr0 /\ nxt' = Nxt0 /\ head' = Head0 /\ cur' = Cur0 /\ open' = Open0
         /\ mfile' = Mfile0 /\ mcap' = Mcap0 /\ nmaps' = Nmaps0 /\ used' = Used0 /\ recs' = Recs0 /\ cell' = Cell0
         /\ mu' = "none" /\ fspan' = Fspan0 /\ clock' = ClockSpan
         /\ stk' = Stk0 /\ rv' = Rv0 /\ begun' = Begun0 /\ faults' = {} /\ closedBy' = ClosedBy0
         /\ l' = l + 1
Consume == /\ Settled /\ l <= Len(Trace) /\ Trace[l].t \in Tasks
           /\ LET t == Trace[l].t IN Active(t) /\ Top(t).pc # "Fault" /\ Visible(t)
           /\ l' = l + 1
Silent == /\ \E t \in Tasks : Pending(t) /\ Internal(t)
          /\ l' = l
Finished == /\ Settled /\ l = Len(Trace) + 1 /\ UNCHANGED <<vars, l>>
TNext == Reset \/ Consume \/ Silent \/ Finished
TSpec == TInit /\ [][TNext]_<<vars, l>>

(* the model state after a logged step (and its internal steps) is the projection *)
Conform == Settled => Matches(Trace[l - 1])

(* the properties, evaluated by TLC on every observed state as a by-product *)
=============================================================================
