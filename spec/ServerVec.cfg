INIT VInit
NEXT VNext
INVARIANT VecSane
CHECK_DEADLOCK FALSE
CONSTANTS
 CfgGOOS <- MCGOOS
 CfgGOARCH <- MCGOARCH
 CfgGoVersion <- MCGoVersion
 CfgPrograms <- MCPrograms
 Limit <- MCLimit
 InitBuckets <- MCInit
 Requests = {}
 MaxReq = 0
 K = 2
