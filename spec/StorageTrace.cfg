INIT TInit
NEXT TNext
INVARIANTS WellFormed Explained
POSTCONDITION Accepted
CHECK_DEADLOCK FALSE
CONSTANTS
 Buckets = {}
 Names = {}
 Datas = {}
 Prefixes = {}
 MaxOps = 0
 Styles = {}
 EmptyData = "d0"
 CopyOn = FALSE
 CopyMiss = {}
 Handles = {1}
