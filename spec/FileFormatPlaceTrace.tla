------------------------ MODULE FileFormatPlaceTrace ------------------------
(* C10, code -> model: outputs of the real place / hash / mappedHeader        *)
(* recorded by the harness (one JSON object per line); TLC decides whether    *)
(* each is what FileFormat.tla demands.                                       *)
(*   {kind:"place", h, limit, ns:[..], starts:[..], ends:[..]}                *)
(*   {kind:"hash", s:[bytes], b}      {kind:"hdr", m, h}  (h = -1: refused)   *)
EXTENDS FileFormat, Json, TLC
Trace == ndJsonDeserialize("c10place.ndjson")
VARIABLE l
Init == l = 1
Next == l <= Len(Trace) /\ l' = l + 1
Explained(r) ==
    CASE r.kind = "place" ->
           /\ Len(r.starts) = Len(r.ns) /\ Len(r.ends) = Len(r.ns)
           /\ \A i \in DOMAIN r.ns : <<r.starts[i], r.ends[i]>> = Place(r.h, r.limit, r.ns[i])
      [] r.kind = "hash"  -> r.b = Hash(r.s)
      [] r.kind = "hdr"   -> r.h = IF r.m <= MaxMeta THEN HeaderLen(r.m) ELSE -1
      [] OTHER -> FALSE
AllExplained == l <= Len(Trace) => Explained(Trace[l])
Accepted == TLCGet("stats").diameter = Len(Trace) + 1
=============================================================================
