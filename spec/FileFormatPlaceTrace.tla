------------------------ MODULE FileFormatPlaceTrace ------------------------
(* C10, code -> model: outputs of the real place / hash / mappedHeader        *)
(* recorded by the harness (one JSON object per line); TLC decides whether    *)
(* each is what FileFormat.tla demands: for place the relation PlaceRel (any   *)
(* allocator that respects the layout is accepted; equality with the            *)
(* documented allocator Place is checked by the vector replay and a difference  *)
(* there is a model divergence, not a violation), for hash and header the       *)
(* value fixed by the format.                                                   *)
(*   {kind:"place", h, limit, ns:[..], starts:[..], ends:[..]}                *)
(*   {kind:"hash", s:[bytes], b}      {kind:"hdr", m, h}  (h = -1: refused)   *)
EXTENDS FileFormat, Json, TLC
Trace == ndJsonDeserialize("c10place.ndjson")
VARIABLE l
Init == l = 1
Next == l <= Len(Trace) /\ l' = l + 1
Explained(r) ==
    CASE r.kind = "place" ->
           /\ Len(r.starts) = Len(r.ns) /\ Len(r.ends) = Len(r.ns)
           /\ \A i \in DOMAIN r.ns : PlaceRel(r.h, r.limit, r.ns[i], r.starts[i], r.ends[i])
      [] r.kind = "hash"  -> r.b = Hash(r.s)
      [] r.kind = "hdr"   -> r.h = IF r.m <= MaxMeta THEN HeaderLen(r.m) ELSE -1
      [] OTHER -> FALSE
AllExplained == l <= Len(Trace) => Explained(Trace[l])
Accepted == TLCGet("stats").diameter = Len(Trace) + 1
=============================================================================
