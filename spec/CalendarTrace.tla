--------------------------- MODULE CalendarTrace ---------------------------
(* code -> model: observations of the real counterSpan() on random instants  *)
(* and week-end file contents, one JSON object per line; TLC decides whether *)
(* each is what Calendar.tla demands.                                        *)
EXTENDS Calendar, Json, TLC, Sequences
Trace == ndJsonDeserialize("c09obs.ndjson")
VARIABLE l
Init == l = 1
Next == l <= Len(Trace) /\ l' = l + 1
(* with a clock that moves while the span is computed (fields now .. now2) the  *)
(* "current day" is any day the clock was in, but begin and end must belong to  *)
(* ONE day: the span is the span of its own begin day                           *)
Days(r) == IF "now2" \in DOMAIN r THEN DayOf(r.now)..DayOf(r.now2) ELSE {DayOf(r.now)}
Explained(r) ==
    IF r.byte = 0 THEN ~r.ok
    ELSE /\ r.ok
         /\ \E d \in Days(r) : r.begin = Begin(d) /\ r.end = End(d, SettingOfByte(r.byte))
AllExplained == l <= Len(Trace) => Explained(Trace[l])
Accepted == TLCGet("stats").diameter = Len(Trace) + 1
=============================================================================
