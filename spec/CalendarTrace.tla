--------------------------- MODULE CalendarTrace ---------------------------
(* code -> model: observations of the real counterSpan() on random instants  *)
(* and week-end file contents, one JSON object per line; TLC decides whether *)
(* each is what Calendar.tla demands.                                        *)
EXTENDS Calendar, Json, TLC, Sequences
Trace == ndJsonDeserialize("c09obs.ndjson")
VARIABLE l
Init == l = 1
Next == l <= Len(Trace) /\ l' = l + 1
Explained(r) == LET d == DayOf(r.now) IN
    IF r.byte = 0 THEN ~r.ok
    ELSE /\ r.ok
         /\ r.begin = Begin(d)
         /\ r.end = End(d, SettingOfByte(r.byte))
AllExplained == l <= Len(Trace) => Explained(Trace[l])
Accepted == TLCGet("stats").diameter = Len(Trace) + 1
=============================================================================
