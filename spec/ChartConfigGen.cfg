SPECIFICATION Spec
INVARIANTS OrderIndependent EachListedOnce PrefixMonotone OwnMinListed Isolated
CHECK_DEADLOCK FALSE
CONSTANTS
  MaxRecs = 3
  Ctrs = {1, 2}
  Depths = {0, 3}
  Mins = {0, 1, 2, 3, 4}
  NProgs = 2
  ToolProgs = {1}
  Known1 = {1, 2, 4, 5}
  Known2 = {1, 3, 4, 5}
