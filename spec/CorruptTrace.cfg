SPECIFICATION TSpec
CHECK_DEADLOCK FALSE
CONSTANTS
  MaxDamage = 0
  MaxDamageParse = 2
