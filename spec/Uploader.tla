------------------------------- MODULE Uploader -------------------------------
(***************************************************************************)
(* The weekly report pipeline of internal/upload (properties C07 and C08)  *)
(* at the granularity of its file-system and HTTP calls: every ReadDir,     *)
(* ReadFile, Stat, exclusive create, write, Remove and Post of              *)
(* uploader.Run is one action, so that several uploaders can be interleaved *)
(* and an uploader can be killed between any two calls (its deferred lock   *)
(* removal then never runs).                                                *)
(*                                                                         *)
(* The telemetry directory:                                                 *)
(*   count        count files present (all of them expired)                 *)
(*   ready[w]     local/<w>.json      (the report to upload)                *)
(*   localr[w]    local/local.<w>.json                                      *)
(*   uploaded[w]  upload/<w>.json     (the marker)                          *)
(*   lock[w]      upload/<w>.json.lock                                      *)
(* A report file is Absent or [by, files, complete]: who built it (its X),  *)
(* from which count files, and whether the bytes have been written yet      *)
(* (exclusive create and write are two calls).                              *)
(* The server: acks (bodies it acknowledged), posts (every request).        *)
(***************************************************************************)
EXTENDS Integers, Sequences, FiniteSets, TLC

CONSTANTS Uploaders, Files, WeekOfFile, Weeks,
          LateFiles,      \* count files that appear later (written by a program that was still running)
          MaxRuns,        \* runs per uploader
          Replies,        \* subset of {"200", "4xx", "5xx", "none"}
          AllowKill

Absent == [st |-> "absent"]
Rep(by, fs, c) == [st |-> "file", by |-> by, files |-> fs, complete |-> c]
FilesOf(w) == {f \in Files : WeekOfFile[f] = w}
NoBody == [st |-> "none"]

VARIABLES count, ready, localr, uploaded, lock, acks, posts, arrived,
          alive, runs, pc,
          seenCount,      \* count files listed by ReadDir
          parseq,         \* files still to be read in findWork
          collected,      \* count files read successfully (cached contents)
          seenReady, seenUp,
          weeks,          \* weeks still to be processed by reports()
          wk,             \* the week being processed
          delq,           \* count files still to delete in the current step sequence
          after,          \* where to continue after a delete sequence
          created,        \* weeks whose upload report this run (thinks it) created, in order
          readyq,         \* ready reports still to upload, in order
          buf             \* contents read by uploadReport
dirv == <<count, ready, localr, uploaded, lock, arrived>>
srv == <<acks, posts>>
loc == <<runs, pc, seenCount, parseq, collected, seenReady, seenUp, weeks, wk, delq, after, created, readyq, buf>>
vars == <<dirv, srv, alive, loc>>

SeqOf(S) == CHOOSE s \in [1..Cardinality(S) -> S] : \A i, j \in 1..Cardinality(S) : i # j => s[i] # s[j]
(* directory order is name order; any fixed order will do in the model *)
RECURSIVE Sorted(_)
Sorted(S) == IF S = {} THEN <<>> ELSE LET m == CHOOSE x \in S : \A y \in S : x <= y IN <<m>> \o Sorted(S \ {m})

Init ==
  /\ count = Files \ LateFiles /\ arrived = {}
  /\ ready = [w \in Weeks |-> Absent] /\ localr = [w \in Weeks |-> Absent] /\ uploaded = [w \in Weeks |-> Absent]
  /\ lock = [w \in Weeks |-> FALSE]
  /\ acks = {} /\ posts = {}
  /\ alive = [u \in Uploaders |-> TRUE]
  /\ runs = [u \in Uploaders |-> 0]
  /\ pc = [u \in Uploaders |-> "Start"]
  /\ seenCount = [u \in Uploaders |-> {}] /\ parseq = [u \in Uploaders |-> <<>>] /\ collected = [u \in Uploaders |-> {}]
  /\ seenReady = [u \in Uploaders |-> {}] /\ seenUp = [u \in Uploaders |-> {}]
  /\ weeks = [u \in Uploaders |-> {}] /\ wk = [u \in Uploaders |-> 0]
  /\ delq = [u \in Uploaders |-> <<>>] /\ after = [u \in Uploaders |-> "none"]
  /\ created = [u \in Uploaders |-> <<>>] /\ readyq = [u \in Uploaders |-> <<>>]
  /\ buf = [u \in Uploaders |-> NoBody]

S(v, u, x) == [v EXCEPT ![u] = x]
U(v) == UNCHANGED v

(* first scheduling of a run: up to the first call, ReadDir(local) *)
Start(u) ==
  /\ pc[u] = "Start" /\ runs[u] < MaxRuns
  /\ runs' = S(runs, u, runs[u] + 1)
  /\ pc' = S(pc, u, "FW_readdir")
  /\ collected' = S(collected, u, {}) /\ created' = S(created, u, <<>>) /\ buf' = S(buf, u, NoBody)
  /\ U(<<dirv, srv, alive, seenCount, parseq, seenReady, seenUp, weeks, wk, delq, after, readyq>>)

(* ---- findWork ---- *)
FWReadDir(u) ==                            \* os.ReadDir(local)
  /\ pc[u] = "FW_readdir"
  /\ seenCount' = S(seenCount, u, count)
  /\ parseq' = S(parseq, u, Sorted(count))
  /\ seenReady' = S(seenReady, u, {w \in Weeks : ready[w].st = "file"})
  /\ pc' = S(pc, u, IF count = {} THEN "FW_readup" ELSE "FW_parse")
  /\ U(<<dirv, srv, alive, runs, collected, seenUp, weeks, wk, delq, after, created, readyq, buf>>)
FWParse(u) == LET f == Head(parseq[u]) IN  \* os.ReadFile(count file): a file removed meanwhile is skipped
  /\ pc[u] = "FW_parse"
  /\ collected' = S(collected, u, IF f \in count THEN collected[u] \cup {f} ELSE collected[u])
  /\ parseq' = S(parseq, u, Tail(parseq[u]))
  /\ pc' = S(pc, u, IF Len(parseq[u]) = 1 THEN "FW_readup" ELSE "FW_parse")
  /\ U(<<dirv, srv, alive, runs, seenCount, seenReady, seenUp, weeks, wk, delq, after, created, readyq, buf>>)
(* os.ReadDir(upload); then reports() starts: the weeks of the collected files *)
NextWeekPc(ws) == IF ws = {} THEN "UP_next" ELSE "RP_pick"
FWReadUp(u) ==
  /\ pc[u] = "FW_readup"
  /\ seenUp' = S(seenUp, u, {w \in Weeks : uploaded[w].st = "file"})
  /\ LET ws == {WeekOfFile[f] : f \in collected[u]} IN
       /\ weeks' = S(weeks, u, ws)
       /\ readyq' = S(readyq, u, Sorted(seenReady[u]))
       /\ pc' = S(pc, u, NextWeekPc(ws))
  /\ U(<<dirv, srv, alive, runs, seenCount, parseq, collected, seenReady, wk, delq, after, created, buf>>)

(* ---- reports: one week at a time, in map-iteration (= any) order.  Picking *)
(* is not a call: it is folded into the step that follows it, so RP_pick is  *)
(* an urgent internal step.                                                  *)
MyFiles(u, w) == Sorted({f \in collected[u] : WeekOfFile[f] = w})
Pick(u) ==
  /\ pc[u] = "RP_pick"
  /\ \E w \in weeks[u] :
       /\ wk' = S(wk, u, w)
       /\ weeks' = S(weeks, u, weeks[u] \ {w})
       /\ IF w \in seenUp[u] \/ w \in seenReady[u]          \* notNeeded: delete the files
          THEN /\ delq' = S(delq, u, MyFiles(u, w)) /\ after' = S(after, u, "week") /\ pc' = S(pc, u, "DEL")
          ELSE /\ pc' = S(pc, u, "CR_statlocal") /\ U(<<delq, after>>)
  /\ U(<<dirv, srv, alive, runs, seenCount, parseq, collected, seenReady, seenUp, created, readyq, buf>>)
Del(u) == LET f == Head(delq[u]) IN        \* os.Remove(count file)
  /\ pc[u] = "DEL"
  /\ count' = count \ {f}
  /\ delq' = S(delq, u, Tail(delq[u]))
  /\ pc' = S(pc, u, IF Len(delq[u]) > 1 THEN "DEL" ELSE NextWeekPc(weeks[u]))
  /\ U(<<arrived, ready, localr, uploaded, lock, srv, alive, runs, seenCount, parseq, collected, seenReady, seenUp, weeks, wk, after, created, readyq, buf>>)
DelOrNext(u, w) == IF MyFiles(u, w) = <<>> THEN /\ pc' = S(pc, u, NextWeekPc(weeks[u])) /\ U(delq)
                   ELSE /\ pc' = S(pc, u, "DEL") /\ delq' = S(delq, u, MyFiles(u, w))
CRStatLocal(u) == LET w == wk[u] IN        \* os.Stat(local.<w>.json): exists => delete the files, no report
  /\ pc[u] = "CR_statlocal"
  /\ IF localr[w].st = "file" THEN DelOrNext(u, w) ELSE pc' = S(pc, u, "CR_statready") /\ U(delq)
  /\ U(<<dirv, srv, alive, runs, seenCount, parseq, collected, seenReady, seenUp, weeks, wk, after, created, readyq, buf>>)
CRStatReady(u) == LET w == wk[u] IN        \* os.Stat(<w>.json)
  /\ pc[u] = "CR_statready"
  /\ IF ready[w].st = "file" THEN DelOrNext(u, w) ELSE pc' = S(pc, u, "CR_mkready") /\ U(delq)
  /\ U(<<dirv, srv, alive, runs, seenCount, parseq, collected, seenReady, seenUp, weeks, wk, after, created, readyq, buf>>)
CRMkReady(u) == LET w == wk[u] IN          \* exclusiveWrite(<w>.json): O_CREATE|O_EXCL; an existing file is silently kept
  /\ pc[u] = "CR_mkready"
  /\ IF ready[w].st = "file"
     THEN /\ U(ready) /\ pc' = S(pc, u, "CR_mklocal")
     ELSE /\ ready' = [ready EXCEPT ![w] = Rep(u, {f \in collected[u] : WeekOfFile[f] = w}, FALSE)]
          /\ pc' = S(pc, u, "CR_wrready")
  /\ U(<<arrived, count, localr, uploaded, lock, srv, alive, runs, seenCount, parseq, collected, seenReady, seenUp, weeks, wk, delq, after, created, readyq, buf>>)
CRWrReady(u) == LET w == wk[u] IN          \* f.Write(contents)
  /\ pc[u] = "CR_wrready"
  /\ ready' = IF ready[w].st = "file" /\ ready[w].by = u THEN [ready EXCEPT ![w].complete = TRUE] ELSE ready
  /\ pc' = S(pc, u, "CR_mklocal")
  /\ U(<<arrived, count, localr, uploaded, lock, srv, alive, runs, seenCount, parseq, collected, seenReady, seenUp, weeks, wk, delq, after, created, readyq, buf>>)
CRMkLocal(u) == LET w == wk[u] IN          \* exclusiveWrite(local.<w>.json)
  /\ pc[u] = "CR_mklocal"
  /\ IF localr[w].st = "file"
     THEN /\ U(localr) /\ pc' = S(pc, u, "CR_done")
     ELSE /\ localr' = [localr EXCEPT ![w] = Rep(u, {f \in collected[u] : WeekOfFile[f] = w}, FALSE)]
          /\ pc' = S(pc, u, "CR_wrlocal")
  /\ U(<<arrived, count, ready, uploaded, lock, srv, alive, runs, seenCount, parseq, collected, seenReady, seenUp, weeks, wk, delq, after, created, readyq, buf>>)
CRWrLocal(u) == LET w == wk[u] IN
  /\ pc[u] = "CR_wrlocal"
  /\ localr' = IF localr[w].st = "file" /\ localr[w].by = u THEN [localr EXCEPT ![w].complete = TRUE] ELSE localr
  /\ pc' = S(pc, u, "CR_done")
  /\ U(<<arrived, count, ready, uploaded, lock, srv, alive, runs, seenCount, parseq, collected, seenReady, seenUp, weeks, wk, delq, after, created, readyq, buf>>)
(* both files written (or found): delete the count files, remember the report as ready (urgent internal) *)
CRDone(u) == LET w == wk[u] IN
  /\ pc[u] = "CR_done"
  /\ created' = S(created, u, Append(created[u], w))
  /\ readyq' = S(readyq, u, Append(readyq[u], w))
  /\ DelOrNext(u, w)
  /\ U(<<dirv, srv, alive, runs, seenCount, parseq, collected, seenReady, seenUp, weeks, wk, after, buf>>)

(* ---- upload the ready reports ---- *)
UpNext(u) ==                               \* loop control (urgent internal)
  /\ pc[u] = "UP_next"
  /\ IF readyq[u] = <<>> THEN pc' = S(pc, u, "Start") /\ U(<<wk, readyq>>)
     ELSE /\ wk' = S(wk, u, Head(readyq[u])) /\ readyq' = S(readyq, u, Tail(readyq[u])) /\ pc' = S(pc, u, "UP_read")
  /\ U(<<dirv, srv, alive, runs, seenCount, parseq, collected, seenReady, seenUp, weeks, delq, after, created, buf>>)
UPRead(u) == LET w == wk[u] IN             \* os.ReadFile(<w>.json)
  /\ pc[u] = "UP_read"
  /\ IF ready[w].st = "file"
     THEN /\ buf' = S(buf, u, [st |-> "body", by |-> ready[w].by, files |-> ready[w].files, complete |-> ready[w].complete])
          /\ pc' = S(pc, u, "UP_lock")
     ELSE /\ U(buf) /\ pc' = S(pc, u, "UP_next")
  /\ U(<<dirv, srv, alive, runs, seenCount, parseq, collected, seenReady, seenUp, weeks, wk, delq, after, created, readyq>>)
UPLock(u) == LET w == wk[u] IN             \* os.OpenFile(<w>.json.lock, O_CREATE|O_EXCL)
  /\ pc[u] = "UP_lock"
  /\ IF lock[w] THEN /\ U(lock) /\ pc' = S(pc, u, "UP_next")
     ELSE /\ lock' = [lock EXCEPT ![w] = TRUE] /\ pc' = S(pc, u, "UP_stat")
  /\ U(<<arrived, count, ready, localr, uploaded, srv, alive, runs, seenCount, parseq, collected, seenReady, seenUp, weeks, wk, delq, after, created, readyq, buf>>)
UPStat(u) == LET w == wk[u] IN             \* os.Stat(upload/<w>.json): already uploaded?
  /\ pc[u] = "UP_stat"
  /\ pc' = S(pc, u, IF uploaded[w].st = "file" THEN "UP_rmdup" ELSE "UP_post")
  /\ U(<<dirv, srv, alive, runs, seenCount, parseq, collected, seenReady, seenUp, weeks, wk, delq, after, created, readyq, buf>>)
UPRmDup(u) == LET w == wk[u] IN            \* os.Remove(<w>.json)
  /\ pc[u] = "UP_rmdup"
  /\ ready' = [ready EXCEPT ![w] = Absent]
  /\ pc' = S(pc, u, "UP_unlock")
  /\ U(<<arrived, count, localr, uploaded, lock, srv, alive, runs, seenCount, parseq, collected, seenReady, seenUp, weeks, wk, delq, after, created, readyq, buf>>)
UPPost(u) == LET w == wk[u]  b == buf[u] IN       \* http.Post
  /\ pc[u] = "UP_post"
  /\ \E r \in Replies :
       /\ posts' = posts \cup {[w |-> w, body |-> b, reply |-> r, by |-> u, n |-> runs[u],
                                after |-> (uploaded[w].st = "file" /\ \E a \in acks : a.w = w)]}
       /\ acks' = IF r = "200" THEN acks \cup {[w |-> w, body |-> b]} ELSE acks
       /\ pc' = S(pc, u, CASE r = "200" -> "UP_mkmark" [] r = "4xx" -> "UP_rm4xx" [] OTHER -> "UP_unlock")
  /\ U(<<dirv, alive, runs, seenCount, parseq, collected, seenReady, seenUp, weeks, wk, delq, after, created, readyq, buf>>)
UPMkMark(u) == LET w == wk[u]  b == buf[u] IN     \* os.WriteFile(upload/<w>.json): create/truncate ...
  /\ pc[u] = "UP_mkmark"
  /\ uploaded' = [uploaded EXCEPT ![w] = Rep(b.by, b.files, FALSE)]
  /\ pc' = S(pc, u, "UP_wrmark")
  /\ U(<<arrived, count, ready, localr, lock, srv, alive, runs, seenCount, parseq, collected, seenReady, seenUp, weeks, wk, delq, after, created, readyq, buf>>)
UPWrMark(u) == LET w == wk[u] IN                  \* ... then write
  /\ pc[u] = "UP_wrmark"
  /\ uploaded' = [uploaded EXCEPT ![w].complete = buf[u].complete]
  /\ pc' = S(pc, u, "UP_rmready")
  /\ U(<<arrived, count, ready, localr, lock, srv, alive, runs, seenCount, parseq, collected, seenReady, seenUp, weeks, wk, delq, after, created, readyq, buf>>)
UPRmReady(u) == LET w == wk[u] IN                 \* os.Remove(<w>.json) after the marker was written
  /\ pc[u] = "UP_rmready"
  /\ ready' = [ready EXCEPT ![w] = Absent]
  /\ pc' = S(pc, u, "UP_unlock")
  /\ U(<<arrived, count, localr, uploaded, lock, srv, alive, runs, seenCount, parseq, collected, seenReady, seenUp, weeks, wk, delq, after, created, readyq, buf>>)
UPRm4xx(u) == LET w == wk[u] IN                   \* client error: os.Remove(<w>.json), not marked uploaded
  /\ pc[u] = "UP_rm4xx"
  /\ ready' = [ready EXCEPT ![w] = Absent]
  /\ pc' = S(pc, u, "UP_unlock")
  /\ U(<<arrived, count, localr, uploaded, lock, srv, alive, runs, seenCount, parseq, collected, seenReady, seenUp, weeks, wk, delq, after, created, readyq, buf>>)
UPUnlock(u) == LET w == wk[u] IN                  \* deferred os.Remove(lock)
  /\ pc[u] = "UP_unlock"
  /\ lock' = [lock EXCEPT ![w] = FALSE]
  /\ pc' = S(pc, u, "UP_next")
  /\ U(<<arrived, count, ready, localr, uploaded, srv, alive, runs, seenCount, parseq, collected, seenReady, seenUp, weeks, wk, delq, after, created, readyq, buf>>)

InternalPCs == {"RP_pick", "CR_done", "UP_next"}
Pending(u) == alive[u] /\ pc[u] \in InternalPCs
Settled == \A u \in Uploaders : ~Pending(u)
Internal(u) == Pick(u) \/ CRDone(u) \/ UpNext(u)
Visible(u) == \/ Start(u) \/ FWReadDir(u) \/ FWParse(u) \/ FWReadUp(u) \/ Del(u)
              \/ CRStatLocal(u) \/ CRStatReady(u) \/ CRMkReady(u) \/ CRWrReady(u) \/ CRMkLocal(u) \/ CRWrLocal(u)
              \/ UPRead(u) \/ UPLock(u) \/ UPStat(u) \/ UPRmDup(u) \/ UPPost(u) \/ UPMkMark(u) \/ UPWrMark(u)
              \/ UPRmReady(u) \/ UPRm4xx(u) \/ UPUnlock(u)
Arrive(f) == /\ Settled /\ f \in LateFiles \ arrived
             /\ count' = count \cup {f} /\ arrived' = arrived \cup {f}
             /\ U(<<ready, localr, uploaded, lock, srv, alive, loc>>)
Kill(u) == /\ AllowKill /\ alive[u] /\ pc[u] # "Start" /\ Settled
           /\ alive' = S(alive, u, FALSE)
           /\ U(<<dirv, srv, loc>>)
Next == IF \E u \in Uploaders : Pending(u)
        THEN \E u \in Uploaders : Pending(u) /\ Internal(u)
        ELSE (\E u \in Uploaders : (alive[u] /\ Visible(u)) \/ Kill(u)) \/ (\E f \in LateFiles : Arrive(f))
Step(u) == IF Pending(u) THEN Internal(u) ELSE (Settled /\ alive[u] /\ Visible(u))
Spec == Init /\ [][Next]_vars
FairSpec == Spec /\ \A u \in Uploaders : WF_vars(Step(u))

(* ------------------------------------------------------------ properties *)
Quiet == \A u \in Uploaders : alive[u] /\ pc[u] = "Start"
NoKills == \A u \in Uploaders : alive[u]
(* C07 *)
(* crash-free quiescence: every week has exactly one complete local report over exactly its files, and they are gone *)
OneLocalReport == (Quiet /\ \A u \in Uploaders : runs[u] >= 1) =>
                    \A w \in Weeks : (FilesOf(w) \ LateFiles # {}) =>
                                     /\ localr[w].st = "file" /\ localr[w].complete
                                     /\ (FilesOf(w) \ LateFiles) \subseteq localr[w].files /\ localr[w].files \subseteq FilesOf(w)
                                     /\ (FilesOf(w) \ LateFiles) \cap count = {}
(* a count file is removed only when a report for its week exists in that state *)
DeleteOnlyAfterReport == [][\A f \in Files : (f \in count /\ f \notin count') =>
                              LET w == WeekOfFile[f] IN localr[w].st = "file" \/ ready[w].st = "file" \/ uploaded[w].st = "file"]_vars
(* a report, once complete, never changes and is never replaced by a different one *)
ReportStable == [][\A w \in Weeks : (localr[w].st = "file" /\ localr[w].complete) => localr'[w] = localr[w]]_vars
(* no file is counted in two different reports of its week *)
(* the report to upload is the week's one report: never a second or different one *)
ReadyMatchesLocal == \A w \in Weeks : (localr[w].st = "file" /\ localr[w].complete /\ ready[w].st = "file" /\ ready[w].complete)
                                          => ready[w].files = localr[w].files
(* C08 *)
OneBodyPerWeek == \A w \in Weeks : Cardinality({a.body : a \in {x \in acks : x.w = w}}) <= 1
NoResendAfterRecorded == \A q \in posts : ~q.after
(* relations between a reply and what that uploader does next *)
ServerErrorKeeps == [][\A u \in Uploaders : (pc[u] = "UP_post" /\ pc'[u] = "UP_unlock") => ready'[wk[u]] = ready[wk[u]]]_vars
ClientErrorDiscards == [][\A u \in Uploaders : (pc[u] = "UP_rm4xx" /\ pc'[u] # "UP_rm4xx" /\ alive'[u]) =>
                             (ready'[wk[u]] = Absent /\ uploaded'[wk[u]] = uploaded[wk[u]])]_vars
LeftoverRetried == (Quiet /\ NoKills /\ Cardinality(Uploaders) = 1 /\ \A u \in Uploaders : runs[u] = MaxRuns) =>
                     \A w \in Weeks : ready[w].st = "file" => \E q \in posts : q.w = w /\ q.n = MaxRuns
NoLockLeft == (Quiet /\ NoKills) => \A w \in Weeks : ~lock[w]
MarkerOnlyAfterAck == \A w \in Weeks : uploaded[w].st = "file" => \E a \in acks : a.w = w
(* without crashes and with an answering server every uploadable week is eventually acknowledged exactly once *)
EventuallyOnce == <>(\A w \in Weeks : Cardinality({a \in acks : a.w = w}) = 1)
AtMostOneAck == \A w \in Weeks : Cardinality({q \in posts : q.w = w /\ q.reply = "200"}) <= 1
(* observation (not part of the listed properties): acknowledged bodies are complete *)
AckedBodiesComplete == \A a \in acks : a.body.complete /\ a.body.files = FilesOf(a.w)

(* ---- race windows ---- *)
At(u, p) == alive[u] /\ pc[u] = p
W_LockContention == \E u \in Uploaders : At(u, "UP_lock") /\ lock[wk[u]]
W_KilledAfterAck == \E u \in Uploaders : ~alive[u] /\ pc[u] = "UP_mkmark"
W_KilledAfterMarker == \E u \in Uploaders : ~alive[u] /\ pc[u] = "UP_rmready"
W_KilledBetweenCreateAndWrite == \E u \in Uploaders : ~alive[u] /\ pc[u] = "CR_wrready"
W_4xxThenRerun == \E q \in posts : q.reply = "4xx" /\ \E u \in Uploaders : runs[u] >= 2
W_5xxThenRerun == \E q \in posts : q.reply = "5xx" /\ \E u \in Uploaders : runs[u] >= 2 /\ At(u, "UP_post")
W_StaleReadyList == \E u \in Uploaders : At(u, "UP_read") /\ ready[wk[u]].st # "file"
W_ReadUnwritten == \E u \in Uploaders : At(u, "UP_lock") /\ buf[u].st = "body" /\ ~buf[u].complete
W_BothCreate == \E u, v \in Uploaders : u # v /\ At(u, "CR_mkready") /\ At(v, "CR_mkready") /\ wk[u] = wk[v]
W_ExclLost == \E u \in Uploaders : At(u, "CR_mkready") /\ ready[wk[u]].st = "file"
W_StatSeesUploaded == \E u \in Uploaders : At(u, "UP_stat") /\ uploaded[wk[u]].st = "file"
W_DeletedUnderParse == \E u \in Uploaders : At(u, "FW_parse") /\ Head(parseq[u]) \notin count
W_LocalExists == \E u \in Uploaders : At(u, "CR_statlocal") /\ localr[wk[u]].st = "file"
View == <<dirv, acks, {[w |-> q.w, body |-> q.body, reply |-> q.reply, after |-> q.after] : q \in posts}, alive, loc>>
=============================================================================
