---------------------------- MODULE ConsentTrace ----------------------------
(* code -> model for C02: transitions observed on the real code (one JSON    *)
(* object per line: action, abstracted state before and after, what the      *)
(* library reads back, byte-level "same" flags from the directory snapshot)  *)
(* are judged by the clauses of ConsentOps.tla.  For every line TLC prints   *)
(* a verdict <<"C02BAD", line, violated clauses, diverges>> when a clause of *)
(* the property is false on the observed transition, or when the observed    *)
(* successor is not the one the specification's step function gives.         *)
EXTENDS ConsentOps, Json, Sequences, TLC
Trace == ndJsonDeserialize("c02obs.ndjson")
VARIABLE l

ToSet(q) == {q[i] : i \in DOMAIN q}
MF(m) == [k |-> m.k, w |-> m.w, d |-> m.d, pad |-> m.pad]
Key(x) == [p |-> x.p, b |-> x.b, e |-> x.e]
FilesOf(q) == LET xs == ToSet(q) IN [f \in {Key(x) : x \in xs} |-> (CHOOSE x \in xs : Key(x) = f).n]
StateOf(o) == St(MF(o.modeFile), MF(o.intent), o.day, o.tod, FilesOf(o.files), ToSet(o.local), ToSet(o.ready),
                 ToSet(o.uploaded), {[wk |-> x.wk, run |-> x.run] : x \in ToSet(o.requests)},
                 [st |-> o.proc.st, f |-> [p |-> o.proc.p, b |-> o.proc.b, e |-> o.proc.e]])

If(c, name) == IF c THEN {} ELSE {name}
Violated(r) ==
    LET a == r.a  s == StateOf(r.s)  t == StateOf(r.t) IN
       If(C_RequestOnlyWhenOn(a, s, t), "RequestOnlyWhenOn")
  \cup UNION {If(C_UploadableOnlyIfW(c, a, s, t), "UploadableOnlyIf." \o c) : c \in {"data", "age", "rate", "optin"}}
  \cup UNION {If(C_SentOnlyIfW(c, a, s, t), "SentOnlyIf." \o c) : c \in {"future", "optin"}}
  \cup If(C_OffChangesNothing(a, s, t) /\ ((ExactlyOff(Gov(s)) /\ (a.op \in {"run", "collect", "protate"} \/ (a.op = "pinc" /\ s.proc.st # "open"))) => r.same.data), "OffChangesNothing")
  \cup If(C_BodyXRate(a, s, t, ToSet(r.posted)), "UploadableOnlyIf.rate.body")
  \cup If(C_BodyXSame(a, s, t, ToSet(r.posted)), "BodyXIsReportX")
  \cup If(C_OtherBehavesLocal(a, s, t), "OtherBehavesLocal")
  \cup If(C_DisabledStaysSilent(a, s, t), "DisabledStaysSilent")
  \cup If(a.op = "set" =>
            LET accepted == a.ok /\ r.read.w = a.a /\ DateOK(a, r.read.d)
                rejected == ~a.ok /\ r.same.mode
            IN IF a.a \notin ValidModes THEN rejected
               ELSE IF a.p = "" THEN accepted
               ELSE accepted \/ rejected, "SetGet")

Step(r, s) == CASE r.a.op = "run" -> RunStep(s, r.a.n1, r.a.n2, r.run)
                [] r.a.op = "collect" -> CollectStep(s, r.a.a, r.w)
                [] r.a.op = "set" -> SetStep(s, r.a.a, r.a.p, r.a.n1, r.a.ok)
                [] r.a.op = "protate" -> ProcRotateStep(s, r.a.a, r.w)
                [] r.a.op = "pinc" -> ProcIncStep(s)
                [] OTHER -> s
(* the observed successor is the specification's, nothing else appeared in   *)
(* the directory, and the library reads the mode file as documented          *)
Predicted(r) == LET s == StateOf(r.s)  t == StateOf(r.t) IN
    /\ t = Step(r, s)
    /\ r.extra_t = r.extra_s
    /\ <<r.read.w, r.read.d>> = ReadBack(t.modeFile)

Init == l = 1
Next == /\ l <= Len(Trace)
        /\ l' = l + 1
        /\ LET r == Trace[l]  v == Violated(r)  p == Predicted(r) IN
           (v # {} \/ ~p) => PrintT(<<"C02BAD", l, v, ~p>>)
Accepted == TLCGet("stats").diameter = Len(Trace) + 1
=============================================================================
