SPECIFICATION TSpec
INVARIANTS LayoutOK Clauses Exact Created
PROPERTY Monotone
POSTCONDITION Accepted
CHECK_DEADLOCK FALSE
CONSTANTS
 Names = {}
 MetaLens = {}
 Actors = {}
 Incs = {}
 MaxOps = 0
