SPECIFICATION TSpec
INVARIANTS LayoutOK Clauses Exact
PROPERTY Monotone
POSTCONDITION Accepted
CHECK_DEADLOCK FALSE
CONSTANTS
 Names = {}
 MetaLens = {}
 Actors = {}
 Incs = {}
 MaxOps = 0
