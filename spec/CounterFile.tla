----------------------------- MODULE CounterFile -----------------------------
(***************************************************************************)
(* Several processes recording into one shared, memory-mapped counter file *)
(* (property C04), at the granularity of the implementation's accesses to   *)
(* the file: every atomic load / CAS / store on mapped memory and every     *)
(* file-system call (Stat, WriteAt, reopen) of mappedFile.lookup,           *)
(* mappedFile.newCounter, mappedFile.extend and Counter.add is one action.  *)
(* A process may be killed in any state; it then simply stops.              *)
(*                                                                         *)
(* Space is abstracted to record SLOTS numbered in allocation order, K per  *)
(* page (the byte-level placement is FileFormat.Place, property C10).       *)
(*                                                                         *)
(* Shared (the file):                                                       *)
(*   size      pages the file has                                            *)
(*   limit     slots allocated (the allocation limit in the header)         *)
(*   head[b]   bucket heads (0 = empty)                                     *)
(*   rec[s]    [name, len, next, val]: name bytes written ("none" = not     *)
(*             yet), len = name-length word stored, next link (0 = end,     *)
(*             DEAD = marked dead), val = the 64-bit value                  *)
(* Per process: alive, maplen (pages its current mapping covers), pc and    *)
(* the locals of newCounter.                                                *)
(***************************************************************************)
EXTENDS Integers, Sequences, FiniteSets, TLC

CONSTANTS Procs, NamesOf,     \* process -> the sequence of counter names it increments, one after the other (once each)
          Names, BucketOf,    \* name -> bucket
          Buckets,
          K,                  \* record slots per page
          InitSlots,          \* slots already allocated (and linked, foreign names) at the start
          MaxSlots, MaxPages,
          MaxTries,           \* remap attempts before giving up (10 in the code)
          AllowKill,
          FixF16,             \* repair: a duplicate scan that leaves the mapping gives its record up and starts over
          MaxVal,             \* the value at which a counter sticks instead of wrapping (2^64-1 in the code)
          WarmName, WarmVal,  \* a record that exists (linked, value WarmVal) before the race starts; "none" = no such record
          Create              \* TRUE: the file does not exist yet; every process starts by opening (creating) it

DEAD == -1
NoRec == [name |-> "none", len |-> FALSE, next |-> 0, val |-> 0]
PageOf(s) == (s + K - 1) \div K            \* page (1-based) holding slot s

VARIABLES size, limit, head, rec,
          alive, maplen, pc, ph, rm, lhead, off, lim, start, tries, old, vslot, vold, err,
          done          \* done[p]: number of the process's atomic adds that completed
shared == <<size, limit, head, rec>>
locals == <<maplen, pc, ph, rm, lhead, off, lim, start, tries, old, vslot, vold, err>>
vars == <<shared, alive, locals, done>>

NInit == IF WarmName = "none" THEN InitSlots ELSE InitSlots + 1   \* records present at the start
(* size: number of 16 KiB pages; during creation (openMapped) the file is    *)
(* shorter than a page: -2 = does not exist, -1 = exists and is empty,        *)
(* 0 = the header has been written but not the end of the first page          *)
Size0  == IF Create THEN -2 ELSE PageOf(IF NInit = 0 THEN 1 ELSE NInit)
Limit0 == NInit
Head0  == [b \in Buckets |-> IF WarmName # "none" /\ b = BucketOf[WarmName] THEN NInit ELSE 0]
Rec0   == [s \in 1..MaxSlots |-> IF s <= InitSlots THEN [name |-> "filler", len |-> TRUE, next |-> 0, val |-> 1]
                                  ELSE IF s = NInit THEN [name |-> WarmName, len |-> TRUE, next |-> 0, val |-> WarmVal]
                                  ELSE NoRec]
Init ==
  /\ size = Size0
  /\ limit = Limit0
  /\ head = Head0
  /\ rec = Rec0
  /\ alive = [p \in Procs |-> TRUE]
  /\ maplen = [p \in Procs |-> size]
  /\ pc = [p \in Procs |-> "P_start"]
  /\ rm = [p \in Procs |-> FALSE]   \* the process switched to a new mapping during this newCounter call
  /\ ph = [p \in Procs |-> 0]      \* 0: the lookup made by file.newCounter1, 1: inside mappedFile.newCounter
  /\ lhead = [p \in Procs |-> 0] /\ off = [p \in Procs |-> 0] /\ lim = [p \in Procs |-> 0]
  /\ start = [p \in Procs |-> 0] /\ tries = [p \in Procs |-> 0] /\ old = [p \in Procs |-> 0]
  /\ vslot = [p \in Procs |-> 0] /\ vold = [p \in Procs |-> 0]
  /\ err = [p \in Procs |-> "none"]
  /\ done = [p \in Procs |-> 0]

(* the name the process is working on: the first one it has not completed *)
NameOf == [p \in Procs |-> NamesOf[p][IF done[p] + 1 > Len(NamesOf[p]) THEN Len(NamesOf[p]) ELSE done[p] + 1]]
Bk(p) == BucketOf[NameOf[p]]
Visible(p, s) == s >= 1 /\ s <= MaxSlots /\ PageOf(s) <= maplen[p]     \* entryAt's bounds check
Set(v, p, x) == [v EXCEPT ![p] = x]

(* after a walk step decided where to go next; `phase` is "L" (lookup) or "S" (duplicate scan) *)
(* ---- mappedFile.lookup ---- *)
PStart(p) ==                               \* first scheduling of the process: runs up to its first file access
  /\ pc[p] = "P_start"
  /\ pc' = Set(pc, p, IF Create THEN "O_open" ELSE "L_head")
  /\ UNCHANGED <<shared, alive, rm, maplen, ph, lhead, off, lim, start, tries, old, vslot, vold, err, done>>

(* ---- openMapped on a file that may not exist yet (Create) ----              *)
(* os.OpenFile(O_CREATE); Stat; if shorter than a page: WriteAt(header, 0),    *)
(* WriteAt(4 zero bytes, end of the first page), Stat; then mmap and compare   *)
(* the header.  Both writes are idempotent (the header bytes are the same for  *)
(* every process of one build and week, the page end holds no data), so any    *)
(* number of processes may run this block concurrently and a process killed    *)
(* inside it leaves a SHORT file, which the next opener sets up again.         *)
(* old[p] = 1 while the process is inside the set-up block.                    *)
OOpen(p) ==
  /\ pc[p] = "O_open"
  /\ size' = IF size = -2 THEN -1 ELSE size
  /\ pc' = Set(pc, p, "O_stat")
  /\ UNCHANGED <<limit, head, rec, alive, rm, ph, maplen, lhead, off, lim, start, tries, old, vslot, vold, err, done>>
OStat(p) ==
  /\ pc[p] = "O_stat"
  /\ IF size < 1
     THEN /\ old' = Set(old, p, 1) /\ pc' = Set(pc, p, "O_whdr") /\ UNCHANGED maplen
     ELSE /\ maplen' = Set(maplen, p, size) /\ pc' = Set(pc, p, "L_head") /\ UNCHANGED old    \* mmap + header check
  /\ UNCHANGED <<shared, alive, rm, ph, lhead, off, lim, start, tries, vslot, vold, err, done>>
OWhdr(p) ==
  /\ pc[p] = "O_whdr"
  /\ size' = IF size < 0 THEN 0 ELSE size
  /\ pc' = Set(pc, p, "O_wtail")
  /\ UNCHANGED <<limit, head, rec, alive, rm, ph, maplen, lhead, off, lim, start, tries, old, vslot, vold, err, done>>
OWtail(p) ==
  /\ pc[p] = "O_wtail"
  /\ size' = IF size < 1 THEN 1 ELSE size
  /\ pc' = Set(pc, p, "O_stat2")
  /\ UNCHANGED <<limit, head, rec, alive, rm, ph, maplen, lhead, off, lim, start, tries, old, vslot, vold, err, done>>
OStat2(p) ==                                \* Stat, mmap, header check
  /\ pc[p] = "O_stat2"
  /\ maplen' = Set(maplen, p, size)
  /\ old' = Set(old, p, 0)
  /\ pc' = Set(pc, p, "L_head")
  /\ UNCHANGED <<shared, alive, rm, ph, lhead, off, lim, start, tries, vslot, vold, err, done>>

(* When newCounter returns after the process switched mappings (remap or     *)
(* extension), file.newCounter1 publishes the new mapping and invalidates    *)
(* the process's counters; releaseLock then looks the pointer up once more   *)
(* (phase 0 again) before the value is added.                                *)
ToValue(p) == /\ pc' = Set(pc, p, IF rm[p] THEN "L_head" ELSE "V_load")
              /\ ph' = IF rm[p] THEN Set(ph, p, 0) ELSE ph
              /\ rm' = Set(rm, p, FALSE)

(* file.newCounter1 first calls lookup (phase 0); only a hit is used, anything *)
(* else (end of chain, or an entry it cannot read) falls through to           *)
(* mappedFile.newCounter, which looks up again (phase 1).                     *)
After(p, target) == IF ph[p] = 0 /\ target \in {"R_limit", "M_limit"} THEN "L_head" ELSE target
Ph(p, target) == IF ph[p] = 0 /\ target \in {"R_limit", "M_limit"} THEN Set(ph, p, 1) ELSE ph
LHead(p) ==                                \* head = load32(headOff)
  /\ pc[p] = "L_head"
  /\ lhead' = Set(lhead, p, head[Bk(p)])
  /\ off' = Set(off, p, head[Bk(p)])
  /\ LET tg == IF head[Bk(p)] = 0 THEN "R_limit"
               ELSE IF Visible(p, head[Bk(p)]) THEN "L_len" ELSE "M_limit"
     IN pc' = Set(pc, p, After(p, tg)) /\ ph' = Ph(p, tg)
  /\ UNCHANGED <<shared, alive, rm, maplen, lim, start, tries, old, vslot, vold, err, done>>
LLen(p) ==                                 \* entryAt: nameLen = load32(off+8)
  /\ pc[p] = "L_len"
  /\ LET tg == IF rec[off[p]].len THEN "L_next" ELSE "M_limit"       \* nameLen == 0 => !ok
     IN pc' = Set(pc, p, After(p, tg)) /\ ph' = Ph(p, tg)
  /\ UNCHANGED <<shared, alive, rm, maplen, lhead, off, lim, start, tries, old, vslot, vold, err, done>>
LNext(p) == LET s == off[p]  nx == rec[s].next IN      \* entryAt: next = load32(off+12); name compare
  /\ pc[p] = "L_next"
  /\ IF rec[s].name = NameOf[p]
     THEN /\ vslot' = Set(vslot, p, s) /\ ToValue(p) /\ UNCHANGED off
     ELSE /\ UNCHANGED <<vslot, rm>>
          /\ off' = Set(off, p, nx)
          /\ LET tg == IF nx = 0 THEN "R_limit"
                       ELSE IF nx # DEAD /\ Visible(p, nx) THEN "L_len" ELSE "M_limit"
             IN pc' = Set(pc, p, After(p, tg)) /\ ph' = Ph(p, tg)
  /\ UNCHANGED <<shared, alive, maplen, lhead, lim, start, tries, old, vold, err, done>>

(* ---- remap loop of newCounter (lookup found an invalid pointer) ---- *)
MLimit(p) ==                               \* limit = load32(limitOff); corrupt unless beyond the mapping
  /\ pc[p] = "M_limit"
  /\ IF tries[p] >= MaxTries \/ PageOf(limit) <= maplen[p]
     THEN /\ err' = Set(err, p, "corrupt") /\ pc' = Set(pc, p, "Done") /\ UNCHANGED <<lim, tries>>
     ELSE /\ lim' = Set(lim, p, limit) /\ tries' = Set(tries, p, tries[p] + 1)
          /\ pc' = Set(pc, p, "M_open") /\ UNCHANGED err
  /\ UNCHANGED <<shared, alive, rm, ph, maplen, lhead, off, start, old, vslot, vold, done>>
MOpen(p) ==                                \* openMapped: OpenFile
  /\ pc[p] = "M_open"
  /\ pc' = Set(pc, p, "M_stat")
  /\ UNCHANGED <<shared, alive, rm, ph, maplen, lhead, off, lim, start, tries, old, vslot, vold, err, done>>
MStat(p) ==                                \* openMapped: Stat + mmap; then limit vs new length; lookup again
  /\ pc[p] = "M_stat"
  /\ maplen' = Set(maplen, p, size) /\ rm' = Set(rm, p, TRUE)
  /\ IF PageOf(lim[p]) > size
     THEN /\ err' = Set(err, p, "corrupt") /\ pc' = Set(pc, p, "Done")
     ELSE /\ UNCHANGED err /\ pc' = Set(pc, p, "L_head")
  /\ UNCHANGED <<shared, alive, ph, lhead, off, lim, start, tries, old, vslot, vold, done>>

(* ---- reserve space ---- *)
RLimit(p) ==                               \* limit = load32(limitOff); place; extend if needed
  /\ pc[p] = "R_limit"
  /\ lim' = Set(lim, p, limit)
  /\ start' = Set(start, p, limit + 1)
  /\ pc' = Set(pc, p, IF limit + 1 > MaxSlots THEN "Done"           \* model bound, never reached in the cfgs
                      ELSE IF PageOf(limit + 1) > maplen[p] THEN "E_stat" ELSE "R_cas")
  /\ UNCHANGED <<shared, alive, rm, ph, maplen, lhead, off, tries, old, vslot, vold, err, done>>
EStat(p) ==                                \* extend: m.f.Stat()
  /\ pc[p] = "E_stat"
  /\ pc' = Set(pc, p, IF size < PageOf(start[p]) THEN "E_write" ELSE "E_open")
  /\ UNCHANGED <<shared, alive, rm, ph, maplen, lhead, off, lim, start, tries, old, vslot, vold, err, done>>
EWrite(p) ==                               \* extend: WriteAt the last bytes of the new page
  /\ pc[p] = "E_write"
  /\ size' = IF size < PageOf(start[p]) THEN PageOf(start[p]) ELSE size
  /\ pc' = Set(pc, p, "E_open")
  /\ UNCHANGED <<limit, head, rec, alive, rm, ph, maplen, lhead, off, lim, start, tries, old, vslot, vold, err, done>>
EOpen(p) ==                                \* openMapped: OpenFile
  /\ pc[p] = "E_open"
  /\ pc' = Set(pc, p, "E_map")
  /\ UNCHANGED <<shared, alive, rm, ph, maplen, lhead, off, lim, start, tries, old, vslot, vold, err, done>>
EMap(p) ==                                 \* openMapped: Stat + mmap; back to the reservation loop
  /\ pc[p] = "E_map"
  /\ maplen' = Set(maplen, p, size) /\ rm' = Set(rm, p, TRUE)
  /\ IF size < PageOf(start[p])
     THEN /\ err' = Set(err, p, "corrupt") /\ pc' = Set(pc, p, "Done")
     ELSE /\ UNCHANGED err /\ pc' = Set(pc, p, "R_limit")
  /\ UNCHANGED <<shared, alive, ph, lhead, off, lim, start, tries, old, vslot, vold, done>>
RCas(p) ==                                 \* cas32(limitOff, limit, end); on success the name bytes are copied
  /\ pc[p] = "R_cas"
  /\ IF limit = lim[p]
     THEN /\ limit' = start[p]
          /\ rec' = [rec EXCEPT ![start[p]].name = NameOf[p]]
          /\ pc' = Set(pc, p, "W_len")
     ELSE /\ UNCHANGED <<limit, rec>> /\ pc' = Set(pc, p, "R_limit")
  /\ UNCHANGED <<size, head, alive, rm, ph, maplen, lhead, off, lim, start, tries, old, vslot, vold, err, done>>
WLen(p) ==                                 \* StoreUint32(nameLen)
  /\ pc[p] = "W_len"
  /\ rec' = [rec EXCEPT ![start[p]].len = TRUE]
  /\ pc' = Set(pc, p, "K_store")
  /\ UNCHANGED <<size, limit, head, alive, rm, ph, maplen, lhead, off, lim, start, tries, old, vslot, vold, err, done>>

(* ---- link into the hash chain, watching for duplicates ---- *)
KStore(p) ==                               \* next.Store(head)
  /\ pc[p] = "K_store"
  /\ rec' = [rec EXCEPT ![start[p]].next = lhead[p]]
  /\ pc' = Set(pc, p, "K_cas")
  /\ UNCHANGED <<size, limit, head, alive, rm, ph, maplen, lhead, off, lim, start, tries, old, vslot, vold, err, done>>
KCas(p) ==                                 \* cas32(headOff, head, start)
  /\ pc[p] = "K_cas"
  /\ IF head[Bk(p)] = lhead[p]
     THEN /\ head' = [head EXCEPT ![Bk(p)] = start[p]]
          /\ vslot' = Set(vslot, p, start[p]) /\ ToValue(p)
     ELSE /\ UNCHANGED <<head, vslot, ph, rm>> /\ pc' = Set(pc, p, "K_reload")
  /\ UNCHANGED <<size, limit, rec, alive, maplen, lhead, off, lim, start, tries, old, vold, err, done>>
(* where the duplicate scan goes after reaching element o; "FAIL" = entryAt fails (errCorrupt) *)
ScanNext(p, o, oldh) == IF o = oldh THEN "K_store"
                        ELSE IF o # 0 /\ o # DEAD /\ Visible(p, o) THEN "S_len" ELSE "FAIL"
ScanGo(p, nxt) == /\ pc' = Set(pc, p, IF nxt = "FAIL" THEN (IF FixF16 THEN "K_giveup" ELSE "Done") ELSE nxt)
                  /\ err' = IF nxt = "FAIL" /\ ~FixF16 THEN Set(err, p, "corrupt") ELSE err
KReload(p) ==                              \* old = head; head = load32(headOff); scan the new elements
  /\ pc[p] = "K_reload"
  /\ old' = Set(old, p, lhead[p])
  /\ lhead' = Set(lhead, p, head[Bk(p)])
  /\ off' = Set(off, p, head[Bk(p)])
  /\ ScanGo(p, ScanNext(p, head[Bk(p)], lhead[p]))
  /\ UNCHANGED <<shared, alive, rm, ph, maplen, lim, start, tries, vslot, vold, done>>
SLen(p) ==
  /\ pc[p] = "S_len"
  /\ ScanGo(p, IF rec[off[p]].len THEN "S_next" ELSE "FAIL")
  /\ UNCHANGED <<shared, alive, rm, ph, maplen, lhead, off, lim, start, tries, old, vslot, vold, done>>
SNext(p) == LET s == off[p]  nx == rec[s].next IN
  /\ pc[p] = "S_next"
  /\ IF rec[s].name = NameOf[p]
     THEN /\ vslot' = Set(vslot, p, s) /\ pc' = Set(pc, p, "K_dead") /\ UNCHANGED <<off, err>>
     ELSE /\ UNCHANGED vslot /\ off' = Set(off, p, nx) /\ ScanGo(p, ScanNext(p, nx, old[p]))
  /\ UNCHANGED <<shared, alive, rm, ph, maplen, lhead, lim, start, tries, old, vold, done>>
KGiveUp(p) ==                              \* repaired code: next.Store(^0) on our record, then newCounter again (its lookup remaps)
  /\ pc[p] = "K_giveup"
  /\ rec' = [rec EXCEPT ![start[p]].next = DEAD]
  /\ pc' = Set(pc, p, "L_head") /\ ph' = Set(ph, p, 1) /\ tries' = Set(tries, p, 0)
  /\ UNCHANGED <<size, limit, head, alive, rm, maplen, lhead, off, lim, start, old, vslot, vold, err, done>>
KDead(p) ==                                \* next.Store(^0): mark ours as dead, use the other record
  /\ pc[p] = "K_dead"
  /\ rec' = [rec EXCEPT ![start[p]].next = DEAD]
  /\ ToValue(p)
  /\ UNCHANGED <<size, limit, head, alive, maplen, lhead, off, lim, start, tries, old, vslot, vold, err, done>>

(* ---- Counter.add on the mapped value ---- *)
VLoad(p) ==
  /\ pc[p] = "V_load"
  /\ vold' = Set(vold, p, rec[vslot[p]].val)
  /\ pc' = Set(pc, p, "V_cas")
  /\ UNCHANGED <<shared, alive, rm, ph, maplen, lhead, off, lim, start, tries, old, vslot, err, done>>
VCas(p) ==
  /\ pc[p] = "V_cas"
  /\ IF rec[vslot[p]].val = vold[p]
     THEN /\ rec' = [rec EXCEPT ![vslot[p]].val = IF vold[p] + 1 > MaxVal THEN MaxVal ELSE vold[p] + 1]   \* sticks, never wraps
          /\ done' = Set(done, p, done[p] + 1)
          /\ IF done[p] + 1 < Len(NamesOf[p])
             THEN \* the next counter of the same process: a fresh lookup with the mapping the process has now
                  /\ pc' = Set(pc, p, "L_head") /\ ph' = Set(ph, p, 0) /\ rm' = Set(rm, p, FALSE)
                  /\ lhead' = Set(lhead, p, 0) /\ off' = Set(off, p, 0) /\ lim' = Set(lim, p, 0)
                  /\ start' = Set(start, p, 0) /\ tries' = Set(tries, p, 0) /\ old' = Set(old, p, 0)
                  /\ vslot' = Set(vslot, p, 0) /\ vold' = Set(vold, p, 0)
             ELSE /\ pc' = Set(pc, p, "Done")
                  /\ UNCHANGED <<rm, ph, lhead, off, lim, start, tries, old, vslot, vold>>
     ELSE /\ UNCHANGED <<rec, done, rm, ph, lhead, off, lim, start, tries, old, vslot, vold>> /\ pc' = Set(pc, p, "V_load")
  /\ UNCHANGED <<size, limit, head, alive, maplen, err>>

Kill(p) == /\ AllowKill /\ alive[p] /\ pc[p] # "Done"
           /\ alive' = Set(alive, p, FALSE)
           /\ UNCHANGED <<shared, locals, done>>

Step(p) == /\ alive[p]
           /\ \/ PStart(p) \/ OOpen(p) \/ OStat(p) \/ OWhdr(p) \/ OWtail(p) \/ OStat2(p) \/ LHead(p) \/ LLen(p) \/ LNext(p) \/ MLimit(p) \/ MOpen(p) \/ MStat(p)
              \/ RLimit(p) \/ EStat(p) \/ EWrite(p) \/ EOpen(p) \/ EMap(p) \/ RCas(p) \/ WLen(p)
              \/ KStore(p) \/ KCas(p) \/ KReload(p) \/ SLen(p) \/ SNext(p) \/ KGiveUp(p) \/ KDead(p)
              \/ VLoad(p) \/ VCas(p)
Next == \E p \in Procs : Step(p) \/ Kill(p)
Spec == Init /\ [][Next]_vars
FairSpec == Spec /\ \A p \in Procs : WF_vars(Step(p))

(* ------------------------------------------------------------ properties *)
(* the independent reader's view of the file *)
RECURSIVE Chain(_, _)
Chain(o, n) == IF o = 0 THEN <<>>
               ELSE IF n = 0 \/ o = DEAD \/ o < 1 \/ o > MaxSlots THEN <<-2>>
               ELSE <<o>> \o Chain(rec[o].next, n - 1)
ChainOf(b) == Chain(head[b], MaxSlots + 1)
Linked == UNION {{ChainOf(b)[i] : i \in 1..Len(ChainOf(b))} : b \in Buckets}
WellFormed ==
  /\ PageOf(limit) <= size \/ limit = 0
  /\ \A b \in Buckets : LET ch == ChainOf(b) IN
       /\ \A i \in 1..Len(ch) : /\ ch[i] >= 1 /\ ch[i] <= limit
                                /\ rec[ch[i]].len /\ rec[ch[i]].name # "none"
                                /\ (rec[ch[i]].name \in Names => BucketOf[rec[ch[i]].name] = b)
       /\ \A i, j \in 1..Len(ch) : i # j => ch[i] # ch[j]
UniqueNames == \A i, j \in Linked : (i # j /\ i >= 1 /\ j >= 1 /\ rec[i].name \in Names) => rec[i].name # rec[j].name
ValueOf(n) == LET ss == {s \in Linked : s >= 1 /\ rec[s].name = n} IN IF ss = {} THEN 0 ELSE rec[CHOOSE s \in ss : TRUE].val
(* every counter equals the number of completed atomic adds, in every state *)
WarmOf(n) == IF n = WarmName THEN WarmVal ELSE 0
Sat(x) == IF x > MaxVal THEN MaxVal ELSE x
ValuesExact == \A n \in Names : ValueOf(n) = Sat(WarmOf(n) + Cardinality({<<p, i>> \in Procs \X (1..4) : i <= done[p] /\ i <= Len(NamesOf[p]) /\ NamesOf[p][i] = n}))
LimitMonotone == [][limit' >= limit /\ size' >= size]_vars
ValuesMonotone == [][\A s \in 1..MaxSlots : rec'[s].val >= rec[s].val]_vars
(* no surviving process is made to fail by what another process did or by its death *)
NoSurvivorError == \A p \in Procs : alive[p] => err[p] = "none"
Quiet == \A p \in Procs : ~alive[p] \/ pc[p] = "Done"
SurvivorsFinish == <>[](\A p \in Procs : alive[p] => pc[p] = "Done")

(* ---- race windows (TLC's counter-example to ~W is a schedule into W) ---- *)
W_SameNameTwice == \E i, j \in 1..MaxSlots : i # j /\ rec[i].name \in Names /\ rec[i].name = rec[j].name
W_LostLink == \E p \in Procs : alive[p] /\ pc[p] = "K_reload"
W_DupFound == \E p \in Procs : alive[p] /\ pc[p] = "K_dead"
W_ScanBeyondMapping == \E p \in Procs : alive[p] /\ pc[p] \in {"K_reload", "S_next"} /\ \E o \in 1..MaxSlots : ~Visible(p, o) /\ o <= limit /\ rec[o].len /\ head[Bk(p)] = o
W_BothExtend == \E p, q \in Procs : p # q /\ pc[p] \in {"E_stat", "E_write", "E_open", "E_map"} /\ pc[q] \in {"E_stat", "E_write", "E_open", "E_map"}
W_LookupBeyondMapping == \E p \in Procs : alive[p] /\ pc[p] = "M_limit" /\ tries[p] = 0
W_ReserveRaced == \E p \in Procs : alive[p] /\ pc[p] = "R_cas" /\ limit # lim[p]
W_ValueRaced == \E p \in Procs : alive[p] /\ pc[p] = "V_cas" /\ rec[vslot[p]].val # vold[p]
W_UnwrittenSeen == \E p \in Procs : alive[p] /\ pc[p] = "L_len" /\ ~rec[off[p]].len
W_KilledAfterReserve == \E p \in Procs : ~alive[p] /\ pc[p] = "W_len"
W_KilledAfterWrite == \E p \in Procs : ~alive[p] /\ pc[p] \in {"K_store", "K_cas"}
W_BothCreate == \E p, q \in Procs : p # q /\ pc[p] \in {"O_whdr", "O_wtail"} /\ pc[q] \in {"O_whdr", "O_wtail"}
W_LateHeader == \E p \in Procs : alive[p] /\ pc[p] \in {"O_whdr", "O_wtail"} /\ limit > 0      \* re-writes the header of a file that already has records
W_KilledCreating == \E p \in Procs : ~alive[p] /\ pc[p] \in {"O_stat", "O_whdr", "O_wtail", "O_stat2"} /\ size < 1
W_KilledMidAdd == \E p \in Procs : ~alive[p] /\ pc[p] = "V_cas"
=============================================================================
