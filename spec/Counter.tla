------------------------------- MODULE Counter -------------------------------
(***************************************************************************)
(* The lock-free counter protocol of internal/counter (property C03), at   *)
(* the granularity of the implementation's shared-memory operations.        *)
(*                                                                         *)
(* One VISIBLE action = one scheduling step of the real code under the      *)
(* verification scheduler: the atomic operation (or mutex acquisition) a    *)
(* task is suspended in front of, plus its local code up to the next such   *)
(* operation.  Local control flow between two operations is written as      *)
(* INTERNAL steps that are urgent (taken before anything else can happen),  *)
(* which is equivalent to folding them into the preceding visible step and  *)
(* keeps every action readable next to the Go source.                       *)
(*                                                                         *)
(* Shared state:                                                            *)
(*   st[c]    the counter state word, an integer with the real bit layout   *)
(*            (readers | havePtr | extra) and shrunk field widths, so that  *)
(*            a borrow out of the reader field is representable             *)
(*   ptr[c]   the mapping the cell pointer points into (0 = nil; plain      *)
(*            field, protected by the protocol only)                        *)
(*   nxt, head          the lock-free registration list of the file         *)
(*   cur                file.current (0 = nil)                              *)
(*   open, mfile, mcap  mappings: not yet closed / file / capacity          *)
(*   used, recs, cell   per file: records allocated, names present, values  *)
(*   mu                 file.mu (holder or "none")                          *)
(*   fspan, clock       span recorded in the file struct / current span     *)
(***************************************************************************)
EXTENDS Integers, Sequences, FiniteSets, TLC

CONSTANTS Adders,       \* tasks that call Add
          Rotators,     \* tasks that call rotate1 (first open or weekly rotation)
          CtrOf,        \* Adders -> counter name
          NAdds,        \* Adders -> number of sequential Add calls
          Amt,          \* Adders -> the amount of each of its Add calls (>= MaxExtra: an amount that alone saturates the pending value)
          NRot,         \* Rotators -> number of sequential rotate1 calls (the clock moves on one span between two calls)
          Counters,
          Warm,         \* counters that were incremented once before the race starts: persisted if the file is open
                        \* (InitOpen), otherwise registered with the amount still in memory (pending)
          WarmSeq,      \* the same as a sequence: the order in which they were incremented (= registered)
          InitOpen,     \* TRUE: the file of span 1 is open (mapping 1) at the start
          ClockSpan,    \* the span the clock is in at the start (2 = rotation pending)
          Capacity,     \* free record slots of mapping 1
          CapNew,       \* free record slots of a freshly opened file
          GrowBy,       \* slots added by one extension
          MaxExtra,     \* saturation limit of the in-memory amount
          MaxCell,      \* saturation limit of the persisted value
          WarmCell,     \* persisted value of a warm counter at the start (MaxCell - 1: about to saturate)
          FixF3,        \* repair: Add never takes the lock while readers are in flight
          FixF15        \* repair: releaseLock always looks the pointer up after setting havePtr

Tasks == Adders \cup Rotators
Files == {1, 2, 3}
MaxMaps == 6

(* ---- the state word (counter.go: counterStateBits) ---- *)
RM == 8                                     \* 3 reader bits
LOCKED == RM - 1
WMOD == RM * 2 * (MaxExtra + 1)
R(w) == w % RM
HP(w) == (w \div RM) % 2
EX(w) == w \div (2 * RM)
Mk(r, h, e) == r + RM * h + 2 * RM * e
Locked(w) == R(w) = LOCKED
IncReader(w) == (w + 1) % WMOD
DecReader(w) == (w - 1 + WMOD) % WMOD       \* b - 1 on the whole word: the borrow is real
SetLocked(w) == Mk(LOCKED, HP(w), EX(w))
ClearLocked(w) == Mk(0, HP(w), EX(w))
SetHP(w) == Mk(R(w), 1, EX(w))
ClearHP(w) == Mk(R(w), 0, EX(w))
ClearEX(w) == Mk(R(w), HP(w), 0)
AddEX(w, n) == Mk(R(w), HP(w), IF EX(w) + n > MaxExtra THEN MaxExtra ELSE EX(w) + n)

VARIABLES st, ptr, nxt, head, cur, open, mfile, mcap, nmaps, used, recs, cell, mu, fspan, clock,
          stk,          \* per task: stack of frames, top first
          rv,           \* per task: return-value register (lookup's result)
          begun,        \* per counter: sum of the amounts of the Add calls begun
          faults,       \* tasks that faulted (use of a closed mapping)
          closedBy      \* history: mapping -> task that closed it ("none")

shared == <<st, ptr, nxt, head, cur, open, mfile, mcap, nmaps, used, recs, cell, mu, fspan, clock>>
vars == <<shared, stk, rv, begun, faults, closedBy>>

Frame(pc, c) == [pc |-> pc, c |-> c, s |-> 0, m |-> 0, n |-> 0, it |-> "nil", h |-> "nil", w |-> FALSE, left |-> 0]
NoC == "none"

Top(t) == stk[t][1]
Active(t) == stk[t] # <<>>
SetTop(t, f) == [stk EXCEPT ![t] = <<f>> \o Tail(@)]
Goto(t, pc) == SetTop(t, IF pc \in {"A_next", "A_load", "T_end", "RG_nl", "IV_ret", "RL_ret"}
                          THEN [Top(t) EXCEPT !.pc = pc, !.s = 0, !.m = 0, !.n = 0, !.h = "nil"]
                          ELSE [Top(t) EXCEPT !.pc = pc])
(* replace the top frame by `resume` and push the callee's frame *)
CallFrom(t, resume, callee) == [stk EXCEPT ![t] = <<callee, resume>> \o Tail(@)]
Pop(t) == [stk EXCEPT ![t] = Tail(@)]

InternalPCs == {"A_next", "A_relR", "A_done1", "RR_top", "RL_top", "RL_gotptr", "RL_flush", "RL_ret",
                "LK_ret", "NC_done", "IV_afterRL", "IV_ret", "RO_done", "T_end"}
Pending(t) == Active(t) /\ Top(t).pc \in InternalPCs
Settled == \A t \in Tasks : ~Pending(t)

TypeOK == /\ \A c \in Counters : st[c] \in 0..(WMOD - 1) /\ ptr[c] \in 0..MaxMaps
          /\ cur \in 0..MaxMaps /\ open \subseteq 1..MaxMaps /\ nmaps \in 0..MaxMaps

(* ------------------------------------------------------------------ Init *)
WarmList == WarmSeq
ASSUME {WarmSeq[i] : i \in DOMAIN WarmSeq} = Warm /\ Len(WarmSeq) = Cardinality(Warm)
WarmNext(c) == LET i == CHOOSE k \in 1..Cardinality(Warm) : WarmList[k] = c
               IN IF i = 1 THEN "end" ELSE WarmList[i - 1]
WarmHead == IF Warm = {} THEN "nil" ELSE WarmList[Cardinality(Warm)]

St0 == [c \in Counters |-> IF c \in Warm THEN (IF InitOpen THEN Mk(0, 1, 0) ELSE Mk(0, 1, 1)) ELSE 0]   \* pending: havePtr is set although the pointer is nil (no file), the amount is in memory
Ptr0 == [c \in Counters |-> IF InitOpen /\ c \in Warm THEN 1 ELSE 0]
Nxt0 == [c \in Counters |-> IF c \in Warm THEN WarmNext(c) ELSE "nil"]
Head0 == WarmHead
Cur0 == IF InitOpen THEN 1 ELSE 0
Open0 == IF InitOpen THEN {1} ELSE {}
Mfile0 == [m \in 1..MaxMaps |-> IF m = 1 /\ InitOpen THEN 1 ELSE 0]
Mcap0 == [m \in 1..MaxMaps |-> IF m = 1 /\ InitOpen THEN Capacity ELSE 0]
Nmaps0 == IF InitOpen THEN 1 ELSE 0
Used0 == [f \in Files |-> 0]
Recs0 == [f \in Files |-> IF f = 1 /\ InitOpen THEN Warm ELSE {}]
Cell0 == [f \in Files |-> [c \in Counters |-> IF f = 1 /\ InitOpen /\ c \in Warm THEN WarmCell ELSE 0]]
Fspan0 == IF InitOpen THEN 1 ELSE 0
Stk0 == [t \in Tasks |-> <<[Frame("T_start", IF t \in Adders THEN CtrOf[t] ELSE NoC) EXCEPT !.left = IF t \in Adders THEN NAdds[t] ELSE NRot[t] - 1]>>]
Rv0 == [t \in Tasks |-> 0]
Begun0 == [c \in Counters |-> IF c \in Warm THEN (IF InitOpen THEN WarmCell ELSE 1) ELSE 0]
ClosedBy0 == [m \in 1..MaxMaps |-> "none"]

Init ==
  /\ st = St0 /\ ptr = Ptr0 /\ nxt = Nxt0 /\ head = Head0 /\ cur = Cur0 /\ open = Open0
  /\ mfile = Mfile0 /\ mcap = Mcap0 /\ nmaps = Nmaps0 /\ used = Used0 /\ recs = Recs0 /\ cell = Cell0
  /\ mu = "none" /\ fspan = Fspan0 /\ clock = ClockSpan
  /\ stk = Stk0 /\ rv = Rv0 /\ begun = Begun0 /\ faults = {} /\ closedBy = ClosedBy0

(* ---------------------------------------------------------------- helpers *)
U(v) == UNCHANGED v
Close(m, t) == /\ open' = open \ {m}
               /\ closedBy' = IF m \in open THEN [closedBy EXCEPT ![m] = t] ELSE closedBy

(***************************************************************************)
(* VISIBLE steps.  Each is guarded by the pc of the task's top frame; `f`  *)
(* abbreviates that frame.                                                  *)
(***************************************************************************)

(* first scheduling of a task: runs up to its first shared operation *)
TStart(t) ==
  /\ Top(t).pc = "T_start"
  /\ IF t \in Adders
     THEN /\ begun' = [begun EXCEPT ![Top(t).c] = @ + Amt[t]]
          /\ stk' = SetTop(t, [Top(t) EXCEPT !.pc = "RG_nl", !.left = @ - 1, !.w = FALSE])
     ELSE /\ stk' = Goto(t, "RO_lock") /\ U(begun)
  /\ U(<<shared, rv, faults, closedBy>>)

(* ---- file.register ---- *)
RGnl(t) == LET f == Top(t) IN            \* c.next.Load() in the loop condition
  /\ f.pc = "RG_nl"
  /\ stk' = IF nxt[f.c] # "nil" THEN Goto(t, "A_load") ELSE Goto(t, "RG_hl")
  /\ U(<<shared, rv, begun, faults, closedBy>>)
RGhl(t) == LET f == Top(t) IN            \* f.counters.Load()
  /\ f.pc = "RG_hl"
  /\ stk' = SetTop(t, [f EXCEPT !.h = head, !.pc = IF f.w THEN "RG_nst" ELSE "RG_ncas"])
  /\ U(<<shared, rv, begun, faults, closedBy>>)
NextOf(h) == IF h = "nil" THEN "end" ELSE h
RGncas(t) == LET f == Top(t) IN          \* c.next.CompareAndSwap(nil, next)
  /\ f.pc = "RG_ncas"
  /\ IF nxt[f.c] = "nil"
     THEN /\ nxt' = [nxt EXCEPT ![f.c] = NextOf(f.h)]
          /\ stk' = SetTop(t, [f EXCEPT !.w = TRUE, !.pc = "RG_hcas"])
     ELSE /\ U(nxt) /\ stk' = Goto(t, "RG_nl")
  /\ U(<<st, ptr, head, cur, open, mfile, mcap, nmaps, used, recs, cell, mu, fspan, clock, rv, begun, faults, closedBy>>)
RGnst(t) == LET f == Top(t) IN           \* c.next.Store(next)
  /\ f.pc = "RG_nst"
  /\ nxt' = [nxt EXCEPT ![f.c] = NextOf(f.h)]
  /\ stk' = Goto(t, "RG_hcas")
  /\ U(<<st, ptr, head, cur, open, mfile, mcap, nmaps, used, recs, cell, mu, fspan, clock, rv, begun, faults, closedBy>>)
RGhcas(t) == LET f == Top(t) IN          \* f.counters.CompareAndSwap(head, c)
  /\ f.pc = "RG_hcas"
  /\ IF head = f.h
     THEN /\ head' = f.c /\ stk' = Goto(t, "A_load")
     ELSE /\ U(head) /\ stk' = Goto(t, "RG_hl")
  /\ U(<<st, ptr, nxt, cur, open, mfile, mcap, nmaps, used, recs, cell, mu, fspan, clock, rv, begun, faults, closedBy>>)

(* ---- Counter.Add ---- *)
AddCase(w) == IF ~Locked(w) /\ HP(w) = 1 THEN "A_cas1"
              ELSE IF Locked(w) THEN "A_cas2"
              ELSE IF FixF3 /\ R(w) > 0 THEN "A_cas2"     \* repaired: readers in flight => only add to extra
              ELSE "A_cas3"
Aload(t) == LET f == Top(t) IN           \* c.state.load()
  /\ f.pc = "A_load"
  /\ stk' = SetTop(t, [f EXCEPT !.s = st[f.c], !.pc = AddCase(st[f.c])])
  /\ U(<<shared, rv, begun, faults, closedBy>>)
Acas1(t) == LET f == Top(t) IN           \* update(incReader): become a reader
  /\ f.pc = "A_cas1"
  /\ IF st[f.c] = f.s
     THEN /\ st' = [st EXCEPT ![f.c] = IncReader(f.s)]
          /\ IF ptr[f.c] = 0
             THEN stk' = SetTop(t, [f EXCEPT !.s = IncReader(f.s), !.pc = "A_nilx"])
             ELSE stk' = CallFrom(t, [f EXCEPT !.s = IncReader(f.s), !.pc = "A_relR"],
                                  [Frame("D_load", f.c) EXCEPT !.m = ptr[f.c], !.n = Amt[t]])
     ELSE /\ U(st) /\ stk' = Goto(t, "A_load")
  /\ U(<<ptr, nxt, head, cur, open, mfile, mcap, nmaps, used, recs, cell, mu, fspan, clock, rv, begun, faults, closedBy>>)
Anilx(t) == LET f == Top(t) IN           \* reader without a pointer: update(addExtra) loop
  /\ f.pc = "A_nilx"
  /\ IF st[f.c] = f.s
     THEN /\ st' = [st EXCEPT ![f.c] = AddEX(f.s, Amt[t])]
          /\ stk' = SetTop(t, [f EXCEPT !.s = AddEX(f.s, Amt[t]), !.pc = "RR_top"])
     ELSE /\ U(st) /\ stk' = Goto(t, "A_nilload")
  /\ U(<<ptr, nxt, head, cur, open, mfile, mcap, nmaps, used, recs, cell, mu, fspan, clock, rv, begun, faults, closedBy>>)
Anilload(t) == LET f == Top(t) IN
  /\ f.pc = "A_nilload"
  /\ stk' = SetTop(t, [f EXCEPT !.s = st[f.c], !.pc = "A_nilx"])
  /\ U(<<shared, rv, begun, faults, closedBy>>)
Acas2(t) == LET f == Top(t) IN           \* locked by somebody else: update(addExtra)
  /\ f.pc = "A_cas2"
  /\ IF st[f.c] = f.s
     THEN /\ st' = [st EXCEPT ![f.c] = AddEX(f.s, Amt[t])] /\ stk' = Goto(t, "A_next")
     ELSE /\ U(st) /\ stk' = Goto(t, "A_load")
  /\ U(<<ptr, nxt, head, cur, open, mfile, mcap, nmaps, used, recs, cell, mu, fspan, clock, rv, begun, faults, closedBy>>)
Acas3(t) == LET f == Top(t) IN           \* no pointer: update(addExtra.setLocked), then releaseLock
  /\ f.pc = "A_cas3"
  /\ IF st[f.c] = f.s
     THEN LET w == SetLocked(AddEX(f.s, Amt[t])) IN
          /\ st' = [st EXCEPT ![f.c] = w]
          /\ stk' = CallFrom(t, [f EXCEPT !.pc = "A_next", !.s = 0], [Frame("RL_top", f.c) EXCEPT !.s = w])
     ELSE /\ U(st) /\ stk' = Goto(t, "A_load")
  /\ U(<<ptr, nxt, head, cur, open, mfile, mcap, nmaps, used, recs, cell, mu, fspan, clock, rv, begun, faults, closedBy>>)

(* ---- Counter.releaseReader (runs in Add's frame) ---- *)
RRup(t) == LET f == Top(t) IN            \* last reader, havePtr cleared: update(setLocked)
  /\ f.pc = "RR_up"
  /\ IF st[f.c] = f.s
     THEN /\ st' = [st EXCEPT ![f.c] = SetLocked(f.s)]
          /\ stk' = CallFrom(t, [f EXCEPT !.pc = "A_next", !.s = 0], [Frame("RL_top", f.c) EXCEPT !.s = SetLocked(f.s)])
     ELSE /\ U(st) /\ stk' = Goto(t, "RR_load")
  /\ U(<<ptr, nxt, head, cur, open, mfile, mcap, nmaps, used, recs, cell, mu, fspan, clock, rv, begun, faults, closedBy>>)
RRdec(t) == LET f == Top(t) IN           \* update(decReader)
  /\ f.pc = "RR_dec"
  /\ IF st[f.c] = f.s
     THEN /\ st' = [st EXCEPT ![f.c] = DecReader(f.s)] /\ stk' = Goto(t, "A_next")
     ELSE /\ U(st) /\ stk' = Goto(t, "RR_load")
  /\ U(<<ptr, nxt, head, cur, open, mfile, mcap, nmaps, used, recs, cell, mu, fspan, clock, rv, begun, faults, closedBy>>)
RRload(t) == LET f == Top(t) IN
  /\ f.pc = "RR_load"
  /\ stk' = SetTop(t, [f EXCEPT !.s = st[f.c], !.pc = "RR_top"])
  /\ U(<<shared, rv, begun, faults, closedBy>>)

(* ---- Counter.releaseLock (own frame: c, s) ---- *)
RLsetHP(t) == LET f == Top(t) IN         \* update(setHavePtr); c.ptr = nil; maybe lookup
  /\ f.pc = "RL_setHP"
  /\ IF st[f.c] = f.s
     THEN LET w == SetHP(f.s) IN
          /\ st' = [st EXCEPT ![f.c] = w]
          /\ ptr' = IF FixF15 THEN ptr ELSE [ptr EXCEPT ![f.c] = 0]   \* the repaired code assigns c.ptr once, when lookup returns
          /\ IF EX(w) # 0 \/ FixF15
             THEN stk' = CallFrom(t, [f EXCEPT !.s = w, !.pc = "RL_gotptr"], Frame("LK_cur", f.c))
             ELSE stk' = SetTop(t, [f EXCEPT !.s = w, !.pc = "RL_flush"])
     ELSE /\ U(<<st, ptr>>) /\ stk' = Goto(t, "RL_load")
  /\ U(<<nxt, head, cur, open, mfile, mcap, nmaps, used, recs, cell, mu, fspan, clock, rv, begun, faults, closedBy>>)
RLload(t) == LET f == Top(t) IN
  /\ f.pc = "RL_load"
  /\ stk' = SetTop(t, [f EXCEPT !.s = st[f.c], !.pc = "RL_top"])
  /\ U(<<shared, rv, begun, faults, closedBy>>)
RLclrEx(t) == LET f == Top(t) IN         \* update(clearExtra), then add(extra)
  /\ f.pc = "RL_clrEx"
  /\ IF st[f.c] = f.s
     THEN /\ st' = [st EXCEPT ![f.c] = ClearEX(f.s)]
          /\ stk' = CallFrom(t, [f EXCEPT !.s = ClearEX(f.s), !.pc = "RL_unlock"],
                             [Frame("D_load", f.c) EXCEPT !.m = ptr[f.c], !.n = EX(f.s)])
     ELSE /\ U(st) /\ stk' = Goto(t, "RL_load")
  /\ U(<<ptr, nxt, head, cur, open, mfile, mcap, nmaps, used, recs, cell, mu, fspan, clock, rv, begun, faults, closedBy>>)
RLunlock(t) == LET f == Top(t) IN        \* update(clearLocked)
  /\ f.pc = "RL_unlock"
  /\ IF st[f.c] = f.s
     THEN /\ st' = [st EXCEPT ![f.c] = ClearLocked(f.s)] /\ stk' = Goto(t, "RL_ret")
     ELSE /\ U(st) /\ stk' = Goto(t, "RL_load")
  /\ U(<<ptr, nxt, head, cur, open, mfile, mcap, nmaps, used, recs, cell, mu, fspan, clock, rv, begun, faults, closedBy>>)

(* ---- Counter.add (frame: c, m = mapping the pointer points into, n) ---- *)
Dload(t) == LET f == Top(t) IN           \* count.Load() through the mapped pointer
  /\ f.pc = "D_load"
  /\ IF f.m \in open
     THEN /\ stk' = SetTop(t, [f EXCEPT !.s = cell[mfile[f.m]][f.c], !.pc = "D_cas"]) /\ U(faults)
     ELSE /\ stk' = SetTop(t, [f EXCEPT !.pc = "Fault"]) /\ faults' = faults \cup {t}
  /\ U(<<shared, rv, begun, closedBy>>)
Dcas(t) == LET f == Top(t)  fl == mfile[f.m] IN      \* count.CompareAndSwap(old, sum)
  /\ f.pc = "D_cas"
  /\ IF f.m \notin open
     THEN /\ stk' = SetTop(t, [f EXCEPT !.pc = "Fault"]) /\ faults' = faults \cup {t} /\ U(cell)
     ELSE /\ U(faults)
          /\ IF cell[fl][f.c] = f.s
             THEN /\ cell' = [cell EXCEPT ![fl][f.c] = IF f.s + f.n > MaxCell THEN MaxCell ELSE f.s + f.n]
                  /\ stk' = Pop(t)
             ELSE /\ U(cell) /\ stk' = Goto(t, "D_load")
  /\ U(<<st, ptr, nxt, head, cur, open, mfile, mcap, nmaps, used, recs, mu, fspan, clock, rv, begun, closedBy>>)

(* ---- file.lookup / newCounter1 (frame: c, m = current as first loaded) ---- *)
LKcur(t) == LET f == Top(t) IN           \* f.current.Load() in lookup
  /\ f.pc = "LK_cur"
  /\ IF cur = 0
     THEN /\ rv' = [rv EXCEPT ![t] = 0] /\ stk' = Pop(t)
     ELSE /\ U(rv) /\ stk' = SetTop(t, [f EXCEPT !.m = cur, !.pc = "NC_lock"])
  /\ U(<<shared, begun, faults, closedBy>>)
NClock(t) == LET f == Top(t) IN          \* f.mu.Lock()
  /\ f.pc = "NC_lock"
  /\ mu = "none"
  /\ mu' = t
  /\ stk' = Goto(t, "NC_cur")
  /\ U(<<st, ptr, nxt, head, cur, open, mfile, mcap, nmaps, used, recs, cell, fspan, clock, rv, begun, faults, closedBy>>)
(* f.current.Load() under mu, then the mappedFile lookup / record creation,    *)
(* which mu serializes within the process; an extension ends at current.Store *)
NCcur(t) == LET f == Top(t)  m == cur  fl == mfile[cur] IN
  /\ f.pc = "NC_cur"
  /\ IF m = 0
     THEN /\ mu' = "none" /\ rv' = [rv EXCEPT ![t] = 0] /\ stk' = Pop(t)
          /\ U(<<open, mfile, mcap, nmaps, used, recs>>)
     ELSE IF f.c \in recs[fl]
     THEN /\ mu' = "none" /\ rv' = [rv EXCEPT ![t] = m] /\ stk' = Pop(t)
          /\ U(<<open, mfile, mcap, nmaps, used, recs>>)
     ELSE IF used[fl] < mcap[m]
     THEN /\ mu' = "none" /\ rv' = [rv EXCEPT ![t] = m] /\ stk' = Pop(t)
          /\ used' = [used EXCEPT ![fl] = @ + 1]
          /\ recs' = [recs EXCEPT ![fl] = @ \cup {f.c}]
          /\ U(<<open, mfile, mcap, nmaps>>)
     ELSE LET nm == nmaps + 1 IN          \* extend: new mapping, record placed there
          /\ nmaps' = nm
          /\ open' = open \cup {nm}
          /\ mfile' = [mfile EXCEPT ![nm] = fl]
          /\ mcap' = [mcap EXCEPT ![nm] = mcap[m] + GrowBy]
          /\ used' = [used EXCEPT ![fl] = @ + 1]
          /\ recs' = [recs EXCEPT ![fl] = @ \cup {f.c}]
          /\ U(<<mu, rv>>)
          /\ stk' = SetTop(t, [f EXCEPT !.m = m, !.n = nm, !.pc = "NC_store"])
  /\ U(<<st, ptr, nxt, head, cur, cell, fspan, clock, begun, faults, closedBy>>)
NCstore(t) == LET f == Top(t) IN         \* f.current.Store(newM); return (unlock); cleanup(): invalidateCounters
  /\ f.pc = "NC_store"
  /\ cur' = f.n
  /\ mu' = "none"
  /\ stk' = CallFrom(t, [f EXCEPT !.pc = "NC_done"], Frame("IV_head", NoC))
  /\ U(<<st, ptr, nxt, head, open, mfile, mcap, nmaps, used, recs, cell, fspan, clock, rv, begun, faults, closedBy>>)

(* ---- file.invalidateCounters (frame: h = head, it = cursor) ---- *)
IVhead(t) == LET f == Top(t) IN          \* f.counters.Load()
  /\ f.pc = "IV_head"
  /\ IF head = "nil" THEN stk' = Goto(t, "IV_ret")
     ELSE stk' = SetTop(t, [f EXCEPT !.h = head, !.it = head, !.pc = "IVa_load"])
  /\ U(<<shared, rv, begun, faults, closedBy>>)
IVaload(t) == LET f == Top(t) IN         \* invalidate: c.state.load()
  /\ f.pc = "IVa_load"
  /\ stk' = SetTop(t, [f EXCEPT !.s = st[f.it], !.pc = IF HP(st[f.it]) = 0 THEN "IV_next1" ELSE "IVa_cas"])
  /\ U(<<shared, rv, begun, faults, closedBy>>)
IVacas(t) == LET f == Top(t) IN          \* invalidate: update(clearHavePtr)
  /\ f.pc = "IVa_cas"
  /\ IF st[f.it] = f.s
     THEN /\ st' = [st EXCEPT ![f.it] = ClearHP(f.s)] /\ stk' = Goto(t, "IV_next1")
     ELSE /\ U(st) /\ stk' = Goto(t, "IVa_load")
  /\ U(<<ptr, nxt, head, cur, open, mfile, mcap, nmaps, used, recs, cell, mu, fspan, clock, rv, begun, faults, closedBy>>)
IVnext1(t) == LET f == Top(t)  nx == nxt[f.it] IN    \* c = c.next.Load() of the first loop
  /\ f.pc = "IV_next1"
  /\ IF nx = "end" THEN stk' = SetTop(t, [f EXCEPT !.it = f.h, !.pc = "IVr_load"])
     ELSE stk' = SetTop(t, [f EXCEPT !.it = nx, !.pc = "IVa_load"])
  /\ U(<<shared, rv, begun, faults, closedBy>>)
IVrload(t) == LET f == Top(t)  w == st[f.it] IN      \* refresh: c.state.load()
  /\ f.pc = "IVr_load"
  /\ stk' = SetTop(t, [f EXCEPT !.s = w, !.pc = IF HP(w) = 1 \/ R(w) > 0 \/ EX(w) = 0 THEN "IV_next2" ELSE "IVr_cas"])
  /\ U(<<shared, rv, begun, faults, closedBy>>)
IVrcas(t) == LET f == Top(t) IN          \* refresh: update(setLocked), then releaseLock
  /\ f.pc = "IVr_cas"
  /\ IF st[f.it] = f.s
     THEN /\ st' = [st EXCEPT ![f.it] = SetLocked(f.s)]
          /\ stk' = CallFrom(t, [f EXCEPT !.pc = "IV_afterRL", !.s = 0], [Frame("RL_top", f.it) EXCEPT !.s = SetLocked(f.s)])
     ELSE /\ U(st) /\ stk' = Goto(t, "IVr_load")
  /\ U(<<ptr, nxt, head, cur, open, mfile, mcap, nmaps, used, recs, cell, mu, fspan, clock, rv, begun, faults, closedBy>>)
IVnext2(t) == LET f == Top(t)  nx == nxt[f.it] IN    \* c = c.next.Load() of the second loop
  /\ f.pc = "IV_next2"
  /\ IF nx = "end" THEN stk' = Goto(t, "IV_ret")
     ELSE stk' = SetTop(t, [f EXCEPT !.it = nx, !.pc = "IVr_load"])
  /\ U(<<shared, rv, begun, faults, closedBy>>)

(* ---- file.rotate1 (frame: m = previous) ---- *)
ROlock(t) ==
  /\ Top(t).pc = "RO_lock"
  /\ mu = "none"
  /\ mu' = t
  /\ stk' = Goto(t, "RO_prev")
  /\ U(<<st, ptr, nxt, head, cur, open, mfile, mcap, nmaps, used, recs, cell, fspan, clock, rv, begun, faults, closedBy>>)
ROprev(t) == LET f == Top(t) IN          \* previous = f.current.Load(); span check; openMapped
  /\ f.pc = "RO_prev"
  /\ IF fspan = clock
     THEN /\ mu' = "none"                 \* nothing to do: return, the deferred function runs
          /\ stk' = SetTop(t, [f EXCEPT !.m = cur, !.pc = "RO_defcur"])
          /\ U(<<open, mfile, mcap, nmaps, fspan>>)
     ELSE LET nm == nmaps + 1 IN
          /\ nmaps' = nm
          /\ open' = open \cup {nm}
          /\ mfile' = [mfile EXCEPT ![nm] = clock]
          /\ mcap' = [mcap EXCEPT ![nm] = CapNew]
          /\ fspan' = clock
          /\ U(mu)
          /\ stk' = SetTop(t, [f EXCEPT !.m = cur, !.n = nm, !.pc = "RO_store"])
  /\ U(<<st, ptr, nxt, head, cur, used, recs, cell, clock, rv, begun, faults, closedBy>>)
ROstore(t) == LET f == Top(t) IN         \* f.current.Store(m); return (unlock)
  /\ f.pc = "RO_store"
  /\ cur' = f.n
  /\ mu' = "none"
  /\ stk' = Goto(t, "RO_defcur")
  /\ U(<<st, ptr, nxt, head, open, mfile, mcap, nmaps, used, recs, cell, fspan, clock, rv, begun, faults, closedBy>>)
ROdefcur(t) == LET f == Top(t) IN        \* deferred: if next := f.current.Load(); next != previous
  /\ f.pc = "RO_defcur"
  /\ IF cur # f.m
     THEN stk' = CallFrom(t, [f EXCEPT !.pc = "RO_done"], Frame("IV_head", NoC))
     ELSE stk' = Goto(t, IF f.left > 0 THEN "RO_tick" ELSE "T_end")
  /\ U(<<shared, rv, begun, faults, closedBy>>)
(* between two rotate1 calls of one rotator the clock moves on to the next span *)
ROtick(t) == LET f == Top(t) IN
  /\ f.pc = "RO_tick"
  /\ clock' = clock + 1
  /\ stk' = SetTop(t, [f EXCEPT !.pc = "RO_lock", !.left = @ - 1, !.m = 0, !.n = 0])
  /\ U(<<st, ptr, nxt, head, cur, open, mfile, mcap, nmaps, used, recs, cell, mu, fspan, rv, begun, faults, closedBy>>)

Visible(t) ==
  \/ TStart(t) \/ RGnl(t) \/ RGhl(t) \/ RGncas(t) \/ RGnst(t) \/ RGhcas(t)
  \/ Aload(t) \/ Acas1(t) \/ Anilx(t) \/ Anilload(t) \/ Acas2(t) \/ Acas3(t)
  \/ RRup(t) \/ RRdec(t) \/ RRload(t)
  \/ RLsetHP(t) \/ RLload(t) \/ RLclrEx(t) \/ RLunlock(t)
  \/ Dload(t) \/ Dcas(t)
  \/ LKcur(t) \/ NClock(t) \/ NCcur(t) \/ NCstore(t)
  \/ IVhead(t) \/ IVaload(t) \/ IVacas(t) \/ IVnext1(t) \/ IVrload(t) \/ IVrcas(t) \/ IVnext2(t)
  \/ ROlock(t) \/ ROprev(t) \/ ROstore(t) \/ ROdefcur(t) \/ ROtick(t)

(***************************************************************************)
(* INTERNAL (urgent) steps: local control flow, plain reads/writes of ptr,  *)
(* returns, and close() of a replaced mapping.                              *)
(***************************************************************************)
Internal(t) == LET f == Top(t) IN
  /\ Pending(t)
  /\ CASE f.pc = "A_relR" ->              \* add returned in case 1: releaseReader(state)
            /\ stk' = Goto(t, "RR_top") /\ U(<<ptr, open, rv, begun, closedBy>>)
       [] f.pc = "RR_top" ->
            /\ stk' = Goto(t, IF R(f.s) = 1 /\ HP(f.s) = 0 THEN "RR_up" ELSE "RR_dec")
            /\ U(<<ptr, open, rv, begun, closedBy>>)
       [] f.pc = "A_next" ->              \* Add returned: next call of this task, or done
            /\ IF f.left > 0
               THEN /\ begun' = [begun EXCEPT ![f.c] = @ + Amt[t]]
                    /\ stk' = SetTop(t, [f EXCEPT !.pc = "RG_nl", !.left = @ - 1, !.w = FALSE])
               ELSE /\ U(begun) /\ stk' = Goto(t, "T_end")
            /\ U(<<ptr, open, rv, closedBy>>)
       [] f.pc = "T_end" -> /\ stk' = Pop(t) /\ U(<<ptr, open, rv, begun, closedBy>>)
       [] f.pc = "RL_top" ->
            /\ stk' = Goto(t, IF HP(f.s) = 0 THEN "RL_setHP" ELSE "RL_flush")
            /\ U(<<ptr, open, rv, begun, closedBy>>)
       [] f.pc = "RL_gotptr" ->           \* c.ptr = c.file.lookup(c.name)
            /\ ptr' = [ptr EXCEPT ![f.c] = rv[t]]
            /\ rv' = [rv EXCEPT ![t] = 0]
            /\ stk' = Goto(t, "RL_flush") /\ U(<<open, begun, closedBy>>)
       [] f.pc = "RL_flush" ->
            /\ stk' = Goto(t, IF EX(f.s) # 0 /\ ptr[f.c] # 0 THEN "RL_clrEx" ELSE "RL_unlock")
            /\ U(<<ptr, open, rv, begun, closedBy>>)
       [] f.pc = "RL_ret" -> /\ stk' = Pop(t) /\ U(<<ptr, open, rv, begun, closedBy>>)
       [] f.pc = "NC_done" ->             \* cleanup: current.close(); lookup returns the new pointer
            /\ Close(f.m, t)
            /\ rv' = [rv EXCEPT ![t] = f.n]
            /\ stk' = Pop(t) /\ U(<<ptr, begun>>)
       [] f.pc = "IV_afterRL" -> /\ stk' = Goto(t, "IV_next2") /\ U(<<ptr, open, rv, begun, closedBy>>)
       [] f.pc = "IV_ret" -> /\ stk' = Pop(t) /\ U(<<ptr, open, rv, begun, closedBy>>)
       [] f.pc = "RO_done" ->             \* previous.close()
            /\ IF f.m # 0 THEN Close(f.m, t) ELSE U(<<open, closedBy>>)
            /\ stk' = Goto(t, IF f.left > 0 THEN "RO_tick" ELSE "T_end") /\ U(<<ptr, rv, begun>>)
  /\ U(<<st, nxt, head, cur, mfile, mcap, nmaps, used, recs, cell, mu, fspan, clock, faults>>)

Next == IF \E t \in Tasks : Pending(t)
        THEN \E t \in Tasks : Internal(t)
        ELSE \E t \in Tasks : Active(t) /\ Top(t).pc # "Fault" /\ Visible(t)

Step(t) == IF Pending(t) THEN Internal(t) ELSE (Settled /\ Active(t) /\ Top(t).pc # "Fault" /\ Visible(t))

Spec == Init /\ [][Next]_vars
FairSpec == Spec /\ \A t \in Tasks : WF_vars(Step(t))

(* ------------------------------------------------------------ properties *)
Persisted(c) == cell[1][c] + cell[2][c] + cell[3][c]
TaskDone(t) == stk[t] = <<>>
AllDone == \A t \in Tasks : TaskDone(t) \/ (Active(t) /\ Top(t).pc = "Fault")
AllReturned == \A t \in Tasks : TaskDone(t)

NoFault == faults = {}
(* at every instant: persisted + pending never exceeds the increments begun *)
UpperBound == \A c \in Counters : Persisted(c) + EX(st[c]) <= begun[c]
(* once the calls have returned: equality (below the saturation limit), and no reader left behind *)
NoWrap == \A c \in Counters : Persisted(c) <= MaxCell /\ EX(st[c]) <= MaxExtra
Quiescent == AllReturned => \A c \in Counters : Persisted(c) + EX(st[c]) = begun[c] /\ R(st[c]) = 0
(* once a file is open and all calls have returned nothing remains unpersisted *)
Flushed == (AllReturned /\ cur # 0) => \A c \in Counters : EX(st[c]) = 0
(* a pointer that is believed valid points into an open mapping *)
PtrFresh == AllReturned => \A c \in Counters : (HP(st[c]) = 1 /\ ptr[c] # 0) => ptr[c] \in open
(* no call waits forever: some task can always move until all are done *)
NoDeadlock == AllDone \/ \E t \in Tasks : /\ Active(t) /\ Top(t).pc # "Fault"
                                            /\ (Top(t).pc \in {"NC_lock", "RO_lock"} => mu = "none")
Termination == <>[]AllDone

(* ---- named race windows: TLC's counter-example to ~W is a schedule into W ---- *)
InFlightHolder(t) == Active(t) /\ \E i \in 1..Len(stk[t]) : stk[t][i].pc \in {"D_load", "D_cas"} /\ stk[t][i].m \notin open
W_HolderOnClosedMapping == \E t \in Tasks : InFlightHolder(t)
W_HalfRegistered == \E c \in Counters : nxt[c] # "nil" /\ head # c /\ (\A d \in Counters : nxt[d] # c)
                                         /\ \E t \in Tasks : Active(t) /\ Top(t).pc = "IV_head"
W_LockWithReaders == \E t \in Tasks : Active(t) /\ Top(t).pc = "A_cas3" /\ R(st[Top(t).c]) \in 1..(LOCKED - 1) /\ st[Top(t).c] = Top(t).s
W_HavePtrNil == Settled /\ \E c \in Counters : HP(st[c]) = 1 /\ R(st[c]) = 0 /\ ptr[c] = 0 /\ cur # 0 /\ EX(st[c]) > 0
W_InvalidateDuringHold == \E t \in Tasks : Active(t) /\ Top(t).pc = "IVa_cas" /\ R(st[Top(t).it]) > 0
W_RefreshLocks == \E t \in Tasks : Active(t) /\ Top(t).pc = "IVr_cas"
W_TwoGrowths == nmaps >= 3 /\ InitOpen
(* branch windows: a task is about to take a particular branch of the protocol *)
At(t, pc) == Active(t) /\ Top(t).pc = pc
W_RefreshSeesReaders == \E t \in Tasks : At(t, "IVr_load") /\ LET w == st[Top(t).it] IN HP(w) = 0 /\ R(w) \in 1..(LOCKED - 1) /\ EX(w) > 0
W_RefreshSeesLocked == \E t \in Tasks : At(t, "IVr_load") /\ LET w == st[Top(t).it] IN HP(w) = 0 /\ R(w) = LOCKED /\ EX(w) > 0
W_AddSeesReadersNoPtr == \E t \in Tasks : At(t, "A_load") /\ LET w == st[Top(t).c] IN HP(w) = 0 /\ R(w) \in 1..(LOCKED - 1)
W_LastReaderUpgrade == \E t \in Tasks : At(t, "RR_up") /\ st[Top(t).c] = Top(t).s
W_UnlockRaced == \E t \in Tasks : At(t, "RL_unlock") /\ st[Top(t).c] # Top(t).s
W_ClearExtraRaced == \E t \in Tasks : At(t, "RL_clrEx") /\ st[Top(t).c] # Top(t).s
W_SetHPNoExtra == \E t \in Tasks : At(t, "RL_setHP") /\ EX(Top(t).s) = 0 /\ st[Top(t).c] = Top(t).s
W_StoreDuringRead == \E t, u \in Tasks : t # u /\ At(t, "NC_store") /\ (At(u, "D_load") \/ At(u, "D_cas") \/ At(u, "A_cas1"))
W_RotStoreDuringRead == \E t, u \in Tasks : t # u /\ At(t, "RO_store") /\ (At(u, "D_load") \/ At(u, "D_cas") \/ At(u, "A_cas1"))
W_HeadCasRaced == \E t \in Tasks : At(t, "RG_hcas") /\ head # Top(t).h
W_NilReader == \E t \in Tasks : At(t, "A_nilx")
W_InvalidateCasRaced == \E t \in Tasks : At(t, "IVa_cas") /\ st[Top(t).it] # Top(t).s
W_LookupBeforeOpen == \E t \in Tasks : At(t, "LK_cur") /\ cur = 0
W_CloseWhileLocked == \E t \in Tasks : At(t, "IV_next2") /\ \E c \in Counters : Locked(st[c])
(* a lookup loaded current, then waited for file.mu while the mapping was replaced *)
W_LookupStaleCurrent == \E t \in Tasks : At(t, "NC_lock") /\ Top(t).m # cur /\ mu = "none"
(* ... and the mapping it loaded has meanwhile been closed *)
W_LookupStaleClosed == \E t \in Tasks : At(t, "NC_lock") /\ Top(t).m # 0 /\ Top(t).m \notin open /\ mu = "none"
(* two different counters in the middle of their list insertion *)
W_ListRace == \E t, u \in Tasks : t # u /\ At(t, "RG_hcas") /\ At(u, "RG_hcas") /\ Top(t).c # Top(u).c
NotW1 == ~W_HolderOnClosedMapping
NotW2 == ~W_HalfRegistered
NotW3 == ~W_LockWithReaders
NotW4 == ~W_HavePtrNil
NotW5 == ~W_InvalidateDuringHold
NotW6 == ~W_RefreshLocks
NotW7 == ~W_TwoGrowths
NotW8 == ~W_RefreshSeesReaders
NotW9 == ~W_RefreshSeesLocked
NotW10 == ~W_AddSeesReadersNoPtr
NotW11 == ~W_LastReaderUpgrade
NotW12 == ~W_UnlockRaced
NotW13 == ~W_ClearExtraRaced
NotW14 == ~W_SetHPNoExtra
NotW15 == ~W_StoreDuringRead
NotW16 == ~W_RotStoreDuringRead
NotW17 == ~W_HeadCasRaced
NotW18 == ~W_NilReader
NotW19 == ~W_InvalidateCasRaced
NotW20 == ~W_LookupBeforeOpen
NotW21 == ~W_CloseWhileLocked

View == <<shared, stk, rv, begun, faults>>
=============================================================================
