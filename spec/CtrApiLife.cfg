\* all histories of at most 3 calls in every mode; checks/x03.py generates the tier's variants of this
SPECIFICATION Spec
CONSTANTS
 MaxLen = 3
 Modes = {"on", "local", "off", "none"}
INVARIANTS Conservation FlushedWhenOpen NothingBeforeOpen OffWritesNothing OpenWorksUnlessOff ReadSpec StacksExact CountFlagsEffect PanicOnlyMisuse
CHECK_DEADLOCK FALSE
