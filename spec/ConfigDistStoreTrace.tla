------------------------- MODULE ConfigDistStoreTrace -------------------------
(* X02, code -> model for G5: histories recorded from the real               *)
(* configstore.Download against a file proxy the harness publishes into,     *)
(* one JSON object per line:                                                 *)
(*   {op: "reset"}                          a fresh proxy and module cache   *)
(*   {op: "publish", v, c}                  version v published with content *)
(*                                          class c                          *)
(*   {op: "download", req: {k, v}, ok, ver, cfg, delta}                      *)
(*       the observed result: ver = index of the returned canonical version  *)
(*       (0: none / not one of ours), cfg = the version whose configuration  *)
(*       came back (0: nil), delta = increase of configstore.Downloads()     *)
(* TLC replays the publications into `pub` of ConfigDistStore and decides    *)
(* every download with Result(pub, req); an unexplained line is printed as   *)
(* <<"X02BAD", line, reasons>>.                                              *)
EXTENDS ConfigDistStore, Json
Trace == ndJsonDeserialize("x02store.ndjson")
VARIABLE l
tvars == <<pub, last, calls, n, l>>

Observed(r) == [ok |-> r.ok, ver |-> r.ver, cfg |-> r.cfg]
FailedLine(r) ==
    IF r.op # "download" THEN {}
    ELSE LET w == Result(pub, r.req) IN
         (IF r.ok # w.ok THEN {IF w.ok THEN "error-for-published-config" ELSE "config-without-publication"} ELSE {})
         \cup (IF r.ok /\ w.ok /\ r.ver # w.ver THEN {"wrong-version"} ELSE {})
         \cup (IF r.ok /\ w.ok /\ r.cfg # w.cfg THEN {"wrong-config"} ELSE {})
         \cup (IF ~r.ok /\ (r.cfg # 0 \/ r.ver # 0) THEN {"partial-result-with-error"} ELSE {})
         \cup (IF r.delta # 1 THEN {"not-counted-once"} ELSE {})

TInit == /\ l = 1
         /\ pub = [v \in Vers |-> Unpub] /\ last = NoOp /\ calls = 0 /\ n = 0
TNext == /\ l <= Len(Trace)
         /\ l' = l + 1
         /\ LET r == Trace[l] IN
              /\ pub' = CASE r.op = "reset" -> [v \in Vers |-> Unpub]
                          [] r.op = "publish" -> [pub EXCEPT ![r.v] = r.c]
                          [] OTHER -> pub
              /\ LET f == FailedLine(r) IN IF f = {} THEN TRUE ELSE PrintT(<<"X02BAD", l, f>>)
         /\ UNCHANGED <<last, calls, n>>
(* the recorder publishes every version at most once between two resets *)
WellFormed == l <= Len(Trace) => (Trace[l].op = "publish" => pub[Trace[l].v] = Unpub)
Accepted == TLCGet("stats").diameter = Len(Trace) + 1
=============================================================================
