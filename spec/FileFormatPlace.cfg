INIT Init
NEXT Next
INVARIANTS PlaceSane HashSane HdrSane
CHECK_DEADLOCK FALSE
CONSTANTS
 HdrLens <- MCHdrLens
 LimitUnits <- MCLimitUnits
 NameLens <- MCNameLens
 UUnits <- MCUUnits
 Resid <- MCResid
 NameLensU <- MCNameLensU
 Alphabet <- MCAlphabet
 LongNames <- MCLongNames
 MetaLens <- MCMetaLens
