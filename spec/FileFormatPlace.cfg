INIT Init
NEXT Next
INVARIANTS PlaceSane HashSane HdrSane
CHECK_DEADLOCK FALSE
CONSTANTS
 HdrLens <- MCHdrLens
 LimitUnits <- MCLimitUnits
 NameLens <- MCNameLens
 Alphabet <- MCAlphabet
 LongNames <- MCLongNames
 MetaLens <- MCMetaLens
