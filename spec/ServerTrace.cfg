INIT TInit
NEXT TNext
INVARIANT Explained
POSTCONDITION Accepted
CHECK_DEADLOCK FALSE
CONSTANTS
 CfgGOOS <- MCGOOS
 CfgGOARCH <- MCGOARCH
 CfgGoVersion <- MCGoVersion
 CfgPrograms <- MCPrograms
 Limit <- MCLimit
 InitBuckets <- MCInit
 Requests = {}
 MaxReq = 0
