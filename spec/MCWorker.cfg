SPECIFICATION Spec
INVARIANTS TypeOK ValuesBounded
PROPERTIES MergeOnePerStored MergeAllOnePerStored ChartExact MissingDayNotFound
CHECK_DEADLOCK FALSE
CONSTANTS
 NDays = 2
 Objs <- MCObjs
 Pool <- MCPool
 Charts <- MCCharts
 MaxUp = 3
 MaxSteps = 3
 Weekly = FALSE
 ChartLens = {0, 1}
